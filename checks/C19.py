"""C19 - output files and statistics are complete, well-formed and match the simulated state."""
import runner as R
from runner import Inv, Merged

ID = "C19"
MANIFEST = (
    "exploration",
    "runtime monitor: a solver subclass plus the phase hook record file_number_, iteration_, simulated time and the cell list around "
    "every iteration of whole runs; after run() the output folder is listed and every mesh file is parsed by an own strict legacy-VTK "
    "parser (and mesh_reader), the statistics table (csv file and in-memory string) is compared row by row with the getters recorded "
    "when each record was written",
    "Held on every run of the sweep: 160 (quick) / 36 000 (thorough) whole simulations of 1-6 cells over (T, dt, S) with S = dt, "
    "S = dt(1+1e-16..1e-9), S = k dt, incommensurable and binary-exact ratios, decimal / random / binary time steps, 1-260 iterations, "
    "histories with growth, division at iteration 0 and later, removal at iteration 0 and later, extinction, all five cell classes, "
    "both statistics writers. Exploration is the right level: file numbering and the row discipline are properties of whole runs "
    "that depend on floating-point time accumulation and on the population history; every run is decided exactly by the monitor.",
    "Runs that end with an exception from run() are skipped (counted); crashes are left to C10. The check of the time at which a "
    "file is written treats a sampling time within 1e-3 dt of a step as a tie. Sampling periods below the time step are outside "
    "the statement.",
    "DESIGN.md section 3, C19",
)


def T(tier, quick, thorough):
    return quick if tier == "quick" else thorough


def run(tier, seed, t0):
    m = Merged(); wd = R.workdir("C19")
    n = T(tier, 120, 30000)
    R.run_inv(Inv("outputs", n, "plain", timeout=T(tier, 900, 14400)), seed, wd, m)
    # the same with 4 solver threads (mesh output and statistics are written from the parallel phases of the solver)
    n4 = T(tier, 40, 6000)
    R.run_inv(Inv("outputs", n4, "plain", threads=4, shards=4, first=n, timeout=T(tier, 900, 14400), tag="outputs/plain/t4"), seed, wd, m)
    b = m.bins; f = n / 120.0

    def fl(name, minimum):
        return (b.get(name, 0), int(minimum * f))
    floors = {
        "runs_decided": (m.nontrivial, int(0.75 * n)),
        "runs_into_a_folder_used_by_an_earlier_run": fl("output_folder_used_by_an_earlier_run", 15),
        "runs_after_an_earlier_run_in_the_same_process": fl("earlier_run_in_the_same_process", 15),
        "populations_of_cells_that_never_move": fl("populations_of_cells_that_never_move", 2),
        "cells_entering_with_unused_slots": fl("cells_entering_with_unused_slots", 40),
        "runs_S_eq_dt": fl("feature:S_eq_dt", 12),
        "runs_S_near_dt": fl("feature:S_near_dt", 3),
        "runs_commensurable": (b.get("ratio:S_k_dt", 0) + b.get("ratio:binary_exact", 0), int(20 * f)),
        "runs_binary_exact": fl("ratio:binary_exact", 6),
        "runs_incommensurable": fl("ratio:incommensurable", 10),
        "runs_with_division": fl("runs_with_division", 20),
        "runs_with_division_after_iteration_0": fl("runs_with_division_after_iteration_0", 8),
        "runs_with_division_at_recorded_iteration": fl("runs_with_division_at_recorded_iteration", 8),
        "runs_with_removal": fl("runs_with_removal", 20),
        "runs_with_removal_after_iteration_0": fl("runs_with_removal_after_iteration_0", 4),
        "runs_with_extinction": fl("runs_with_extinction", 5),
        "runs_with_extinction_after_iteration_0": fl("runs_with_extinction_after_iteration_0", 1),
        "runs_csv_writer": fl("stats_tables_checked:csv", 30),
        "runs_string_writer": fl("stats_tables_checked:string", 20),
        "runs_crossing_iteration_50": fl("runs_crossing_iteration_50", 50),
        "runs_crossing_iteration_100": fl("runs_crossing_iteration_100", 30),
        "runs_final_record_on_multiple_of_50": fl("runs_final_record_on_multiple_of_50", 2),
        "runs_last_iteration_is_recorded_iteration": fl("runs_last_iteration_is_recorded_iteration", 3),
        "cell_files_parsed": fl("cell_files_parsed", 1000),
        "face_files_parsed": fl("face_files_parsed", 1000),
        "cell_files_read_by_mesh_reader": fl("cell_files_read_by_mesh_reader", 200),
        "stats_rows_checked": fl("stats_rows_checked", 500),
        "stats_records_checked": fl("stats_records_checked", 200),
    }
    return R.finish(
        "C19", tier, seed, m,
        "one evaluation = one whole solver::run of a seeded population (1-6 icospheres of 80-320 faces, far apart, edges inside "
        "[1.35 l_min, 2.6 l_min]) under a seeded (T, dt, S) and population history, with the csv or the in-memory statistics writer; a "
        "run is non-trivial when run() returned normally (an exception from run() is a skip); distinct = distinct hashes of "
        "(T, dt, S, history, population size); bins count ratio kinds, histories, writers, cell classes, iterations, files parsed, "
        "statistics rows compared and the special cases of the final record",
        t0,
        ["the list passed to the phase hook after save_mesh (tag 1) is what the files written in that iteration describe; the list at "
         "tag 9 is what the statistics record of that iteration describes (nothing modifies the cells in between)",
         "a decimal literal equals a value 'to the printed precision' when it lies within half a unit of its last printed digit "
         "(glibc printf rounds correctly), at least 3 significant digits",
         "time after n iterations: |t - n dt| <= n 2^-52 (n dt), four times the rigorous bound of n recursive additions",
         "a file numbered i is due at (i-1) S: written at the first iteration at or after that time, ties within 1e-3 dt either way",
         "own legacy-VTK parser: header lines, POINTS/CELLS/CELL_TYPES/CELL_DATA/FIELD with every declared count verified, every "
         "token consumed, every index in range"],
        floors=floors, own_crashes=False)
