"""C13 - initial surface reconstruction returns a faithful closed mesh or fails cleanly."""
import os
import runner as R
from runner import Inv, Merged

ID = "C13"
MANIFEST = (
    "exploration",
    "runtime monitor: simulation_initializer run in a forked child on generated polyhedron files (own legacy-VTK emitter, hook H2 seeding "
    "of the clock-seeded generators); outcome judged by an independent topology oracle (closed, connected, outward oriented genus-0 "
    "2-manifold + bookkeeping), own geometry (volume, bounding box, node-to-input-surface distance in long double) and the exception "
    "type that reaches the caller; Poisson point cloud of the public sampler checked for spacing and for lying on the surface; "
    "ASan/UBSan on a share of the inputs",
    "Held on every reconstruction of the run: 350 (quick) / 10 600 (thorough) input files with 1-3 cells (cubes, boxes, 3..8-gon prisms, "
    "UV- and ico-spheres, ellipsoids, L-shaped and star-shaped prisms; triangulated, polygonal and mixed faces; per-face winding flips "
    "with p in {0, 0.02..0.2, 0.5, 1}; l_min/size log-uniform in 0.04..0.5 for 85% of the inputs and uniform in 0.5..1.6 (where reconstruction legitimately fails more and more often) for the rest; scales 1e-6..10; random rigid placement; all five cell "
    "classes), plus triangulation disabled with triangulated inputs (must be returned unaltered or refused), polygonal inputs and six "
    "kinds of surfaces that are not cells (torus, open box, two pyramids pinched at one vertex, two components, duplicated face, torus "
    "plus sphere with Euler characteristic 2) that must be refused. Exploration is the right level: the reconstruction is randomised and "
    "the input space unbounded, while each observed outcome is decided exactly by the oracle.",
    "Faithfulness tolerances are multiples of l_min frozen at >= 1.5x the calibration-soak maxima (see `calibration` in the evidence); they "
    "only catch gross unfaithfulness. A reconstruction that fails with an intialization_exception is always an allowed outcome, so the check "
    "does not measure how often reconstruction succeeds. Crashes (memory errors) and time-outs are reported as inconclusive (owned by C10); "
    "terminate() from an exception that cannot propagate is a violation here. The randomness of sampling is explored by seeds, not enumerated.",
    "DESIGN.md section 3, C13",
)

# Calibration soak: plain flavour, tree with the proposed fixes applied (see the report: BPA hole-filling iterator, uspg boundary
# index, connected-surface test, orientation of the coarse mesh before sampling, rejection of partial / flat reconstructions),
# constants disabled (--c1=1e9 --c2=1e9 --c3=1e9).  The constants compiled into harness/cmd_reconstruct.cpp are >= 1.5 x these maxima.
CALIBRATION = {
    "tree": "soak_1/soak_2: /repo bdb30ce + /tmp/c13_fixes/0001..0005 + /tmp/C20_uspg_fix.patch (35 200 inputs in total with soak_3)",
    "soak_1": {"seeds": [101, 102, 103, 104, 106], "inputs": 14400, "generator": "l_min/size 0.04..0.5 only",
               "accepted_files_triangulation_enabled": 9495, "cells_validated": 17872,
               "max_aabb_shrink_over_lmin": 1.2059, "max_dV_over_lmin_Ain": 0.3479, "max_node_dist_over_lmin": 0.9398},
    "soak_2": {"seeds": [201, 202, 203, 204, 206], "inputs": 14400, "generator": "final (15% of the inputs with l_min/size 0.5..1.6)",
               "accepted_files_triangulation_enabled": 8789, "cells_validated": 16887,
               "max_aabb_shrink_over_lmin": 1.7470, "max_dV_over_lmin_Ain": 0.3747, "max_node_dist_over_lmin": 1.5774,
               "note": "aabb and node-distance maxima from one cube (seed 203 case 985, l_min/size 0.29) whose corner region was closed "
                       "by the hole filling; next largest 1.39 / 0.96"},
    "soak_3": {"seeds": [301, 302], "inputs": 6400, "tree": "/repo f9ba8b0 (per-face sampling generators, uspg boundary fix) + 0001..0005",
               "accepted_files_triangulation_enabled": 3895,
               "max_aabb_shrink_over_lmin": 1.5175, "max_dV_over_lmin_Ain": 0.3481, "max_node_dist_over_lmin": 0.9472},
    "thorough_seed_1": {"inputs": 10600, "max_aabb_shrink_over_lmin": 1.4299, "max_dV_over_lmin_Ain": 0.3693, "max_node_dist_over_lmin": 0.96},
    "frozen": {"c1": 3.0, "c2": 0.7, "c3": 4.0, "factor_over_max": {"c1": 1.72, "c2": 1.87, "c3": 2.54}},
    "point_cloud": {"points_checked": 7375237, "max_lmin_over_closest_pair": 0.99999996, "max_dist_over_1e-9L": 1.9e-06},
}

KINDS = ["torus", "open_box", "pinched_double_pyramid", "two_components", "duplicated_face", "torus_and_sphere", "torus_with_bodies_touching_in_single_nodes"]
FAMILIES = ["cube", "box", "prism", "sphere", "ellipsoid", "lprism", "starprism"]


def T(tier, q, t):
    return q if tier == "quick" else t


def run(tier, seed, t0):
    m = Merged(); wd = R.workdir(ID)
    n = T(tier, 300, 10000)
    extra = os.environ.get("C13_EXTRA_ARGS", "").split()   # calibration only, e.g. "--c1=1e9 --c2=1e9 --c3=1e9 --dump_obs=1"
    R.run_inv(Inv("reconstruct", n, "plain", args=["--max_nodes=%d" % T(tier, 4000, 5000)] + extra, timeout=T(tier, 1500, 8 * 3600)), seed, wd, m)
    na = T(tier, 50, 600)
    R.run_inv(Inv("reconstruct", na, "asan", args=["--max_nodes=%d" % T(tier, 700, 1200)] + extra, first=n, timeout=T(tier, 1500, 8 * 3600)), seed, wd, m)
    # one input that is not a cell among valid ones, the cells of the file initialised by 4 threads
    nam = T(tier, 60, 3000)
    R.run_inv(Inv("reconstruct_among", nam, "plain", threads=4, first=8000000, timeout=T(tier, 1500, 8 * 3600), tag="reconstruct_among/plain/t4"), seed, wd, m)
    # leftovers of crashed children
    for fn in os.listdir(wd):
        if fn.startswith(("c13_input_", "c13a_input_")) and fn.endswith(".vtk"):
            try:
                os.unlink(os.path.join(wd, fn))
            except OSError:
                pass
    b = m.bins.get
    s = T(tier, 2.5, 60)
    floors = {
        "accepted_reconstructions": (b("accepted:tri_on", 0), 40 * s),
        "files_with_one_invalid_cell_among_valid_ones": (b("among_valid:triangulation_off", 0), 0.5 * nam),
        "invalid_cell_not_first_in_the_file": (b("among_valid_position_middle", 0) + b("among_valid_position_last", 0), 0.5 * nam),
        "cells_validated": (b("cells_validated", 0), 70 * s),
        "dumbbell_inputs (necks thinner than the sampling distance)": (b("family_tried:dumbbell", 0), 6 * s),
        "mixed_resolution_inputs (tower tessellated finer than one sample per triangle)": (b("family_tried:fine_tower", 0), 0.8 * s),
        "second_initialisation_cells_validated": (b("second_initialisation_cells_validated", 0), 30 * s),
        "clean_failures": (b("clean_failure:tri_on", 0), 3 * s),
        "accepted_unaltered_with_triangulation_disabled": (b("accepted:tri_off_triangulated", 0), 8 * s),
        "rejected_untriangulated_inputs": (b("rejected_untriangulated_input", 0), 3 * s),
        "inputs_with_polygonal_faces": (b("inputs_with_polygonal_faces", 0), 30 * s),
        "accepted_with_polygonal_faces": (b("accepted_with_polygonal_faces", 0), 12 * s),
        "inputs_with_flipped_windings": (b("inputs_with_flipped_windings", 0), 30 * s),
        "accepted_with_flipped_windings": (b("accepted_with_flipped_windings", 0), 5 * s),
        "accepted_with_hole_filling": (b("accepted_with_hole_filling", 0), 5 * s),
        "multi_cell_files": (b("multi_cell_files", 0), 20 * s),
        "point_clouds_checked": (b("point_clouds_checked", 0), 60 * s),
        "point_cloud_points": (b("point_cloud_points", 0), 20000 * s),
    }
    for k in KINDS:
        floors["not_a_cell_presented_with_triangulation_disabled:" + k] = (b("tried:tri_off_not_a_cell:" + k, 0), 2 * s)
    for f in FAMILIES:
        floors["family_accepted:" + f] = (b("family_accepted:" + f, 0), 2 * s)
    return R.finish(ID, tier, seed, m,
                    "input file = 1-3 cells x shape family x face style (polygonal / triangulated / mixed) x per-face winding flips x rigid placement x "
                    "scale x l_min/size (85%: log-uniform 0.04..0.5, 15%: uniform 0.5..1.6; raised when the expected node count exceeds the budget) x mode (17/25 triangulation "
                    "enabled, 3/25 disabled+triangulated, 1/25 disabled+polygonal, 3/25 disabled+not-a-cell rotating over 7 kinds, 1/25 "
                    "enabled+not-a-cell); every case regenerable from (seed, case index) including the seeds handed to the repository's generators; "
                    "non-trivial = the initializer returned cells or an intialization_exception and the outcome was judged; distinct = hash of the input "
                    "file text, l_min and mode",
                    t0, ["independent topology oracle (directed-edge multiset, Euler characteristic, vertex links, connected components) is correct",
                         "own long-double closest-point-on-triangle distance to the coarse input triangulation (polygons fanned from their node centroid, as the repository documents)",
                         "an intialization_exception is an allowed outcome for every input; only its absence is judged for inputs that must be refused",
                         "hole filling is observed indirectly: a node that coincides (1e-9 l_min) with the mean of its ring is a hole-centre node"],
                    floors=floors, extra_cov={"calibration": CALIBRATION})
