"""C08 - cell identities and cross-references stay valid as the population changes."""
import os
import runner as R
from runner import Inv, Merged
from checks.C15 import tsan_reports

ID = "C08"
MANIFEST = (
    "exploration",
    "runtime monitor: invariant over hooked state at the phase boundaries of every iteration (hook H4) of a monitored solver - list index = position, persistent ids unique and never reused, every node coupling designates a live node of the intended (adjacent) cell, face owner and face-type index valid - on seeded division/removal histories of adhering tissues; the use sites themselves run under ASan + _GLIBCXX_ASSERTIONS in a second build",
    "Held at every phase boundary observed (quick: >10^4 boundary checks, >10^6 couplings and >10^7 faces in ~100 histories; thorough: thousands of histories): tissues of 2-15 adhering cells in rows/grids, cells removed at first / middle / last list positions at staggered times, cells dividing (several per iteration), cell types with 1, 3 and 5 face types, contact models 1 and 2 (node couplings as optional pair / per-cell map), 1 and 4 threads. Couplings and list indices are judged where the simulation is about to dereference them (before contacts, polarisation, integration); ids, owners and face-type indices at all eleven boundaries. Exploration is the right level: the invariant is exact on each observed state and the quantifier is over unbounded histories.",
    "Partner identity of a coupling is judged geometrically (partner within 2 adhesion cut-offs right after the contact phase; a stale index designates a node a cell size away); epithelial cell types with fewer than 3 face types are exercised in a separate sub-run (the class hard-codes face-type indices 0..2); crashes are inconclusive here (C10 owns them) but the asanassert build turns an out-of-range dereference at a use site into an abort that is reported.",
    "DESIGN.md section 3, C08",
)


def T(tier, q, t):
    return q if tier == "quick" else t


def run(tier, seed, t0):
    m = Merged(); wd = R.workdir(ID)
    n = T(tier, 64, 3000)
    it = ["--min_iterations=%d" % T(tier, 30, 60), "--max_iterations=%d" % T(tier, 60, 150)]
    R.run_inv(Inv("population", n, "plain", "c1d0", args=it, threads=1, timeout=T(tier, 1200, 4 * 3600), tag="population/plain/c1d0/t1"), seed, wd, m)
    R.run_inv(Inv("population", n // 2, "plain", "c1d0", args=it, threads=4, first=n, timeout=T(tier, 1200, 4 * 3600), tag="population/plain/c1d0/t4"), seed, wd, m)
    R.run_inv(Inv("population", n // 2, "plain", "c2d0", args=it, threads=1, first=2 * n, timeout=T(tier, 1200, 4 * 3600)), seed, wd, m)
    R.run_inv(Inv("population", n // 4, "plain", "c0d0", args=it, threads=1, first=3 * n, timeout=T(tier, 1200, 4 * 3600)), seed, wd, m)
    R.run_inv(Inv("population", n // 4, "asanassert", "c1d0", args=it, threads=2, first=4 * n, timeout=T(tier, 1800, 4 * 3600)), seed, wd, m)
    # epithelial types with 1-2 face types: the statement quantifies over any admissible number of face types
    R.run_inv(Inv("population", n // 4, "plain", "c1d0", args=it + ["--few_face_types=1"], threads=1, first=5 * n, timeout=T(tier, 1200, 4 * 3600), tag="population/plain/c1d0/few_face_types"), seed, wd, m)
    # ThreadSanitizer on the 4-thread histories: a race inside the code that hands out ids and updates the population list (cell_divider::run, the removal of cells) is this
    # property's business whatever the timing; races of the contact / force phases are not (C07, C15)
    tenv = {"TSAN_OPTIONS": "halt_on_error=0:exitcode=0:log_path=%s:history_size=4:external_symbolizer_path=%s" % (os.path.join(wd, "tsan"), R.SYMBOLIZER)}
    mt = Merged(); R.run_inv(Inv("population", T(tier, 6, 60), "tsan", "c1d0", args=it, threads=4, shards=3, first=6 * n, timeout=T(tier, 1800, 4 * 3600), env=tenv, tag="population/tsan/c1d0/t4"), seed, wd, mt)
    m.add_bins({"tsan_histories": mt.evaluations, "tsan_divisions": mt.bins.get("divisions", 0)}); m.inconclusive += mt.inconclusive; m.harness_failures += mt.harness_failures
    m.violations += [v for v in mt.violations if not v.get("crash")]
    reps, total_reports, norepo = tsan_reports(wd, R.builder.repo_dir())
    for key, (cnt, sample) in sorted(reps.items()):
        if "cell_divider::run" in key or "solver::remove" in key or "solver::update_cell" in key or "cell_id" in key:
            m.violations.append({"key": "population." + key, "msg": "%d reports, first:\n%s" % (cnt, sample), "obs": {"reports": cnt}, "inv": "tsan",
                                 "replay": {"custom": True, "flavour": "tsan", "argv": ["python3", "check.py", "C08", "--tier", tier, "--seed", str(seed)], "note": "race reports vary from run to run: re-run the check"}})
    # an abort at a use site under asanassert is this property's business when it is an index error
    for v in m.violations:
        if v.get("crash") and ("container-overflow" in v["key"] or "glibcxx-assert" in v["key"] or "heap-buffer-overflow" in v["key"]) and "asanassert" in v["inv"]:
            v["crash"] = False
    floors = {
        "histories_with_division_or_removal": (m.nontrivial, 0.5 * m.evaluations), "divisions": (m.bins.get("divisions", 0), 30), "divisions_under_thread_sanitizer": (m.bins.get("tsan_divisions", 0), 1), "removals": (m.bins.get("removals", 0), 30),
        "populations_shrunk_to_exactly_one_cell": (m.bins.get("shrunk_to_one_cell", 0), 5),
        "removal_first": (m.bins.get("removal_first", 0), 5), "removal_middle": (m.bins.get("removal_middle", 0), 5), "removal_last": (m.bins.get("removal_last", 0), 5),
        "couplings_checked": (m.bins.get("couplings_checked", 0), 100000), "phase_checks": (m.bins.get("phase_checks", 0), 5000), "iterations_with_couplings": (m.bins.get("iterations_with_couplings", 0), 500),
    }
    return R.finish(ID, tier, seed, m,
                    "history = adhering pair (20 %) or row/grid of 2-15 spheres (gap < adhesion cut-off) x roles per cell (stay / fast divider / doomed with staggered "
                    "minimum volumes at first, last and random positions / lumen / static) x face-type counts x contact model x thread count x 30-150 "
                    "iterations; non-trivial = at least one division or removal happened; distinct = hash of (divisions, removals, start/end size, couplings)",
                    t0, ["phase hook H4 runs on the master thread outside parallel regions", "partner identity judged by distance <= 2 adhesion cut-offs at the boundaries after contacts / polarisation / forces"],
                    floors=floors)
