"""C02 - internal cell forces conserve momentum and derive from the stated energies."""
import runner as R
from runner import Inv, Merged

ID = "C02"
MANIFEST = (
    "exploration",
    "runtime monitor: node::force() after cell::apply_internal_forces on fresh cells, one force term enabled at a time / all / mixed; "
    "oracles: zero net force and torque, own long-double p*dV/dx and -sum tau dA/dx (validated against finite differences in the run), "
    "superposition of the terms, rigid-motion equivariance; part of the workload under ASan/UBSan",
    "Held on every generated (mesh, configuration) of the run: 300 (quick) / 100 000 (thorough) closed meshes from 10 families "
    "(8..1280 faces, scales 1e-6..1e1, up to 30 sizes from the origin, permuted / partly flipped input windings, flat, concave and "
    "beyond-135-degree hinges, faces outside the 10..170 degree window), three cell classes, 2-4 face types with mixed zero / non-zero "
    "tensions and bending moduli, x 6 parameter configurations, each re-run on a rigidly moved copy. Exploration is the right level: "
    "the force routines are pure functions of positions and parameters, every evaluation is decided by identities that share no code "
    "with the repository, and sampling reaches every branch of the four routines (bins in the evidence file).",
    "Bending and angle regularisation are only required to conserve momentum and to be equivariant (the statement does not give their "
    "energy). Tolerances are forward-error bounds stated in harness/cmd_forces.cpp; meshes with an angle within 1e-6 rad of a code "
    "threshold are excluded from the equivariance oracle; |ln(V/Vt)| and |A/A0-1| are kept >= 0.05.",
    "DESIGN.md section 3, C02",
)

CFGS = ["pressure", "tension_elasticity", "bending", "angle_reg", "all", "mixed"]


def T(tier, quick, thorough):
    return quick if tier == "quick" else thorough


def run(tier, seed, t0):
    m = Merged(); wd = R.workdir("C02")
    n = T(tier, 300, 100000)
    na = T(tier, 30, 3000)
    # (cells are never freed by the repository - faces hold a shared pointer to their cell - so the thorough tier runs in slices)
    for k0 in range(0, n, 20000):
        R.run_inv(Inv("forces", min(20000, n - k0), "plain", timeout=T(tier, 600, 7200), first=k0, tag="forces/plain/c1d0" if n <= 20000 else "forces/plain/c1d0/slice%d" % (k0 // 20000)), seed, wd, m)
    R.run_inv(Inv("forces", na, "asan", timeout=T(tier, 900, 7200), first=n), seed, wd, m)
    # cells with a history (collapsed/split edges, unused slots, nodes moved since the last geometry refresh) against fresh cells over the same mesh
    nh = T(tier, 400, 100000)
    for k0 in range(0, nh, 25000):
        R.run_inv(Inv("forces_hist", min(25000, nh - k0), "plain", timeout=T(tier, 900, 7200), first=6000000 + k0, tag="forces_hist/plain" if nh <= 25000 else "forces_hist/plain/slice%d" % (k0 // 25000)), seed, wd, m)
    R.run_inv(Inv("forces_hist", T(tier, 40, 4000), "asan", timeout=T(tier, 900, 7200), first=6000000 + nh, tag="forces_hist/asan"), seed, wd, m)
    # many cells evaluated concurrently (as the solver's parallel loop does) against the same cells one after another
    npar = T(tier, 16, 2000)
    R.run_inv(Inv("forces_par", npar, "plain", threads=8, shards=2, timeout=T(tier, 900, 7200), tag="forces_par/plain/t8"), seed, wd, m)
    meshes = n + na
    floors = {}
    for c in CFGS:
        # every term must have produced non-zero forces on (almost) every mesh, and must have been compared with its moved copy
        floors["nonzero_forces_" + c] = (m.bins.get("nonzero_forces:" + c, 0), 0.8 * meshes if c != "mixed" else 0.7 * meshes)
        floors["equivariance_checked_" + c] = (m.bins.get("equivariance_checked:" + c, 0), 0.8 * meshes)
    floors["superposition_checked"] = (m.bins.get("superposition_checked", 0), 0.9 * meshes)
    floors["fd_selfcheck_meshes"] = (m.bins.get("fd_selfcheck_meshes", 0), 0.02 * meshes)
    floors["mixed_checked_against_gradients"] = (m.bins.get("mixed:pressure_tension_only_checked_against_gradients", 0), 0.05 * meshes)
    floors["meshes_with_hinge_beyond_135deg"] = (m.bins.get("meshes_with_hinge_beyond_135deg", 0), 0.03 * meshes)
    floors["meshes_with_concave_hinge"] = (m.bins.get("meshes_with_concave_hinge", 0), 0.2 * meshes)
    floors["meshes_with_flat_hinge"] = (m.bins.get("meshes_with_flat_hinge", 0), 0.02 * meshes)
    floors["meshes_with_face_angle_outside_10_170deg"] = (m.bins.get("meshes_with_face_angle_outside_10_170deg", 0), 0.01 * meshes)
    floors["meshes_with_needle_triangles"] = (m.bins.get("family:sliver_ico", 0) + m.bins.get("family:sliver_box", 0) + m.bins.get("family:sliver_uvx", 0) + m.bins.get("family:sliver_prism", 0) + m.bins.get("family:sliver_icoell", 0) + m.bins.get("family:sliver_icostar", 0) + m.bins.get("family:sliver_icocup", 0), 0.03 * meshes)
    floors["parallel_cell_evaluations"] = (m.bins.get("cell_evaluations", 0), 40 * npar)
    floors["history_cells_with_unused_face_slots_in_the_middle"] = (m.bins.get("history_cells_with_unused_face_slots_in_the_middle", 0), 0.5 * nh)
    floors["history_node_forces_compared"] = (m.bins.get("history_node_forces_compared", 0), 20 * nh)
    floors["pressure_capped"] = (m.bins.get("max_pressure:capping", 0), 0.03 * meshes)
    for cls in ("epithelial", "lumen", "nucleus"):
        floors["class_" + cls] = (m.bins.get("class:" + cls, 0), 0.15 * meshes)
    return R.finish("C02", tier, seed, m,
                    "one closed mesh per case (families ico/box/uv/prism/ellipsoid/star from gen.hpp + flattened, waisted and bipyramid meshes; jitter, "
                    "random rotation, scale 1e-6..1e1, offset 0..30 sizes, node/face permutation, partly flipped input windings) x cell class "
                    "(epithelial, lumen, nucleus) x 2-4 face types laid out in patches or at random; six configurations per mesh on fresh cells "
                    "(pressure | tension+area elasticity | bending | angle regularisation | all four with the same values | independent mixed "
                    "draw with growth and capped pressure); one evaluation = one (mesh, configuration), observed through node::force() after "
                    "apply_internal_forces(dt) and again on a rigidly moved copy; non-trivial = finite forces with max |F_i| above 1e-9 of the "
                    "natural scale of the enabled terms; plus cells with a history (1-2 passes of the repository's refiner without compaction, then stretch / rotation / noise "
                    "of the nodes): net force and torque of all terms, and pressure + tension + area-elasticity forces equal to those of a fresh cell built from the "
                    "same live mesh (1e-8 of the largest force); distinct = distinct hashes of the observed force field",
                    t0, ["own long-double dV/dx_i and dA_f/dx_i are correct (cross-checked against central differences of the own V and A on ~6% of the meshes of every run, agreement 1e-5)",
                         "conservation tolerance 1e-10 + 64 eps Dmax/emin relative to sum|F| (sum|r||F|), plus 1e-12 of the natural scale as a noise floor",
                         "gradient oracles: 1e-9/sin^2(min face angle) of the pre-cancellation node force magnitude, plus the cancellation bound 8 F eps D^3/V of the origin-based volume entering A0",
                         "equivariance: 1e-8 + 64 eps D/emin/sin^2(min angle) relative to the largest node force, plus the volume-cancellation error of p and of the elasticity factor, plus the forward error of theta = acos(n1.n2) at every hinge (about 1e-7 rad at a flat hinge)",
                         "the pressure used by oracle (2) is the cell's own get_pressure(); the pressure law itself belongs to C04"],
                    floors=floors)
