"""C10 - no invalid memory access or undefined behaviour anywhere in a simulation."""
import json, os, re, subprocess, shutil, time
from concurrent.futures import ThreadPoolExecutor
import runner as R
from runner import Inv, Merged

ID = "C10"
MANIFEST = (
    "exploration",
    "sanitizers on the real executable: AddressSanitizer+UBSan (gcc, _GLIBCXX_SANITIZE_VECTOR) and valgrind memcheck (uninitialised-value decisions) on /repo/main.cpp run end to end over generated scenario files, plus the same scenarios and operation-level histories through the monitored harness under ASan (+_GLIBCXX_ASSERTIONS)",
    "Zero sanitizer / memcheck reports with a repository frame on every execution of the run: generated scenarios (single dividing cell, adhering grids, overlapping pairs of different classes, nucleus in cell, cell in ECM, lumen among cells, mixed population with removal, removal of a cell its neighbours are coupled to (list order independent of the arrangement, very different mesh sizes), a tissue drifting through the voxels of the contact grid, polygonal cubes with initial triangulation) x thread counts {1,4,16} x 40-300 iterations with growth, division, removal, remeshing with/without swaps, file output and statistics, executed (a) by the unmodified main from parsing to the destructors at the end of main under ASan+UBSan, (b) by main under valgrind memcheck (reduced set), (c) through the monitored solver under ASan so that the evidence lists which stages were reached (iterations, splits, merges, swaps, divisions, removals, contact pairs), and (d) remeshing histories under ASan with libstdc++ assertions. Exploration is the right level: memory safety of the reached paths is decided exactly by the instrumentation; reach comes from workload diversity.",
    "Red-zone tools miss intra-object and far out-of-bounds accesses and reuse of reallocated memory; paths no scenario drives are not covered (the evidence lists stage counters); leak detection is off (deliberate shared_ptr cycles); data races are C15's subject, but a race that corrupts memory under ASan is reported here.",
    "DESIGN.md section 3, C10",
)


def T(tier, q, t):
    return q if tier == "quick" else t


_VG_ERR = re.compile(r"==\d+== (Conditional jump or move depends on uninitialised value|Use of uninitialised value|Invalid read|Invalid write|Invalid free|Mismatched free|Source and destination overlap|Syscall param .* uninitialised)")


def vg_reports(text, repo):
    """Split a memcheck log into reports; keep those with a repository frame; key = kind + first 3 repo functions."""
    out = []
    blocks = re.split(r"\n==\d+== \n", text)
    for b in blocks:
        m = _VG_ERR.search(b)
        if not m:
            continue
        frames = []
        for fm in re.finditer(r"(?:at|by) 0x[0-9A-F]+: (.+?) \((.+?):(\d+)\)", b):
            frames.append((fm.group(1), fm.group(2)))
        repo_files = set()
        for root, _, fns in os.walk(os.path.join(repo, "src")):
            repo_files.update(fns)
        for root, _, fns in os.walk(os.path.join(repo, "include")):
            repo_files.update(fns)
        repo_files.add("main.cpp")
        rf = [re.sub(r"\(.*", "", fn) for fn, f in frames if f in repo_files]
        if not rf:
            continue
        kind = m.group(1)
        kind = "uninitialised-value" if "ninitialised" in kind else kind.lower().replace(" ", "-")
        out.append(("memcheck:" + kind + "|" + ">".join(rf[:3]), b[:3000]))
    return out


def run_main(binp, sdir, flavour, ncpu, timeout, valgrind=False):
    env = R.san_env(flavour)
    env.pop("OMP_NUM_THREADS", None)
    env["OMP_WAIT_POLICY"] = "passive"
    argv = ["taskset", "-c", "0-%d" % (ncpu - 1)]
    if valgrind:
        argv += ["valgrind", "--tool=memcheck", "--track-origins=yes", "--error-exitcode=0", "--num-callers=20", "-q", "--log-file=" + os.path.join(sdir, "vg.log")]
    argv += [binp, os.path.join(sdir, "params.xml")]
    t0 = time.time()
    try:
        r = subprocess.run(argv, env=env, capture_output=True, text=True, timeout=timeout, errors="replace")
        rc, out, err, to = r.returncode, r.stdout, r.stderr, False
    except subprocess.TimeoutExpired as e:
        rc, out, err, to = None, (e.stdout or b"").decode(errors="replace") if isinstance(e.stdout, bytes) else (e.stdout or ""), (e.stderr or b"").decode(errors="replace") if isinstance(e.stderr, bytes) else (e.stderr or ""), True
    return rc, out, err, to, time.time() - t0


def run(tier, seed, t0):
    m = Merged(); wd = R.workdir(ID)
    repo = R.builder.repo_dir()
    # ---- (c) monitored solver under ASan: stage evidence + detection --------------------------------------
    n_sim = T(tier, 36, 1200)
    for thr, share in ((1, 0.5), (4, 0.5)):
        n = int(n_sim * share)
        # 1 thread: additionally with libstdc++ assertions (an index beyond a vector's size that lands in another live allocation is invisible to the red zones)
        fl = "asanassert" if thr == 1 else "asan"
        R.run_inv(Inv("simrun", n, fl, args=["--max_iterations=%d" % T(tier, 110, 400), "--min_iterations=40"], threads=thr, first=(0 if thr == 1 else n_sim + 6),
                      timeout=T(tier, 1500, 4 * 3600), tag="simrun/%s/t%d" % (fl, thr)), seed, wd, m)
    # 4 solver threads in a process whose OpenMP default is 1 thread (whatever a member sizes from the default at construction is too small afterwards)
    R.run_inv(Inv("simrun", T(tier, 8, 300), "asan", args=["--max_iterations=%d" % T(tier, 80, 300), "--min_iterations=40", "--omp_default=1"], threads=4, first=3 * n_sim + 8,
                  timeout=T(tier, 1500, 4 * 3600), tag="simrun/asan/t4_default1"), seed, wd, m)
    # ---- (d) remeshing histories with libstdc++ assertions ------------------------------------------------
    R.run_inv(Inv("remesh", T(tier, 24, 800), "asanassert", args=["--oracle=c11", "--max_faces=200", "--max_passes=8"], first=2000000, timeout=T(tier, 1500, 4 * 3600)), seed, wd, m)
    # ---- (a) the real executable under ASan+UBSan ---------------------------------------------------------
    vh_plain = R.builder.build("plain", "c1d0", "vh")
    main_asan = R.builder.build("asan", "c1d0", "main")
    n_main = T(tier, 18, 600)
    sc_dir = os.path.join(wd, "scen")
    mk_main = ["--max_iterations=%d" % T(tier, 100, 300), "--min_iterations=40"]
    r = subprocess.run([vh_plain, "mkscenario", "--seed", str(seed), "--cases", str(n_main), "--first", "5000", "--dir=" + sc_dir] + mk_main, capture_output=True, text=True)
    scen = [json.loads(l) for l in r.stdout.splitlines() if l.strip().startswith("{")]
    if len(scen) != n_main:
        m.harness_failures.append("mkscenario produced %d of %d scenarios: %s" % (len(scen), n_main, r.stderr[-500:]))
    jobs = []
    for k, s in enumerate(scen):
        ncpu = (1, 4, 16)[k % 3]
        jobs.append((s, ncpu, False))
    main_vg = R.builder.build("vg", "c1d0", "main")
    n_vg = T(tier, 4, 40)
    mk_vg = ["--max_iterations=20", "--min_iterations=8", "--allow_triangulation=%d" % T(tier, 0, 1)]
    r2 = subprocess.run([vh_plain, "mkscenario", "--seed", str(seed), "--cases", str(n_vg), "--first", "9000", "--dir=" + sc_dir] + mk_vg, capture_output=True, text=True)
    scen_vg = [json.loads(l) for l in r2.stdout.splitlines() if l.strip().startswith("{")]
    for k, s in enumerate(scen_vg):
        jobs.append((s, (1, 2)[k % 2], True))

    def do(job):
        s, ncpu, vg = job
        rc, out, err, to, wall = run_main(main_vg if vg else main_asan, s["dir"], "vg" if vg else "asan", ncpu, T(tier, 900, 3600), valgrind=vg)
        return job, rc, out, err, to, wall

    # budget the pool by cores: a 16-thread run takes the machine
    with ThreadPoolExecutor(max_workers=4) as ex:
        results = list(ex.map(do, jobs))
    timeouts = []
    for (s, ncpu, vg), rc, out, err, to, wall in results:
        tag = "main/%s/ncpu%d" % ("memcheck" if vg else "asan", ncpu)
        m.evaluations += 1
        m.add_bins({"cases@" + tag: 1, "main_family:" + s["family"]: 1})
        its = re.findall(r"iteration: (\d+), file number (\d+), nb cells (\d+)", out)
        n_it = int(its[-1][0]) + 1 if its else 0
        cells_seen = sorted(set(int(x[2]) for x in its))
        exc = rc == 1 and not re.search(r"AddressSanitizer|runtime error|Assertion", err)
        m.add_bins({"main_iterations": n_it, "main_ended_by_reported_exception": 1 if exc else 0, "main_runs_where_cell_count_changed": 1 if len(cells_seen) > 1 else 0,
                    "main_output_files": len(os.listdir(os.path.join(s["dir"], "out", "cell_data"))) if os.path.isdir(os.path.join(s["dir"], "out", "cell_data")) else 0})
        replay = {"custom": True, "flavour": "vg" if vg else "asan", "argv": ["python3", "tools/c10_replay.py", str(seed), str(s["i"]), "vg" if vg else "asan", str(ncpu)] + (mk_vg if vg else mk_main), "scenario": s}
        if to:
            # an unstable scenario (exploding coordinates make the refiner run practically forever) says nothing about memory safety:
            # counted, and inconclusive only if it happens to more than 15 % of the runs (checked below)
            timeouts.append("%s scenario %s timed out after %.0fs" % (tag, s["i"], wall)); m.add_bins({"main_runs_timed_out": 1}); continue
        reported = False
        if vg:
            logp = os.path.join(s["dir"], "vg.log")
            text = open(logp, errors="replace").read() if os.path.exists(logp) else ""
            seen = set()
            for key, block in vg_reports(text, repo):
                if key in seen:
                    continue
                seen.add(key); reported = True
                m.violations.append({"key": "crash:" + key, "msg": block, "obs": s, "replay": replay, "inv": tag, "crash": True})
        if rc not in (0, 1) or re.search(r"ERROR: AddressSanitizer|runtime error:|Assertion '", err):
            key = R.crash_key(err, signal=-rc if rc and rc < 0 else 0, exit_code=rc if rc and rc > 0 else 0)
            m.violations.append({"key": "crash:" + key, "msg": err[:3000], "obs": s, "replay": replay, "inv": tag, "crash": True}); reported = True
        if n_it >= 5 or exc:
            m.nontrivial += 1
            m.sigs.add("main:%s:%d:%s:%d:%s" % (s["family"], n_it, cells_seen, ncpu, vg))
        if len(m.samples) < 12:
            m.samples.append({"inv": tag, "scenario": s, "exit": rc, "iterations_run": n_it, "cell_counts_seen": cells_seen, "wall_s": round(wall, 1), "report": reported})
        shutil.rmtree(s["dir"], ignore_errors=True)
    # a hang is not a memory-safety verdict: time-outs of monitored runs are inconclusive, never violations of C10
    for v in [v for v in m.violations if v.get("timeout")]:
        m.violations.remove(v); m.inconclusive.append("timed out in %s: %s" % (v["inv"], v["replay"]))
    if len(timeouts) > 0.15 * max(1, len(results)):
        m.inconclusive.extend(timeouts)
    floors = {
        "main_asan_runs": (sum(v for k, v in m.bins.items() if k.startswith("cases@main/asan")), n_main),
        "main_memcheck_runs": (sum(v for k, v in m.bins.items() if k.startswith("cases@main/memcheck")), n_vg),
        "main_iterations": (m.bins.get("main_iterations", 0), 20 * n_main),
        "simrun_iterations": (m.bins.get("iterations", 0), 30 * n_sim), "splits": (m.bins.get("splits", 0), 200), "merges": (m.bins.get("merges", 0), 200),
        "divisions": (m.bins.get("divisions", 0), 5), "removals": (m.bins.get("removals", 0), 2), "removal_among_coupled_cells": (m.bins.get("family:removal_among_coupled_cells", 0), 3), "drifting_tissues": (m.bins.get("family:drifting_adhering_grid", 0), 3), "unstable_runs_not_stopped_by_the_harness": (m.bins.get("family:vanishing_cell_unstable_run", 0), 3), "contact_pairs": (m.bins.get("contact_pairs", 0), 10000),
        "runs_with_initial_triangulation": (m.bins.get("with_initial_triangulation", 0), 2),
    }
    return R.finish(ID, tier, seed, m,
                    "scenario = family (12, one of them a run that becomes unstable and is left to itself) x random physical parameters around the repository's sample file x iterations x thread count; executed by the "
                    "unmodified main under ASan+UBSan (ncpu 1/4/16 via taskset) and memcheck, and by the monitored solver under ASan; non-trivial = the run "
                    "performed >= 10 iterations (or ended with an exception reported by main); distinct = hash of (family, iterations, operation counters)",
                    t0, ["gcc ASan/UBSan runtime, valgrind 3.19 memcheck", "a report counts when it carries a repository frame (memcheck) or is any ASan/UBSan/libstdc++-assertion abort"],
                    floors=floors, own_crashes=True)
