"""C04 - growth, pressure, division trigger and removal follow the cell-cycle law."""
import os, sys
import runner as R
from runner import Inv, Merged

ID = "C04"
MANIFEST = (
    "exploration",
    "runtime monitor, three workloads of harness command `cellcycle`: (direct) public cell::apply_internal_forces on fresh cells of every "
    "class with random cell-type parameter sets and a deformed mesh between the calls, own long-double recurrence for the target volume "
    "and own pressure law on the own (orc::geometry) volume, division trigger at / one ulp around / far from the reported volume; "
    "(draws) cell::initialize_random_properties under the H2 seeding hook, every draw inside mean +- 3 sigma, clamp-boundary and "
    "2..3-sigma-band counts decided on the totals of the run; (solver) a solver subclass observed through the H4 phase hook: both laws "
    "after every force phase, start value V0 exp(p0/K), exactly the cells below min_vol disappear in the removal phase, population changes "
    "nowhere else except at the division point, removed ids never reappear; part of every workload under ASan/UBSan",
    "Held on every evaluation of the run. Quick: 680 cells x 1..12 force steps (direct), 220 parameter configurations x 400 draws of "
    "growth rate and division volume (draws), 380 solver runs x 30 iterations with 1..6 cells (solver). Thorough: 42 000 cells, "
    "3 100 x 1 000 draws, 5 300 runs x 200 iterations. Parameter regimes (each with a floor): K = 0, capped / uncapped / INF / zero / "
    "negative pressure cap, zero / positive / negative growth, min_vol zero / far below / just below / just above the start volume (clamp "
    "active), INF and finite division volumes incl. exact equality and +-1 ulp, removal at the first / a middle / the last list position "
    "and of several cells at once, all five cell classes (static ecm cells are checked to be exempt). Exploration is the right level: "
    "the laws are closed formulas of (V, Vt, parameters), an independent oracle decides every evaluation, and the regimes are "
    "enumerated by construction.",
    "Trusts the harness' own long-double volume and the stated forward-error tolerances (harness/cmd_cellcycle.cpp). The volume that "
    "counts for removal and division is the one of the last force phase (what the code documents); ties within the volume tolerance are "
    "excluded. Division runs contain no removal (neighbouring daughters + removal is C08's subject); runs in which a cell collapses below "
    "20% of its first volume end there (refinement of degenerate meshes is C11's subject). The distribution of the draws is only "
    "tested for its support (3-sigma clamp reached, 2..3-sigma band populated), not for normality.",
    "DESIGN.md section 3, C04",
)


def T(tier, quick, thorough):
    return quick if tier == "quick" else thorough


def run(tier, seed, t0):
    m = Merged(); wd = R.workdir("C04")
    nd, nda = T(tier, 2400, 40000), T(tier, 200, 2000)
    nr, nra, draws = T(tier, 400, 3000), T(tier, 40, 100), T(tier, 400, 1000)
    ns, nsa, iters = T(tier, 800, 5000), T(tier, 120, 300), T(tier, 30, 200)
    to = T(tier, 900, 14400)
    R.run_inv(Inv("cellcycle", nd, "plain", args=["--mode=direct"], timeout=to, tag="cellcycle-direct/plain"), seed, wd, m)
    R.run_inv(Inv("cellcycle", nda, "asan", args=["--mode=direct"], timeout=to, first=nd, tag="cellcycle-direct/asan"), seed, wd, m)
    R.run_inv(Inv("cellcycle", nr, "plain", args=["--mode=draws", "--draws=%d" % draws], timeout=to, tag="cellcycle-draws/plain"), seed, wd, m)
    R.run_inv(Inv("cellcycle", nra, "asan", args=["--mode=draws", "--draws=%d" % draws], timeout=to, first=nr, tag="cellcycle-draws/asan"), seed, wd, m)
    sargs = ["--mode=solver", "--iters=%d" % iters, "--cpu_limit=%d" % T(tier, 60, 600), "--wall_limit=%d" % T(tier, 180, 1800)]
    R.run_inv(Inv("cellcycle", ns, "plain", args=sargs, timeout=to, tag="cellcycle-solver/plain"), seed, wd, m)
    R.run_inv(Inv("cellcycle", nsa, "asan", args=sargs, timeout=to, first=ns, tag="cellcycle-solver/asan"), seed, wd, m)
    # the same law with the solver's parallel loops really parallel (several cells removed / dividing in the same iteration)
    R.run_inv(Inv("cellcycle", ns // 4, "plain", args=sargs, threads=4, timeout=to, first=ns + nsa, tag="cellcycle-solver/plain/t4"), seed, wd, m)
    b = m.bins
    g = lambda k: b.get(k, 0)  # noqa

    # ---- the 3-sigma clamp, decided on the totals of the run ------------------------------------------------------------------------
    # Every single draw was already required to lie inside mean +- 3 sigma (a wider or missing clamp fires there).  A clamp NARROWER
    # than 3 sigma keeps every draw inside the window; it shows in the totals: no draw ever sits on the bound fl(mean +- 3 sigma)
    # (0.27% of the draws of a normal distribution are clamped onto it) and / or the band 2.05..2.95 sigma (3.7% of a normal
    # distribution) is empty.  Thresholds: 0.05% and 1.5% of >= 30 000 draws, i.e. > 9 standard deviations below the expectation.
    for q, what in (("growth", "growth rates"), ("division", "division volumes")):
        n = g(q + "_draws_random"); at = g(q + "_draws_at_upper_clamp") + g(q + "_draws_at_lower_clamp"); band = g(q + "_draws_2.05_to_2.95_sigma")
        beyond = any(v.get("key", "").startswith("draws:") and v["key"].endswith("_outside_3_sigma") for v in m.violations)   # wider / no clamp: already reported per draw
        if n >= 30000 and not beyond and (at < 0.0005 * n or band < 0.015 * n):
            m.violations.append({"key": "draws:%s_support_narrower_than_3_sigma" % q,
                                 "msg": "%d %s drawn with sigma > 0 from well mixed seeds: %d sit on the bound mean +- 3 sigma (expected about %.0f), %d lie "
                                        "between 2.05 and 2.95 sigma from the mean (expected about %.0f): the values are confined to a window narrower than mean +- 3 sigma"
                                        % (n, what, at, 0.0027 * n, band, 0.0372 * n),
                                 "obs": {"draws": n, "at_bound": at, "band_2.05_2.95": band},
                                 "replay": {"custom": True, "flavour": "plain", "env": {"VERIF_SEED": str(seed)},
                                            "argv": [sys.executable, os.path.join(R.VERIF, "check.py"), "C04", "--tier", tier, "--seed", str(seed)]},
                                 "inv": "cellcycle-draws/*"})

    # ---- floors --------------------------------------------------------------------------------------------------------------------------
    ncell = nd + nda; nrun = ns + nsa
    floors = {
        # direct
        "direct:cells_subject_to_internal_forces": (g("cells_subject_to_internal_forces"), 0.8 * ncell),
        "direct:steps_checked": (g("steps_checked"), 4 * ncell),
        "direct:cells_with_pressure_cap_active": (g("cells_with_pressure_cap_active"), 0.15 * ncell),
        "direct:cells_with_min_vol_clamp_active": (g("cells_with_min_vol_clamp_active"), 0.15 * ncell),
        "direct:cells_shrinking_onto_min_vol": (g("cells_shrinking_onto_min_vol"), 0.05 * ncell),
        "direct:growth_negative": (g("growth:negative"), 0.2 * ncell), "direct:growth_zero": (g("growth:zero"), 0.08 * ncell), "direct:growth_positive": (g("growth:positive"), 0.2 * ncell),
        "direct:K_zero": (g("K:zero"), 0.06 * ncell),
        "direct:p_max_inf": (g("p_max:inf"), 0.1 * ncell), "direct:p_max_zero": (g("p_max:zero"), 0.02 * ncell), "direct:p_max_negative": (g("p_max:negative"), 0.03 * ncell),
        "direct:min_vol_just_below_start": (g("min_vol:just_below_start"), 0.1 * ncell), "direct:min_vol_just_above_start": (g("min_vol:just_above_start"), 0.1 * ncell),
        "direct:min_vol_zero": (g("min_vol:zero"), 0.1 * ncell),
        "direct:history_with_deformation": (g("history:mesh_deformed_between_steps"), 0.3 * ncell),
        "direct:below_min_vol_true": (g("below_min_vol:true"), 0.3 * ncell), "direct:below_min_vol_false": (g("below_min_vol:false"), 1.0 * ncell),
        "direct:static_ecm_exempt": (g("ecm_static:state_untouched"), 0.03 * ncell),
        "direct:division_equal_epithelial_ready": (g("division_trigger:epithelial:equal:ready"), 0.2 * ncell),
        "direct:division_one_ulp_above_epithelial_not_ready": (g("division_trigger:epithelial:one_ulp_above:not_ready"), 0.2 * ncell),
        "direct:division_one_ulp_below_epithelial_ready": (g("division_trigger:epithelial:one_ulp_below:ready"), 0.2 * ncell),
        "direct:division_inf_epithelial_not_ready": (g("division_trigger:epithelial:inf:not_ready"), 0.2 * ncell),
        "direct:division_equal_other_class_not_ready": (g("division_trigger:other_class:equal:not_ready"), 0.4 * ncell),
        "direct:division_zero_other_class_not_ready": (g("division_trigger:other_class:zero:not_ready"), 0.4 * ncell),
        # draws
        "draws:growth_draws_random": (g("growth_draws_random"), max(30000, 0.5 * (nr + nra) * draws)),
        "draws:division_draws_random": (g("division_draws_random"), max(30000, 0.35 * (nr + nra) * draws)),
        "draws:growth_hook_calls": (g("growth_hook_calls"), g("growth_draws_random")),
        "draws:division_hook_calls": (g("division_hook_calls"), g("division_draws_random")),
        "draws:growth_draws_at_upper_clamp": (g("growth_draws_at_upper_clamp"), 5), "draws:growth_draws_at_lower_clamp": (g("growth_draws_at_lower_clamp"), 5),
        "draws:division_draws_at_upper_clamp": (g("division_draws_at_upper_clamp"), 5), "draws:division_draws_at_lower_clamp": (g("division_draws_at_lower_clamp"), 5),
        "draws:growth_sigma_zero": (g("growth_draws_deterministic"), 0.1 * (nr + nra) * draws),
        "draws:division_sigma_zero": (g("division_draws_deterministic"), 0.08 * (nr + nra) * draws),
        "draws:division_mean_inf": (g("division_draws_mean_inf"), 0.1 * (nr + nra) * draws),
        "draws:division_mean_inf_with_sigma": (g("division_cfg:mean_inf_sigma_positive"), 0.05 * (nr + nra)),
        # solver
        "solver:runs_completed": (g("runs_ended:all_iterations") + g("runs_ended:population_empty"), 0.75 * nrun),
        "solver:cell_steps_checked": (g("cell_steps_checked"), 0.8 * iters * nrun),
        "solver:cell_steps_pressure_cap_active": (g("cell_steps_pressure_cap_active"), 0.05 * iters * nrun),
        "solver:cell_steps_min_vol_clamp_active": (g("cell_steps_min_vol_clamp_active"), 0.02 * iters * nrun),
        "solver:cell_steps_shrinking_onto_min_vol": (g("cell_steps_shrinking_onto_min_vol"), 0.01 * iters * nrun),
        "solver:cell_steps_growth_negative": (g("cell_steps_growth:negative"), 0.2 * iters * nrun),
        "solver:cell_steps_growth_zero": (g("cell_steps_growth:zero"), 0.05 * iters * nrun),
        "solver:cell_steps_K_zero": (g("cell_steps_K:zero"), 0.01 * iters * nrun),
        "solver:start_p0_nonzero": (g("start:p0_positive") + g("start:p0_negative"), 0.5 * nrun),
        "solver:removal_first": (g("removal:position_first"), 0.1 * nrun), "solver:removal_middle": (g("removal:position_middle"), 0.1 * nrun),
        "solver:removal_last": (g("removal:position_last"), 0.1 * nrun), "solver:removal_only_cell": (g("removal:position_only"), 0.03 * nrun),
        "solver:removal_several_in_one_iteration": (g("removal:several_in_one_iteration"), 0.01 * nrun),
        "solver:kept_above_min_vol": (g("removal:kept_above_min_vol"), 1.0 * iters * nrun),
        "solver:forced_removals": (g("forced:min_vol_raised_above_volume"), 0.15 * nrun),
        "solver:divisions_observed": (g("divisions_observed"), 0.05 * nrun),
        "solver:division_trigger_ready": (g("division_trigger:epithelial:ready"), 0.05 * nrun),
        "solver:division_attempts_failed_mother_survives": (g("division_attempts_failed_mother_survives"), 0.05 * nrun),
        "solver:ecm_cells": (g("cells:ecm"), 0.1 * nrun),
    }
    for cls in ("epithelial", "lumen", "nucleus", "static", "ecm", "ecm_mobile"):
        floors["direct:class_" + cls] = (g("class:" + cls), (0.03 if cls.startswith("ecm") else 0.08) * ncell)
    for cls in ("epithelial", "lumen", "nucleus", "static"):
        floors["solver:cell_steps_" + cls] = (g("cell_steps:" + cls), 0.03 * iters * nrun)
    return R.finish(
        "C04", tier, seed, m,
        "direct: one case = one fresh cell (random closed mesh <= 400 triangles, scale 1e-6..1e1, offset 0..10 sizes; class epithelial / lumen / "
        "nucleus / static / ecm (static or made mobile)) with one parameter set (K = 0 or 1e-2..1e6; Vt0 = V e^u, |u| <= 1.5 or u = 0; growth zero / "
        "+ / - up to 20% of V per step, optionally drawn with sigma; min_vol zero / far below / just below / just above V; p_max INF / below / above "
        "the expected pressure / 0 / negative; dt 1e-7..1e-1), 1..12 calls of apply_internal_forces with an anisotropic rescaling of the mesh "
        "between the calls, then 11 division volumes (equal to the reported volume, +-1 ulp, INF, 0, negative, +-1e-9..1e-1 relative, far, drawn). "
        "draws: one case = one (class, growth mean/sigma, division mean/sigma) configuration x N calls of initialize_random_properties, each with "
        "a different hashed seed and hook context. solver: one case = one run of a solver subclass (1..6 jittered icospheres of level 1 or 2 on a "
        "line, no contacts, l_min centred on the edge lengths; per-cell types with K from the Laplace pressure, p0 = 0 or +-(1..30)% K, growth over "
        "the run -60%..+60% of V0, min_vol as above, finite caps near the Laplace pressure; scenarios: generic / a cell starting just below its "
        "min_vol / min_vol raised above the volume of the first, a middle or the last cell at a chosen iteration / stiff shrinking cells / K = 0 on "
        "a cell with forces; 20% of the runs with division enabled and no removal), executed in a forked child. A case is non-trivial when its "
        "laws were evaluated at least once and it ended regularly; distinct = distinct hashes of the observed (target volume, pressure) "
        "trajectories or draws. maxima *_err_over_tol are the largest observed error / tolerance ratios; bins count every regime",
        t0,
        ["own long-double volume (centroid-relative signed tetrahedra) of the triangle list the cell holds is the enclosed volume V of the statement",
         "volume tolerance 1024 eps sqrt(F) (D+r)^3 (forward error of any origin-relative double-precision volume sum; form of the bound as in C12)",
         "target volume: |Vt - oracle| <= 32 eps (steps+1) max(|Vt| + |g dt|) (rigorous first-order bound is 2 eps per step)",
         "pressure: |p - min(p_max, -K ln(V/Vt))| <= |K| (tolV/V + tolVt/Vt + 8 eps) + 8 eps |p|; when the uncapped value exceeds p_max by more than that, p must equal p_max bit for bit",
         "3-sigma window: |x - mean| <= 3 sigma + 4 eps (|mean| + 3 sigma) (the bound itself is a rounded double)",
         "K = 0 on a cell that receives forces: V0 exp(p0/K) is undefined; the law is read as 'target volume finite and positive, pressure 0'",
         "division and removal use the volume of the last force phase (static ecm cells: of the construction); volume ties within the tolerance are excluded",
         "a removed id 'reappears' if it is seen in the population at any later phase boundary, or if a new cell gets an id that is not larger than every id seen before"],
        floors=floors)
