"""C16 - mesh files written by the simulator are read back as the same tissue."""
import runner as R
from runner import Inv, Merged

ID = "C16"
MANIFEST = (
    "exploration",
    "runtime monitor: round trip writer -> own strict legacy-VTK parser -> repository reader -> simulation_initializer over seeded "
    "populations (forked per case); ASan/UBSan on part of the same workload",
    "Held on every generated population of the run: 300 (quick) / 20 000 (thorough) populations of 1-30 cells of all five classes, "
    "4-4 900 faces per cell, cells with free node/face slots before compaction (vertex removals and face splits through the cell API, "
    "merge-only refinement passes, unreferenced nodes), coordinates 1e-300..1e300 of both signs (plus zeros, rounding-carry and "
    "subnormal values), written by mesh_writer::write (the solver's writer), write_cell_data_file for cells and for mesh structures. "
    "Exploration is the right level: the statement is reader(writer(x)) = x over an unbounded input space and every case is decided "
    "exactly by an independent parser and exact comparisons.",
    "Trusts the harness' own VTK parser and libc printf/strtod as the definition of 'written precision'; assumes the writer emits the "
    "nodes of cell i as one contiguous block in slot order after compaction. The face-data file is only checked for its declared "
    "counts (it is not an input format). simulation_initializer is exercised only on ordinary-range tissues (offset <= a few cell sizes), "
    "because five significant digits cannot represent a small cell far from the origin.",
    "DESIGN.md section 3, C16",
)


def T(tier, quick, thorough):
    return quick if tier == "quick" else thorough


CLASSES = ["epithelial", "ecm", "lumen", "nucleus", "static"]


def run(tier, seed, t0):
    m = Merged(); wd = R.workdir("C16")
    n_plain = T(tier, 240, 16000); n_asan = T(tier, 60, 4000)
    R.run_inv(Inv("meshio", n_plain, "plain", timeout=T(tier, 600, 14400)), seed, wd, m)
    R.run_inv(Inv("meshio", n_asan, "asan", timeout=T(tier, 900, 14400), first=n_plain), seed, wd, m)
    # mesh_writer::write compacts the cells and writes the two files in parallel regions: the same round trip with 4 threads
    R.run_inv(Inv("meshio", n_plain // 2, "plain", threads=4, shards=4, timeout=T(tier, 900, 14400), first=n_plain + n_asan, tag="meshio/plain/t4"), seed, wd, m)
    n = n_plain + n_asan
    b = m.bins.get
    floors = {
        "populations_with_free_slots": (b("population_with_free_slots", 0), 0.25 * n),
        "populations_with_free_node_slots": (b("population_with_free_node_slots", 0), 0.2 * n),
        "populations_with_free_face_slots": (b("population_with_free_face_slots", 0), 0.2 * n),
        "manual_vertex_removals": (b("slot_route:manual_vertex_removal", 0), 0.5 * n),
        "refiner_merge_passes": (b("slot_route:refiner_merge_pass", 0), 0.2 * n),
        "populations_coord_above_1e250_both_signs": (b("population_extreme_large_both_signs", 0), 0.08 * n),
        "populations_coord_below_1e-250_both_signs": (b("population_extreme_small_both_signs", 0), 0.08 * n),
        "populations_with_zero_coordinate": (b("population_with_zero_coordinate", 0), 0.05 * n),
        "initializer_populations": (b("oracle_initializer", 0), 0.12 * n),
        "reader_cells_compared": (b("reader_cells_compared", 0), 3 * n),
        "cells_with_2001_5000_faces": (b("cell_faces:2001-5000", 0), 0.02 * n),
        "cells_with_4_faces": (b("cell_faces:4", 0), 0.02 * n),
        "populations_with_21_30_cells": (b("ncells:21-30", 0), 0.03 * n),
        "populations_with_1_cell": (b("ncells:1", 0), 0.08 * n),
        "cases_asan": (b("cases@meshio/asan/c1d0", 0), n_asan),
        "no_cell_below_4_faces": (-b("cell_faces:below_4", 0), 0),
    }
    for c in CLASSES:
        floors["populations_with_class_" + c] = (b("class_in_population:" + c, 0), 0.3 * n)
        floors["initializer_loaded_class_" + c] = (b("initializer_loaded_class:" + c, 0), 0.1 * n)
    for r in ["solver_writer", "cell_data_file", "mesh_overload"]:
        floors["route_" + r] = (b("route:" + r, 0), 0.08 * n)
    for r in ["ordinary", "far_offset", "extreme_uniform", "extreme_mixed"]:
        floors["regime_" + r] = (b("regime:" + r, 0), 0.05 * n)
    floors["regime_subnormal"] = (b("regime:subnormal", 0), 0.02 * n)
    return R.finish(
        "C16", tier, seed, m,
        "one case = one population: 1-30 cells (classes drawn per cell, cell type id = class id), shapes from 4 to ~4 900 triangles, "
        "free slots through vertex removal/face split (public cell API), merge-only refinement or unreferenced nodes, coordinate regime "
        "ordinary / far offset / per-cell magnitude 1e-300..1e300 / per-coordinate special values / subnormal, written through one of three "
        "writer entry points; a case is non-trivial when the writer produced a file; distinct = distinct file contents (hash); bins count "
        "what each population contained and which oracle ran (counts, written precision, file triangles, reader, reader cell types, initializer)",
        t0,
        ["own strict legacy-VTK parser decides the declared counts (POINTS n <-> 3n numbers, CELLS k m <-> k records and m integers, "
         "CELL_TYPES k, CELL_DATA/POINT_DATA n, every FIELD array ncomp*ntuples values, VECTORS 3n)",
         "written precision: |strtod(token) - x| <= 0.5*10^(e-4) + ulp(token)/2, e = decimal exponent of x (x correctly rounded to 5 significant "
         "digits by printf, then rounded to nearest by strtod; an exact bound, observed maximum recorded), and token == printf('%.<p>e', x) at the file's own p",
         "reader output is compared exactly (==) with the numbers in the file; triangles are compared as multisets of rotation-normalised "
         "coordinate triples, so any renumbering of nodes or faces by the reader is allowed"],
        floors=floors)
