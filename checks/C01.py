"""C01 - cell surfaces stay closed, consistently oriented 2-manifolds under remeshing."""
import runner as R
from runner import Inv, Merged

ID = "C01"
MANIFEST = (
    "exploration",
    "runtime monitor: full-state manifold/bookkeeping invariant evaluated by an independent topology oracle after refinement operations, passes and compactions on seeded deformation histories (remesh_event hook + friend-tester state access); ASan/UBSan on a subset",
    "Held on every state observed in the run: hundreds (quick) to tens of thousands (thorough) of histories on generated genus-0 meshes (icospheres, boxes, UV spheres, prisms, ellipsoids, star-shaped bodies; scales 1e-6..10), each 5-25 refinement passes with anisotropic stretch / twist / per-node noise between passes, random compactions and bursts of direct split / merge / swap calls; the invariant (directed-edge pairing, Euler characteristic, single-cycle vertex links, no repeated node or duplicate triangle, live-node agreement, edge-set / counts / free queues / ids / owner agreement, cached normal vs winding, positive own signed volume) is evaluated after every k-th operation (k drawn per history, k=1 in 30% of them), after every pass, compaction and direct operation. Exploration is the right level because the state space of meshes and displacement histories is unbounded and the invariant is decidable exactly on each observed state.",
    "Cells are kept thicker than 2*l_max (a cell smaller than the band is legitimately collapsed); in the 'stale normal' regime the cached normals are refreshed before each move and one move turns no triangle by 60 degrees or more (what the product loop guarantees between force phase and refinement); states after an exception from refine_mesh are not judged; crashes are reported as inconclusive (owned by C10).",
    "DESIGN.md section 3, C01",
)


def T(tier, q, t):
    return q if tier == "quick" else t


def run(tier, seed, t0):
    m = Merged(); wd = R.workdir(ID)
    n = T(tier, 320, 20000)
    R.run_inv(Inv("remesh", n, "plain", args=["--oracle=c01", "--max_faces=%d" % T(tier, 400, 1500), "--max_passes=%d" % T(tier, 14, 25), "--cpu_limit=%d" % T(tier, 120, 400)], timeout=T(tier, 1500, 6 * 3600)), seed, wd, m)
    na = T(tier, 32, 600)
    R.run_inv(Inv("remesh", na, "asan", args=["--oracle=c01", "--max_faces=200", "--max_passes=8"], first=n, timeout=T(tier, 1500, 3 * 3600)), seed, wd, m)
    # one large mesh (40962 nodes, 81920 faces: node and face ids beyond 2^15 / 2^16)
    R.run_inv(Inv("remesh", T(tier, 1, 8), "plain", args=["--oracle=c01", "--big=1", "--cpu_limit=900"], first=3000000, shards=T(tier, 1, 8), timeout=T(tier, 1500, 3 * 3600), tag="remesh/plain/big"), seed, wd, m)
    floors = {
        "nontrivial_histories": (m.nontrivial, 0.5 * (n + na)),
        "splits": (m.bins.get("splits", 0), 1000), "merges": (m.bins.get("merges", 0), 1000), "swaps_done": (m.bins.get("swaps_done", 0), 20),
        "merges_refused": (m.bins.get("merges_refused", 0), 5), "rebases": (m.bins.get("rebases", 0), 20), "direct_ops": (m.bins.get("direct_ops", 0), 50),
        "invariant_checks": (m.bins.get("invariant_checks", 0), 5000),
        "fan_histories_with_refused_pole_collapse": (m.bins.get("fan_histories_with_refused_pole_collapse", 0), 3),
        "large_meshes": (m.bins.get("shape:big_ico", 0), 1),
        "regimeA_histories": (m.bins.get("regimeA_histories", 0), 20), "regimeB_histories": (m.bins.get("regimeB_histories", 0), 20),
    }
    return R.finish(ID, tier, seed, m,
                    "history = start mesh family (incl. the focused probes lens6 [swap that must be refused] and fanN [pole of valence 17-40 with valence-3 neighbours: "
                    "collapse that must be refused]) x edge-length band (l_max/l_min = 3 or 1.5..10, band centred on a target face count) x swaps on/off x "
                    "5..N passes with stretch/twist/noise between passes (regime A: normals refreshed after the move; regime B: refreshed before, "
                    "one move stale) x compaction with p=1/4 x burst of 1-10 direct split/merge/swap calls with p=1/4; non-trivial = at least one "
                    "split and one merge happened; distinct = hash of the operation-kind sequence and final (V,F)",
                    t0, ["independent topology oracle (directed-edge multiset, Euler characteristic, vertex links) is correct",
                         "bins splits/merges/swaps_done/merges_refused/swaps_refused/rebases/direct_ops/invariant_checks are counts observed through hook H5"],
                    floors=floors)
