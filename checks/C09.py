"""C09 - cell division yields two valid daughters or leaves the mother untouched."""
import os
import runner as R
from runner import Inv, Merged
from checks.C15 import tsan_reports

ID = "C09"
MANIFEST = (
    "exploration",
    "runtime monitor: every division in a forked child (escaping exception = terminate is observed by the parent); mother = epithelial subclass "
    "overriding the virtual division axis / readiness; independent manifold + bookkeeping oracle on both daughters, half-space test against the "
    "plane through the mother's own centroid, exact cut-volume identity at the division_event hook (before refinement), calibrated volume bound "
    "after refinement, bit-exact target-volume halving, id / count / local-id / bystander invariants through cell_divider::run, and a "
    "slot-renumbering-invariant fingerprint of the mother on the failure path; deterministic Poisson sampling through the rng_seed hook; "
    "ASan/UBSan on a subset",
    "Held on every division observed in the run: ~500 (quick) / ~30 000 (thorough) divisions over 13 shape families (icospheres, boxes, UV spheres, "
    "ellipsoids, prisms, elongated, near-flat, star-shaped, C-shaped bent bodies, and four symmetric un-jittered families), 11 axis families "
    "(generic, the product's longest axis, exactly +-x/+-y/+-z, coordinate planes through mesh vertices of symmetric bodies, planes through the "
    "centroid and one vertex, planes crossing both arms of a bent body = section with two contours) and 4 mesh regimes (pre-refined product-like, raw in-band, raw coarse, raw finer than l_min), scales 1e-6..10, l_min/r_eff in 0.04..0.28, "
    "directly through divide_cell and through run on populations of 1-16 cells (0-6 ready, all five cell classes as bystanders, 1 and 4 threads). "
    "Exploration is the right level: shapes, planes and sampling seeds are unbounded and every outcome is decided exactly by an independent oracle.",
    "Cached face areas are fresh when the division is requested (the plane is compared with the own area-weighted centroid); bodies are kept "
    "thicker than the refiner's band (l_max = 3 l_min <= 0.84 r_eff); the volume bound after refinement is empirical (see VOL_C); crashes other "
    "than an escaping exception (sanitizer reports, signals) are reported as inconclusive (owned by C10); an anomaly seen in a multi-threaded "
    "population (run indexes the list while other threads append to it: data race owned by C15) is repeated with one thread and reported only "
    "if it is reproduced there.",
    "DESIGN.md section 3, C09",
)

# |V1+V2-Vm|/Vm <= VOL_C * x^2 after refinement, x = l_min / r_eff, r_eff = 3V/A of the mother.
# Rationale: a collapse replaces two nodes of a surface with curvature radius r by their midpoint, l^2/8r inside; re-meshing a whole
# surface with edges <= l_max = 3 l_min therefore removes at most about A (3 l_min)^2 / 8r = (27/8) x^2 of the volume, a refinement
# that only works near the rim of the cut much less.  The exponent was measured (defect/x^2 is flat in x over 0.04..0.28, defect/x^3
# is not).  Calibration soaks on the tree with the three division fixes applied (plain flavour):
#   seed 11,  6 000 cases,  2 372 successes: max defect/x^2 = 1.25 (pre-refined) 1.16 (raw in-band) 1.01 (raw coarse) 2.48 (raw fine, x <= 0.15)
#   seed  1, 27 200 cases, 14 617 successes: max defect/x^2 = 1.40               1.22               1.24              2.50
#   seed  2, 27 200 cases, 14 526 successes: max defect/x^2 = 1.37               1.19               1.26              2.53
#   seed  3, 27 200 cases, 15 286 successes: max defect/x^2 = 1.36               1.29               1.46              2.56
# VOL_C = 5 and VOL_C_FINE = 9 keep a margin of 3.4x / 3.5x over the largest value seen in these 46 800 successful divisions; the run's maxima are in the evidence
# (refined_volume_defect_over_x2|<regime>, refined_volume_defect_over_bound).
VOL_C = 5.0        # pre-refined, raw in-band and raw coarse meshes: the refiner only works near the rim / splits long edges
VOL_C_FINE = 9.0   # raw meshes finer than l_min: the whole surface is coarsened by collapses (x <= 0.15 there)


def T(tier, q, t):
    return q if tier == "quick" else t


def run(tier, seed, t0):
    m = Merged(); wd = R.workdir(ID)
    n = T(tier, 420, 26000)
    common = ["--vol_c=%g" % VOL_C, "--vol_c_fine=%g" % VOL_C_FINE, "--cpu_limit=%d" % T(tier, 100, 300)]
    R.run_inv(Inv("division", n, "plain", args=common, timeout=T(tier, 1500, 6 * 3600)), seed, wd, m)
    na = T(tier, 48, 1200)
    R.run_inv(Inv("division", na, "asan", args=common + ["--xmin=0.07"], first=n, timeout=T(tier, 1500, 6 * 3600)), seed, wd, m)
    # populations in which several cells divide in the same call, 4 threads, under ThreadSanitizer: a race inside cell_divider (a daughter pair seen by two threads, a shared
    # scratch buffer) loses or duplicates a daughter only now and then; the race itself is reported every time
    tenv = {"TSAN_OPTIONS": "halt_on_error=0:exitcode=0:log_path=%s:history_size=4:external_symbolizer_path=%s" % (os.path.join(wd, "tsan"), R.SYMBOLIZER)}
    mt = Merged(); R.run_inv(Inv("division", T(tier, 10, 200), "tsan", args=common + ["--run_share=1", "--mt_share=1", "--xmin=0.1"], shards=5, first=7000000, timeout=T(tier, 1500, 6 * 3600), env=tenv, tag="division/tsan/run/t4"), seed, wd, mt)
    m.violations += [v for v in mt.violations if not v.get("crash")]; m.inconclusive += mt.inconclusive; m.harness_failures += mt.harness_failures
    m.add_bins({"tsan_populations": mt.evaluations, "tsan_divisions": mt.bins.get("divisions", 0)})
    reps, total_reports, norepo = tsan_reports(wd, R.builder.repo_dir())
    for key, (cnt, sample) in sorted(reps.items()):
        if "cell_divider" in key:
            m.violations.append({"key": "division." + key, "msg": "%d reports, first:\n%s" % (cnt, sample), "obs": {"reports": cnt}, "inv": "tsan",
                                 "replay": {"custom": True, "flavour": "tsan", "argv": ["python3", "check.py", "C09", "--tier", tier, "--seed", str(seed)], "note": "race reports vary from run to run: re-run the check"}})
    # an exception escaping divide_cell / run (noexcept => terminate) is this property's violation; other crashes belong to C10
    for v in m.violations:
        if v.get("crash") and v["key"].startswith("crash:terminate"):
            v["crash"] = False; v["key"] = "escape:" + v["key"][len("crash:"):]
        # "the simulation continues": a division that has not returned after 100 s (quick) / 300 s (thorough) of CPU time hangs; the
        # slowest legitimate case observed takes 0.9 s / 5.3 s (maxima: case_cpu_s), so the budget is >= 50 x that
        elif v.get("crash") and v.get("timeout"):
            v["crash"] = False; v["key"] = "hang:division_does_not_return"
    b = m.bins; div = b.get("divisions", 0); succ = b.get("success", 0); fail = b.get("clean_failure", 0)
    floors = {
        "divisions": (div, T(tier, 300, 20000)),
        "divisions_under_thread_sanitizer": (b.get("tsan_divisions", 0), T(tier, 10, 300)),
        "calls_with_a_tiny_minimum_edge_length": (b.get("tiny_lmin_at_the_call", 0), T(tier, 5, 400)),
        "successes_30_percent": (succ, 0.30 * max(div, 1)),
        "clean_failures": (fail, T(tier, 40, 2000)),
        "division_events_hook": (b.get("division_events", 0), succ),
        "populations": (b.get("populations", 0), T(tier, 25, 1500)),
        "populations_run_by_several_threads": (b.get("populations_run_by_several_threads", 0), 1),
        "populations_with_success_and_failure": (b.get("populations_with_success_and_failure", 0), T(tier, 3, 100)),
        "populations_with_several_successes": (b.get("populations_with_several_successes", 0), T(tier, 3, 100)),
        "axes_tilted_off_a_coordinate_axis": (b.get("axis_tilted_off_a_coordinate_axis", 0), T(tier, 15, 600)),
        "bystanders": (b.get("bystanders", 0), T(tier, 50, 3000)),
        "sections_with_several_contours": (sum(v for k, v in b.items() if k.endswith("|section_with_several_contours")), T(tier, 5, 500)),
        "plane_at_vertex_cases": (sum(v for k, v in b.items() if k.startswith("plane_exactly_through_vertex") or k.startswith("plane_within_1e-12L")), T(tier, 20, 1500)),
    }
    for ax in ("random", "longest", "px", "mx", "py", "my", "pz", "mz", "vertex_plane", "near_vertex", "across_both_arms"):
        floors["axis_" + ax] = (b.get("success|axis:" + ax, 0) + b.get("clean_failure|axis:" + ax, 0), T(tier, 5, 500))
    for rg in ("product", "raw_match", "raw_coarse", "raw_fine"):
        floors["regime_" + rg] = (b.get("success|regime:" + rg, 0) + b.get("clean_failure|regime:" + rg, 0), T(tier, 15, 1000))
    for rg, q, t in (("product", 8, 500), ("raw_match", 8, 500), ("raw_coarse", 8, 500), ("raw_fine", 3, 200)):
        floors["successes_regime_" + rg] = (b.get("success|regime:" + rg, 0), T(tier, q, t))
    return R.finish(ID, tier, seed, m,
                    "division = mother shape family x axis family x mesh regime x l_min/r_eff x scale/offset x sampling seed, either one direct "
                    "divide_cell call or one of the ready cells of a population passed to run; non-trivial = the outcome (two daughters / no "
                    "division) was observed and judged; distinct = hash of (families, outcome, the daughters' exact surfaces) resp. of the population "
                    "after run; bins give outcomes per shape / axis / regime / number of section contours, failures before/after the cut, "
                    "plane-vertex distances, population shapes, multi-threaded anomalies",
                    t0, ["the harness' topology / geometry oracles (orc::check_topology, orc::geometry, rmu::check_cell, rmu::fingerprint) are correct",
                         "the division_event hook fires exactly once per completed cut, with the daughters that are later returned",
                         "volume bound after refinement VOL_C*(l_min/r_eff)^2 is empirical (maxima: refined_volume_defect_over_x2)",
                         "crashes other than terminate (escaping exception) are left to C10; multi-threaded run may hit the race owned by C15"],
                    floors=floors)
