"""C14 - simulation results do not depend on where the tissue is placed in space."""
import runner as R
from runner import Inv, Merged

ID = "C14"
MANIFEST = (
    "exploration",
    "differential runtime monitoring: twin runs of the monitored solver on a tissue and on its translated copy (single thread, deterministic RNG through hook H2), compared node by node at the end of the run and right after the first division of the run; noise twins (inputs perturbed by 1e-13 relative and shifted by 1e-11 L) of both the reference and the translated input separate a systematic position dependence from chaotic amplification; contacts whose sign test is decided by rounding are detected through hook H6 and end the final-state comparison; metamorphic probe of the centroid the division code reads; the translated input FILE through simulation_initializer with the initial triangulation enabled (same generator seeding, same noise-twin logic)",
    "Held on every compared pair of runs (quick: ~40 tissues x 4 translations x 20-40 iterations; thorough: thousands): single dividing cells, adhering grids, overlapping pairs of different classes, nucleus in cell, cell in ECM, lumen among cells, mixed populations with removal; translations sub-voxel, exactly one voxel, many voxels, across the origin, a few extents, up to 32 tissue extents, binary-exact; 160 / 6000 polyhedral input files x 3-5 translations through the initial triangulation (same outcome, node slots, triangles, positions to 1e-9 L); the translated run must reach the same cell count, slot-by-slot identical connectivity, positions equal to the translated reference positions and equal volumes / pressures within forward-error tolerances. Exploration is the right level: trajectories are long compositions of floating-point operations; only differential execution decides them.",
    "Tolerances: positions 1e-8 L, volume/pressure 1e-9 relative, at every distance (|t| <= 32 tissue extents); references whose own noise twins already scatter by more than 1e-10 L are skipped as ill-conditioned (counted); the final state is not compared when a contact of the run was decided by rounding (node within 1e-7 of the plane of a face whose closest point is on its boundary: after a division the rim nodes of one daughter lie exactly in the plane of interface faces of the other) - the state right after the first division still is; a difference is a violation only if reference family and translated family are each tight and apart from each other.",
    "DESIGN.md section 3, C14",
)


def T(tier, q, t):
    return q if tier == "quick" else t


def run(tier, seed, t0):
    m = Merged(); wd = R.workdir(ID)
    n = T(tier, 126, 2100)
    R.run_inv(Inv("translate", n, "plain", args=["--translations=%d" % T(tier, 4, 8), "--min_iterations=%d" % T(tier, 20, 40), "--max_iterations=%d" % T(tier, 40, 300)], timeout=T(tier, 1800, 8 * 3600)), seed, wd, m)
    kinds = ["sub_voxel", "exactly_one_voxel", "many_voxels", "across_origin", "far_up_to_32_extents", "binary_exact", "few_extents"]
    # the centroid the division code reads (nodes moved since the force phase) must follow a translation of the cell
    mh = Merged(); nh = T(tier, 1200, 40000)
    R.run_inv(Inv("geometry_hist", nh, "plain", args=["--translate_probe=1"], timeout=T(tier, 900, 4 * 3600), first=5000000, tag="geometry_hist/translate_probe"), seed, wd, mh)
    mh.violations = [v for v in mh.violations if v.get("crash") or "does_not_follow_translation" in v["key"]]
    m.violations += mh.violations; m.inconclusive += mh.inconclusive; m.harness_failures += mh.harness_failures
    m.add_bins({"centroid_translation_probes": mh.bins.get("hist_translation_probes", 0)}); m.maxima.update({"translate_probe_dev_over_tol": mh.maxima.get("translate_probe_dev_over_tol", 0)})
    # the translated input FILE through the initial triangulation (sampling grid, ball pivoting, first refinement)
    mi = Merged(); ni = T(tier, 160, 6000)
    R.run_inv(Inv("translate_init", ni, "plain", args=["--translations=%d" % T(tier, 3, 5)], timeout=T(tier, 1500, 6 * 3600), first=7000000), seed, wd, mi)
    m.violations += mi.violations; m.inconclusive += mi.inconclusive; m.harness_failures += mi.harness_failures; m.evaluations += mi.evaluations; m.nontrivial += mi.nontrivial; m.sigs |= mi.sigs; m.distinct_unlisted += mi.distinct_unlisted
    m.add_bins({k: v for k, v in mi.bins.items() if k.startswith("init_")}); m.maxima.update({k: v for k, v in mi.maxima.items() if k.startswith("init_")})
    n_solver_nt = m.nontrivial - mi.nontrivial
    floors = {"well_conditioned_tissues": (n_solver_nt, 0.4 * n), "translations_compared": (m.bins.get("translations_compared", 0), 1.5 * n)}
    for k in kinds:
        floors["translation_" + k] = (m.bins.get("translation:" + k, 0), 0.15 * n)
    # at most half of the compared translations may end inconclusive (both families ill-conditioned)
    floors["final_states_compared"] = (m.bins.get("final_states_compared", 0), 2.0 * n)
    floors["first_divisions_compared"] = (m.bins.get("first_divisions_compared", 0), 0.3 * n)
    floors["centroid_translation_probes"] = (m.bins.get("centroid_translation_probes", 0), nh)
    floors["reconstructed_inputs_compared"] = (mi.nontrivial, 0.5 * ni)
    floors["init_translations_compared"] = (mi.bins.get("init_translations_compared", 0), 1.5 * ni)
    floors["init_conclusive_translations"] = (mi.bins.get("init_translations_compared", 0) - mi.bins.get("init_translations_inconclusive", 0), 0.9 * mi.bins.get("init_translations_compared", 0))
    floors["conclusive_translations"] = (m.bins.get("translations_compared", 0) - m.bins.get("translations_inconclusive", 0), 0.75 * m.bins.get("translations_compared", 0))
    return R.finish(ID, tier, seed, m,
                    "case = tissue scenario (7 families at the physical scale of the sample inputs, random parameters) x 4-8 translations of 7 kinds; per case 3 "
                    "reference runs (1 + 2 noise twins) + 1 run per translation (+ 2 translated noise twins when a difference shows); non-trivial = well-conditioned "
                    "reference with >= 10 iterations and at least one translation compared; distinct = hash of (family, iterations, first cell volume)",
                    t0, ["single-threaded runs are deterministic given the H2 seeds (checked by C15)", "noise twins bound the chaotic amplification of rounding-level input changes"],
                    floors=floors)
