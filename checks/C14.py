"""C14 - simulation results do not depend on where the tissue is placed in space."""
import runner as R
from runner import Inv, Merged

ID = "C14"
MANIFEST = (
    "exploration",
    "differential runtime monitoring: twin runs of the monitored solver on a tissue and on its translated copy (single thread, deterministic RNG through hook H2), compared node by node; noise twins (inputs perturbed by 1e-13 relative) of both the reference and the translated input separate a systematic position dependence from chaotic amplification",
    "Held on every compared pair of runs (quick: ~40 tissues x 4 translations x 20-40 iterations; thorough: thousands): single dividing cells, adhering grids, overlapping pairs of different classes, nucleus in cell, cell in ECM, lumen among cells, mixed populations with removal; translations sub-voxel, exactly one voxel, many voxels, across the origin, a few extents, up to 32 tissue extents, binary-exact; the translated run must reach the same cell count, slot-by-slot identical connectivity, positions equal to the translated reference positions and equal volumes / pressures within forward-error tolerances. Exploration is the right level: trajectories are long compositions of floating-point operations; only differential execution decides them.",
    "Tolerances: positions max(1e-9 L, 10 tolV L), volume/pressure tolV = max(1e-9, 64 eps sqrt(F)(1+D/r)^3) - the error any evaluation of the documented origin-relative volume formula has at distance D; |t| <= 32 tissue extents (beyond that the formula itself cancels); references whose own 1e-13 noise twins already scatter by more than 1e-10 L are skipped as ill-conditioned (counted); a difference is a violation only if reference family and translated family are each tight and apart from each other.",
    "DESIGN.md section 3, C14",
)


def T(tier, q, t):
    return q if tier == "quick" else t


def run(tier, seed, t0):
    m = Merged(); wd = R.workdir(ID)
    n = T(tier, 126, 2100)
    R.run_inv(Inv("translate", n, "plain", args=["--translations=%d" % T(tier, 4, 8), "--min_iterations=%d" % T(tier, 20, 40), "--max_iterations=%d" % T(tier, 40, 300)], timeout=T(tier, 1800, 8 * 3600)), seed, wd, m)
    kinds = ["sub_voxel", "exactly_one_voxel", "many_voxels", "across_origin", "far_up_to_32_extents", "binary_exact", "few_extents"]
    floors = {"well_conditioned_tissues": (m.nontrivial, 0.4 * n), "translations_compared": (m.bins.get("translations_compared", 0), 1.5 * n)}
    for k in kinds:
        floors["translation_" + k] = (m.bins.get("translation:" + k, 0), 0.15 * n)
    # at most half of the compared translations may end inconclusive (both families ill-conditioned)
    floors["conclusive_translations"] = (m.bins.get("translations_compared", 0) - m.bins.get("translations_inconclusive", 0), 0.75 * m.bins.get("translations_compared", 0))
    return R.finish(ID, tier, seed, m,
                    "case = tissue scenario (7 families at the physical scale of the sample inputs, random parameters) x 4-8 translations of 7 kinds; per case 3 "
                    "reference runs (1 + 2 noise twins) + 1 run per translation (+ 2 translated noise twins when a difference shows); non-trivial = well-conditioned "
                    "reference with >= 10 iterations and at least one translation compared; distinct = hash of (family, iterations, first cell volume)",
                    t0, ["single-threaded runs are deterministic given the H2 seeds (checked by C15)", "noise twins bound the chaotic amplification of rounding-level input changes"],
                    floors=floors)
