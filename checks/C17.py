"""C17 - malformed input files are rejected with an exception, never a crash."""
import glob, hashlib, json, os, re, shutil, subprocess
import runner as R
from runner import Inv, Merged
from checks.C15 import tsan_reports

ID = "C17"
MANIFEST = (
    "fault_enumeration",
    "runtime monitor + sanitizers: single-fault enumeration and seeded multi-fault mutation of valid (mesh, parameter) file pairs; every mutant is parsed by the real start-up path (simulation_initializer, as in main) in a forked ASan+UBSan child with CPU / memory budgets; allocator and stack-depth artefacts of ASan are re-judged in the uninstrumented build under RLIMIT_AS; libFuzzer (clang, ASan+UBSan) campaigns on the reader translation units, artefacts judged by the same harness",
    "Complete over the enumerated fault space: for each base pair (quick: one triangulated cube; thorough: + two cubes with polygonal faces, two icosahedral spheres) every whitespace token of the mesh file and every leaf element of the parameter file x {delete, duplicate, empty, -1, 0, 4294967296, 20-digit integer, 1e999, nan, inf, abc, 99, 2147483647, 1431655765 and 1431655766 (3x wraps in 32 bits), white space as character reference / CDATA section, the token followed by 3e5 blanks, 10^5-digit number}, every line and every section / non-leaf element removed, duplicated and swapped with its neighbour, truncation at every byte offset of both files, and the consistent-empty records of the mesh file (zero points, cell line '0', cell without faces, faces without points) (quick 1.0e4, thorough 3.6e4 mutants); each mutant either completes start-up or is rejected through an exception derived from std::exception, without signal, sanitizer report, terminate, non-std exception, CPU time above 100x the slowest legitimate case (scaled by input size, confirmed by a second run) or more than 2 GB resident. Beyond the enumeration, 2e3 (quick) / 1e5 (thorough) seeded random multi-mutations (2-5 edits incl. byte-level edits and boundary integers) and two coverage-guided libFuzzer campaigns (mesh reader: quick 1e4 / thorough 2e5 executions; parameter reader: 2e4 / 1e6) are explored, which is sampling, not enumeration.",
    "Surface reconstruction is off in the base files (start-up = parse + validate + cell construction); when a mutant switches it on, time and memory depend on geometry / min_edge_length and budget overruns are excluded (DESIGN C17 limits); multi-fault inputs are sampled; the libFuzzer targets cover the reader translation units only (the rest of the repository does not compile with clang) and their artefacts count only when the gcc-built harness reproduces them.",
    "DESIGN.md section 3, C17",
)

TOKEN_OPS = ["delete", "duplicate", "empty", "val:-1", "val:0", "val:4294967296", "val:20digit", "val:1e999", "val:nan", "val:inf", "val:abc", "val:99", "val:2147483647", "val:1431655765", "val:1431655766", "val:charref_space", "val:cdata_space", "val:followed_by_3e5_blanks", "val:1e5digits"]
BLOCK_OPS = ["remove", "duplicate", "swap"]
ALL_OPS = (["vtk.token." + o for o in TOKEN_OPS] + ["xml.elem." + o for o in TOKEN_OPS] + [k + ".line." + o for k in ("vtk", "xml") for o in BLOCK_OPS] +
           [k + ".section." + o for k in ("vtk", "xml") for o in BLOCK_OPS] + ["vtk.trunc", "xml.trunc"] +
           ["vtk.empty_record." + o for o in ("cell_line_0", "cell_line_0_padded", "cell_without_faces", "faces_without_points", "no_points", "two_faces_sharing_no_point")])
BASE_NAMES = ["cube", "two_cubes_polygonal", "two_spheres"]


def T(tier, q, t):
    return q if tier == "quick" else t


def _case_lines(wd, tag):
    out = []
    for p in sorted(glob.glob(os.path.join(wd, re.sub(r"[^\w]+", "_", tag) + ".*.jsonl"))):
        for line in open(p):
            try:
                d = json.loads(line)
            except Exception:
                continue
            if not d.get("summary"):
                out.append(d)
    return out


def _judged(inv, seed, wd, m, tier, prefix=""):
    """Runs inv (ASan build); inputs whose ASan report is an artefact of the instrumentation (operator new aborts instead of
    throwing; deeper stack frames) are re-run by the uninstrumented build under RLIMIT_AS = 4 GB and judged by what the product does."""
    m1 = Merged(); R.run_inv(inv, seed, wd, m1)
    deferred = {d["i"]: d for d in _case_lines(wd, inv.tag) if d.get("v") == "defer"}
    parts = [m1]
    if deferred:
        lf = os.path.join(wd, re.sub(r"[^\w]+", "_", inv.tag) + ".deferred.txt")
        with open(lf, "w") as f:
            f.write("\n".join(str(i) for i in sorted(deferred)) + "\n")
        m2 = Merged()
        inv2 = Inv(inv.cmd, len(deferred), "plain", args=list(inv.args) + ["--judge_plain=1", "--listfile=" + lf], tag=inv.tag + "/plain_rerun", timeout=inv.timeout)
        R.run_inv(inv2, seed, wd, m2)
        for v in m2.violations:
            d = deferred.get(v["replay"].get("case"))
            if v.get("crash") and d and not v.get("timeout"):
                plain_key = v["key"][len("crash:"):]
                v["key"] = "crash:%s+plain:%s" % (d.get("why", "?"), plain_key) if d.get("why", "").startswith("asan:") else v["key"]
                v["msg"] = "ASan build: %s; uninstrumented build (RLIMIT_AS 4 GB): %s\n%s" % (d.get("why"), plain_key, v.get("msg", ""))
        m.add_bins({k: v for k, v in m2.bins.items() if k.startswith(("outcome:", "exception:"))}, prefix + "plain_rerun:")
        m2.bins = {}; m2.evaluations = m2.nontrivial = 0; m2.sigs = set(); m2.samples = []
        parts.append(m2)
    for x in parts:
        m.evaluations += x.evaluations; m.nontrivial += x.nontrivial; m.skipped += x.skipped; m.sigs |= x.sigs; m.distinct_unlisted += x.distinct_unlisted
        m.add_bins(x.bins, prefix if x is m1 else ""); m.samples += x.samples
        for k, v in (x.maxima.items() if x is m1 else ()):
            if prefix + k not in m.maxima or v > m.maxima[prefix + k]:
                m.maxima[prefix + k] = v
        m.violations += x.violations; m.harness_failures += x.harness_failures; m.inconclusive += x.inconclusive
    return len(deferred)


def _terminate_key(key):
    # one key per throwing function: the callers differ (numerical / cell-type / face-type sections) but the defect is the same
    if not key.startswith("crash:terminate") or "|" not in key:
        return key
    kind, frames = key.split("|", 1)
    return kind + "|" + frames.replace("<>", "\0").split(">")[0].replace("\0", "<>")


def _input_size(v):
    o = v.get("obs") or {}
    return (o.get("vtk_bytes") or 0) + (o.get("xml_bytes") or 0)


def run(tier, seed, t0):
    m = Merged(); wd = R.workdir(ID)
    nb = T(tier, 1, 3)
    args = ["--bases=%d" % nb, "--wd=" + wd]
    binp = R.builder.build("asan", "c1d0", "vh")
    info = json.loads(subprocess.check_output([binp, "startup", "--mode=count"] + args, env=R.san_env("asan"), text=True).strip().splitlines()[-1])
    n_enum = info["count"]; n_rand = T(tier, 2000, 100000)
    asan_env = {"ASAN_OPTIONS": R.san_env("asan")["ASAN_OPTIONS"] + ":max_allocation_size_mb=2048"}   # a single allocation above 2 GB is refused by ASan -> deferred to the uninstrumented build (keeps 16 ASan children within RAM)

    # libFuzzer campaigns on the reader TUs run beside the enumeration (bounded by execution count)
    fuzz = {}; fuzz_note = None; campaigns = []
    try:
        import c17_fuzz as F
        if F.available():
            bins_ = F.build()
            for kind in ("mesh", "param"):
                n_fuzz = T(tier, 10000, 200000) if kind == "mesh" else T(tier, 20000, 1000000)     # the mesh target is ~5x slower per execution (std::regex)
                extra = [os.path.join(wd, "base%d.%s" % (b, "vtk" if kind == "mesh" else "xml")) for b in range(nb)]
                campaigns.append(F.Campaign(kind, bins_[kind], wd, n_fuzz, seed, extra))
        else:
            fuzz_note = "clang++ not found: libFuzzer campaigns skipped"
    except RuntimeError as e:
        fuzz_note = "libFuzzer targets could not be built: " + str(e)[:1500]

    inv = Inv("startup", n_enum + n_rand, "asan", args=args, env=asan_env, timeout=T(tier, 1800, 8 * 3600))
    n_deferred = _judged(inv, seed, wd, m, tier)
    nshards = min(R.NCPU, n_enum + n_rand)

    # artefacts of the fuzzers -> same judge (mesh_reader / parameter_reader alone), persistent copies so that the replay works
    rdir = os.path.join(getattr(R, "OUT", R.VERIF), "replays", ID)
    for c in campaigns:
        c.wait(T(tier, 1800, 8 * 3600))
        fuzz[c.kind] = c.stats()
        if c.failed:
            m.harness_failures.append(c.failed)
        arts = c.artifacts()
        if not arts:
            continue
        adir = os.path.join(rdir, "fuzz_" + c.kind); shutil.rmtree(adir, ignore_errors=True); os.makedirs(adir)
        kept = [shutil.copyfile(p, os.path.join(adir, os.path.basename(p))) for p in arts]
        fl = os.path.join(adir, "filelist.txt")
        with open(fl, "w") as f:
            f.write("\n".join(kept) + "\n")
        mf = Merged()
        finv = Inv("startup", len(kept), "asan", args=args + ["--mode=files", "--what=" + c.kind, "--filelist=" + fl], env=asan_env, tag="startup/asan/fuzz_" + c.kind, timeout=1800)
        _judged(finv, seed, wd, mf, tier)
        confirmed = set((v.get("obs") or {}).get("files") for v in mf.violations)
        fuzz[c.kind]["artifacts_confirmed_by_harness"] = len(confirmed)
        fuzz[c.kind]["artifacts_not_confirmed"] = [os.path.basename(p) for p in kept if p not in confirmed][:20]
        for p in kept:
            if p not in confirmed:
                print("NOTE: libFuzzer artefact %s was not reproduced by the gcc-built harness (timeout / allocation limit of the fuzzer, or clang-only finding); kept for inspection" % p)
        m.violations += mf.violations; m.harness_failures += mf.harness_failures; m.inconclusive += mf.inconclusive
        m.add_bins({k: v for k, v in mf.bins.items() if k.startswith("outcome:")}, "fuzz_%s:" % c.kind)
    if fuzz_note:
        m.inconclusive.append(fuzz_note)

    # stable keys; the smallest failing input of every key is kept as the replay artefact
    for v in m.violations:
        if v.get("timeout"):
            v["key"] = "does_not_return"
        v["key"] = _terminate_key(v["key"])
    m.violations.sort(key=lambda v: (v["key"], _input_size(v) or 1 << 60))
    seen = set()
    for v in m.violations:
        o = v.get("obs") or {}
        if v["key"] in seen:
            continue
        files = [p for p in (o.get("files") or "").split() if os.path.exists(p)]
        if not files:
            continue
        seen.add(v["key"])
        if not files[0].startswith(rdir):
            dst = os.path.join(rdir, "input_" + hashlib.sha256(v["key"].encode()).hexdigest()[:12]); shutil.rmtree(dst, ignore_errors=True); os.makedirs(dst)
            kept = [shutil.copyfile(p, os.path.join(dst, os.path.basename(p))) for p in files]
            if len(files) == 1 and o.get("base") in BASE_NAMES:   # parameter-file mutant: it points at the unmutated mesh file
                bp = os.path.join(wd, "base%d.vtk" % BASE_NAMES.index(o["base"]))
                if os.path.exists(bp):
                    shutil.copyfile(bp, os.path.join(dst, os.path.basename(bp)))
            for q in kept:        # make the kept pair self-contained: the parameter file points at the kept mesh file
                if q.endswith(".xml"):
                    data = open(q, "rb").read()
                    open(q, "wb").write(data.replace((wd + "/").encode(), (dst + "/").encode()))
            v["replay"]["input_files"] = kept
        v["msg"] = "%s %s (base %s, %d bytes): %s" % (o.get("op"), o.get("target"), o.get("base"), _input_size(v), v.get("msg", ""))
    for p in glob.glob(os.path.join(wd, "m*.vtk")) + glob.glob(os.path.join(wd, "m*.xml")):
        os.unlink(p)

    # files of 300-4000 cells that are all refused, initialised by 8 threads, each started several times; the same under ThreadSanitizer
    nmany = T(tier, 10, 300)
    R.run_inv(Inv("startup_many", nmany, "plain", args=["--repeats=%d" % T(tier, 6, 10)], threads=8, shards=2, first=9000000, timeout=T(tier, 1500, 6 * 3600), tag="startup_many/plain/t8"), seed, wd, m)
    tenv = {"TSAN_OPTIONS": "halt_on_error=0:exitcode=0:log_path=%s:history_size=4:external_symbolizer_path=%s" % (os.path.join(wd, "tsan"), R.SYMBOLIZER)}
    R.run_inv(Inv("startup_many", T(tier, 2, 20), "tsan", args=["--repeats=2"], threads=8, shards=1, first=9100000, timeout=T(tier, 1500, 6 * 3600), env=tenv, tag="startup_many/tsan/t8"), seed, wd, m)
    reps, total_reports, norepo = tsan_reports(wd, R.builder.repo_dir())
    m.add_bins({"tsan_reports_total": total_reports})
    for key, (cnt, sample) in sorted(reps.items()):
        m.violations.append({"key": "many_refused_cells." + key, "msg": "%d reports, first:\n%s" % (cnt, sample), "obs": {"reports": cnt}, "inv": "tsan",
                             "replay": {"custom": True, "flavour": "tsan", "argv": ["python3", "check.py", "C17", "--tier", tier, "--seed", str(seed)], "note": "race reports vary from run to run: re-run the check"}})
    b = m.bins
    applied = {o: b.get("op:enum:" + o, 0) for o in ALL_OPS}
    outc = lambda grp, o: b.get("outcome:%s:%s" % (grp, o), 0)
    enum_done = sum(v for k, v in b.items() if k.startswith("outcome:enum:"))
    trunc = sum(v for k, v in b.items() if k.startswith("trunc_offsets:"))
    floors = {
        "enumerated_mutants_executed": (enum_done, n_enum),
        "startups_on_files_whose_cells_are_all_refused": (b.get("many_refused_cells_startups", 0), 5 * nmany),
        "operators_applied_of_%d" % len(ALL_OPS): (sum(1 for o in ALL_OPS if applied[o] > 0), len(ALL_OPS)),
        "min_applications_per_operator": (min(applied.values()), nb),
        "truncation_offsets_covered": (trunc, sum(info["vtk_bytes"]) + sum(info["xml_bytes"])),
        "mesh_file_mutants": (b.get("file_kind:vtk", 0) + b.get("file_kind:vtkxml", 0), 1500 * nb),
        "parameter_file_mutants": (b.get("file_kind:xml", 0) + b.get("file_kind:vtkxml", 0), 3000 * nb),
        "enum_accepted": (outc("enum", "accepted"), 100), "enum_rejected_by_exception": (outc("enum", "rejected"), 3000 * nb),
        "random_mutants_executed": (sum(v for k, v in b.items() if k.startswith("outcome:random:")), n_rand),
        "random_rejected_by_exception": (outc("random", "rejected"), 0.3 * n_rand),
        "valid_base_runs_completed": (b.get("bases_completed", 0), nshards * T(tier, 1, 2)),
    }
    for c in campaigns:
        st = fuzz[c.kind]
        if not st["artifacts"]:      # a campaign that was cut short by findings is judged by those findings
            floors["fuzz_%s_executions" % c.kind] = (st["executions"], 0.95 * st["requested"])
        floors["fuzz_%s_edges_covered" % c.kind] = (st["edges_covered"], 600)
    per_op = {}
    for k, v in b.items():
        if k.startswith("enum:"):
            op, oc = k[5:].split("=>"); per_op.setdefault(op, {})[oc] = v
    extra = {"exhaustive_scope": "the single-fault enumeration (case indices 0..%d) is complete: every (base, file, target, operator) of the fault model was executed; "
                                 "the %d random multi-mutations and the libFuzzer campaigns that follow are sampling" % (n_enum - 1, n_rand),
             "enumeration": {"mutants": n_enum, "per_base": info["per_base"], "vtk_bytes": info["vtk_bytes"], "xml_bytes": info["xml_bytes"], "outcomes_per_operator": per_op},
             "outcomes": {g: {k.split(":", 2)[2]: v for k, v in b.items() if k.startswith("outcome:%s:" % g)} for g in ("enum", "random")},
             "exception_types": {k[10:]: v for k, v in b.items() if k.startswith("exception:")},
             "deferred_to_uninstrumented_build": n_deferred, "libfuzzer": fuzz or fuzz_note}
    return R.finish(ID, tier, seed, m,
                    "mutant = (base pair, file, operator, target) for the enumeration, (seed, index) -> 2-5 random edits for the rest; a mutant is non-trivial when its "
                    "bytes differ from the base pair; distinct = distinct mutant contents; every mutant is executed by the real start-up path in a forked child",
                    t0, ["the child does what main() does at start-up: simulation_initializer(param_path, verbose=false) inside try/catch(const std::exception&)",
                         "CPU budget = 100 x slowest unmutated base (measured per shard, 3 runs) x max(1, mutant bytes / base bytes), exceeded twice; RSS limit 2 GB for inputs < 1 MB",
                         "ASan allocation-size / out-of-memory / stack-overflow reports are not verdicts: the mutant is re-run uninstrumented under RLIMIT_AS 4 GB",
                         "with surface reconstruction switched on by the mutant, budget overruns are excluded (semantic mis-specification, not malformed input)",
                         "libFuzzer artefacts are verdicts only when `vh startup --mode=files` (gcc ASan build / uninstrumented build) reproduces them"],
                    level="fault_enumeration", floors=floors, extra_cov=extra, own_crashes=True, exhaustive=True)
