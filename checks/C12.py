"""C12 - volume, area, centroid, bounding box, face normals and longest axis are exact and frame-independent."""
import os
import runner as R
from runner import Inv, Merged
from checks.C15 import tsan_reports

ID = "C12"
MANIFEST = (
    "exploration",
    "runtime monitor: differential oracle (own long-double volume/area/centroid/AABB/normals, own Jacobi PCA, own topology "
    "oracle) + metamorphic relations (rigid motion, renumbering, uniform scaling incl. bit-exact powers of two, winding flips) "
    "over seeded closed genus-0 meshes; ASan/UBSan on part of the same workload; longest axis asked for by 16 threads at once against each cell alone (and under TSan)",
    "Held on every generated mesh of the run: 620 (quick) / 165 000 (thorough) closed genus-0 meshes, plus 1 600 / 182 000 cells with a history (icospheres, boxes, UV "
    "spheres, prisms, ellipsoids, star-shaped bodies, tetrahedra, octahedra; 4..1280 triangles, jitter, anisotropic stretch, "
    "sizes 1e-6..1e1, distance from the origin 0..1e3 radii, optional unreferenced node), each built 9 times (base + 8 "
    "transformed copies: renumbering, translation, rotation about the centre / about the origin, rigid motion, exact 2^k "
    "scaling, similarity, all-inward windings without repair) with one of 9 classes of flipped input windings, all 6 cell "
    "classes and both constructors; plus every one of the 2^F winding subsets of small meshes (F = 4, 8, 12). Exploration is "
    "the right level: the functions are pure functions of the mesh, an independent oracle decides every evaluation, and the "
    "generators reach every branch of the orientation repair (seed face flipped or not, global flip needed or not).",
    "Trusts the harness' own long-double geometry, Jacobi eigen-solver and topology oracle, and the stated forward-error "
    "tolerances (volume: 64 eps sqrt(F) (D+r)^3 - the documented origin-relative formula cancels at large D/r and is not flagged "
    "for it); D/r > 1e3, sizes outside 1e-6..1e1, meshes with more than 1400 triangles, genus > 0 and degenerate triangles are "
    "not generated; the longest axis is only checked when the own PCA eigen-gap is >= 0.05.",
    "DESIGN.md section 3, C12",
)


def T(tier, quick, thorough):
    return quick if tier == "quick" else thorough


KINDS = ["perm", "translate", "rotate_centre", "rotate_origin", "rigid", "scale_pow2", "similarity", "inward_nocheck"]
FLIPS = ["none", "all", "one", "seed_only", "all_but_seed", "all_but_one", "p10", "p50", "p90"]
FAMILIES = ["icosphere", "box", "uvsphere", "prism", "ellipsoid", "star", "cup"]
SMALL = ["tetrahedron", "octahedron", "box1", "prism3"]


def run(tier, seed, t0):
    m = Merged(); wd = R.workdir("C12")
    n = T(tier, 500, 150000)
    na = T(tier, 120, 15000)
    # the repository's cells own their faces and the faces hold a shared pointer to the cell: cells are never freed, a harness process grows with
    # every mesh; the thorough tier therefore runs in slices of 50 000 meshes (16 processes each) one after another
    slice_n = 50000
    for k0 in range(0, n, slice_n):
        R.run_inv(Inv("geometry", min(slice_n, n - k0), "plain", timeout=T(tier, 600, 14400), first=k0, tag="geometry/plain/c1d0" if n <= slice_n else "geometry/plain/c1d0/slice%d" % (k0 // slice_n)), seed, wd, m)
    R.run_inv(Inv("geometry", na, "asan", timeout=T(tier, 900, 14400), first=n), seed, wd, m)
    total_geometry = m.evaluations
    # measures reported after a history (refinement passes, node moves, force phases, compaction), against the own measures of the live mesh
    nh = T(tier, 1500, 180000)
    for k0 in range(0, nh, 60000):
        R.run_inv(Inv("geometry_hist", min(60000, nh - k0), "plain", timeout=T(tier, 900, 14400), first=7000000 + k0, tag="geometry_hist/plain" if nh <= 60000 else "geometry_hist/plain/slice%d" % (k0 // 60000)), seed, wd, m)
    R.run_inv(Inv("geometry_hist", T(tier, 100, 2000), "asan", timeout=T(tier, 900, 14400), first=7000000 + nh, tag="geometry_hist/asan"), seed, wd, m)
    # the longest axis asked for by 16 threads at once (as in cell_divider::run) against the answer of each cell alone; the same under ThreadSanitizer
    ma = Merged(); npar = T(tier, 8, 400)
    R.run_inv(Inv("axis_par", npar, "plain", args=["--rounds=%d" % T(tier, 100, 300)], threads=16, shards=1, first=9000000, timeout=T(tier, 900, 14400), tag="axis_par/plain/t16"), seed, wd, ma)
    tenv = {"TSAN_OPTIONS": "halt_on_error=0:exitcode=0:log_path=%s:history_size=4:external_symbolizer_path=%s" % (os.path.join(wd, "tsan"), R.SYMBOLIZER)}
    R.run_inv(Inv("axis_par", T(tier, 2, 20), "tsan", args=["--rounds=20"], threads=8, shards=1, first=9100000, timeout=T(tier, 900, 14400), env=tenv, tag="axis_par/tsan/t8"), seed, wd, ma)
    reps, total_reports, norepo = tsan_reports(wd, R.builder.repo_dir())
    ma.add_bins({"tsan_reports_total": total_reports})
    for key, (cnt, sample) in sorted(reps.items()):
        ma.violations.append({"key": "axis_par." + key, "msg": "%d reports, first:\n%s" % (cnt, sample), "obs": {"reports": cnt}, "inv": "tsan",
                              "replay": {"custom": True, "flavour": "tsan", "argv": ["python3", "check.py", "C12", "--tier", tier, "--seed", str(seed)], "note": "race reports vary from run to run: re-run the check"}})
    m.violations += ma.violations; m.inconclusive += ma.inconclusive; m.harness_failures += ma.harness_failures; m.add_bins(ma.bins)
    b = m.bins; total = total_geometry
    regular = total - sum(b.get("flip_exhaustive_meshes:" + s, 0) for s in SMALL)
    floors = {
        "states_judged_after_a_history": (m.bins.get("hist_judged_states", 0), 3 * nh), "history_cells_with_remeshing": (m.bins.get("hist_cells_with_remeshing", 0), 0.8 * nh),
        "meshes": (total, 0.99 * (n + na)),
        "longest_axes_asked_concurrently": (ma.bins.get("axes_asked_concurrently", 0), 800 * npar),
        "nontrivial_meshes(all 8 copies evaluated)": (m.nontrivial, 0.99 * (n + na)),
        "builds_checked": (b.get("builds_checked", 0), 8.9 * regular),
        "axis_followed_under_rotation": (b.get("axis_followed_under_rotation", 0), 1.0 * regular),
        "meshes_with_unreferenced_node": (b.get("unreferenced_node", 0), 0.1 * regular),
        "flip_exhaustive_subsets_total": (b.get("flip_exhaustive_subsets_total", 0), 2 * 4096 + 256 + 16),
        "copies_at_D_over_r_100..1000": (b.get("copy_Dr_decade:2", 0), 0.05 * 3 * regular),
        "bases_at_D_over_r_100..1000": (b.get("base_Dr_decade:2", 0), 0.05 * regular),
        "pow2_bit_exact": (b.get("pow2_bit_exact", 0), 0.9 * regular),
    }
    for k in KINDS:
        floors["transform:" + k] = (b.get("transform:" + k, 0), 0.99 * regular)
    for f in FLIPS:
        floors["flip:" + f] = (b.get("flip:" + f, 0), 0.04 * 8 * regular)
    for f in FAMILIES:
        floors["family:" + f] = (b.get("family:" + f, 0), 0.04 * regular)
    for s in SMALL:
        floors["flip_exhaustive_meshes:" + s] = (b.get("flip_exhaustive_meshes:" + s, 0), 1)
    for d in range(-6, 1):
        floors["size_decade:%d" % d] = (b.get("size_decade:%d" % d, 0) + b.get("copy_size_decade:%d" % d, 0), 0.02 * 9 * regular)
    return R.finish(
        "C12", tier, seed, m,
        "one case = one closed genus-0 mesh (family x jitter <= 5% of the local edge x anisotropic stretch x size 1e-6..1e1 x "
        "D/r in {0} U [1e-2,1e3] x optional unreferenced node) built as base + 8 transformed copies (perm, translate, "
        "rotate_centre, rotate_origin, rigid, scale_pow2, similarity, inward_nocheck), each build with a winding-flip class, "
        "a cell class and a constructor drawn at random; every 40th case enumerates all 2^F winding subsets of a tetrahedron / "
        "octahedron / 12-triangle box / 12-triangle prism instead. A case is non-trivial when the base is a valid closed "
        "surface with positive volume and all 8 copies were built and evaluated (or all subsets were); distinct = distinct "
        "hashes of the reported (V, A, centroid) of base and copies. maxima *_over_tol are the largest observed error / "
        "tolerance ratios; bins count families, sizes, D/r decades, transforms, flip classes, cell classes, eigen-gap classes",
        t0,
        ["own long-double geometry (centroid-relative signed tetrahedra, cross-product areas), own Jacobi eigen-solver "
         "(residual recorded as own_pca_residual) and own topology oracle are correct",
         "volume tolerance 64 eps sqrt(F) (D+r)^3: forward error of any origin-relative signed-tetrahedron sum; area 1e-11 "
         "relative; centroid 1e-12 (D+r); bounding box and 2^k scaling laws bit-exact; axis 1-|cos| <= 1e-8 when eigen-gap >= 0.05",
         "invariance is judged up to the rounding of the transformed coordinates to double: |dV| <= delta A, |dA| <= delta P/2, "
         "delta = sqrt(3) u (D'+r') (the bound is self-checked on the oracle values: oracle_transform_drift_over_bound <= 1)",
         "initialize_cell_properties(false) is not required to repair windings (it is the documented 'no integrity check' "
         "path); only the reported volume/area/centroid/AABB/normal cache are checked on it"],
        floors=floors)
