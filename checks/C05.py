"""C05 - point-to-triangle distance kernel."""
import runner as R
from runner import Inv, Merged

ID = "C05"
MANIFEST = (
    "exploration",
    "runtime monitor: differential oracle (own long-double closest-point) over seeded per-Voronoi-region inputs; ASan/UBSan on the same workload",
    "Held on every one of the generated (point, triangle) pairs of the run: 4.5e5 (quick) / 5e7 (thorough) cases covering all 7 Voronoi regions, region boundaries, both sides, aspect ratios to 1e3, scales 1e-7..1e2, offsets to 1e3 diameters, each also re-evaluated after a joint random rigid motion. Exploration is the right level: the kernel is a pure function of 12 doubles, an independent oracle decides each evaluation, and sampling per region reaches every branch.",
    "Trusts the harness' own long-double closest-point routine and the stated forward-error tolerance; inputs outside the generated ranges (aspect > 1e3, degenerate triangles) are not covered.",
    "DESIGN.md section 3, C05",
)


def T(tier, quick, thorough):
    return quick if tier == "quick" else thorough


def run(tier, seed, t0):
    m = Merged(); wd = R.workdir("C05")
    n = T(tier, 400000, 50000000)
    R.run_inv(Inv("kernel", n, "plain", timeout=T(tier, 600, 7200)), seed, wd, m)
    R.run_inv(Inv("kernel", T(tier, 50000, 2000000), "asan", timeout=T(tier, 600, 7200), first=n), seed, wd, m)
    regions = ["interior", "edge_ab", "edge_bc", "edge_ca", "vertex_a", "vertex_b", "vertex_c"]
    floors = {"cases_in_region_" + r: (m.bins.get("region:" + r, 0), 0.01 * m.evaluations) for r in regions}
    return R.finish("C05", tier, seed, m,
                    "query point constructed per Voronoi region (7 regions incl. region boundaries, both sides of the plane) x distance "
                    "class (on the triangle, 1e-9..1e-4, comparable, far) x triangle aspect 1..1e3 x scale 1e-7..1e2 x offset from origin "
                    "0..1e3 diameters x random rigid embedding; a case is non-trivial when the triangle is non-degenerate "
                    "(area > 1e-7 diam^2); distinct = distinct input coordinate hashes; bins count the region as classified by the oracle",
                    t0, ["own long-double closest-point oracle (plane projection + 3 clamped segment projections) is correct",
                         "tolerance for the closest point is max(1e-9 L, 256 eps cond diam) with cond=(D/diam)^2 (diam^2/2A)^2: forward error of any dot-product evaluation"],
                    floors=floors)


