"""C05 - point-to-triangle distance kernel."""
import os
import runner as R
from checks.C15 import tsan_reports
from runner import Inv, Merged

ID = "C05"
MANIFEST = (
    "exploration",
    "runtime monitor: differential oracle (own long-double closest-point) over seeded per-Voronoi-region inputs; ASan/UBSan on the same workload",
    "Held on every one of the generated (point, triangle) pairs of the run: 4.5e5 (quick) / 5e7 (thorough) cases covering all 7 Voronoi regions, region boundaries, both sides, aspect ratios to 1e3, scales 1e-7..1e2, offsets to 1e3 diameters, each also re-evaluated after a joint random rigid motion. Exploration is the right level: the kernel is a pure function of 12 doubles, an independent oracle decides each evaluation, and sampling per region reaches every branch.",
    "Trusts the harness' own long-double closest-point routine and the stated forward-error tolerance; inputs outside the generated ranges (aspect > 1e3, degenerate triangles) are not covered.",
    "DESIGN.md section 3, C05",
)


def T(tier, quick, thorough):
    return quick if tier == "quick" else thorough


def run(tier, seed, t0):
    m = Merged(); wd = R.workdir("C05")
    n = T(tier, 400000, 50000000)
    R.run_inv(Inv("kernel", n, "plain", timeout=T(tier, 600, 7200)), seed, wd, m)
    R.run_inv(Inv("kernel", T(tier, 50000, 2000000), "asan", timeout=T(tier, 600, 7200), first=n), seed, wd, m)
    # concurrent evaluation (the contact phase calls the kernel from every thread): bitwise equal to the call made alone
    R.run_inv(Inv("kernel_par", T(tier, 12, 400), "plain", threads=16, shards=1, timeout=T(tier, 600, 7200), tag="kernel_par/plain/t16"), seed, wd, m)
    # the kernel called again on the same objects while they move; exact translations by 2^30 and 2^40
    R.run_inv(Inv("kernel_seq", T(tier, 20000, 2000000), "plain", timeout=T(tier, 600, 7200), first=3000000, tag="kernel_seq/plain"), seed, wd, m)
    # lattice-aligned geometry in the 48 axis-aligned orientations (exact zeros, normals along -x/-y/-z, points exactly on region boundaries)
    R.run_inv(Inv("kernel_lattice", T(tier, 200000, 20000000), "plain", timeout=T(tier, 600, 7200), first=4000000, tag="kernel_lattice/plain"), seed, wd, m)
    tenv = {"TSAN_OPTIONS": "halt_on_error=0:exitcode=0:log_path=%s:history_size=4:external_symbolizer_path=%s" % (os.path.join(wd, "tsan"), R.SYMBOLIZER)}
    R.run_inv(Inv("kernel_par", T(tier, 2, 40), "tsan", threads=8, shards=1, timeout=T(tier, 900, 7200), tag="kernel_par/tsan/t8", args=["--batch=3000", "--rounds=2"], env=tenv, first=1000), seed, wd, m)
    reps, total, norepo = tsan_reports(wd, R.builder.repo_dir())
    m.add_bins({"tsan_reports_total": total, "tsan_distinct_keys": len(reps)})
    for key, (cnt, sample) in sorted(reps.items()):
        m.violations.append({"key": "c05." + key, "msg": "%d reports, first:\n%s" % (cnt, sample), "obs": {"reports": cnt}, "inv": "tsan",
                             "replay": {"custom": True, "flavour": "tsan", "argv": ["python3", "check.py", "C05", "--tier", tier, "--seed", str(seed)], "note": "race reports vary from run to run: re-run the check"}})
    regions = ["interior", "edge_ab", "edge_bc", "edge_ca", "vertex_a", "vertex_b", "vertex_c"]
    floors = {"cases_in_region_" + r: (m.bins.get("region:" + r, 0), 0.01 * m.evaluations) for r in regions}
    floors["interior_cases_with_h_over_L_below_1e-5"] = (m.bins.get("interior_h_over_L_below_1e-5", 0), 0.002 * m.evaluations)
    floors["far_field_queries_1e3_to_1e5_edge_lengths"] = (m.bins.get("distclass:4", 0), 0.05 * m.evaluations)
    floors["calls_on_moving_persistent_objects"] = (m.bins.get("sequence_calls", 0), T(tier, 5e5, 5e7))
    floors["exact_translations"] = (m.bins.get("exact_translations", 0), T(tier, 3e4, 3e6))
    for r in regions:
        floors["lattice_cases_in_region_" + r] = (m.bins.get("lattice_region:" + r, 0), T(tier, 2000, 200000))
    floors["concurrent_calls_compared"] = (m.bins.get("concurrent_calls_compared", 0), T(tier, 1e6, 4e7))
    return R.finish("C05", tier, seed, m,
                    "query point constructed per Voronoi region (7 regions incl. region boundaries, both sides of the plane) x distance "
                    "class (on the triangle, 1e-9..1e-4, comparable, far, far field 1e3..1e5 edge lengths) x triangle aspect 1..1e3 x scale 1e-7..1e2 x offset from origin "
                    "0..1e3 diameters x random rigid embedding; a case is non-trivial when the triangle is non-degenerate "
                    "(area > 1e-7 diam^2); distinct = distinct input coordinate hashes; bins count the region as classified by the oracle",
                    t0, ["own long-double closest-point oracle (plane projection + 3 clamped segment projections) is correct",
                         "tolerance for the closest point is max(1e-9 L, 256 eps cond diam) with cond=(D/diam)^2 (diam^2/2A)^2: forward error of any dot-product evaluation",
                         "tolerance for the squared distance is min(1e-9 max(d2,L^2), 2 h dlt + dlt^2 + 1e-12 d2) with dlt = 256 eps cond diam + 16 eps M: a designated point within dlt of the closest point, formed in absolute coordinates of magnitude M"],
                    floors=floors)


