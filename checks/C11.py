"""C11 - remeshing is physically neutral, selective and always terminates."""
import runner as R
from runner import Inv, Merged

ID = "C11"
MANIFEST = (
    "exploration",
    "runtime monitor: synchronous pre/post callbacks on every split / merge / swap (hook H5) checked against conservation, midpoint, label-inheritance and selectivity rules, plus per-pass state comparison and an operation / CPU budget in forked children; integer-lattice meshes whose edges lie exactly on the bounds of the length band, judged with exact arithmetic",
    "Held on every operation and pass observed in the run (quick: >1e5 operations in >300 histories; thorough: tens of thousands of histories): per operation - total node momentum conserved to 1e-12, new node at the midpoint of an edge present in the edge set, endpoints of a split unmoved, the four sub-triangles carry the parent's label, merged node carries the sum of momenta, splits only of edges longer than l_max and merges only of edges shorter than l_min inside a pass; per pass - surviving nodes bit-identical, momentum conserved, split-only passes leave own volume and area unchanged, meshes the oracle classifies as conforming see zero operations and an identical state, operation count within 100(E+sum(len/l_max)^2)+1e4; edges exactly as long as l_min or l_max (quick: 4 000 lattice meshes, > 8 000 such edges each side) are neither split nor collapsed; a pass that exceeds the CPU budget (120 s, >100x the slowest legitimate case) counts as 'does not return'. Exploration is the right level: the rules are exact per event, the unbounded part is the space of meshes and node states.",
    "Same generator limits as C01 (cells thicker than 2*l_max, realistic normal staleness); hangs are decided against a CPU budget, not proved impossible; crashes other than time-outs are inconclusive (owned by C10).",
    "DESIGN.md section 3, C11",
)


def T(tier, q, t):
    return q if tier == "quick" else t


def run(tier, seed, t0):
    m = Merged(); wd = R.workdir(ID)
    n = T(tier, 320, 80000)
    # a different PRNG stream than C01 (first=10^6) so that the two checks do not replay the same histories
    R.run_inv(Inv("remesh", n, "plain", args=["--oracle=c11", "--max_faces=%d" % T(tier, 400, 1500), "--max_passes=%d" % T(tier, 14, 25), "--cpu_limit=%d" % T(tier, 120, 400)], first=1000000, timeout=T(tier, 1500, 6 * 3600)), seed, wd, m)
    # many cells refined at once (refine_meshes, 16 threads) against the same cells refined one after another
    npar = T(tier, 12, 600)
    R.run_inv(Inv("remesh_par", npar, "plain", threads=16, shards=1, first=5000000, timeout=T(tier, 1500, 6 * 3600), tag="remesh_par/plain/t16"), seed, wd, m)
    # edges exactly at a bound of the length band (integer-lattice meshes, bounds equal to edge lengths, exact arithmetic in the monitor)
    nlat = T(tier, 4000, 400000)
    ml = Merged(); R.run_inv(Inv("remesh_lattice", nlat, "plain", first=6000000, timeout=T(tier, 1500, 6 * 3600)), seed, wd, ml)
    n_hist_nt = m.nontrivial
    m.violations += ml.violations; m.inconclusive += ml.inconclusive; m.harness_failures += ml.harness_failures; m.evaluations += ml.evaluations; m.nontrivial += ml.nontrivial; m.sigs |= ml.sigs; m.distinct_unlisted += ml.distinct_unlisted
    m.add_bins(ml.bins)
    # time-outs inside refinement are this property's violations; other crashes stay inconclusive
    for v in m.violations:
        if v.get("timeout"):
            v["crash"] = False; v["key"] = "c11.pass_does_not_return"
    floors = {
        "nontrivial_histories": (n_hist_nt, 0.4 * n),
        "lattice_meshes_with_edges_exactly_at_a_bound": (ml.nontrivial, 0.4 * nlat),
        "lattice_edges_exactly_at_lmax": (m.bins.get("lattice_edges_exactly_at_lmax", 0), 2 * nlat), "lattice_edges_exactly_at_lmin": (m.bins.get("lattice_edges_exactly_at_lmin", 0), 2 * nlat),
        "lattice_splits_judged_exactly": (m.bins.get("lattice_splits_judged_exactly", 0), 20 * nlat), "lattice_merges_judged_exactly": (m.bins.get("lattice_merges_judged_exactly", 0), 5 * nlat),
        "cells_refined_concurrently": (m.bins.get("parallel_refinement_cells", 0), 40 * npar),
        "splits": (m.bins.get("splits", 0), 1000), "merges": (m.bins.get("merges", 0), 1000), "swaps_done": (m.bins.get("swaps_done", 0), 20),
        "conforming_meshes_checked": (m.bins.get("conforming_checked", 0), 3), "repeated_pass_on_conforming_mesh": (m.bins.get("repeated_pass_on_conforming_mesh", 0), 40), "passes": (m.bins.get("passes", 0), 500),
    }
    return R.finish(ID, tier, seed, m,
                    "same history generator as C01 (different PRNG stream) plus random momenta (1e-12..1e3, 20% zero) and random face labels (4 types); "
                    "non-trivial = at least one split and one merge; distinct = hash of operation-kind sequence and final (V,F)",
                    t0, ["own midpoint / momentum sums in long double", "conforming = all edges strictly inside [l_min,l_max] with 1e-9 margin and own quality score > 0.2(1+1e-9) when swaps are on"],
                    floors=floors)
