"""C03 - a time step advances every node by the documented integration law."""
from concurrent.futures import ThreadPoolExecutor
import runner as R
from runner import Inv, Merged

ID = "C03"
MANIFEST = (
    "exploration",
    "runtime monitor: differential oracle (own long-double semi-implicit / overdamped Euler reference, own node mass) on the state "
    "before and after every call of update_nodes_positions, in all six compile-time configurations, 1 and 8 OpenMP threads",
    "Held on every call of time_integration_scheme::update_nodes_positions of the run: 200 (quick) / 20 000 (thorough) generated populations "
    "per build x 6 builds (contact model 0/1/2 x dynamic model 0/1), 1-20 consecutive calls each, 1-8 cells of all five classes, random "
    "forces and momenta, 0-50 % of the nodes mutually coupled across non-static cells, free node slots, dt / damping / density / size over "
    "10 decades each, positions up to 1e4 cell sizes from the origin. Every live node of every non-static cell is compared with the closed-form law "
    "(relative 1e-12 on the increment), every force accumulator with exact zero, every static-cell and free slot bit for bit, the "
    "simulated time with n*dt. Exploration is the right level: the update is a closed-form map of the state, so an independent "
    "re-implementation decides each call exactly.",
    "Trusts the harness' own reference law, get_volume() and the generated mass density; couplings that are not mutual, or that involve "
    "static cells or more than two nodes, are not generated (C08's subject); kinetic energy is not judged (not in the statement); "
    "parameter combinations that overflow double are outside the generated range.",
    "DESIGN.md section 3, C03",
)

CONFIGS = ["c0d0", "c1d0", "c2d0", "c0d1", "c1d1", "c2d1"]
CLASSES = ["epithelial", "ecm", "lumen", "nucleus", "static"]


def T(tier, quick, thorough):
    return quick if tier == "quick" else thorough


def run(tier, seed, t0):
    m = Merged(); wd = R.workdir("C03")
    n1 = T(tier, 140, 14000); n8 = T(tier, 60, 6000)
    # the six builds are independent: compile them side by side when the cache is cold (each has its own lock)
    with ThreadPoolExecutor(max_workers=3) as ex:
        list(ex.map(lambda cfg: R.builder.build("plain", cfg, "vh"), CONFIGS))
    for cfg in CONFIGS:
        R.run_inv(Inv("integrate", n1, "plain", config=cfg, threads=1, tag="integrate/plain/%s/t1" % cfg, timeout=T(tier, 600, 7200)), seed, wd, m)
        R.run_inv(Inv("integrate", n8, "plain", config=cfg, threads=8, first=n1, tag="integrate/plain/%s/t8" % cfg, timeout=T(tier, 600, 7200)), seed, wd, m)
    b = m.bins
    floors = {}
    for cfg in CONFIGS:
        g = lambda k: b.get(cfg + ":" + k, 0)
        n = n1 + n8
        floors[cfg + " populations run with 1 thread"] = (b.get("cases@integrate/plain/%s/t1" % cfg, 0), n1)
        floors[cfg + " populations run with 8 threads"] = (min(b.get("cases@integrate/plain/%s/t8" % cfg, 0), g("threads=8")), n8)
        floors[cfg + " uncoupled node updates judged"] = (g("uncoupled_node_steps_checked"), 200 * n)
        floors[cfg + " displacements above the rounding of the position"] = (g("resolvable_displacements"), 50 * n)
        floors[cfg + " static cells observed"] = (g("static_cells"), 0.4 * n)
        floors[cfg + " static-cell node slots compared"] = (g("static_node_steps_checked"), 50 * n)
        floors[cfg + " free slots of non-static cells compared"] = (g("free_slots_in_nonstatic_cells_checked"), 3 * n)
        floors[cfg + " no reference value overflowed"] = (1 if g("skipped_nonfinite_reference") == 0 else 0, 1)
        for cl in CLASSES:
            floors[cfg + " cells of class " + cl] = (g("cells_of_class:" + cl), 0.3 * n)
        if cfg[1] != "0":
            floors[cfg + " populations with mutually coupled pairs"] = (g("populations_with_coupled_pairs"), 0.3 * n)
            floors[cfg + " coupled pair updates judged"] = (g("coupled_pair_steps_checked"), 20 * n)
            if cfg.startswith("c2"):
                floors[cfg + " three-node junction updates judged"] = (g("junction_steps_checked"), 5 * n)
    return R.finish("C03", tier, seed, m,
                    "population = 1-8 cells (classes epithelial/ecm/lumen/nucleus/static, random closed meshes <= 160 faces, 0-3 free node slots in 40 % "
                    "of the cells) x size 1e-6..1e1 x dt 1e-8..1e2 x density 1e-3..1e7 (x 0.1..10 per cell) x damping*dt/mass 1e-8..1e2 x "
                    "displacement/size 1e-10..1e1 x force impulse/momentum 1e-6..1e6 x offset from the origin 0 or 0.1..1e4 sizes x coupled "
                    "fraction 0..50 % x 1-20 calls (new random forces before every call, 10 % of the calls with all forces zero, 5 % of the nodes with "
                    "exactly zero force / momentum); a population is non-trivial when it has a non-static cell and at least one reference displacement "
                    "exceeds 1e3 ulp of the position; distinct = distinct hashes of (config, final positions and momenta of every node slot)",
                    t0, ["own long-double reference p' = p + (f - g p/m) dt, x' = x + p' dt/m (dynamic model 0), x' = x + f dt/g (dynamic model 1), m = density * get_volume() / own count of live nodes",
                         "coupled pair: both nodes move by P' dt/m_mean with P = mean momentum, F = mean force, m_mean = mean node mass; sum of momenta advances by 2 (F - g P/m_mean) dt; only the sum of the two momenta is judged, not how it is split",
                         "tolerance = 1e-12 x (sum of the magnitudes of the terms of the increment) + 16 ulp-units (16 x 2^-52) of the magnitude of the updated quantity (true rounding bound: 0.5); time: 16 n 2^-52 relative (true bound (n-1) 2^-53)",
                         "each call is judged against the state observed immediately before it, so errors do not accumulate over the 1-20 calls"],
                    floors=floors)
