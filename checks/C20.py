"""C20 - spatial grids (uspg_3d / uspg_4d) index every in-range point and never miss a neighbour."""
import runner as R
from runner import Inv, Merged

ID = "C20"
MANIFEST = (
    "exploration",
    "runtime monitor: seeded grids (both templates) driven through the public API in forked children; index-range comparison, "
    "read-back of voxels, brute-force long-double neighbour oracle, full-content multiset comparison; part of the cases under "
    "ASan+UBSan with _GLIBCXX_ASSERTIONS so that an out-of-range voxel access inside the grid code aborts",
    "Held on every generated grid of the run: 2e3 (quick) / 1e6 (thorough) grids x up to 1e4 points: uspg_4d<int>, uspg_3d<int>, "
    "uspg_3d<unsigned short>; voxel sizes 1e-7..10 (decimal, power-of-two, generic), box coordinates 1e-7..1e6 (origin, straddling, "
    "offset, grid-aligned), extents that are exact multiples / multiples up to a few ulps / up to the padding constant / generic, "
    "aspect ratios to 1e3, <= 2e5 voxels; all 8 corners, 12 edges, 6 faces, interior voxel boundaries (+-1 ulp), random interior "
    "points and partner points at 0..1 voxel size (incl. just below the threshold). Exploration is the right level: the grid is a "
    "pure function of (box, voxel size, points) and an independent oracle decides every evaluation.",
    "Sampled, not exhaustive; neighbour pairs whose distance is within 4 eps (N+2) (relative) of one voxel size are threshold ties and "
    "are not judged; voxel counts above 2e5 (and the 32-bit product of the counts) are not exercised; the contact models' own copies "
    "of the index formula (contact_model_abstract::store_face_in_uspg and the three resolve loops) are outside this check (C06/C10).",
    "DESIGN.md section 3, C20",
)


def T(tier, quick, thorough):
    return quick if tier == "quick" else thorough


def run(tier, seed, t0):
    m = Merged(); wd = R.workdir("C20")
    n = T(tier, 1500, 950000)
    na = T(tier, 500, 50000)
    R.run_inv(Inv("grid", n, "plain", timeout=T(tier, 900, 5400)), seed, wd, m)
    R.run_inv(Inv("grid", na, "asanassert", timeout=T(tier, 900, 5400), first=n), seed, wd, m)
    # the same with 8 threads: the neighbourhood queries are repeated concurrently and compared with the answers given alone
    R.run_inv(Inv("grid", T(tier, 200, 20000), "plain", threads=8, shards=2, first=6000000, timeout=T(tier, 900, 5400), tag="grid/plain/t8"), seed, wd, m)
    # grids of more than a million voxels, with 1 and with 7 threads (7 divides few voxel counts)
    nh = T(tier, 16, 400)
    R.run_inv(Inv("grid", nh, "plain", args=["--huge=1"], threads=7, shards=2, first=4000000, timeout=T(tier, 900, 5400), tag="grid/plain/huge/t7"), seed, wd, m)
    R.run_inv(Inv("grid", nh // 2, "plain", args=["--huge=1"], threads=1, shards=2, first=4100000, timeout=T(tier, 900, 5400), tag="grid/plain/huge/t1"), seed, wd, m)
    ev = max(1, m.evaluations)
    b = lambda k: m.bins.get(k, 0)
    floors = {
        "grids_beyond_a_million_voxels": (m.bins.get("grids_beyond_a_million_voxels", 0), 1.4 * nh),
        "grids": (m.evaluations, 0.99 * (n + na)),
        "neighbourhood_queries_asked_concurrently": (m.bins.get("concurrent_queries", 0), 20000),
        "grids_storing_the_extreme_values_of_the_object_type": (m.bins.get("grids_storing_the_extreme_values_of_the_object_type", 0), 0.25 * (n + na)),
        "max_corner_points": (b("corner:max"), 0.7 * ev),
        "min_corner_points": (b("corner:min"), 0.7 * ev),
        "mixed_corner_points": (b("corner:mixed"), 4 * ev),
        "edge_points": (b("index_checked:edge"), 8 * ev),
        "face_points": (b("index_checked:face"), 4 * ev),
        "interior_voxel_boundary_points": (b("index_checked_origin:voxel_boundary"), 8 * ev),
        "placed_corner_points": (b("placed:corner"), 0.5 * ev),
        "placed_objects": (b("placed_objects"), 50 * ev),
        "neighbour_pairs_in_other_voxel": (b("neighbour_pairs:other_voxel"), 50 * ev),
        "neighbour_pairs_just_below_threshold": (b("neighbour_pairs:0.99<=d<1"), 5 * ev),
        "queries_on_corners": (b("query:corner"), 0.5 * ev),
        "queries_on_edges": (b("query:edge"), 2 * ev),
        "queries_on_faces": (b("query:face"), 2 * ev),
        "grids_all_extents_exact_multiples": (b("grid_extents:all_exact_multiples"), 0.08 * ev),
        "grids_all_extents_non_multiples": (b("grid_extents:all_non_multiples"), 0.08 * ev),
        "asan_assert_grids": (b("cases@grid/asanassert/c1d0"), 0.99 * na),
    }
    for v in ("uspg_4d_int", "uspg_3d_int", "uspg_3d_ushort"):
        floors["variant_" + v] = (b("variant:" + v), (0.2 if v != "uspg_3d_ushort" else 0.04) * ev)
    for c in ("ctor", "update_dimensions_reuse", "move_assign"):
        floors["construction_" + c] = (b("construction:" + c), 0.06 * ev)
    for e in ("multiple", "nonmultiple", "multiple_minus_pad", "multiple_pm_ulps", "tiny_over_multiple"):
        floors["axis_extent_" + e] = (b("axis_extent:" + e), 0.1 * ev)
    for d in range(-7, 1):
        floors["voxel_size_decade_%d" % d] = (b("voxel_size_decade:%d" % d), 0.04 * ev)
    for d in range(-7, 6):
        floors["coordinate_decade_%d" % d] = (b("coordinate_decade:%d" % d), 0.006 * ev)
    for d in range(0, 3):
        floors["aspect_decade_%d" % d] = (b("aspect_decade:%d" % d), 0.08 * ev)
    for d in range(0, 4):
        floors["points_decade_%d" % d] = (b("points_decade:%d" % d), 0.1 * ev)
    for p in ("origin", "straddle", "offset", "offset_aligned"):
        floors["position_" + p] = (b("position:" + p), 0.05 * ev)
    return R.finish("C20", tier, seed, m,
                    "one case = one grid (uspg_4d<int> / uspg_3d<int> / uspg_3d<unsigned short>; built by constructor, by update_dimensions on a "
                    "used grid, or by move assignment) x voxel size 1e-7..10 x box position (origin / straddling / offset to 1e6 / grid-aligned) x "
                    "per-axis extent class (exact multiple, multiple -eps, multiple +-1..3 ulp, generic, barely over a multiple) x aspect to 1e3 x "
                    "1..1e4 stored points (8 corners, 12 edges, 6 faces, voxel boundaries, random, partners at <= 1 voxel size); a case is "
                    "non-trivial when at least one object was placed and one neighbourhood was queried; distinct = distinct hashes of "
                    "(box, voxel size, observed voxel counts, points); bins count points by class at each oracle (index / placed / queried), "
                    "neighbour pairs by distance class, construction and placement paths",
                    t0, ["brute-force neighbour oracle in long double over the stored points is correct",
                         "pairs with distance in (vs(1-4 eps (N+2)), vs] are threshold ties (two roundings of the index quotient) and are not judged",
                         "one object per voxel is stored in uspg_3d (it overwrites by design); which voxel is taken from the grid's own index after it passed the range check",
                         "a crash, sanitizer report or libstdc++ assertion inside a grid call is an out-of-range access and therefore this property's violation"],
                    floors=floors, own_crashes=True)
