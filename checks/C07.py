"""C07 - contact forces are reciprocal, short-ranged and push overlapping cells apart."""
import os
import runner as R
from runner import Inv, Merged
from checks.C15 import tsan_reports

ID = "C07"
MANIFEST = (
    "exploration",
    "runtime monitor: per-pair micro-scenes (one node against one triangle of another cell, all 25 ordered class pairs, signed distance swept through the cut-offs) judged by an independent closest-point oracle for reciprocity, range and direction; tissue-level conservation / range / same-cell checks after the real contact phase; in each of the three contact models",
    "Held on every scene of the run (quick: 30 000 micro-scenes + 150 tissues per contact model; thorough: 2 10^6 + thousands): force on the node equals minus the sum of the three face-node forces to 1e-12, no other node is touched, no force beyond the larger cut-off and no coupling beyond the adhesion cut-off or between non-epithelial cells; with positive repulsion strength a node on the forbidden side (inside an ordinary cell; outside for an epithelial node facing an ECM face and for a nucleus node facing its cell) is pushed back toward the surface and the triangle toward the node; over whole tissues the contact forces sum to zero (1e-10 of sum |F|), every loaded node has an element of another cell within the cut-off, couplings join different epithelial cells within the adhesion cut-off, and a single cell exerts no contact force on itself.",
    "Direction is judged for interior-region closest points with a margin of 1e-9 of the edge length from the surface and the cut-off; the spring model (0) applies repulsion within the repulsion cut-off, the coupling models (1, 2) within the larger cut-off, as their rules state.",
    "DESIGN.md section 3, C07",
)


def T(tier, q, t):
    return q if tier == "quick" else t


def run(tier, seed, t0):
    m = Merged(); wd = R.workdir(ID)
    nm = T(tier, 30000, 2000000); nt = T(tier, 150, 5000)
    for cfg in ("c1d0", "c0d0", "c2d0"):
        R.run_inv(Inv("contact", nm, "plain", cfg, args=["--mode=micro"], timeout=T(tier, 1800, 6 * 3600), tag="micro/%s" % cfg), seed, wd, m)
        R.run_inv(Inv("contact", nt, "plain", cfg, args=["--mode=tissue", "--max_cells=6", "--prefer_c07=1"], threads=2, first=500000, timeout=T(tier, 1800, 6 * 3600), tag="tissue/%s" % cfg), seed, wd, m)
    R.run_inv(Inv("contact", nm // 10, "asan", "c1d0", args=["--mode=micro"], first=nm, timeout=T(tier, 1800, 6 * 3600), tag="micro/c1d0/asan"), seed, wd, m)
    # dense clusters, 16 threads, repeated evaluation: a lost update in the concurrent force accumulation shows as a net force now and then
    for cfg in ("c1d0", "c0d0", "c2d0"):
        R.run_inv(Inv("contact", T(tier, 6, 200), "plain", cfg, args=["--mode=tissue", "--dense=1", "--max_cells=20", "--no_epi_pairs=1", "--prefer_c07=1", "--repeat=%d" % T(tier, 12, 40)], threads=16, shards=1, first=700000,
                      timeout=T(tier, 1800, 6 * 3600), tag="dense/%s/t16" % cfg), seed, wd, m)
    # ThreadSanitizer on tissues without two epithelial cells (the coupling code of epithelial pairs reads partner state without its lock;
    # that is outside this property): every force accumulation between interacting cells must be atomic
    tenv = {"TSAN_OPTIONS": "halt_on_error=0:exitcode=0:log_path=%s:history_size=4:external_symbolizer_path=%s" % (os.path.join(wd, "tsan"), R.SYMBOLIZER)}
    R.run_inv(Inv("contact", T(tier, 6, 100), "tsan", "c1d0", args=["--mode=tissue", "--dense=1", "--max_cells=8", "--no_epi_pairs=1", "--repeat=2"], threads=8, shards=2, first=800000,
                  timeout=T(tier, 1800, 6 * 3600), env=tenv, tag="dense/c1d0/tsan"), seed, wd, m)
    reps, total, norepo = tsan_reports(wd, R.builder.repo_dir())
    m.add_bins({"tsan_reports_total": total, "tsan_distinct_keys": len(reps)})
    for key, (cnt, sample) in sorted(reps.items()):
        m.violations.append({"key": "c07." + key, "msg": "%d reports, first:\n%s" % (cnt, sample), "obs": {"reports": cnt}, "inv": "tsan",
                             "replay": {"custom": True, "flavour": "tsan", "argv": ["python3", "check.py", "C07", "--tier", tier, "--seed", str(seed)], "note": "race reports vary from run to run: re-run the check"}})
    m.violations = [v for v in m.violations if v.get("crash") or v["key"].startswith("c07.")]
    floors = {"scenes_with_force_or_coupling": (m.nontrivial, 0.1 * m.evaluations), "forbidden_side_cases": (m.bins.get("forbidden_side_cases", 0), 0.2 * 3 * nm),
              "coupled_cases": (m.bins.get("coupled_cases", 0) + m.bins.get("couplings", 0), 20), "single_cell_tissues": (m.bins.get("single_cell_tissues", 0), 0),
              "repeated_runs_16_threads": (m.bins.get("repeated_runs", 0), 150), "second_phase_histories": (m.bins.get("second_phase_histories", 0), 10)}
    for a in range(5):
        for b in range(5):
            floors["pair_class%d_on_class%d" % (a, b)] = (m.bins.get("pair:class%d_on_class%d" % (a, b), 0), 0.02 * 3 * nm)
    return R.finish(ID, tier, seed, m,
                    "micro-scene = (class of node's cell, class of face's cell) x random body and triangle x query point over a random region of the triangle x signed "
                    "distance in [-1, 2] larger cut-offs (10% exactly at +-cut-off) x strengths (15% zero) x offsets from the origin; tissue = as in C06 with <= 6 cells; "
                    "non-trivial = a force or a coupling was produced; distinct = hash of (distance, force, class pair)",
                    t0, ["own closest-point oracle in long double", "outward orientation of the cells after initialisation (C12)"], floors=floors)
