"""C06 - contact detection finds every node-face pair within the interaction range."""
import runner as R
from runner import Inv, Merged

ID = "C06"
MANIFEST = (
    "exploration",
    "runtime monitor: the set of node-face pairs presented to the contact rules (hook H6) is compared with a brute-force enumeration by an independent long-double closest-point oracle (completeness), and the resulting forces with the same rules applied to all pairs without the spatial grid (differential), on seeded tissues, in each of the three contact models (compile-time configurations c0/c1/c2)",
    "Held on every tissue of the run (quick: 150 tissues x 3 contact models, >10^5 in-range pairs; thorough: thousands): clusters of 2-8 overlapping / touching cells of all five classes, nucleus inside a cell, cells inside an ECM box, touching rows; random sizes, mesh resolutions much coarser and finer than 3 l_min, cut-offs and l_min generic and powers of two, tissues at the origin, straddling it, 10..10^4 units away and on exact multiples of the voxel size, nodes snapped onto half-voxel planes, 1 and 4 threads. (A) every cross-cell pair with true distance < cut-off(1-1e-9) that passes the model's documented pre-gates was presented to the narrow phase; (B) for tissues without order-dependent coupling decisions the forces equal, to 1e-9 of the largest force, those of the model's own rule applied to all pairs single-threaded. Exploration is the right level: the broad phase is a pure function of the geometry, decided exactly per tissue by enumeration.",
    "Pre-gates (node curvature threshold, node-normal . face-normal < cos 90) are taken from the model as documented and evaluated from public getters; (B) skips tissues with two epithelial cells in models 1/2 (couplings are order dependent by design) and, in model 0, tissues whose epithelial face types differ in strength (contacts relabel faces); crashes are inconclusive here (owned by C10/C20).",
    "DESIGN.md section 3, C06",
)


def T(tier, q, t):
    return q if tier == "quick" else t


def run(tier, seed, t0, prefix="c06.", pid=ID, manifest_rule=None):
    m = Merged(); wd = R.workdir(pid)
    n = T(tier, 150, 30000)
    for cfg in ("c1d0", "c0d0", "c2d0"):
        R.run_inv(Inv("contact", n, "plain", cfg, args=["--mode=tissue"], threads=1, timeout=T(tier, 1800, 6 * 3600), tag="tissue/%s/t1" % cfg), seed, wd, m)
        R.run_inv(Inv("contact", n // 3, "plain", cfg, args=["--mode=tissue"], threads=4, first=n, timeout=T(tier, 1800, 6 * 3600), tag="tissue/%s/t4" % cfg), seed, wd, m)
    R.run_inv(Inv("contact", n // 5, "asan", "c1d0", args=["--mode=tissue"], threads=2, first=2 * n, timeout=T(tier, 1800, 6 * 3600), tag="tissue/c1d0/asan"), seed, wd, m)
    m.violations = [v for v in m.violations if v.get("crash") or v["key"].startswith(prefix)]
    floors = {"tissues_with_pairs_in_range": (m.nontrivial, 0.7 * m.evaluations), "pairs_within_cutoff": (m.bins.get("pairs_within_cutoff", 0), 100000),
              "all_pairs_comparisons": (m.bins.get("all_pairs_comparisons", 0), 0.3 * m.evaluations), "pairs_gated_out": (m.bins.get("pairs_gated_out", 0), 100),
              "family_cluster": (m.bins.get("family:cluster", 0), 20), "family_nucleus_in_cell": (m.bins.get("family:nucleus_in_cell", 0), 10), "family_cell_in_ecm": (m.bins.get("family:cell_in_ecm", 0), 10), "family_row_touching": (m.bins.get("family:row_touching", 0), 10),
              "tissues_with_unused_slots_before_last_cell": (m.bins.get("tissues_with_unused_slots_before_last_cell", 0), 0.1 * m.evaluations),
              "tissues_produced_by_the_divider": (m.bins.get("tissues_produced_by_divisions", 0), 0.05 * m.evaluations),
              "second_evaluation_with_same_model_object": (m.bins.get("model_object_reused", 0), 0.5 * m.evaluations)}
    return R.finish(pid, tier, seed, m,
                    "tissue = family (cluster / nucleus in cell / cell in ECM / touching row) x 2-8 cells x classes x sizes x mesh families x (l_min, cut-offs) generic or powers "
                    "of two x placement (origin, straddling, far to 3e6 cell sizes, voxel multiples, nodes on half-voxel planes) x cells with unused node/face slots left by "
                    "edge collapses x second evaluation with the same model object on the re-oriented tissue x contact model x threads; non-trivial = at least one "
                    "cross-cell node-face pair lies within the cut-off; distinct = hash of (pairs in range, pairs presented, nodes with force, sum |F|)",
                    t0, ["own closest-point oracle in long double", "hook H6 records each call of the narrow phase per thread"], floors=floors)
