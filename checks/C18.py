"""C18 - every XML parameter reaches the simulation with its value and meaning intact."""
import runner as R
from runner import Inv, Merged

ID = "C18"
MANIFEST = (
    "exploration",
    "runtime monitor: generated parameter sets -> own XML emitter -> parameter_reader -> field-by-field differential comparison with an own number parser; "
    "enumerated single-omission / sign-violation files -> exception oracle; paired one-cell solver runs from two files differing in one value, "
    "observed through a solver subclass, friend testers and the phase hook against own models; the file through simulation_initializer(parameter file) as main() does it (reported parameters, perform_initial_triangulation governs the input geometry); reader parts repeated under ASan/UBSan",
    "Held on every generated file of the run: 800 (quick) / 55 000 (thorough) random admissible files (1-6 cell types x 1-5 face types, values over 600 decades, "
    "10+ number notations, INF/inf/Inf, zeros, shuffled tags, unknown and decoy tags, comments, CRLF), each of the 32 tags + 4 structural elements omitted and each of "
    "the 16 constraints the reader documents violated (>= 3 positions / 4-6 values each), and 20 tags exercised in paired solver runs "
    "(exact for time step, duration, sampling period; 1e-9 for densities, moduli, tensions). Exploration is the right level: the reader is a finite table of "
    "tag->field wirings and validation rules, each of which every run reaches many times; values and layouts are sampled.",
    "Trusts std::from_chars as number oracle (cross-checked against strtod on every value) and the own force / pressure / integration models of part B. Not covered: malformed or empty "
    "elements (C17), meaning of adherence/repulsion strength, surface_coupling_max_curvature, global ids in a run (need contacts / files: C06, C07, C16, C19); "
    "cut-offs are observed as stored in the contact model, not through a contact.",
    "DESIGN.md section 3, C18",
)

NUM = ["input_mesh_file_path", "output_mesh_folder_path", "damping_coefficient", "perform_initial_triangulation", "simulation_duration", "time_step",
       "sampling_period", "min_edge_length", "contact_cutoff_adhesion", "contact_cutoff_repulsion", "enable_edge_swap_operation"]
CELL = ["cell_type_name", "global_cell_id", "cell_mass_density", "cell_bulk_modulus", "max_inner_pressure", "area_elasticity_modulus", "avg_division_volume",
        "std_division_volume", "avg_growth_rate", "std_growth_rate", "target_isoperimetric_ratio", "angle_regularization_factor", "min_vol",
        "surface_coupling_max_curvature"]
FACE = ["face_type_name", "global_face_id", "surface_tension", "adherence_strength", "repulsion_strength", "bending_modulus"]
STRUCT = ["section:numerical_parameters", "section:cell_types", "no_cell_type", "no_face_type"]
# constraints stated by the reader's own diagnostics (src/io/parameter_reader.cpp)
SIGN = ["damping_coefficient", "simulation_duration", "time_step", "sampling_period", "sampling_period_lt_time_step", "min_edge_length", "contact_cutoff_adhesion",
        "contact_cutoff_repulsion", "target_isoperimetric_ratio", "surface_coupling_max_curvature", "global_face_id", "surface_tension", "adherence_strength",
        "repulsion_strength", "bending_modulus"]
MEANING = ["time_step", "simulation_duration", "sampling_period", "min_edge_length", "cell_mass_density", "damping_coefficient", "cell_bulk_modulus", "max_inner_pressure",
           "surface_tension", "area_elasticity_modulus", "target_isoperimetric_ratio", "bending_modulus", "angle_regularization_factor", "avg_growth_rate", "std_growth_rate",
           "avg_division_volume", "min_vol", "contact_cutoff_adhesion", "contact_cutoff_repulsion", "enable_edge_swap_operation"]
CATALOGUE = len(NUM) + len(CELL) + 1 + len(FACE) + len(STRUCT) + 6 * 7 + 4 * 7 + 4      # = 110, printed by the harness as maxima.catalogue_size


def T(tier, quick, thorough):
    return quick if tier == "quick" else thorough


def run(tier, seed, t0):
    m = Merged(); wd = R.workdir("C18")
    to = T(tier, 900, 14400)
    n_read = T(tier, 600, 50000); n_read_asan = T(tier, 200, 5000)
    R.run_inv(Inv("params", n_read, "plain", args=["--part=reader"], timeout=to, tag="params/reader/plain"), seed, wd, m)
    R.run_inv(Inv("params", n_read_asan, "asan", args=["--part=reader"], timeout=to, tag="params/reader/asan", first=n_read), seed, wd, m)
    n_neg = CATALOGUE * T(tier, 6, 30)
    R.run_inv(Inv("params", n_neg, "plain", args=["--part=neg"], timeout=to, tag="params/neg/plain"), seed, wd, m)
    R.run_inv(Inv("params", CATALOGUE, "asan", args=["--part=neg"], timeout=to, tag="params/neg/asan", first=n_neg), seed, wd, m)
    per_tag = T(tier, 20, 200)
    R.run_inv(Inv("params", len(MEANING) * per_tag, "plain", args=["--part=meaning"], timeout=to, tag="params/meaning/plain"), seed, wd, m)
    # the file through the constructor main() uses (simulation_initializer(parameter file)): reported parameters, and whether the input geometry is triangulated anew
    n_start = T(tier, 240, 20000)
    R.run_inv(Inv("params", n_start, "plain", args=["--part=startup"], timeout=to, first=3000000, tag="params/startup/plain"), seed, wd, m)

    b = m.bins
    if b.get("oracle_self_disagreement", 0):
        m.harness_failures.append("own number parser (from_chars) and strtod disagree on %d generated values" % b["oracle_self_disagreement"])
    if m.maxima.get("catalogue_size") not in (None, CATALOGUE):
        m.harness_failures.append("catalogue size in the harness (%s) differs from checks/C18.py (%d)" % (m.maxima.get("catalogue_size"), CATALOGUE))
    floors = {"startup:input_cells_kept_as_they_are": (b.get("startup:input_cells_kept_as_they_are", 0), 0.5 * n_start), "startup:cells_triangulated_anew": (b.get("startup:cells_triangulated_anew", 0), 0.4 * n_start),
              "sampling_period_not_a_multiple_of_time_step": (b.get("sampling_period_not_a_multiple_of_time_step", 0), 3),
              "contact_probes_between_adhesion_and_repulsion_cutoff": (b.get("contact_cutoff_probes_between_the_two_cutoffs", 0), 5)}
    for t in NUM + CELL + FACE:
        floors["read:" + t] = (b.get("read:" + t, 0), n_read)
    for t in NUM + CELL + ["face_types"] + FACE:
        floors["omit:" + t] = (b.get("omit:" + t, 0), 3)
    for t in STRUCT:
        floors["struct:" + t] = (b.get("struct:" + t, 0), 3)
    for t in SIGN:
        floors["sign:" + t] = (b.get("sign:" + t, 0), 9)
    for t in ("max_inner_pressure", "avg_division_volume"):
        for f in ("INF", "inf", "Inf"):
            floors["inf_seen:%s:%s" % (t, f)] = (b.get("inf_seen:%s:inf:%s" % (t, f), 0), 3)
    for k in range(1, 7):
        floors["files_with_%d_cell_types" % k] = (b.get("cell_types:%d" % k, 0), 5)
    for k in range(1, 6):
        floors["cell_types_with_%d_face_types" % k] = (b.get("face_types:%d" % k, 0), 5)
    for k in ("layout:shuffled_sections", "layout:extras", "layout:decoy_tags", "layout:comments", "layout:crlf", "layout:cell_types_before_numerical"):
        floors[k] = (b.get(k, 0), 5)
    for k in ("fmt:g17", "fmt:e", "fmt:E", "fmt:plus_g17", "fmt:e_pad", "fmt:leading_zeros", "fmt:zero", "fmt:g17+ws", "fmt:fixed", "fmt:int"):
        floors[k] = (b.get(k, 0), 20)
    for t in MEANING:
        floors["meaning_ran:" + t] = (b.get("meaning_ran:" + t, 0), max(3, per_tag // 2))
    return R.finish(
        "C18", tier, seed, m,
        "part reader: one case = one generated parameter file (random structure 1-6 cell types x 1-5 face types, random values/notations/layout) read by parameter_reader and compared "
        "field by field (doubles bit-for-bit against the own parse of the printed text); non-trivial = file written and parsed, distinct = distinct XML texts. "
        "part neg: case i = catalogue entry i mod 110 (32 tag omissions + face_types + 4 structural + 15 constraints x 4-6 violating values) applied to a fresh random file at a "
        "random / last / first cell type and face type; the unmodified file (same layout stream) must be accepted first. "
        "part meaning: case i = tag i mod 20; two files differing in that tag only -> reader -> one icosphere cell -> solver; bins meaning_ran:<tag> count pairs that completed "
        "with the named quantity observed; maxima meaning_err_over_tol:* = largest observed error / tolerance",
        t0,
        ["std::from_chars (checked against strtod on every generated value) gives the value a decimal text denotes",
         "admissible values are normal doubles (1e-300..1e300), ids 0..32767, booleans 0/1; subnormal/overflowing texts and malformed or empty elements belong to C17",
         "part B tolerances: 1e-9 relative on quantities whose forward error is <= ~1e-13 (volume about the origin within 4 radii, <= 7-term force sums, 1e-3 radius displacements); "
         "exact (bit-for-bit) for time step / duration / sampling period with values m*2^k, 1e-12 relative for generic time steps",
         "the remeshing experiment (min_edge_length) runs in a forked child with node/face capacity reserved; a crash there is reported as inconclusive, not as a violation",
         "constraints are the ones the reader states in its diagnostics; tags without a stated constraint (densities, moduli, volumes) are not sign-checked"],
        floors=floors, own_crashes=False)
