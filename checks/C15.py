"""C15 - results independent of thread count / schedule; parallel errors become exceptions."""
import glob, os, re
import runner as R
from runner import Inv, Merged

ID = "C15"
MANIFEST = (
    "exploration",
    "runtime monitoring under schedule perturbation: bit-for-bit comparison of final states across thread counts 1..16 and injected delays/yields at hook H3 inside every parallel region; differential parallel-vs-sequential division rounds; fault placement at every list position for the three exception-forwarding sites; ThreadSanitizer (gcc) with a libgomp interposition shim on the same workloads",
    "Held on every execution of the run: (a) non-interacting tissues (2-8 cells of all classes, growth, removal, remeshing, file output) reach bit-identical positions, momenta, connectivity and labels with 2,3,4,8,16 threads under several seeded schedules and on repetition (quick: 6 tissues x 12 runs, with the number of distinct interleavings observed recorded from the merged H3 log); (b) 1-12 cells dividing in one round give the same multiset of cells as dividing them one after another, unique ids, renumbered list, for 2-16 threads; (c) one or two failing items at every list position of parallel_exception_handler / refine_meshes / mesh_writer::write deliver exactly the thrown type after all other items completed; (d) zero ThreadSanitizer reports with a repository frame on (a)-(c) and on a direct multi-threaded initial triangulation. Exploration is the right level: schedules are sampled, not enumerated, and TSan only sees the interleavings that occur.",
    "TSan sees libgomp's fork/join, critical, atomic and omp-lock synchronisation only through the interposition shim (harness/tsan_gomp_shim.cpp); interacting cells are excluded from (a) because the statement excludes them (daughters of a division touch each other, so division is compared in (b), not in (a)); H2 makes random sampling a function of the mother's id.",
    "DESIGN.md section 3, C15",
)


def T(tier, q, t):
    return q if tier == "quick" else t


def tsan_reports(wd, repo):
    """Parse TSan logs: key = kind + first repository frame of each of the two stacks; returns {key: (count, sample)} and totals."""
    out = {}; total = 0; norepo = 0
    for p in glob.glob(os.path.join(wd, "tsan.*")):
        text = open(p, errors="replace").read()
        for blk in text.split("==================")[0:]:
            m = re.search(r"WARNING: ThreadSanitizer: ([\w -]+?) \(pid", blk)
            if not m:
                continue
            total += 1
            kind = m.group(1).strip()
            stacks = re.split(r"\n\s*\n", blk)
            firsts = []
            for st in stacks[:2]:
                fn = None
                for fm in re.finditer(r"#\d+ (.+?) (/\S+?):\d+", st):
                    if fm.group(2).startswith(repo.rstrip("/") + "/"):
                        fn = re.sub(r"\(.*", "", fm.group(1)); fn = re.sub(r" \[clone.*", "", fn); break
                firsts.append(fn)
            if not any(firsts):
                norepo += 1; continue
            key = "tsan:%s|%s|%s" % (kind, firsts[0] or "-", firsts[1] if len(firsts) > 1 and firsts[1] else "-")
            c, s = out.get(key, (0, blk[:3500])); out[key] = (c + 1, s)
    return out, total, norepo


def run(tier, seed, t0):
    m = Merged(); wd = R.workdir(ID); repo = R.builder.repo_dir()
    big = T(tier, 1, 50)
    R.run_inv(Inv("threads", 6 * big, "plain", args=["--mode=identity", "--schedules=%d" % T(tier, 2, 8), "--max_iterations=%d" % T(tier, 40, 80), "--large_every=%d" % T(tier, 3, 15)], shards=min(6 * big, 4), timeout=T(tier, 2400, 6 * 3600), tag="identity/plain"), seed, wd, m)
    R.run_inv(Inv("threads", 20 * big, "plain", args=["--mode=division"], shards=4, first=1000, timeout=T(tier, 1800, 6 * 3600), tag="division/plain"), seed, wd, m)
    R.run_inv(Inv("threads", 48 * big, "plain", args=["--mode=exception"], shards=4, first=2000, timeout=T(tier, 1800, 6 * 3600), tag="exception/plain"), seed, wd, m)
    # ---- ThreadSanitizer -------------------------------------------------------------------------------------------
    tenv = {"TSAN_OPTIONS": "halt_on_error=0:exitcode=0:log_path=%s:history_size=4:second_deadlock_stack=1:external_symbolizer_path=%s" % (os.path.join(wd, "tsan"), R.SYMBOLIZER)}
    R.run_inv(Inv("threads", 2 * big, "tsan", args=["--mode=identity", "--schedules=1", "--max_iterations=30", "--min_iterations=20", "--large_every=%d" % T(tier, 3, 25)], shards=2, first=3000, timeout=T(tier, 2400, 6 * 3600), env=tenv, tag="identity/tsan"), seed, wd, m)
    R.run_inv(Inv("threads", 6 * big, "tsan", args=["--mode=division", "--par_threads=8"], shards=3, first=4000, timeout=T(tier, 1800, 6 * 3600), env=tenv, tag="division/tsan"), seed, wd, m)
    R.run_inv(Inv("threads", 12 * big, "tsan", args=["--mode=exception"], shards=3, first=5000, timeout=T(tier, 1800, 6 * 3600), env=tenv, tag="exception/tsan"), seed, wd, m)
    R.run_inv(Inv("threads", 2 * big, "tsan", args=["--mode=triangulation"], shards=2, threads=8, first=6000, timeout=T(tier, 1800, 6 * 3600), env=tenv, tag="triangulation/tsan"), seed, wd, m)
    reps, total, norepo = tsan_reports(wd, repo)
    m.add_bins({"tsan_reports_total": total, "tsan_reports_without_repository_frame": norepo, "tsan_distinct_keys": len(reps)})
    for key, (cnt, sample) in sorted(reps.items()):
        m.violations.append({"key": key, "msg": "%d reports, first:\n%s" % (cnt, sample), "obs": {"reports": cnt}, "inv": "tsan",
                             "replay": {"custom": True, "flavour": "tsan", "argv": ["python3", "check.py", "C15", "--tier", tier, "--seed", str(seed)], "note": "race reports vary from run to run: re-run the check; the report text above is the witness"}})
    # crashes inside these workloads: a time-out is 'inconclusive'; everything else is owned by C10
    floors = {
        "identity_cases": (m.bins.get("cases@identity/plain", 0), 6 * big), "identity_runs": (m.bins.get("runs", 0), 60 * big),
        "distinct_interleavings_observed": (m.bins.get("distinct_interleavings", 0), 40 * big),
        "division_rounds": (m.bins.get("cases@division/plain", 0), 20 * big), "successful_divisions": (m.bins.get("successful_divisions", 0), 30 * big),
        "exception_cases": (m.bins.get("cases@exception/plain", 0), 36 * big),
        "exception_handler_cases": (m.bins.get("exception_kind:parallel_exception_handler", 0), 10 * big), "refine_meshes_cases": (m.bins.get("exception_kind:refine_meshes", 0), 10 * big), "mesh_writer_cases": (m.bins.get("exception_kind:mesh_writer", 0), 10 * big), "identity_tissues_with_a_very_large_cell": (m.bins.get("identity_runs_with_a_very_large_cell", 0), T(tier, 2, 20)), "runs_with_a_vanishing_cell": (m.bins.get("exception_kind:run_with_a_vanishing_cell", 0), 10 * big),
        "tsan_cases": (sum(v for k, v in m.bins.items() if k.startswith("cases@") and k.endswith("/tsan")), 19 * big),
    }
    return R.finish(ID, tier, seed, m,
                    "identity case = non-interacting tissue x {1 thread (twice), 2,3,4,8,16 threads x schedule seeds}; division case = 2-12 cells (1..n ready) divided "
                    "by cell_divider::run with 1 thread and with 2,4,8,16 threads under injected delays; exception case = (site, number of items 1-12, failing position(s), "
                    "thread count); non-trivial = the reference run made >= 10 iterations / at least one division succeeded / the fault fired; distinct = hash of the observed behaviour",
                    t0, ["gcc ThreadSanitizer + libgomp interposition shim (fork/join, critical, atomic, omp locks)", "schedule perturbation = seeded yield / usleep(0-200us) at every H3 point",
                         "distinct_interleavings = distinct hashes of the merged (sequence, tag, item, thread) log per run, summed over cases"],
                    floors=floors)
