#!/usr/bin/env python3
"""check.py <ID> --tier quick|thorough   (cwd = /verif)

Builds what it needs from /repo's current working tree (hooks on), runs the monitored workloads,
writes evidence/<ID>.json and exits 0 (held on everything explored) / 1 (+ "VIOLATION property=<ID>
replay=<path>") / 2 (harness failure or inconclusive)."""
import argparse, json, os, sys, time, subprocess

VERIF = os.path.dirname(os.path.abspath(__file__))
sys.path.insert(0, os.path.join(VERIF, "tools"))
import runner as R  # noqa
from runner import Inv, Merged  # noqa

CHECKS = {}


def check(pid):
    def deco(f):
        CHECKS[pid] = f
        return f
    return deco


def T(tier, quick, thorough):
    return quick if tier == "quick" else thorough


# Every module checks/Cxx.py defines ID, MANIFEST (category, technique, level text, level note, design ref)
# and run(tier, seed, t0) -> exit code.
def load_checks():
    import importlib, glob
    sys.path.insert(0, VERIF)
    for p in sorted(glob.glob(os.path.join(VERIF, "checks", "C[0-9][0-9].py"))):
        mod = importlib.import_module("checks." + os.path.basename(p)[:-3])
        CHECKS[mod.ID] = mod.run


# ---------------------------------------------------------------------------------------------------
def main():
    ap = argparse.ArgumentParser()
    ap.add_argument("prop")
    ap.add_argument("--tier", default=os.environ.get("VERIF_TIER", "quick"))
    ap.add_argument("--seed", type=int, default=int(os.environ.get("VERIF_SEED", "1")))
    ap.add_argument("--replay")
    a = ap.parse_args()
    if a.replay:
        return replay(a.prop, a.replay)
    load_checks()
    if a.prop not in CHECKS:
        print("unknown property", a.prop); return 2
    t0 = time.time()
    try:
        rc = CHECKS[a.prop](a.tier, a.seed, t0)
    except RuntimeError as e:
        print("HARNESS-FAILURE: " + str(e)[:4000]); rc = 2
    return rc


def replay(prop, path):
    body = json.load(open(path)); rp = body["replay"]
    if rp.get("custom"):
        print("custom replay: " + json.dumps(rp)); argv = rp["argv"]; env = R.san_env(rp.get("flavour", "plain"), rp.get("env"))
        r = subprocess.run(argv, env=env); return 1 if r.returncode else 0
    binp = R.builder.build(rp["flavour"], rp["config"], "vh")
    argv = [binp, rp["cmd"], "--seed", str(rp["seed"]), "--only", str(rp["case"]), "--cases", str(rp["case"] + 1),
            "--threads", str(rp.get("threads", 1))] + rp.get("args", [])
    env = R.san_env(rp["flavour"], rp.get("env"))
    print("replaying:", " ".join(argv))
    r = subprocess.run(argv, env=env, capture_output=True, text=True)
    sys.stdout.write(r.stdout[-6000:]); sys.stderr.write(r.stderr[-6000:])
    bad = r.returncode != 0 or '"v":"viol"' in r.stdout or '"v":"crash"' in r.stdout or '"v":"timeout"' in r.stdout
    if bad:
        print("VIOLATION property=%s replay=%s" % (prop, path)); return 1
    print("replay did not reproduce a violation"); return 0


if __name__ == "__main__":
    sys.exit(main())
