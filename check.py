#!/usr/bin/env python3
"""check.py <ID> --tier quick|thorough   (cwd = /verif)

Builds what it needs from /repo's current working tree (hooks on), runs the monitored workloads,
writes evidence/<ID>.json and exits 0 (held on everything explored) / 1 (+ "VIOLATION property=<ID>
replay=<path>") / 2 (harness failure or inconclusive)."""
import argparse, json, os, sys, time, subprocess

VERIF = os.path.dirname(os.path.abspath(__file__))
sys.path.insert(0, os.path.join(VERIF, "tools"))
import runner as R  # noqa
from runner import Inv, Merged  # noqa

CHECKS = {}


def check(pid):
    def deco(f):
        CHECKS[pid] = f
        return f
    return deco


def T(tier, quick, thorough):
    return quick if tier == "quick" else thorough


# ---------------------------------------------------------------------------------------------------
@check("C05")
def c05(tier, seed, t0):
    m = Merged(); wd = R.workdir("C05")
    n = T(tier, 400000, 50000000)
    R.run_inv(Inv("kernel", n, "plain", timeout=T(tier, 600, 7200)), seed, wd, m)
    R.run_inv(Inv("kernel", T(tier, 50000, 2000000), "asan", timeout=T(tier, 600, 7200), first=n), seed, wd, m)
    regions = ["interior", "edge_ab", "edge_bc", "edge_ca", "vertex_a", "vertex_b", "vertex_c"]
    floors = {"cases_in_region_" + r: (m.bins.get("region:" + r, 0), 0.01 * m.evaluations) for r in regions}
    return R.finish("C05", tier, seed, m,
                    "query point constructed per Voronoi region (7 regions incl. region boundaries, both sides of the plane) x distance "
                    "class (on the triangle, 1e-9..1e-4, comparable, far) x triangle aspect 1..1e3 x scale 1e-7..1e2 x offset from origin "
                    "0..1e3 diameters x random rigid embedding; a case is non-trivial when the triangle is non-degenerate "
                    "(area > 1e-7 diam^2); distinct = distinct input coordinate hashes; bins count the region as classified by the oracle",
                    t0, ["own long-double closest-point oracle (plane projection + 3 clamped segment projections) is correct",
                         "tolerance for the closest point is max(1e-9 L, 256 eps cond diam) with cond=(D/diam)^2 (diam^2/2A)^2: forward error of any dot-product evaluation"],
                    floors=floors)


# ---------------------------------------------------------------------------------------------------
def main():
    ap = argparse.ArgumentParser()
    ap.add_argument("prop")
    ap.add_argument("--tier", default=os.environ.get("VERIF_TIER", "quick"))
    ap.add_argument("--seed", type=int, default=int(os.environ.get("VERIF_SEED", "1")))
    ap.add_argument("--replay")
    a = ap.parse_args()
    if a.replay:
        return replay(a.prop, a.replay)
    if a.prop not in CHECKS:
        print("unknown property", a.prop); return 2
    t0 = time.time()
    try:
        rc = CHECKS[a.prop](a.tier, a.seed, t0)
    except RuntimeError as e:
        print("HARNESS-FAILURE: " + str(e)[:4000]); rc = 2
    return rc


def replay(prop, path):
    body = json.load(open(path)); rp = body["replay"]
    if rp.get("custom"):
        print("custom replay: " + json.dumps(rp)); argv = rp["argv"]; env = R.san_env(rp.get("flavour", "plain"), rp.get("env"))
        r = subprocess.run(argv, env=env); return 1 if r.returncode else 0
    binp = R.builder.build(rp["flavour"], rp["config"], "vh")
    argv = [binp, rp["cmd"], "--seed", str(rp["seed"]), "--only", str(rp["case"]), "--cases", str(rp["case"] + 1),
            "--threads", str(rp.get("threads", 1))] + rp.get("args", [])
    env = R.san_env(rp["flavour"], rp.get("env"))
    print("replaying:", " ".join(argv))
    r = subprocess.run(argv, env=env, capture_output=True, text=True)
    sys.stdout.write(r.stdout[-6000:]); sys.stderr.write(r.stderr[-6000:])
    bad = r.returncode != 0 or '"v":"viol"' in r.stdout or '"v":"crash"' in r.stdout or '"v":"timeout"' in r.stdout
    if bad:
        print("VIOLATION property=%s replay=%s" % (prop, path)); return 1
    print("replay did not reproduce a violation"); return 0


if __name__ == "__main__":
    sys.exit(main())
