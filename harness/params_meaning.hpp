// C18 part B ("meaning"): two XML files that differ in one value are read by parameter_reader; the returned structures
// drive a one-cell `solver` run each; the quantity named by the tag is observed (solver subclass, friend tester, phase hook)
// and compared with an own model.  Included by cmd_params.cpp only.
#pragma once

namespace c18 {

using orc::V3; using orc::R;

struct MonSolver : public solver {
    using solver::solver;
    std::vector<double> times;
    void run_iteration() noexcept(false) override { solver::run_iteration(); times.push_back(time_integrator_ptr_->get_simulation_time()); }
    unsigned it() const { return iteration_; }
    unsigned file_number() const { return file_number_; }
    const std::vector<cell_ptr>& cells() const { return cell_lst_; }
    const local_mesh_refiner& lmr() const { return *lmr_ptr_; }
    const contact_model_abstract& cm() const { return *contact_model_ptr_; }
};
// protected members of the contact model through pointers-to-member formed in a derived class (never instantiated)
struct CmPeek : public contact_model_abstract {
    static double adh(const contact_model_abstract& m) { return m.*(&CmPeek::interaction_cutoff_adhesion_); }
    static double rep(const contact_model_abstract& m) { return m.*(&CmPeek::interaction_cutoff_repulsion_); }
};

// Behaviour behind the two contact cut-offs: a node of one cell that has penetrated another cell by `depth` along the normal of an axis-aligned
// face is pushed back if and only if depth < <contact_cutoff_repulsion>, whatever <contact_cutoff_adhesion> is.  The contact model of the
// build is constructed from the parameters the reader returned; both cells are lumen cells (no coupling rules), repulsion strength 1.
#if CONTACT_MODEL_INDEX == 0
#include "contact_node_face_via_spring.hpp"
typedef contact_node_face_via_spring probe_model_t;
#elif CONTACT_MODEL_INDEX == 1
#include "contact_node_node_via_coupling.hpp"
typedef contact_node_node_via_coupling probe_model_t;
#else
#include "contact_face_face_via_coupling.hpp"
typedef contact_face_face_via_coupling probe_model_t;
#endif
static double contact_probe_force(const global_simulation_parameters& sp, const cell_type_parameters& src, double depth) {
    const double cm = std::max(sp.contact_cutoff_adhesion_, sp.contact_cutoff_repulsion_), S = 40 * cm;
    auto ct = std::make_shared<cell_type_parameters>(src); ct->global_type_id_ = 2; ct->surface_coupling_max_curvature_ = 1e300; for (auto& f : ct->face_types_) { f.repulsion_strength_ = 1; f.adherence_strength_ = 0; }
    gen::TriMesh box = gen::box(1, S / 2, S / 2, S / 2);                       // cube [-S/2, S/2]^3, top face z = S/2
    gen::TriMesh small = gen::icosphere(0); const double r = 2 * cm; gen::scale(small, r, r, r);
    // the small body comes from above: its lowest node (outward normal pointing down, against the normal of the face) sits `depth` below the top face,
    // well away from the diagonal of that face; the rest of the body is higher
    gen::rotate(small, gen::rot_identity()); size_t top = 0; for (size_t k = 0; k < small.P.size(); k++) if (small.P[k][2] < small.P[top][2]) top = k;
    gen::translate(small, 0.21 * S - small.P[top][0], -0.13 * S - small.P[top][1], S / 2 - depth - small.P[top][2]);
    std::vector<cell_ptr> L = {std::static_pointer_cast<cell>(gen::make_cell<lumen_cell>(box, 0, ct)), std::static_pointer_cast<cell>(gen::make_cell<lumen_cell>(small, 1, ct))};
    for (size_t k = 0; k < L.size(); k++) { L[k]->set_local_id((unsigned)k); L[k]->apply_internal_forces(0.0); for (node& n : cell_tester::nodes(*L[k])) if (n.is_used()) n.set_force(vec3(0, 0, 0)); }
    probe_model_t model(sp); model.run(L);
    const vec3& f = cell_tester::nodes(*L[1])[top].force(); return std::sqrt(f.dx() * f.dx() + f.dy() * f.dy() + f.dz() * f.dz());
}

struct BMesh { gen::TriMesh m; double emin = 0, emax = 0, r = 0; };
static BMesh make_bmesh(Rng& g, bool jitter) {
    BMesh b; b.m = gen::icosphere(g.range(1, 2)); b.r = g.logu(1e-6, 10.0); gen::scale(b.m, b.r, b.r, b.r);
    if (jitter) gen::jitter(b.m, g, 0.04);
    gen::rotate(b.m, gen::rot_random(g)); gen::translate(b.m, b.r * g.uni(-2, 2), b.r * g.uni(-2, 2), b.r * g.uni(-2, 2));
    b.emin = INFINITY; b.emax = 0;
    for (auto& t : b.m.T) for (int k = 0; k < 3; k++) { auto& p = b.m.P[t[k]]; auto& q = b.m.P[t[(k + 1) % 3]]; double e = std::sqrt((p[0] - q[0]) * (p[0] - q[0]) + (p[1] - q[1]) * (p[1] - q[1]) + (p[2] - q[2]) * (p[2] - q[2])); b.emin = std::min(b.emin, e); b.emax = std::max(b.emax, e); }
    return b;
}

struct Probe { bool want_forces = false, want_edges = false, got_forces = false, got_edges = false; std::vector<V3> force, pos; std::vector<orc::Tri> tri; std::vector<unsigned short> tri_type; std::vector<double> edge_len; size_t nodes_after_refine = 0; };
static Probe* g_probe = nullptr;
static void phase_sink(int tag, const std::vector<std::shared_ptr<cell>>* cl) {
    if (!g_probe || !cl || cl->empty()) return; cell& c = *(*cl)[0];
    if (tag == 7 && g_probe->want_forces && !g_probe->got_forces) {
        g_probe->got_forces = true; auto& nl = cell_tester::nodes(c); g_probe->force.resize(nl.size()); g_probe->pos.resize(nl.size());
        for (size_t k = 0; k < nl.size(); k++) { const vec3& f = cell_tester::force(nl[k]); g_probe->force[k] = V3(f.dx(), f.dy(), f.dz()); const vec3& p = cell_tester::pos(nl[k]); g_probe->pos[k] = V3(p.dx(), p.dy(), p.dz()); }
        for (auto& f : cell_tester::faces(c)) if (cell_tester::face_used(f)) { g_probe->tri.push_back({cell_tester::n1(f), cell_tester::n2(f), cell_tester::n3(f)}); g_probe->tri_type.push_back(cell_tester::type_id(f)); }
    }
    if (tag == 4 && g_probe->want_edges && !g_probe->got_edges) {
        g_probe->got_edges = true; auto& nl = cell_tester::nodes(c); size_t live = 0; for (auto& n : nl) if (n.is_used()) live++; g_probe->nodes_after_refine = live;
        for (const edge& e : cell_tester::edges(c)) { const vec3& p = cell_tester::pos(nl[e.n1()]); const vec3& q = cell_tester::pos(nl[e.n2()]); g_probe->edge_len.push_back((p - q).norm()); }
    }
}

struct Setup {
    int cls = 2; size_t kct = 0; std::vector<unsigned short> ftype; double scale_after_ctor = 1; std::vector<std::array<double, 3>> p0;
    int n_iter = 1; bool use_run = false, want_forces = false, want_edges = false, reserve = false, run_solver = true;
};
struct Obs {
    bool ok = false; std::string err; ReadOut rd;
    std::vector<double> times; unsigned iterations = 0, file_number = 0; std::vector<long> files_cell, files_face;
    Probe pr; std::vector<V3> pos0, pos1, mom0, mom1; double pressure = NAN, target_volume0 = NAN, target_volume1 = NAN, vol_own0 = NAN, vol_own_scaled = NAN; size_t n_nodes = 0;
    size_t cells_after = 0; double growth_rate = NAN, division_volume = NAN; bool swap_enabled = false; double cm_adh = NAN, cm_rep = NAN;
};
static std::vector<long> list_results(const std::string& dir) {
    std::vector<long> v; std::error_code ec; if (!std::filesystem::is_directory(dir, ec)) return v;
    for (auto& e : std::filesystem::directory_iterator(dir, ec)) { std::string n = e.path().filename().string(); long k = -1; char tail[8] = {0}; if (sscanf(n.c_str(), "result_%ld.vt%1s", &k, tail) == 2 && tail[0] == 'k') v.push_back(k); else v.push_back(-1); }
    std::sort(v.begin(), v.end()); return v;
}
static double own_volume(cell& c) { std::vector<V3> P; std::vector<orc::Tri> T; gen::extract(c, P, T); return (double)std::fabs(orc::geometry(P, T).volume); }

static Obs run_one(const Doc& d, const BMesh& bm, const Setup& su, uint64_t seed, long i) {
    Obs o; o.rd = emit_and_read(d, seed, i, 0x18E);
    if (o.rd.threw) { o.err = "reader rejected the file (" + o.rd.stage + "): " + o.rd.what; return o; }
    if (su.kct >= o.rd.ct.size()) { o.err = "reader returned too few cell types"; return o; }
    const std::string out = o.rd.sp.output_folder_path_;
    try {
        cell_ptr c = su.cls == 0 ? std::static_pointer_cast<cell>(gen::make_cell<epithelial_cell>(bm.m, 0, o.rd.ct[su.kct])) : std::static_pointer_cast<cell>(gen::make_cell<lumen_cell>(bm.m, 0, o.rd.ct[su.kct]));
        auto& fl = cell_tester::faces(*c); if (su.ftype.size() == fl.size()) for (size_t k = 0; k < fl.size(); k++) cell_tester::type_id(fl[k]) = su.ftype[k];
        o.growth_rate = c->get_growth_rate(); o.division_volume = c->get_division_volume(); o.n_nodes = c->get_nb_of_nodes();
        if (!su.run_solver) { o.ok = true; return o; }
        if (su.reserve) { cell_tester::nodes(*c).reserve(64 * cell_tester::nodes(*c).size()); cell_tester::faces(*c).reserve(64 * cell_tester::faces(*c).size()); }
        MonSolver s(o.rd.sp, std::vector<cell_ptr>{c}, 1, true, false);
        o.swap_enabled = local_mesh_refiner_tester::swap_enabled(s.lmr()); o.cm_adh = CmPeek::adh(s.cm()); o.cm_rep = CmPeek::rep(s.cm());
        o.target_volume0 = c->get_target_volume(); o.vol_own0 = own_volume(*c);
        auto& nl = cell_tester::nodes(*c);
        if (su.scale_after_ctor != 1) { vec3 ctr(0, 0, 0); size_t n = 0; for (auto& nd : nl) if (nd.is_used()) { ctr = ctr + cell_tester::pos(nd); n++; } ctr = ctr * (1.0 / n);
            for (auto& nd : nl) if (nd.is_used()) { vec3 p = cell_tester::pos(nd); cell_tester::pos(nd) = ctr + (p - ctr) * su.scale_after_ctor; } }
        o.vol_own_scaled = own_volume(*c);
#if DYNAMIC_MODEL_INDEX == 0
        if (su.p0.size() == nl.size()) for (size_t k = 0; k < nl.size(); k++) cell_tester::momentum(nl[k]) = vec3(su.p0[k][0], su.p0[k][1], su.p0[k][2]);
        for (auto& nd : nl) { const vec3& m = cell_tester::momentum(nd); o.mom0.push_back(V3(m.dx(), m.dy(), m.dz())); }
#endif
        for (auto& nd : nl) { const vec3& p = cell_tester::pos(nd); o.pos0.push_back(V3(p.dx(), p.dy(), p.dz())); }
        o.pr.want_forces = su.want_forces; o.pr.want_edges = su.want_edges; g_probe = &o.pr; verif::get().phase = phase_sink;
        if (su.use_run) s.run(); else for (int k = 0; k < su.n_iter && !s.cells().empty(); k++) s.run_iteration();
        verif::get().phase = nullptr; g_probe = nullptr;
        o.times = s.times; o.iterations = s.it(); o.file_number = s.file_number(); o.cells_after = s.cells().size();
        o.pressure = c->get_pressure(); o.target_volume1 = c->get_target_volume();
        if (!su.use_run) for (auto& nd : cell_tester::nodes(*c)) { const vec3& p = cell_tester::pos(nd); o.pos1.push_back(V3(p.dx(), p.dy(), p.dz()));
#if DYNAMIC_MODEL_INDEX == 0
            const vec3& m = cell_tester::momentum(nd); o.mom1.push_back(V3(m.dx(), m.dy(), m.dz()));
#endif
        }
        o.files_cell = list_results(out + "/cell_data"); o.files_face = list_results(out + "/face_data");
        o.ok = true;
    } catch (const std::exception& e) { verif::get().phase = nullptr; g_probe = nullptr; o.err = std::string("exception during the run: ") + typeid(e).name() + ": " + e.what(); }
    std::error_code ec; if (!out.empty() && out.find("/c18_") != std::string::npos) std::filesystem::remove_all(out, ec);
    return o;
}

// own model of the internal forces that depend on tension / area elasticity / isoperimetric ratio
static void oracle_forces(const std::vector<V3>& P, const std::vector<orc::Tri>& T, const std::vector<unsigned short>& type, const std::vector<double>& tension, double k_a, double iso,
                          std::vector<V3>& F, std::vector<R>& scale) {
    orc::Geo geo = orc::geometry(P, T); R V = std::fabs(geo.volume), A = geo.area, At = std::cbrt((R)iso * V * V);
    R mef = -((R)k_a / At) * (A / At - 1), mef_scale = ((R)k_a / At) * (A / At + 1);
    F.assign(P.size(), V3()); scale.assign(P.size(), 0);
    for (size_t f = 0; f < T.size(); f++) {
        const V3 &x1 = P[T[f].a], &x2 = P[T[f].b], &x3 = P[T[f].c]; V3 n = (x2 - x1).cross(x3 - x1); R nn = n.norm(); if (!(nn > 0)) continue; n = n / nn;
        V3 g1 = n.cross(x3 - x2) * 0.5L, g2 = n.cross(x1 - x3) * 0.5L, g3 = n.cross(x2 - x1) * 0.5L;
        R gam = type[f] < tension.size() ? (R)tension[type[f]] : 0; R coef = -gam + mef, sc = std::fabs(gam) + mef_scale;
        F[T[f].a] += g1 * coef; F[T[f].b] += g2 * coef; F[T[f].c] += g3 * coef;
        scale[T[f].a] += g1.norm() * sc; scale[T[f].b] += g2.norm() * sc; scale[T[f].c] += g3.norm() * sc;
    }
}


// Types the faces around a valence-6 node so that every hinge that can put a bending force on it joins a face of type j and a
// face of type k (ring faces alternate j,k; the face across each rim edge gets the other type).  Returns the node or -1.
static long engineer_boundary_node(const gen::TriMesh& m, std::vector<unsigned short>& ftype, unsigned short j, unsigned short k, Rng& g) {
    std::vector<std::vector<size_t>> v2f(m.P.size()); std::map<uint64_t, std::vector<size_t>> e2f;
    for (size_t f = 0; f < m.T.size(); f++) for (int q = 0; q < 3; q++) { unsigned a = m.T[f][q], b = m.T[f][(q + 1) % 3]; v2f[a].push_back(f); e2f[a < b ? orc::ekey(a, b) : orc::ekey(b, a)].push_back(f); }
    for (int attempt = 0; attempt < 20; attempt++) {
        unsigned i0 = (unsigned)(g.u64() % m.P.size()); if (v2f[i0].size() != 6) continue;
        std::vector<size_t> ring; size_t f = v2f[i0][0]; bool okr = true;
        for (int step = 0; step < 6 && okr; step++) {
            ring.push_back(f); int q = 0; while (m.T[f][q] != i0) q++; unsigned b = m.T[f][(q + 2) % 3];        // leave through the edge (i0, third vertex)
            auto& ef = e2f[i0 < b ? orc::ekey(i0, b) : orc::ekey(b, i0)]; if (ef.size() != 2) { okr = false; break; } f = ef[0] == f ? ef[1] : ef[0]; }
        if (!okr || f != ring[0]) continue; { std::set<size_t> u(ring.begin(), ring.end()); if (u.size() != 6) continue; }
        std::vector<size_t> outer;
        for (size_t r = 0; r < 6 && okr; r++) { size_t rf = ring[r]; int q = 0; while (m.T[rf][q] != i0) q++; unsigned a = m.T[rf][(q + 1) % 3], b = m.T[rf][(q + 2) % 3];
            auto& ef = e2f[a < b ? orc::ekey(a, b) : orc::ekey(b, a)]; if (ef.size() != 2) { okr = false; break; } outer.push_back(ef[0] == rf ? ef[1] : ef[0]); }
        if (!okr) continue; { std::set<size_t> u(outer.begin(), outer.end()); for (size_t r : ring) u.insert(r); if (u.size() != 12) continue; }
        for (size_t r = 0; r < 6; r++) { ftype[ring[r]] = (r % 2 == 0) ? j : k; ftype[outer[r]] = (r % 2 == 0) ? k : j; }
        return (long)i0;
    }
    return -1;
}
static std::string describe_diff(const Doc& A, const Doc& B) {
    std::string o; auto cmp = [&](const std::vector<Field>& x, const std::vector<Field>& y, const std::string& where) { for (size_t k = 0; k < x.size() && k < y.size(); k++) if (x[k].text != y[k].text) o += where + "<" + x[k].tag + "> '" + x[k].text + "' -> '" + y[k].text + "'; "; };
    cmp(A.num, B.num, "");
    for (size_t c = 0; c < A.cells.size() && c < B.cells.size(); c++) { cmp(A.cells[c].f, B.cells[c].f, "cell_type#" + std::to_string(c) + " "); for (size_t f = 0; f < A.cells[c].faces.size() && f < B.cells[c].faces.size(); f++) cmp(A.cells[c].faces[f], B.cells[c].faces[f], "cell_type#" + std::to_string(c) + " face_type#" + std::to_string(f) + " "); }
    return o;
}
static const char* MEANING_TAGS[] = {"time_step", "simulation_duration", "sampling_period", "min_edge_length", "cell_mass_density", "damping_coefficient", "cell_bulk_modulus", "max_inner_pressure",
    "surface_tension", "area_elasticity_modulus", "target_isoperimetric_ratio", "bending_modulus", "angle_regularization_factor", "avg_growth_rate", "std_growth_rate", "avg_division_volume",
    "min_vol", "contact_cutoff_adhesion", "contact_cutoff_repulsion", "enable_edge_swap_operation"};
static const int NB_MEANING = 20;

static double pow2_near(double x) { return std::ldexp(1.0, (int)std::floor(std::log2(x))); }

struct MCtx {
    const Args& a; long i; Agg& agg; Case& c; Rng& g; std::string tag; BMesh bm; Doc A, B; Setup su; double V0 = 0, area0 = 0; size_t N = 0, nf = 0;
    void fail(const std::string& what, const std::string& msg) { c.viol("meaning:" + tag + ":" + what, msg); }
    void tol(const std::string& what, double err, double tolv, const std::string& msg) { agg.maxi("meaning_err_over_tol:" + tag + ":" + what, tolv > 0 ? err / tolv : (err > 0 ? INFINITY : 0)); if (!(err <= tolv)) fail(what, msg); }
};
static void setv(std::vector<Field>& v, const char* tag, Rng& g, double x, bool exact = false) { set_double(fld(v, tag), g, x, exact); }

// Both runs of a pair; returns false (and marks the case inconclusive) when a run could not be carried out
static bool run_pair(MCtx& m, Obs& oa, Obs& ob) {
    oa = run_one(m.A, m.bm, m.su, m.a.seed, m.i); ob = run_one(m.B, m.bm, m.su, m.a.seed, m.i);
    for (Obs* o : {&oa, &ob}) if (!o->ok) {
        if (o->rd.threw) m.c.viol("meaning:" + m.tag + ":admissible_file_rejected", o->err); else { m.c.v = "inconclusive"; m.c.msg = m.tag + ": " + o->err; }
        return false; }
    // the two structures must differ in the field under test only as written (reader part is judged again here, cheaply)
    Case tmp(m.i); compare(m.A, oa.rd, tmp, m.agg, false); compare(m.B, ob.rd, tmp, m.agg, false); if (tmp.v == "viol") { m.c.viol(tmp.key, "(paired-run files) " + tmp.msg); return false; }
    return true;
}

static void meaning_lmin_isolated(MCtx& m);

static void meaning_case(const Args& a, long i, Agg& agg) {
    Rng g(a.seed, (uint64_t)i, 0x18F); Case c(i);
    int kind = (int)(i % NB_MEANING); std::string tag = MEANING_TAGS[kind];
    bool need_jitter = tag == "bending_modulus" || tag == "angle_regularization_factor" || g.coin(0.5);
    MCtx m{a, i, agg, c, g, tag, make_bmesh(g, need_jitter)};
    { std::vector<V3> P; std::vector<orc::Tri> T; for (auto& p : m.bm.m.P) P.push_back(V3(p[0], p[1], p[2])); for (auto& t : m.bm.m.T) T.push_back({t[0], t[1], t[2]}); orc::Geo geo = orc::geometry(P, T); m.V0 = (double)std::fabs(geo.volume); m.area0 = (double)geo.area; m.N = P.size(); }
    // ---- base document: random admissible file, then the entries that matter for a static, remesh-free one-cell run
    Doc& A = m.A; A = gen_doc(g, 1, 3, 1, 4); Setup& su = m.su; su.kct = g.u64() % A.cells.size(); CellT& C = A.cells[su.kct]; m.nf = C.faces.size();
    su.cls = (tag == "surface_tension" || tag == "bending_modulus" || g.coin(0.7)) ? 2 : 0;
    if (su.cls == 2) { su.ftype.resize(m.bm.m.T.size()); for (size_t k = 0; k < su.ftype.size(); k++) su.ftype[k] = (unsigned short)(k < m.nf ? k : g.u64() % m.nf); } else su.ftype.assign(m.bm.m.T.size(), 0);
    const double lmin = std::sqrt(m.bm.emin * m.bm.emax) / std::sqrt(3.0);     // [lmin, 3 lmin] = [e/sqrt3, e*sqrt3]: the mesh is never remeshed
    const double rho = g.logu(1, 1e4), mnode = rho * m.V0 / (double)m.N;
    double dt = std::ldexp((double)(2 * g.range(0, 2) + 1), g.range(-30, -8));   // {1,3,5} * 2^k: sums and products with small integers are exact
    const int n_it = g.range(3, 12), m_s = g.range(1, 5);
    set_str(fld(A.num, "output_mesh_folder_path"), unique_path(i, "out", ""));
    setv(A.num, "damping_coefficient", g, 0.0); setv(A.num, "time_step", g, dt, true); setv(A.num, "simulation_duration", g, n_it * dt, true); setv(A.num, "sampling_period", g, m_s * dt, true);
    setv(A.num, "min_edge_length", g, lmin); setv(A.num, "contact_cutoff_adhesion", g, lmin * g.uni(0.1, 1)); setv(A.num, "contact_cutoff_repulsion", g, lmin * g.uni(0.1, 1));
    setv(C.f, "cell_mass_density", g, rho); setv(C.f, "cell_bulk_modulus", g, g.logu(1, 1e5)); set_inf(fld(C.f, "max_inner_pressure"), g); setv(C.f, "area_elasticity_modulus", g, 0.0);
    set_inf(fld(C.f, "avg_division_volume"), g); setv(C.f, "std_division_volume", g, 0.0); setv(C.f, "avg_growth_rate", g, 0.0); setv(C.f, "std_growth_rate", g, 0.0);
    setv(C.f, "target_isoperimetric_ratio", g, 150); setv(C.f, "angle_regularization_factor", g, 0.0); setv(C.f, "min_vol", g, m.V0 * 1e-3);
    for (auto& ff : C.faces) { setv(ff, "surface_tension", g, 0.0); setv(ff, "bending_modulus", g, 0.0); }
    const double lminA = fld(A.num, "min_edge_length").dval;
    if (!(lminA * 1.15 < m.bm.emin && m.bm.emax * 1.15 < 3 * lminA)) { c.v = "skip"; agg.bin("meaning_skipped:" + tag + ":rounded_min_edge_length_would_remesh"); agg.add(c); return; }
    auto finish_case = [&](bool ran) { if (ran && c.v == "ok") { c.nontrivial = true; agg.bin("meaning_ran:" + tag); } c.sig = hash_combine(hash_str(tag), (uint64_t)i);
        c.obs.s("tag", tag).s("changed", describe_diff(m.A, m.B)).s("mesh", m.bm.m.name).d("radius", m.bm.r).s("cell_class", su.cls == 0 ? "epithelial" : "lumen");
        if (c.v == "inconclusive") emit(c.line()); agg.add(c); };
    Obs oa, ob; Doc& B = m.B;

    if (tag == "time_step") {
        bool generic = g.coin(0.4); double dtA = dt, dtB;
        if (generic) { dtA = g.logu(1e-9, 1e-2); dtB = dtA * g.uni(1.2, 7); } else dtB = std::ldexp((double)(2 * g.range(0, 2) + 1), g.range(-30, -8));
        if (dtB == dtA) dtB = dtA * 2;
        setv(A.num, "time_step", g, dtA, !generic); setv(A.num, "sampling_period", g, std::max(dtA, dtB) * 4, true); setv(A.num, "simulation_duration", g, 1e6, false);
        B = A; setv(B.num, "time_step", g, dtB, !generic);
        su.n_iter = g.range(3, 8);
        if (run_pair(m, oa, ob)) {
            int w = 0; for (Obs* o : {&oa, &ob}) { double v = fld((w++ == 0 ? A : B).num, "time_step").dval;
                if ((int)o->times.size() != su.n_iter) m.fail("iterations_executed", "asked for " + std::to_string(su.n_iter) + " iterations");
                for (size_t k = 0; k < o->times.size(); k++) { double want = (double)(k + 1) * v;
                    if (generic) m.tol("time_per_iteration", std::fabs(o->times[k] - want), 1e-12 * want, "simulated time after k iterations is not k*time_step");   // k additions of v: error <= k eps t
                    else if (!same_bits(o->times[k], want)) m.fail("time_per_iteration", "time_step=" + Cmp::dstr(v) + ": simulated time after " + std::to_string(k + 1) + " iterations is " + Cmp::dstr(o->times[k])); } }
            agg.bin(generic ? "time_step:generic_values" : "time_step:binary_exact_values");
        }
        finish_case(true); return;
    }
    if (tag == "simulation_duration") {
        int nA = g.range(2, 9), nB = nA + g.range(1, 6); bool half = g.coin(0.4);      // duration strictly inside the last step: still ceil(D/dt) iterations
        setv(A.num, "simulation_duration", g, (nA - (half ? 0.5 : 0.0)) * dt, true); B = A; setv(B.num, "simulation_duration", g, (nB - (half ? 0.5 : 0.0)) * dt, true);
        su.use_run = true;
        if (run_pair(m, oa, ob)) {
            if ((int)oa.iterations != nA) m.fail("iterations_to_finish", "duration/time_step=" + std::to_string(nA) + (half ? "-0.5" : "") + " but the run took " + std::to_string(oa.iterations) + " iterations");
            if ((int)ob.iterations != nB) m.fail("iterations_to_finish", "duration/time_step=" + std::to_string(nB) + (half ? "-0.5" : "") + " but the run took " + std::to_string(ob.iterations) + " iterations");
            if (oa.times.empty() || !(oa.times.back() >= fld(A.num, "simulation_duration").dval)) m.fail("final_time", "run ended before the simulated time reached the duration");
        }
        finish_case(true); return;
    }
    if (tag == "sampling_period") {
        int mA = m_s, mB = m_s + g.range(1, 3);
        // half of the cases: a sampling period that is not a whole number of time steps ((2 mB + 1) / 2 steps, exactly representable): the k-th file is
        // due at the first step whose time reaches k S, i.e. floor((n_it - 1) / q) + 1 files
        const bool half = g.coin(0.5);
        B = A; setv(B.num, "sampling_period", g, half ? (2 * mB + 1) * (dt / 2) : mB * dt, true); su.use_run = true;
        if (half) agg.bin("sampling_period_not_a_multiple_of_time_step");
        if (run_pair(m, oa, ob)) {
            int w = 0; for (Obs* o : {&oa, &ob}) { const bool isB = w++ != 0; int ms = isB ? mB : mA; long want = (isB && half) ? (2 * (long)(n_it - 1)) / (2 * mB + 1) + 1 : (n_it + ms - 1) / ms;
                std::vector<long> exp; for (long k = 1; k <= want; k++) exp.push_back(k);
                if (o->files_cell != exp || o->files_face != exp) { std::string got; for (long k : o->files_cell) got += std::to_string(k) + " "; m.fail("number_of_output_files", std::to_string(n_it) + " steps, sampling period = " + std::to_string(ms) + ((isB && half) ? ".5" : "") + " steps: expected result_1.." + std::to_string(want) + " in cell_data and face_data of the folder named in the file, found cell_data: " + got); } }
            agg.bin("output_folder_from_file_used");
        }
        finish_case(true); return;
    }
    if (tag == "min_edge_length") { meaning_lmin_isolated(m); finish_case(true); return; }
#if DYNAMIC_MODEL_INDEX == 0
    if (tag == "cell_mass_density" || tag == "damping_coefficient") {
        const double P0 = 1e-3 * m.bm.r * mnode / dt;        // displacement of 1e-3 radius per step
        su.p0.resize(m.N); for (auto& p : su.p0) { double x = g.normal(), y = g.normal(), z = g.normal(), n = std::sqrt(x * x + y * y + z * z) + 1e-300; double s = P0 * g.uni(0.5, 1.5) / n; p = {x * s, y * s, z * s}; }
        double gamA = g.coin(0.3) ? 0.0 : g.uni(0.05, 0.25) * mnode / dt;
        setv(A.num, "damping_coefficient", g, gamA); B = A;
        if (tag == "cell_mass_density") setv(B.cells[su.kct].f, "cell_mass_density", g, rho * (g.coin() ? g.uni(1.5, 10) : 1 / g.uni(1.5, 10)));
        else setv(B.num, "damping_coefficient", g, (gamA == 0 ? g.uni(0.05, 0.25) * mnode / dt : gamA * g.uni(1.3, 2)));
        if (run_pair(m, oa, ob)) {
            double sA = 0, sB = 0, dA = 0, dB = 0; int w = 0;
            for (Obs* o : {&oa, &ob}) { const Doc& D = (w == 0) ? A : B; double rh = fld(D.cells[su.kct].f, "cell_mass_density").dval, gam = fld(D.num, "damping_coefficient").dval, mn = rh * o->vol_own0 / (double)o->n_nodes;
                R num = 0, den = 0, dn = 0, dd = 0, xmax = 0; for (size_t k = 0; k < o->pos1.size(); k++) { V3 dx = o->pos1[k] - o->pos0[k]; num += dx.dot(o->mom1[k]); den += o->mom1[k].n2(); dn += (o->mom0[k] - o->mom1[k]).dot(o->mom0[k]); dd += o->mom0[k].n2(); xmax = std::max(xmax, o->pos0[k].norm()); }
                double s = (double)(num / den), dec = (double)(dn / dd) / dt; (w == 0 ? sA : sB) = s; (w == 0 ? dA : dB) = dec;
                // x += p' dt/m with p' = p - p (gamma/m) dt: rounding 1e-15 relative + position rounding 2 eps |x| / |dx| (|dx| ~ 1e-3 r, |x| <= 4 r) ~ 2e-12
                m.tol("displacement_per_unit_momentum", std::fabs(s - dt / mn), 1e-9 * dt / mn, "displacement per unit momentum is not time_step / (density * volume / nodes)");
                m.tol("momentum_decay_rate", std::fabs(dec - gam / mn), 1e-9 * (gam / mn) + 1e-13 / dt, "relative momentum loss per unit time is not damping / node mass");
                w++; }
            double rA = fld(A.cells[su.kct].f, "cell_mass_density").dval, rB = fld(B.cells[su.kct].f, "cell_mass_density").dval;
            m.tol("pair_ratio_density", std::fabs(sA / sB - rB / rA), 1e-9 * rB / rA, "ratio of displacements per unit momentum of the two runs is not the inverse ratio of the densities");
            agg.bin(gamA == 0 ? tag + ":from_zero_damping" : tag + ":nonzero_damping");
        }
        finish_case(true); return;
    }
#else
    if (tag == "cell_mass_density" || tag == "damping_coefficient") { c.v = "skip"; agg.add(c); return; }
#endif
    if (tag == "cell_bulk_modulus" || tag == "max_inner_pressure") {
        double s = g.coin(tag == "max_inner_pressure" ? 0.6 : 0.5) ? g.uni(0.85, 0.97) : g.uni(1.03, 1.15); su.scale_after_ctor = s;
        // (an expanded cell has a negative pressure: the maximum pressure, a cap from above, must leave it alone however small it is)
        double KA = fld(C.f, "cell_bulk_modulus").dval, Punc = std::fabs(-KA * 3 * std::log(s));
        B = A;
        if (tag == "cell_bulk_modulus") setv(B.cells[su.kct].f, "cell_bulk_modulus", g, KA * (g.coin() ? g.uni(1.5, 100) : 1 / g.uni(1.5, 100)));
        else { setv(A.cells[su.kct].f, "max_inner_pressure", g, Punc * g.uni(0.2, 0.8)); B = A; if (g.coin()) set_inf(fld(B.cells[su.kct].f, "max_inner_pressure"), g); else setv(B.cells[su.kct].f, "max_inner_pressure", g, Punc * g.uni(1.5, 5)); }
        if (run_pair(m, oa, ob)) {
            int w = 0; double pr[2];
            for (Obs* o : {&oa, &ob}) { const Doc& D = (w == 0) ? A : B; double K = fld(D.cells[su.kct].f, "cell_bulk_modulus").dval, pm = fld(D.cells[su.kct].f, "max_inner_pressure").dval;
                double want = -K * std::log(o->vol_own_scaled / o->vol_own0); pr[w] = o->pressure;
                // volume about the origin, cell within 4 radii of it: relative volume error <= ~1e-13, |log| >= 0.09  => 1e-9 has a margin >= 1e3
                if (want > pm) { if (!same_bits(o->pressure, pm)) m.fail("pressure_cap", "uncapped pressure " + Cmp::dstr(want) + " exceeds max_inner_pressure " + Cmp::dstr(pm) + " but the cell pressure is " + Cmp::dstr(o->pressure)); agg.bin("max_inner_pressure:capped"); }
                else m.tol("pressure_for_compression", std::fabs(o->pressure - want), 1e-9 * std::fabs(want), "pressure is not -K ln(V/V0) for the imposed compression");
                w++; }
            if (tag == "cell_bulk_modulus") { double KB = fld(B.cells[su.kct].f, "cell_bulk_modulus").dval; m.tol("pair_ratio", std::fabs(pr[1] / pr[0] - KB / KA), 1e-9 * KB / KA, "pressure ratio of the two runs is not the ratio of the bulk moduli"); }
            agg.bin(s < 1 ? tag + ":compressed" : tag + ":expanded");
        }
        finish_case(true); return;
    }
    if (tag == "surface_tension" || tag == "area_elasticity_modulus" || tag == "target_isoperimetric_ratio") {
        su.want_forces = true; size_t j = g.u64() % m.nf; double gs = g.logu(1e-6, 1e-2);
        for (auto& ff : C.faces) setv(ff, "surface_tension", g, g.coin(0.15) ? 0.0 : gs * g.uni(0.3, 3));
        double iso_mesh = m.area0 * m.area0 * m.area0 / (m.V0 * m.V0); auto iso_pick = [&]() { return iso_mesh * (g.coin() ? g.uni(0.2, 0.7) : g.uni(1.5, 5)); };
        double ka = (tag == "surface_tension" && g.coin(0.5)) ? 0.0 : gs * m.area0 * g.uni(0.3, 3);
        setv(C.f, "area_elasticity_modulus", g, ka); setv(C.f, "target_isoperimetric_ratio", g, iso_pick());
        B = A;
        if (tag == "surface_tension") { double t0 = fld(C.faces[j], "surface_tension").dval; setv(B.cells[su.kct].faces[j], "surface_tension", g, t0 == 0 ? gs * g.uni(0.3, 3) : t0 * (g.coin() ? g.uni(1.5, 10) : 1 / g.uni(1.5, 10))); }
        else if (tag == "area_elasticity_modulus") setv(B.cells[su.kct].f, "area_elasticity_modulus", g, ka * (g.coin() ? g.uni(1.5, 10) : 1 / g.uni(1.5, 10)));
        else { double isoA = fld(C.f, "target_isoperimetric_ratio").dval, isoB; do isoB = iso_pick(); while (std::fabs(isoB / isoA - 1) < 0.2); setv(B.cells[su.kct].f, "target_isoperimetric_ratio", g, isoB); }
        if (run_pair(m, oa, ob)) {
            std::vector<V3> F[2]; std::vector<R> sc[2]; int w = 0; bool have = true;
            for (Obs* o : {&oa, &ob}) { const CellT& cc = ((w == 0) ? A : B).cells[su.kct]; if (!o->pr.got_forces) { have = false; break; }
                std::vector<double> ten; for (auto& ff : cc.faces) ten.push_back(fld(ff, "surface_tension").dval);
                oracle_forces(o->pr.pos, o->pr.tri, o->pr.tri_type, ten, fld(cc.f, "area_elasticity_modulus").dval, fld(cc.f, "target_isoperimetric_ratio").dval, F[w], sc[w]);
                R worst = 0, fmax = 0; for (size_t k = 0; k < F[w].size(); k++) { R e = (o->pr.force[k] - F[w][k]).norm(); if (sc[w][k] > 0) worst = std::max(worst, e / (1e-9L * sc[w][k])); else if (e > 0) worst = INFINITY; fmax = std::max(fmax, F[w][k].norm()); }
                // every nodal force is a sum of <= 7 products gradient*coefficient: error <= ~20 eps * sum of |terms| (= scale); 1e-9 leaves a margin of 1e5
                m.tol("net_force_response", (double)worst, 1.0, "nodal force differs from -(tension of the face's type) dA/dx - (k_a/A_t)(A/A_t-1) dA/dx, A_t = cbrt(iso V^2)");
                if (fmax > 0) agg.bin(tag + ":nonzero_force_run"); w++; }
            if (!have) { c.v = "inconclusive"; c.msg = tag + ": phase hook did not fire"; }
            else { // the difference between the two runs must be the documented response to the changed value
                R worst = 0, dmax = 0; for (size_t k = 0; k < F[0].size(); k++) { V3 dobs = ob.pr.force[k] - oa.pr.force[k], dexp = F[1][k] - F[0][k]; R s = sc[0][k] + sc[1][k]; if (s > 0) worst = std::max(worst, (dobs - dexp).norm() / (1e-9L * s)); dmax = std::max(dmax, dexp.norm()); }
                m.tol("pair_difference", (double)worst, 1.0, "force difference between the two runs is not the response to the changed value");
                if (!(dmax > 0)) { c.nontrivial = false; agg.bin(tag + ":pair_without_effect"); } else agg.bin(std::string(tag) + (su.cls == 2 ? ":typed_faces" : ":epithelial_all_apical")); }
        }
        finish_case(true); return;
    }
    if (tag == "bending_modulus" || tag == "angle_regularization_factor") {
        su.want_forces = true; size_t j = g.u64() % m.nf; double vA = g.logu(1e-20, 1e-12), lam = g.coin() ? g.uni(1.5, 10) : 1 / g.uni(1.5, 10); bool from_zero = g.coin(0.25);
        if (tag == "bending_modulus") { setv(C.faces[j], "bending_modulus", g, from_zero ? 0.0 : vA); B = A; setv(B.cells[su.kct].faces[j], "bending_modulus", g, vA * lam); }
        else { setv(C.f, "angle_regularization_factor", g, from_zero ? 0.0 : vA); B = A; setv(B.cells[su.kct].f, "angle_regularization_factor", g, vA * lam); }
        if (run_pair(m, oa, ob)) {
            if (!oa.pr.got_forces || !ob.pr.got_forces) { c.v = "inconclusive"; c.msg = tag + ": phase hook did not fire"; }
            else {
                double a0 = tag == "bending_modulus" ? fld(A.cells[su.kct].faces[j], "bending_modulus").dval : fld(A.cells[su.kct].f, "angle_regularization_factor").dval;
                double b0 = tag == "bending_modulus" ? fld(B.cells[su.kct].faces[j], "bending_modulus").dval : fld(B.cells[su.kct].f, "angle_regularization_factor").dval;
                R fa = 0, fb = 0; for (auto& f : oa.pr.force) fa = std::max(fa, f.norm()); for (auto& f : ob.pr.force) fb = std::max(fb, f.norm());
                if (!(fb > 0)) m.fail("net_force_response", "a non-zero value produces no force at all");
                if (a0 == 0) { if (fa != 0) m.fail("net_force_response", "value 0 still produces forces"); agg.bin(tag + ":from_zero"); }
                else { R lamr = (R)b0 / (R)a0, worst = 0; for (size_t k = 0; k < oa.pr.force.size(); k++) worst = std::max(worst, (ob.pr.force[k] - oa.pr.force[k] * lamr).norm());
                    // each hinge/angle term is multiplied by the modulus once: scaling the modulus scales every term up to one rounding; 1e-9 |F|max leaves >= 1e5
                    m.tol("linear_response", (double)worst, (double)(1e-9L * fb), "force does not scale with the value (all other parameters equal)"); agg.bin(tag + ":scaled"); }
                if (tag == "bending_modulus" && su.cls == 2 && m.nf > 1) {   // support: only hinges with a face of the changed type may carry a force
                    std::set<unsigned> sup; std::map<uint64_t, std::vector<size_t>> e2f; auto& T = ob.pr.tri;
                    for (size_t f = 0; f < T.size(); f++) { unsigned v[3] = {T[f].a, T[f].b, T[f].c}; for (int k = 0; k < 3; k++) { unsigned p = v[k], q = v[(k + 1) % 3]; e2f[p < q ? orc::ekey(p, q) : orc::ekey(q, p)].push_back(f); } }
                    for (auto& kv : e2f) { bool hit = false; for (size_t f : kv.second) if (ob.pr.tri_type[f] == j) hit = true; if (hit) for (size_t f : kv.second) { sup.insert(T[f].a); sup.insert(T[f].b); sup.insert(T[f].c); } }
                    size_t outside = 0; for (size_t k = 0; k < ob.pr.force.size(); k++) if (!sup.count((unsigned)k)) { outside++; if (ob.pr.force[k].norm() != 0) m.fail("face_type_support", "bending force on a node of no hinge that has a face of the type whose modulus is non-zero"); }
                    if (outside) agg.bin("bending_modulus:support_checked");
                }
            }
        }
        // both faces of a hinge contribute: around an engineered node every hinge joins a face of type j and one of type k; giving type k the modulus
        // of type j as well (one more value changed) must double the force on that node
        if (tag == "bending_modulus" && su.cls == 2 && m.nf > 1 && c.v == "ok") {
            size_t k2 = (j + 1 + g.u64() % (m.nf - 1)) % m.nf; Setup su2 = su; long i0 = engineer_boundary_node(m.bm.m, su2.ftype, (unsigned short)j, (unsigned short)k2, g);
            if (i0 >= 0) {
                Doc A2 = B, B2 = B; fld(B2.cells[su.kct].faces[k2], "bending_modulus") = fld(B.cells[su.kct].faces[j], "bending_modulus"); fld(B2.cells[su.kct].faces[k2], "bending_modulus").tag = "bending_modulus";
                Obs o1 = run_one(A2, m.bm, su2, a.seed, i), o2 = run_one(B2, m.bm, su2, a.seed, i);
                if (o1.ok && o2.ok && o1.pr.got_forces && o2.pr.got_forces) {
                    bool engineered = true; auto& T = o2.pr.tri; std::map<uint64_t, std::vector<size_t>> e2f;
                    for (size_t f = 0; f < T.size(); f++) { unsigned v[3] = {T[f].a, T[f].b, T[f].c}; for (int q = 0; q < 3; q++) { unsigned p = v[q], r = v[(q + 1) % 3]; e2f[p < r ? orc::ekey(p, r) : orc::ekey(r, p)].push_back(f); } }
                    int hinges = 0; for (auto& kv : e2f) { if (kv.second.size() != 2) { engineered = false; break; } size_t f1 = kv.second[0], f2 = kv.second[1]; auto has = [&](size_t f) { return T[f].a == (unsigned)i0 || T[f].b == (unsigned)i0 || T[f].c == (unsigned)i0; };
                        if (!has(f1) && !has(f2)) continue; hinges++; unsigned short t1 = o2.pr.tri_type[f1], t2 = o2.pr.tri_type[f2]; if (!((t1 == j && t2 == k2) || (t1 == k2 && t2 == j))) engineered = false; }
                    R fmax = 0; for (auto& f : o2.pr.force) fmax = std::max(fmax, f.norm());
                    if (engineered && hinges == 12 && o1.pr.force[i0].norm() > 1e-6L * fmax) {
                        // 12 hinge terms, each scaled by (b_j + b_k)/2 = b/2 resp. b: exact factor 2 up to one rounding per term
                        m.tol("face_pair_average", (double)(o2.pr.force[i0] - o1.pr.force[i0] * 2).norm(), (double)(1e-9L * fmax), "a hinge between two face types does not use the mean of their bending moduli (force on a node surrounded by such hinges did not double)");
                        agg.bin("bending_modulus:face_pair_average_checked");
                    } else agg.bin("bending_modulus:face_pair_average_not_applicable");
                }
            }
        }
        finish_case(true); return;
    }
    if (tag == "avg_growth_rate" || tag == "std_growth_rate") {
        setv(C.f, "cell_bulk_modulus", g, g.logu(1e-12, 1e-7));     // keeps the pressure forces (and any motion) negligible over the few steps
        double gr = m.V0 * g.uni(1e-3, 1e-2) / dt * (g.coin(0.3) ? -1 : 1); setv(C.f, "avg_growth_rate", g, gr); su.n_iter = g.range(2, 5); B = A;
        if (tag == "avg_growth_rate") setv(B.cells[su.kct].f, "avg_growth_rate", g, gr * (g.coin() ? g.uni(1.5, 4) : -g.uni(0.5, 2)));
        else setv(B.cells[su.kct].f, "std_growth_rate", g, std::fabs(gr) * g.uni(0.05, 0.3));
        if (run_pair(m, oa, ob)) {
            int w = 0; for (Obs* o : {&oa, &ob}) { const CellT& cc = ((w == 0) ? A : B).cells[su.kct]; double avg = fld(cc.f, "avg_growth_rate").dval, sd = fld(cc.f, "std_growth_rate").dval;
                if (sd == 0) { if (!same_bits(o->growth_rate, avg)) m.fail("cell_growth_rate", "std 0: growth rate of the cell " + Cmp::dstr(o->growth_rate) + " is not avg_growth_rate " + Cmp::dstr(avg)); }
                else { if (!(std::fabs(o->growth_rate - avg) <= 3 * sd * (1 + 1e-12))) m.fail("cell_growth_rate_spread", "growth rate outside avg +- 3 std"); if (o->growth_rate != avg) agg.bin("std_growth_rate:draw_differs_from_mean"); }
                double inc = o->target_volume1 - o->target_volume0, want = su.n_iter * dt * o->growth_rate;
                // n additions to a number ~V0 of increments >= 1e-3 V0: error <= n eps V0 <= 1e-12 |want|
                m.tol("target_volume_increment", std::fabs(inc - want), 1e-9 * std::fabs(want), "target volume did not change by iterations * time_step * growth rate"); w++; }
            agg.bin(gr < 0 ? tag + ":shrinking" : tag + ":growing");
        }
        finish_case(true); return;
    }
    if (tag == "avg_division_volume") {
        su.run_solver = false; su.cls = 2; bool with_std = g.coin(0.4); double dv = m.V0 * g.uni(2, 5);
        setv(C.f, "avg_division_volume", g, dv); if (with_std) setv(C.f, "std_division_volume", g, dv * g.uni(0.02, 0.2)); B = A;
        if (g.coin()) set_inf(fld(B.cells[su.kct].f, "avg_division_volume"), g); else setv(B.cells[su.kct].f, "avg_division_volume", g, dv * g.uni(1.5, 4));
        if (run_pair(m, oa, ob)) {
            int w = 0; for (Obs* o : {&oa, &ob}) { const CellT& cc = ((w == 0) ? A : B).cells[su.kct]; double avg = fld(cc.f, "avg_division_volume").dval, sd = fld(cc.f, "std_division_volume").dval;
                if (sd == 0 || std::isinf(avg)) { if (!same_bits(o->division_volume, avg)) m.fail("cell_division_volume", "division volume of the cell " + Cmp::dstr(o->division_volume) + " is not avg_division_volume " + Cmp::dstr(avg)); if (std::isinf(avg)) agg.bin("avg_division_volume:inf_never_divides"); }
                else { if (!(std::fabs(o->division_volume - avg) <= 3 * sd * (1 + 1e-12))) m.fail("cell_division_volume_spread", "division volume outside avg +- 3 std"); agg.bin("avg_division_volume:with_std"); }
                w++; }
        }
        finish_case(true); return;
    }
    if (tag == "min_vol") {
        setv(C.f, "min_vol", g, m.V0 * g.uni(0.1, 0.9)); B = A; setv(B.cells[su.kct].f, "min_vol", g, m.V0 * g.uni(1.1, 3));
        if (run_pair(m, oa, ob)) {
            // expectation from the values the two files actually state (coarse notations may round the intended value)
            int w = 0, removed = 0; for (Obs* o : {&oa, &ob}) { double mv = fld(((w++ == 0) ? A : B).cells[su.kct].f, "min_vol").dval;
                if (std::fabs(o->vol_own0 / mv - 1) < 1e-9) continue;                       // threshold tie: the statement does not decide
                bool want_removed = o->vol_own0 < mv; removed += want_removed;
                if (want_removed && o->cells_after != 0) m.fail("cell_removal", "cell with volume " + Cmp::dstr(o->vol_own0) + " below min_vol " + Cmp::dstr(mv) + " was kept");
                if (!want_removed && o->cells_after != 1) m.fail("cell_removal", "cell with volume " + Cmp::dstr(o->vol_own0) + " above min_vol " + Cmp::dstr(mv) + " was removed"); }
            agg.bin(removed == 1 ? "min_vol:one_kept_one_removed" : "min_vol:same_outcome_in_both_runs");
        }
        finish_case(true); return;
    }
    if (tag == "contact_cutoff_adhesion" || tag == "contact_cutoff_repulsion") {
        B = A; double v0 = fld(A.num, tag).dval; setv(B.num, tag.c_str(), g, v0 * (g.coin() ? g.uni(1.2, 3) : 1 / g.uni(1.2, 3)));
        if (run_pair(m, oa, ob)) {
            int w = 0; for (Obs* o : {&oa, &ob}) { const Doc& D = (w++ == 0) ? A : B;
                if (!same_bits(o->cm_adh, fld(D.num, "contact_cutoff_adhesion").dval)) m.fail("contact_model_cutoff", "adhesion cut-off used by the contact model " + Cmp::dstr(o->cm_adh) + " is not the value of <contact_cutoff_adhesion> " + fld(D.num, "contact_cutoff_adhesion").text);
                if (!same_bits(o->cm_rep, fld(D.num, "contact_cutoff_repulsion").dval)) m.fail("contact_model_cutoff", "repulsion cut-off used by the contact model " + Cmp::dstr(o->cm_rep) + " is not the value of <contact_cutoff_repulsion> " + fld(D.num, "contact_cutoff_repulsion").text);
                // behaviour: pushed back at 0.5 and 0.9 repulsion cut-offs (also when that is beyond the adhesion cut-off), left alone at 1.2 x the larger cut-off
                if (o->ok && su.kct < o->rd.ct.size()) { const double adh = fld(D.num, "contact_cutoff_adhesion").dval, rep = fld(D.num, "contact_cutoff_repulsion").dval;
                    try { for (double fr : {0.5, 0.9, 1.2}) { const double fm = contact_probe_force(o->rd.sp, *o->rd.ct[su.kct], fr < 1 ? fr * rep : fr * std::max(adh, rep)); /* the models apply the repulsion rule up to the larger of the two cut-offs */ agg.bin("contact_cutoff_probes"); if (fr < 1 && fr * rep > adh) agg.bin("contact_cutoff_probes_between_the_two_cutoffs");
                            if (fr < 1 && !(fm > 0)) m.fail("repulsion_range", "a node " + Cmp::dstr(fr) + " repulsion cut-offs inside another cell receives no contact force (adhesion cut-off " + Cmp::dstr(adh) + ", repulsion cut-off " + Cmp::dstr(rep) + ")");
                            if (fr > 1 && fm != 0) m.fail("repulsion_range", "a node 1.2 x the larger cut-off inside another cell still receives a contact force"); } }
                    catch (const std::exception& e) { m.fail("repulsion_range", std::string("contact probe threw: ") + e.what()); } } }
        }
        finish_case(true); return;
    }
    if (tag == "enable_edge_swap_operation") {
        long v = fld(A.num, tag).ival; B = A; set_int(fld(B.num, tag), g, 1 - v);
        if (run_pair(m, oa, ob)) { if (oa.swap_enabled != (v != 0) || ob.swap_enabled != (v == 0)) m.fail("refiner_flag", "edge swap flag of the mesh refiner does not follow the tag"); }
        finish_case(true); return;
    }
    c.v = "skip"; agg.add(c);
}

// min_edge_length: file A keeps the mesh inside [l, 3l] (no remeshing expected), file B asks for a finer mesh.  Run in a forked
// child (remeshing is the one operation of part B that changes the mesh); capacity is reserved so that node references stay valid.
static void meaning_lmin_isolated(MCtx& m) {
    Doc& A = m.A; Doc& B = m.B; Rng& g = m.g; B = A; double f = g.uni(1.6, 2.4); setv(B.num, "min_edge_length", g, m.bm.emax / (3 * f));
    double lA = fld(A.num, "min_edge_length").dval, lB = fld(B.num, "min_edge_length").dval;
    if (!(3 * lB * 1.1 < m.bm.emin)) { m.c.v = "skip"; m.agg.bin("meaning_skipped:min_edge_length:rounded_value_not_fine_enough"); return; }
    m.su.want_edges = true; m.su.reserve = true; m.su.n_iter = 1;
    MCtx* mp = &m;
    IsoResult res = run_isolated([mp]() -> std::string {
        Obs oa = run_one(mp->A, mp->bm, mp->su, mp->a.seed, mp->i), ob = run_one(mp->B, mp->bm, mp->su, mp->a.seed, mp->i);
        auto stat = [](const Obs& o) { double mn = INFINITY, mx = 0, s = 0; for (double e : o.pr.edge_len) { mn = std::min(mn, e); mx = std::max(mx, e); s += e; } char b[256];
            snprintf(b, sizeof b, "%d %zu %zu %zu %.17g %.17g %.17g ", o.ok && o.pr.got_edges ? 1 : 0, o.n_nodes, o.pr.nodes_after_refine, o.pr.edge_len.size(), mn, mx, o.pr.edge_len.empty() ? 0.0 : s / o.pr.edge_len.size()); return std::string(b); };
        return stat(oa) + stat(ob) + "| " + oa.err + " | " + ob.err;
    }, 60, 120);
    if (!res.completed) { m.agg.bin("min_edge_length:crashed_in_child"); m.c.v = "inconclusive"; m.c.msg = "min_edge_length experiment crashed in the child (signal " + std::to_string(res.signal) + "): " + res.err.substr(0, 300); return; }
    int okA = 0, okB = 0; size_t nA0, nA1, eA, nB0, nB1, eB; double mnA, mxA, meA, mnB, mxB, meB;
    if (sscanf(res.line.c_str(), "%d %zu %zu %zu %lg %lg %lg %d %zu %zu %zu %lg %lg %lg", &okA, &nA0, &nA1, &eA, &mnA, &mxA, &meA, &okB, &nB0, &nB1, &eB, &mnB, &mxB, &meB) != 14 || !okA || !okB) {
        m.c.v = "inconclusive"; m.c.msg = "min_edge_length experiment did not complete: " + res.line.substr(0, 400); return; }
    if (nA1 != nA0 || !(std::fabs(mnA - m.bm.emin) <= 1e-9 * m.bm.emin) || !(std::fabs(mxA - m.bm.emax) <= 1e-9 * m.bm.emax)) m.fail("edge_lengths_after_refinement", "all edges inside [l_min, 3 l_min] but the mesh was changed by the refinement");
    // every edge is examined after its last modification and split while longer than 3 l_min: no edge may exceed it when the pass returns
    m.agg.maxi("min_edge_length:max_edge_over_3lmin_after_pass", mxB / (3 * lB));
    if (!(mxB <= 3 * lB * (1 + 1e-12))) m.fail("edge_lengths_after_refinement", "an edge is longer than 3 * min_edge_length after the refinement pass");
    if (!(meB >= lB && meB <= 3 * lB)) m.fail("edge_lengths_after_refinement", "mean edge length outside [l_min, 3 l_min] after refinement");
    if (!(nB1 > nA1 && meB < meA)) m.fail("edge_lengths_direction", "a smaller min_edge_length did not give a finer mesh");
    m.c.obs.d("l_min_A", lA).d("l_min_B", lB).i("nodes_A", (long long)nA1).i("nodes_B", (long long)nB1).d("max_edge_B_over_lminB", mxB / lB).d("min_edge_B_over_lminB", mnB / lB);
    m.agg.maxi("min_edge_length:nodes_ratio_B_over_A", (double)nB1 / (double)nA1);
    if (mnB < lB) m.agg.bin("min_edge_length:edge_shorter_than_lmin_after_pass");
}

}  // namespace c18
