// C04 — growth, pressure, division trigger and removal follow the cell-cycle law.
//
// Three workloads (selected with --mode=):
//   direct : fresh cells of every class, random cell-type parameter sets, k calls of the public cell::apply_internal_forces(dt)
//            with the mesh deformed between the calls.  Oracle: own long-double recurrence Vt' = max(min_vol, Vt + g dt) and
//            p = min(p_max, -K ln(V/Vt)) with V the own (orc::geometry) volume of the triangle list the cell holds; then the division
//            trigger for division volumes placed at / one ulp around / far from the reported volume, and is_below_min_vol().
//   draws  : cell::initialize_random_properties() called many times under the H2 seeding hook (a different, well mixed seed per call):
//            every growth rate and division volume lies in mean +- 3 sigma, equals the mean for sigma = 0 / mean = INF, the draws of
//            one configuration are not all identical; counts of draws at the clamp boundaries and in the 2..3 sigma band are exported
//            (checks/C04.py decides on the totals of the run that the clamp really is at 3 sigma).
//   solver : a subclass of solver with 1..6 small non-interacting cells, observed through the H4 phase hook.  After the force phase
//            (tag 7) the same two laws are checked for every cell that receives internal forces, start value = what the constructor
//            must set, V0 exp(p0/K); around the removal (tags 9 -> 10) exactly the cells below their minimum volume disappear; a
//            population change anywhere else is only allowed at the division point (tag 2: a ready mother is replaced by two new ids);
//            a removed id never reappears.  Each run is executed in a forked child.
// Debugging aids (never set by checks/C04.py): C04_NOFORK=1 runs a solver case in-process, C04_DEBUG=1 traces every phase on stderr.
#include "vh.hpp"
#include <atomic>
#include "gen.hpp"
#include "oracle.hpp"
#include "solver.hpp"
#include "verif_hooks.hpp"
#include <filesystem>
#include <set>
#include <unistd.h>

using namespace vh;
using orc::V3; using orc::R; using orc::Tri;

namespace {

const R EPS = 1.1102230246251565e-16L;   // unit roundoff of double
const char* CLSNAME[5] = {"epithelial", "ecm", "lumen", "nucleus", "static"};

// ---- H2: deterministic, well mixed seed per (site, context, counter) ----------------------------------------
// std::minstd_rand maps nearby seeds to nearby first outputs, so the seed itself must already be a hash.
uint64_t g_rng_base = 0; std::atomic<uint64_t> g_rng_counter{0}; std::atomic<long> g_rng_calls[2];   // the sink is called from the parallel division loop of 4-thread runs
uint64_t seed_sink(int site, uint64_t ctx) {
    if (site == 0 || site == 1) g_rng_calls[site]++;
    return mix64(hash_combine(hash_combine(g_rng_base, (uint64_t)site + 0x51ULL), hash_combine(ctx, g_rng_counter.fetch_add(1))));
}
void rng_case(uint64_t seed, long i, uint64_t tag) { g_rng_base = hash_combine(hash_combine(seed, tag), (uint64_t)i); g_rng_counter = 0; verif::get().rng_seed = seed_sink; }

// ---- own geometry of the triangle list a cell holds -----------------------------------------------------------
struct OG { bool ok = false; R V = 0, r = 0, D = 0; size_t F = 0; V3 ref;
    // forward error of ANY origin-relative signed-tetrahedron sum in double (the bound of C12, which owns the volume itself):
    // F products of magnitude <= (D+r)^3 with a few roundings each, accumulated -> c eps sqrt(F) (D+r)^3 (absolute).  C12 uses c = 256;
    // on the deformed meshes of this workload that left a 22x margin over a 50 000-case soak, c = 1024 restores > 30x and is still
    // below 1e-11 relative for a cell at the origin (a stale or wrong volume is off by >= 1e-6).
    R tolV() const { return 1024 * EPS * std::sqrt((R)F) * (D + r) * (D + r) * (D + r); } };
OG own_geo(const cell& c) {
    OG o; std::vector<V3> P; std::vector<Tri> T; std::vector<unsigned> live; gen::extract(c, P, T, nullptr, &live);
    if (T.size() < 4 || live.empty()) return o;
    orc::Geo g = orc::geometry(P, T); o.V = g.volume; o.ref = g.ref; o.F = T.size(); o.D = g.ref.norm();
    for (unsigned v : live) { o.r = std::max(o.r, (P[v] - g.ref).norm()); if (!std::isfinite((double)P[v].x) || !std::isfinite((double)P[v].y) || !std::isfinite((double)P[v].z)) return o; }
    o.ok = std::isfinite((double)o.V); return o;
}

// ---- the two laws ---------------------------------------------------------------------------------------------
// Target volume: the repository evaluates Vt + dt*g in double (2 roundings of magnitude <= |Vt| + |g dt| per step); the clamp
// max(min_vol, .) is exact and 1-Lipschitz.  After `steps` steps the double trajectory is within 2 eps (steps+1) S of the exact one (rigorous, first order); 32 eps (steps+1) S is used,
// S = largest |Vt| + |g dt| met so far.
struct VtOracle { R Vt = 0, S = 0; long steps = 0; bool clamp_active = false;
    void start(R v) { Vt = v; S = std::fabs(v); steps = 0; }
    void step(R g, R dt, R min_vol) { R raw = Vt + g * dt; S = std::max(S, std::fabs(raw) + std::fabs(g * dt)); clamp_active = raw < min_vol; Vt = clamp_active ? min_vol : raw; S = std::max(S, std::fabs(Vt)); steps++; }
    R tol() const { return 32 * EPS * (R)(steps + 1) * S; } };
// Pressure: p = fl(-K fl(log(fl(V/Vt)))).  A relative error dv of V and dt of Vt moves ln(V/Vt) by dv + dt (+ eps for the division,
// + eps |ln| for log and the product); min(p_max, .) is exact and 1-Lipschitz.
struct POracle { R p_unc = 0, p_exp = 0, tol = 0; bool cap_active = false, finite = false; };
POracle pressure_oracle(R K, R pmax, R V, R tolV, R Vt, R tolVt) {
    POracle o; R ln = std::log(V / Vt); o.finite = std::isfinite((double)ln) && V > 0 && Vt > 0; if (!o.finite) return o;
    o.p_unc = K == 0 ? 0 : -K * ln;
    o.tol = std::fabs(K) * (tolV / V + tolVt / Vt + 8 * EPS) + 8 * EPS * std::fabs(o.p_unc);
    o.p_exp = std::min(pmax, o.p_unc); o.cap_active = o.p_unc > pmax + o.tol; return o;
}
// 3 sigma window: the clamp bound is fl(mean + fl(3 sigma)), i.e. within 4 eps (|mean| + 3 sigma) of the exact bound
// a clamped draw sits on fl(mean +- 3 sigma): side = +1 / -1 / 0
int at_3sigma_bound(double x, double mean, double sd) {
    R slack = 4 * EPS * (std::fabs((R)mean) + 3 * std::fabs((R)sd)); R hi = (R)mean + 3 * std::fabs((R)sd), lo = (R)mean - 3 * std::fabs((R)sd);
    if (std::fabs((R)x - hi) <= slack) return 1; if (std::fabs((R)x - lo) <= slack) return -1; return 0;
}
bool in_3sigma(double x, double mean, double sd, R* z_out = nullptr) {
    R slack = 4 * EPS * (std::fabs((R)mean) + 3 * std::fabs((R)sd)); R d = std::fabs((R)x - (R)mean);
    if (z_out) *z_out = sd != 0 ? ((R)x - (R)mean) / (R)sd : 0;
    return d <= 3 * std::fabs((R)sd) + slack;
}
int class_of(const cell& c) { if (dynamic_cast<const epithelial_cell*>(&c)) return 0; if (dynamic_cast<const ecm_cell*>(&c)) return 1; if (dynamic_cast<const lumen_cell*>(&c)) return 2; if (dynamic_cast<const nucleus_cell*>(&c)) return 3; if (dynamic_cast<const static_cell*>(&c)) return 4; return 5; }
// does the public apply_internal_forces do anything for this cell?  (ecm_cell::apply_internal_forces returns at once while the cell is static)
bool receives_internal_forces(const cell& c) { return !(class_of(c) == 1 && c.is_static()); }
std::string fmt(R v) { char b[64]; snprintf(b, sizeof b, "%.17Lg", v); return b; }

// ===================================================================================================================
// mode = direct
// ===================================================================================================================
int run_direct(const Args& a) {
    Agg agg; agg.max_viol = 40;
    for (long i = a.first; i < a.first + a.cases; i++) {
        if (!a.mine(i)) continue;
        Rng g(a.seed, (uint64_t)i, 0x4A); rng_case(a.seed, i, 0x4A);
        Case c(i);
        // ---- mesh
        gen::TriMesh m = gen::random_shape(g, 400);
        if (g.coin(0.7)) gen::jitter(m, g, g.uni(0.005, 0.04));
        gen::rotate(m, gen::rot_random(g));
        const double scale = g.logu(1e-6, 1e1); gen::scale(m, scale, scale, scale);
        const double off_rel = g.coin(0.3) ? 0.0 : g.logu(1e-2, 10);
        { double d[3] = {g.normal(), g.normal(), g.normal()}; double n = std::sqrt(d[0] * d[0] + d[1] * d[1] + d[2] * d[2]); for (auto& p : m.P) for (int k = 0; k < 3; k++) p[k] += d[k] / n * off_rel * scale; }
        // ---- class; an ecm cell is static by construction (no internal forces), 40% of them are made mobile through the tester
        static const int other_cls[3] = {2, 3, 4}; const int cls = g.coin(0.18) ? 1 : (g.coin(0.4) ? 0 : other_cls[g.range(0, 2)]);
        auto ct = gen::default_cell_type(3);
        cell_ptr cp; try { cp = gen::make_cell_of_class(cls, m, 3, ct); } catch (const std::exception& e) { c.v = "skip"; agg.bin("skip:construction_threw"); agg.add(c); continue; }
        cell& ce = *cp;
        const bool ecm_mobile = cls == 1 && g.coin(0.4); if (ecm_mobile) cell_tester::is_static(ce) = false;
        OG g0 = own_geo(ce);
        if (!g0.ok || !(g0.V > 0)) { c.v = "skip"; agg.bin("skip:degenerate"); agg.add(c); continue; }
        const R V0 = g0.V;
        // ---- parameter set
        const double dt = g.logu(1e-7, 1e-1); const int steps = g.range(1, 12);
        const int kmode = g.coin(0.15) ? 0 : 1; const double K = kmode == 0 ? 0.0 : g.logu(1e-2, 1e6);
        const double u = g.coin(0.1) ? 0.0 : g.uni(0.001, 1.5) * (g.coin() ? 1 : -1); const double Vt0 = (double)(V0 * std::exp((R)u));
        const int gmode = g.coin(0.2) ? 0 : (g.coin(0.45) ? 1 : 2);                 // 0 zero, 1 positive, 2 negative
        int mvmode = g.range(0, 3);                                                 // 0 zero, 1 far below, 2 just below, 3 just above the start volume
        double gmean = gmode == 0 ? 0.0 : (gmode == 1 ? 1 : -1) * (double)V0 * g.uni(0.001, 0.2) / dt;
        double minvol = mvmode == 0 ? 0.0 : mvmode == 1 ? (double)V0 * g.logu(1e-3, 0.5) : mvmode == 2 ? (double)V0 * (1 - g.logu(1e-6, 0.1)) : (double)V0 * (1 + g.logu(1e-6, 0.2));
        // with min_vol = 0 a long enough shrinkage would drive Vt to 0 (p = -inf by the law itself): keep Vt >= 0.3 Vt0 there
        if (gmode == 2 && mvmode == 0 && std::fabs(gmean) * dt * steps > 0.7 * Vt0) gmean = -0.7 * Vt0 / (dt * steps) * g.uni(0.1, 1);
        const bool gsigma = gmode != 0 && g.coin(0.25);
        ct->bulk_modulus_ = K; ct->min_vol_ = minvol; ct->avg_growth_rate_ = gmean; ct->std_growth_rate_ = gsigma ? std::fabs(gmean) * g.logu(0.01, 0.3) : 0.0;
        ct->avg_division_vol_ = g.coin() ? INFINITY : (double)V0 * g.uni(0.5, 2); ct->std_division_vol_ = g.coin() ? 0.0 : (double)V0 * 0.05;
        ce.initialize_random_properties();                                         // growth rate / division volume of THIS parameter set
        const double grate = ce.get_growth_rate();
        if (!in_3sigma(grate, gmean, ct->std_growth_rate_)) c.viol("direct:growth_rate_outside_3_sigma", "growth rate " + fmt(grate) + " outside mean +- 3 sigma, mean " + fmt(gmean) + " sigma " + fmt(ct->std_growth_rate_));
        if (!gsigma && grate != gmean) c.viol("direct:growth_rate_not_mean_for_sigma_zero", "sigma = 0 but growth rate " + fmt(grate) + " != mean " + fmt(gmean));
        // pressure cap relative to the pressure expected in the first step
        R Vt1 = std::max((R)minvol, (R)Vt0 + (R)grate * dt); R p1 = Vt1 > 0 ? -(R)K * std::log(V0 / Vt1) : 0;
        const int pm = g.range(0, 9); const double scalep = p1 != 0 ? (double)std::fabs(p1) : (K != 0 ? K * 0.1 : 1.0);
        const double pmax = pm <= 2 ? INFINITY : pm <= 5 ? scalep * g.uni(0.1, 0.9) : pm <= 7 ? scalep * g.uni(1.5, 10) : pm == 8 ? 0.0 : -scalep * g.uni(0.1, 2);
        ct->max_pressure_ = pmax;
        ce.set_target_volume(Vt0);
        const bool subject = receives_internal_forces(ce);
        const bool deform = g.coin(0.6);
        // ---- trajectory
        VtOracle vo; vo.start((R)Vt0);
        const double vt_before = ce.get_target_volume(), p_before = ce.get_pressure(), v_before = ce.get_volume();
        long n_clamp = 0, n_cap = 0, n_below = 0; R worst_p = 0, worst_vt = 0, worst_v = 0; OG gk = g0; uint64_t sig = hash_double(Vt0);
        bool unusable = false;
        for (int k = 0; k < steps && c.v != "viol"; k++) {
            if (deform && k > 0) { double s[3]; for (auto& x : s) x = g.uni(0.93, 1.07); OG gg = own_geo(ce);
                for (node& n : cell_tester::nodes(ce)) if (n.is_used()) { vec3& p = cell_tester::pos(n); p = vec3((double)gg.ref.x + s[0] * (p.dx() - (double)gg.ref.x), (double)gg.ref.y + s[1] * (p.dy() - (double)gg.ref.y), (double)gg.ref.z + s[2] * (p.dz() - (double)gg.ref.z)); } }
            gk = own_geo(ce); if (!gk.ok || !(gk.V > 0)) { unusable = true; break; }
            ce.apply_internal_forces(dt);
            const double vt = ce.get_target_volume(), p = ce.get_pressure(), v = ce.get_volume();
            if (!subject) {   // static ecm cell: the call must be a no-op for the cell-cycle state (evidence only; the statement excludes these cells)
                agg.bin(vt == vt_before && p == p_before && v == v_before ? "ecm_static:state_untouched" : "ecm_static:state_changed"); continue; }
            vo.step((R)grate, (R)dt, (R)minvol);
            R dvt = std::fabs((R)vt - vo.Vt), tvt = vo.tol();
            worst_vt = std::max(worst_vt, tvt > 0 ? dvt / tvt : (dvt == 0 ? 0 : (R)INFINITY));
            if (vo.clamp_active) n_clamp++;
            if (!(dvt <= tvt)) { c.viol(vo.clamp_active ? "direct:target_volume_min_vol_clamp" : "direct:target_volume_recurrence", "step " + std::to_string(k) + ": target volume " + fmt(vt) + ", law max(min_vol, Vt + g dt) gives " + fmt(vo.Vt) + " (g " + fmt(grate) + ", dt " + fmt(dt) + ", min_vol " + fmt(minvol) + ")"); break; }
            // reported volume = enclosed volume of the current mesh (the volume itself is C12's; here it only has to be fresh)
            R dv = std::fabs((R)v - gk.V); worst_v = std::max(worst_v, dv / gk.tolV());
            if (!(dv <= gk.tolV())) { c.viol("direct:volume_not_of_current_mesh", "step " + std::to_string(k) + ": get_volume() " + fmt(v) + " but the mesh encloses " + fmt(gk.V)); break; }
            POracle po = pressure_oracle((R)K, (R)pmax, gk.V, gk.tolV(), vo.Vt, tvt);
            if (!po.finite) { unusable = true; break; }
            R dp = std::fabs((R)p - po.p_exp); if (po.cap_active) n_cap++;
            worst_p = std::max(worst_p, po.tol > 0 ? dp / po.tol : (dp == 0 ? 0 : (R)INFINITY));
            if (!(dp <= po.tol) || (po.cap_active && p != pmax)) { c.viol(po.cap_active ? "direct:pressure_cap" : (K == 0 ? "direct:pressure_law_K0" : "direct:pressure_law"), "step " + std::to_string(k) + ": pressure " + fmt(p) + ", law min(p_max, -K ln(V/Vt)) gives " + fmt(po.p_exp) + " (uncapped " + fmt(po.p_unc) + ", p_max " + fmt(pmax) + ", K " + fmt(K) + ", V " + fmt(gk.V) + ", Vt " + fmt(vo.Vt) + ")"); break; }
            // is_below_min_vol <=> V < min_vol (ties within the volume tolerance excluded)
            if (std::fabs(gk.V - (R)minvol) > gk.tolV()) { bool e = gk.V < (R)minvol; if (e) n_below++; agg.bin(e ? "below_min_vol:true" : "below_min_vol:false");
                if (ce.is_below_min_vol() != e) { c.viol("direct:is_below_min_vol", "is_below_min_vol() = " + std::to_string(ce.is_below_min_vol()) + " with V " + fmt(gk.V) + " and min_vol " + fmt(minvol)); break; } }
            else agg.bin("below_min_vol:tie_excluded");
            sig = hash_combine(sig, hash_combine(hash_double(vt), hash_double(p)));
        }
        if (unusable) { c.v = "skip"; agg.bin("skip:degenerate_after_deformation"); agg.add(c); continue; }
        // ---- division trigger on the final state
        long n_div = 0;
        if (c.v != "viol") {
            const double vrep = ce.get_volume(); OG gf = own_geo(ce);
            // static ecm cells never refresh volume_: the volume the trigger sees is the one of the construction
            const R Vown = subject ? gf.V : g0.V, tV = subject ? gf.tolV() : g0.tolV();
            struct DV { double v; const char* name; bool exact; };
            std::vector<DV> dvs = {{vrep, "equal", true}, {std::nextafter(vrep, INFINITY), "one_ulp_above", true}, {std::nextafter(vrep, -INFINITY), "one_ulp_below", true},
                                   {INFINITY, "inf", false}, {0.0, "zero", false}, {-vrep, "negative", false}, {vrep * (1 + g.logu(1e-9, 1e-1)), "slightly_above", false}, {vrep * (1 - g.logu(1e-9, 1e-1)), "slightly_below", false},
                                   {vrep * g.uni(1.5, 10), "far_above", false}, {vrep * g.uni(0.01, 0.7), "far_below", false}, {ce.get_division_volume(), "drawn", false}};
            if (std::fabs((R)vrep - Vown) > tV) c.viol("direct:volume_not_of_current_mesh", "get_volume() " + fmt(vrep) + " but the mesh encloses " + fmt(Vown));
            for (auto& d : dvs) {
                if (c.v == "viol") break;
                cell_tester::division_volume(ce) = d.v; const bool got = ce.is_ready_to_divide(); bool expect; bool decided = true;
                if (cls != 0) expect = false;
                else if (d.exact) expect = vrep >= d.v;                                   // V_div placed on the reported volume itself: exact comparison of two doubles
                else if (std::fabs(Vown - (R)d.v) > tV) expect = Vown >= (R)d.v;          // generic: own volume, ties within the volume tolerance excluded
                else decided = false;
                if (!decided) { agg.bin("division_trigger:tie_excluded"); continue; }
                n_div++; agg.bin(std::string("division_trigger:") + (cls == 0 ? "epithelial:" : "other_class:") + d.name + (got ? ":ready" : ":not_ready"));
                if (got != expect) c.viol(std::string("direct:division_trigger:") + (cls == 0 ? "epithelial:" : "other_class:") + d.name, std::string("is_ready_to_divide() = ") + (got ? "true" : "false") + " for class " + CLSNAME[cls] + ", V " + fmt(vrep) + ", division volume " + fmt(d.v));
            }
        }
        // ---- evidence
        const std::string cn = ecm_mobile ? "ecm_mobile" : CLSNAME[cls];
        agg.bin("class:" + cn); agg.bin(subject ? "cells_subject_to_internal_forces" : "cells_not_subject(static ecm)");
        if (subject) {
            agg.bin(kmode == 0 ? "K:zero" : "K:positive"); agg.bin(gmode == 0 ? "growth:zero" : gmode == 1 ? "growth:positive" : "growth:negative"); if (gsigma) agg.bin("growth:drawn_with_sigma");
            agg.bin(mvmode == 0 ? "min_vol:zero" : mvmode == 1 ? "min_vol:far_below_start" : mvmode == 2 ? "min_vol:just_below_start" : "min_vol:just_above_start");
            agg.bin(std::isinf(pmax) ? "p_max:inf" : pmax == 0 ? "p_max:zero" : pmax < 0 ? "p_max:negative" : "p_max:finite_positive"); agg.bin(u == 0 ? "start:Vt_equals_V" : u > 0 ? "start:Vt_above_V" : "start:Vt_below_V");
            agg.bin("steps_checked", vo.steps); agg.bin("steps_min_vol_clamp_active", n_clamp); agg.bin("steps_pressure_cap_active", n_cap); agg.bin("steps_below_min_vol", n_below);
            if (n_clamp) agg.bin("cells_with_min_vol_clamp_active"); if (n_cap) agg.bin("cells_with_pressure_cap_active"); if (n_clamp && gmode == 2) agg.bin("cells_shrinking_onto_min_vol");
            if (deform) agg.bin("history:mesh_deformed_between_steps"); else agg.bin("history:mesh_fixed");
            agg.maxi("direct:pressure_err_over_tol", (double)worst_p); agg.maxi("direct:target_volume_err_over_tol", (double)worst_vt); agg.maxi("direct:volume_err_over_tol", (double)worst_v);
        }
        agg.bin("division_trigger_evaluations", n_div);
        c.nontrivial = c.v != "viol" && (subject ? vo.steps > 0 : true) && n_div > 0; c.sig = hash_combine(sig, (uint64_t)cls);
        if (c.v == "viol" || agg.samples.size() < agg.max_samples)
            c.obs.s("mode", "direct").s("class", cn).s("mesh", m.name).i("faces", (long long)g0.F).d("scale", scale).d("offset_over_size", off_rel).d("V0", (double)V0).d("Vt0", Vt0).d("K", K).d("p_max", pmax).d("growth_rate", grate)
                .d("growth_sigma", ct->std_growth_rate_).d("dt", dt).d("min_vol", minvol).i("steps", steps).b("deform", deform).d("final_target_volume", ce.get_target_volume()).d("final_pressure", ce.get_pressure()).d("final_volume", ce.get_volume())
                .i("steps_clamp_active", n_clamp).i("steps_cap_active", n_cap);
        agg.add(c);
    }
    agg.bin("rng_hook_calls:growth_rate", g_rng_calls[0]); agg.bin("rng_hook_calls:division_volume", g_rng_calls[1]);
    agg.flush(a.shard_i);
    return 0;
}

// ===================================================================================================================
// mode = draws
// ===================================================================================================================
int run_draws(const Args& a) {
    Agg agg; agg.max_viol = 40; const long D = a.geti("draws", 400);
    const gen::TriMesh ico = gen::icosahedron();
    for (long i = a.first; i < a.first + a.cases; i++) {
        if (!a.mine(i)) continue;
        Rng g(a.seed, (uint64_t)i, 0x4D); rng_case(a.seed, i, 0x4D);
        Case c(i);
        const int cls = g.range(0, 4); auto ct = gen::default_cell_type(3);
        cell_ptr cp = gen::make_cell_of_class(cls, ico, (unsigned)g.range(0, 1000), ct); cell& ce = *cp;
        // growth: sigma = 0 | sigma > 0 with zero / positive / negative mean, sigma from 1e-3 to 1e2 of |mean|
        const int gm = g.range(0, 3); const bool gs = g.coin(0.75);
        const double gmean = gm == 0 ? 0.0 : (gm == 1 ? 1 : -1) * g.logu(1e-14, 1e-8) * (gm == 3 && g.coin() ? -1 : 1);
        const double gsd = !gs ? 0.0 : (gmean == 0 ? g.logu(1e-14, 1e-8) : std::fabs(gmean) * g.logu(1e-3, 1e2));
        // division volume: mean INF (sigma ignored) | sigma = 0 | sigma > 0 (up to 10 x mean: the window then reaches negative volumes)
        const int dm = g.range(0, 3); const double dmean = dm == 0 ? INFINITY : g.logu(1e-17, 1e-12); const bool ds = g.coin(0.75);
        const double dsd = !ds ? 0.0 : (std::isinf(dmean) ? g.logu(1e-17, 1e-12) : dmean * g.logu(1e-3, 1e1));
        ct->avg_growth_rate_ = gmean; ct->std_growth_rate_ = gsd; ct->avg_division_vol_ = dmean; ct->std_division_vol_ = dsd;
        const bool g_random = gsd != 0, d_random = dsd != 0 && !std::isinf(dmean);
        std::set<double> gvals, dvals; long g_lo = 0, g_hi = 0, d_lo = 0, d_hi = 0, g_band = 0, d_band = 0, g_tail = 0, d_tail = 0; R gz1 = 0, gz2 = 0, dz1 = 0, dz2 = 0; uint64_t sig = 0;
        const long calls0[2] = {g_rng_calls[0], g_rng_calls[1]};
        for (long k = 0; k < D && c.v != "viol"; k++) {
            verif::rng_context() = (uint64_t)g.range(0, 50);          // the context key of the hook (cell id during a division) varies as well
            ce.initialize_random_properties();
            const double x = ce.get_growth_rate(), y = ce.get_division_volume(); R z;
            if (!g_random) { if (!(x == gmean)) c.viol("draws:growth_rate_not_mean_for_sigma_zero", "sigma = 0 but growth rate " + fmt(x) + " != mean " + fmt(gmean)); }
            else { if (!in_3sigma(x, gmean, gsd, &z)) c.viol("draws:growth_rate_outside_3_sigma", "growth rate " + fmt(x) + " is " + fmt(z) + " sigma from the mean " + fmt(gmean) + " (sigma " + fmt(gsd) + ")");
                gvals.insert(x); gz1 += z; gz2 += z * z; if (std::fabs(z) > 2.05L && std::fabs(z) < 2.95L) g_band++; if (std::fabs(z) > 1.0L) g_tail++;
                { int b = at_3sigma_bound(x, gmean, gsd); if (b > 0) g_hi++; if (b < 0) g_lo++; } }
            if (!d_random) { if (!(y == dmean)) c.viol(std::isinf(dmean) ? "draws:division_volume_not_inf_for_mean_inf" : "draws:division_volume_not_mean_for_sigma_zero", "division volume " + fmt(y) + " != mean " + fmt(dmean) + " (sigma " + fmt(dsd) + ")"); }
            else { if (!in_3sigma(y, dmean, dsd, &z)) c.viol("draws:division_volume_outside_3_sigma", "division volume " + fmt(y) + " is " + fmt(z) + " sigma from the mean " + fmt(dmean) + " (sigma " + fmt(dsd) + ")");
                dvals.insert(y); dz1 += z; dz2 += z * z; if (std::fabs(z) > 2.05L && std::fabs(z) < 2.95L) d_band++; if (std::fabs(z) > 1.0L) d_tail++;
                { int b = at_3sigma_bound(y, dmean, dsd); if (b > 0) d_hi++; if (b < 0) d_lo++; } }
            sig = hash_combine(sig, hash_combine(hash_double(x), hash_double(y)));
        }
        // sigma large enough to be resolved by double (>= 1e-3 |mean| here): D draws from different seeds cannot all coincide
        if (c.v != "viol" && g_random && D >= 20 && gvals.size() <= 1) c.viol("draws:growth_rates_all_identical", "all " + std::to_string(D) + " growth rates are " + fmt(*gvals.begin()) + " although sigma = " + fmt(gsd));
        if (c.v != "viol" && d_random && D >= 20 && dvals.size() <= 1) c.viol("draws:division_volumes_all_identical", "all " + std::to_string(D) + " division volumes are " + fmt(*dvals.begin()) + " although sigma = " + fmt(dsd));
        agg.bin(std::string("class:") + CLSNAME[cls]);
        agg.bin(g_random ? "growth_cfg:sigma_positive" : "growth_cfg:sigma_zero"); agg.bin(gmean == 0 ? "growth_cfg:mean_zero" : gmean > 0 ? "growth_cfg:mean_positive" : "growth_cfg:mean_negative");
        agg.bin(std::isinf(dmean) ? (dsd != 0 ? "division_cfg:mean_inf_sigma_positive" : "division_cfg:mean_inf_sigma_zero") : d_random ? "division_cfg:sigma_positive" : "division_cfg:sigma_zero");
        if (g_random) { agg.bin("growth_draws_random", D); agg.bin("growth_draws_at_upper_clamp", g_hi); agg.bin("growth_draws_at_lower_clamp", g_lo); agg.bin("growth_draws_2.05_to_2.95_sigma", g_band); agg.bin("growth_draws_beyond_1_sigma", g_tail);
            agg.bin("growth_distinct_values", (long)gvals.size()); agg.maxi("growth_abs_mean_z_of_a_case", (double)std::fabs(gz1 / D)); agg.bin("growth_hook_calls", g_rng_calls[0] - calls0[0]); if (gsd > 3 * std::fabs(gmean)) agg.bin("growth_cfg:window_spans_zero"); }
        else agg.bin("growth_draws_deterministic", D);
        if (d_random) { agg.bin("division_draws_random", D); agg.bin("division_draws_at_upper_clamp", d_hi); agg.bin("division_draws_at_lower_clamp", d_lo); agg.bin("division_draws_2.05_to_2.95_sigma", d_band); agg.bin("division_draws_beyond_1_sigma", d_tail);
            agg.bin("division_distinct_values", (long)dvals.size()); agg.maxi("division_abs_mean_z_of_a_case", (double)std::fabs(dz1 / D)); agg.bin("division_hook_calls", g_rng_calls[1] - calls0[1]); if (3 * dsd > dmean) agg.bin("division_cfg:window_reaches_negative_volumes"); }
        else agg.bin(std::isinf(dmean) ? "division_draws_mean_inf" : "division_draws_deterministic", D);
        c.nontrivial = c.v != "viol" && (g_random || d_random); c.sig = sig;
        if (c.v == "viol" || agg.samples.size() < agg.max_samples)
            c.obs.s("mode", "draws").s("class", CLSNAME[cls]).i("draws", D).d("growth_mean", gmean).d("growth_sigma", gsd).d("division_mean", dmean).d("division_sigma", dsd).i("growth_distinct", (long long)gvals.size()).i("division_distinct", (long long)dvals.size())
                .i("growth_at_clamp", g_lo + g_hi).i("division_at_clamp", d_lo + d_hi).d("growth_z_mean", (double)(gz1 / D)).d("growth_z_var", (double)(gz2 / D)).d("division_z_mean", (double)(dz1 / D)).d("division_z_var", (double)(dz2 / D));
        agg.add(c);
    }
    agg.flush(a.shard_i);
    return 0;
}

// ===================================================================================================================
// mode = solver
// ===================================================================================================================
struct Loc {   // what a forked run reports back: bins, maxima and its case
    std::map<std::string, long> bins; std::map<std::string, double> maxima;
    void bin(const std::string& b, long n = 1) { bins[b] += n; }
    void maxi(const std::string& k, double v) { auto it = maxima.find(k); if (it == maxima.end() || v > it->second) maxima[k] = v; }
};

static int g_solver_threads = 1;   // set from --threads: removals and divisions of several cells in one iteration must not depend on it
struct MonSolver : public solver {
    using solver::solver;
    unsigned iteration() const { return iteration_; }
};

struct Track { int cls = 0; bool subject = false; VtOracle vo; R Vforce = 0, tolVforce = 0, Vfirst = 0; bool started = false; bool daughter = false; };
struct Forced { int iter; int pos; bool done = false; };   // pos: 0 first, 1 middle, 2 last

struct Mon {
    double dt = 0; Case* c = nullptr; Loc* L = nullptr; Rng* g = nullptr;
    std::map<unsigned, Track> tr; std::set<unsigned> removed; long max_id = -1; int iter = 0; bool first_phase = true; bool stop = false; std::string stop_why;
    std::vector<unsigned> prev_ids; int prev_tag = -1;
    std::map<unsigned, bool> ready_at_1;
    std::vector<cell_ptr> snap9; std::vector<int> exp9;   // 1 must be removed, 0 must stay, -1 tie
    std::vector<Forced> forced; std::map<unsigned, R> V0own;   // own volume before the solver was constructed, by position id
    long cell_steps = 0, removed_natural = 0, removed_total = 0, divisions = 0; R worst_p = 0, worst_vt = 0, worst_v = 0, worst_start = 0; uint64_t sig = 0;

    void viol(const std::string& k, const std::string& m) { c->viol("solver:" + k, "iteration " + std::to_string(iter) + ": " + m); stop = true; if (stop_why.empty()) stop_why = "violation"; }
    static std::vector<unsigned> ids_of(const std::vector<cell_ptr>& l) { std::vector<unsigned> v; for (auto& p : l) v.push_back(p->get_id()); return v; }

    void reg(const cell_ptr& p, bool daughter) {
        Track t; t.cls = class_of(*p); t.subject = receives_internal_forces(*p); t.daughter = daughter;
        OG og = own_geo(*p); t.Vforce = og.V; t.tolVforce = og.tolV(); t.Vfirst = og.V;
        t.vo.start((R)p->get_target_volume()); t.started = true; tr[p->get_id()] = t; max_id = std::max(max_id, (long)p->get_id());
    }
    // population invariants that hold at every phase boundary
    void population(int tag, const std::vector<cell_ptr>& l) {
        std::vector<unsigned> ids = ids_of(l); std::set<unsigned> s(ids.begin(), ids.end());
        if (s.size() != ids.size()) { viol("population_duplicate_id", "two entries of the population have the same id at phase " + std::to_string(tag)); return; }
        for (unsigned id : ids) if (removed.count(id)) { viol("removed_id_reappeared", "cell id " + std::to_string(id) + " was removed earlier and is in the population again at phase " + std::to_string(tag)); return; }
        if (prev_tag >= 0 && tag != 2 && tag != 10) { std::set<unsigned> ps(prev_ids.begin(), prev_ids.end());
            if (ps != s) { viol("population_changed_outside_division_and_removal", "the set of cell ids changed between phase " + std::to_string(prev_tag) + " and phase " + std::to_string(tag)); return; } }
    }
    void on_phase(int tag, const std::vector<cell_ptr>& l) {
        if (getenv("C04_DEBUG")) { fprintf(stderr, "it %d tag %d ids:", iter, tag); for (auto& p : l) fprintf(stderr, " %u(l%u,%s,V%.4g,Vt%.4g,p%.3g,mv%.3g)", p->get_id(), p->get_local_id(), CLSNAME[class_of(*p)], p->get_volume(), p->get_target_volume(), p->get_pressure(), p->get_cell_type()->min_vol_); fprintf(stderr, "\n"); }
        if (stop) { prev_ids = ids_of(l); prev_tag = tag; return; }
        population(tag, l);
        if (!stop) switch (tag) { case 0: at_begin(l); break; case 1: at_1(l); break; case 2: at_2(l); break; case 7: at_forces(l); break; case 9: at_9(l); break; case 10: at_10(l); break; default: break; }
        prev_ids = ids_of(l); prev_tag = tag;
    }
    void at_begin(const std::vector<cell_ptr>& l) {
        if (first_phase) {
            first_phase = false;
            for (auto& p : l) {
                reg(p, false); Track& t = tr[p->get_id()]; auto ct = p->get_cell_type(); const R K = ct->bulk_modulus_, p0 = ct->initial_pressure_;
                L->bin(std::string("cells:") + CLSNAME[t.cls]);
                if (!in_3sigma(p->get_growth_rate(), ct->avg_growth_rate_, ct->std_growth_rate_)) { viol("growth_rate_outside_3_sigma", "growth rate " + fmt(p->get_growth_rate()) + " of cell id " + std::to_string(p->get_id())); return; }
                if (!std::isinf(ct->avg_division_vol_) ? !in_3sigma(p->get_division_volume(), ct->avg_division_vol_, ct->std_division_vol_) : p->get_division_volume() != ct->avg_division_vol_) { viol("division_volume_outside_3_sigma", "division volume " + fmt(p->get_division_volume()) + " of cell id " + std::to_string(p->get_id())); return; }
                if (ct->std_growth_rate_ != 0) L->bin("cells_with_drawn_growth_rate");
                if (!t.subject) { L->bin(std::isfinite(p->get_target_volume()) ? "ecm:start_target_volume_finite" : "ecm:start_target_volume_not_finite(not subject to the law)"); continue; }
                const R V0 = t.Vforce, tV = t.tolVforce; const double vt = p->get_target_volume(), pr = p->get_pressure();
                if (K == 0) {
                    // no volume elasticity: the law gives p = 0 for any finite positive target volume; V0 exp(p0/K) itself is undefined
                    L->bin("start:K_zero_cells");
                    if (!(std::isfinite(vt) && vt > 0) || !(pr == 0)) {
                        c->viol("solver:start_state_bulk_modulus_zero", "cell id " + std::to_string(p->get_id()) + " (" + CLSNAME[t.cls] + "), K = 0, initial pressure " + fmt(p0) + ": the constructor left target volume " + fmt(vt) + " and pressure " + fmt(pr) + " (volume " + fmt(V0) + ")");
                        // repair so that the K = 0 regime of the run itself stays observable (NaN positions would end the run in the contact grid)
                        p->set_target_volume((double)V0); cell_tester::pressure(*p) = 0; t.vo.start(V0); L->bin("start:K_zero_state_repaired_by_monitor"); }
                    continue; }
                // start value V0 exp(p0/K); exp and the product: 4 eps (1 + |p0/K|) relative, plus the volume tolerance
                const R vs = V0 * std::exp(p0 / K), tol = vs * (tV / V0 + 8 * EPS * (1 + std::fabs(p0 / K)));
                const R d = std::fabs((R)vt - vs); worst_start = std::max(worst_start, d / tol); L->bin(p0 == 0 ? "start:p0_zero" : p0 > 0 ? "start:p0_positive" : "start:p0_negative");
                if (!(d <= tol)) { viol("start_target_volume", "cell id " + std::to_string(p->get_id()) + ": target volume after construction " + fmt(vt) + ", V0 exp(p0/K) = " + fmt(vs)); return; }
                POracle po = pressure_oracle(K, (R)ct->max_pressure_, V0, tV, vs, tol);
                if (po.finite && (!(std::fabs((R)pr - po.p_exp) <= po.tol) || (po.cap_active && pr != ct->max_pressure_))) { viol(po.cap_active ? "start_pressure_cap" : "start_pressure", "cell id " + std::to_string(p->get_id()) + ": pressure after construction " + fmt(pr) + ", law gives " + fmt(po.p_exp)); return; }
                t.vo.start((R)vt);
            }
        }
        // forced removals: raise min_vol_ of the type of the cell at a chosen list position above its current volume
        for (auto& f : forced) if (!f.done && f.iter == iter && !l.empty()) {
            f.done = true; size_t n = l.size(); size_t idx = f.pos == 0 ? 0 : f.pos == 2 ? n - 1 : (n >= 3 ? 1 + (size_t)g->range(0, (int)n - 3) : n / 2);
            OG og = own_geo(*l[idx]); if (!og.ok || !(og.V > 0)) continue;
            // static ecm cells are judged by the volume of their construction
            Track& t = tr[l[idx]->get_id()]; R vref = t.subject ? og.V : t.Vforce;
            l[idx]->get_cell_type()->min_vol_ = (double)vref * g->uni(1.05, 1.5); L->bin("forced:min_vol_raised_above_volume");
        }
    }
    bool expect_ready(const cell_ptr& p, bool& decided) {
        Track& t = tr[p->get_id()]; decided = true; if (t.cls != 0) return false;
        const R dv = p->get_division_volume(); if (std::fabs(t.Vforce - dv) <= t.tolVforce) { decided = false; return false; }
        return t.Vforce >= dv;
    }
    void at_1(const std::vector<cell_ptr>& l) {
        ready_at_1.clear();
        for (auto& p : l) { bool dec; bool e = expect_ready(p, dec); bool got = p->is_ready_to_divide(); ready_at_1[p->get_id()] = got;
            Track& t = tr[p->get_id()];
            // a daughter's volume_ dates from before its refinement until its first force phase: only cells that went through a force phase (or the construction) are judged
            if (!dec || (t.daughter && t.vo.steps == 0)) { L->bin("division_trigger:undecided"); continue; }
            L->bin(std::string("division_trigger:") + (t.cls == 0 ? "epithelial" : "other_class") + (got ? ":ready" : ":not_ready"));
            if (got != e) { viol(std::string("division_trigger:") + (t.cls == 0 ? "epithelial" : "other_class"), "cell id " + std::to_string(p->get_id()) + " (" + CLSNAME[t.cls] + "): is_ready_to_divide() = " + (got ? "true" : "false") + ", V " + fmt(t.Vforce) + ", division volume " + fmt(p->get_division_volume())); return; } }
    }
    void at_2(const std::vector<cell_ptr>& l) {
        std::set<unsigned> before(prev_ids.begin(), prev_ids.end()), now; for (auto& p : l) now.insert(p->get_id());
        std::vector<unsigned> gone, born; for (unsigned id : before) if (!now.count(id)) gone.push_back(id); for (unsigned id : now) if (!before.count(id)) born.push_back(id);
        // a cell that was ready and is still there at a division point: its division was attempted and could not be completed
        if (iter % 5 == 0) for (unsigned id : now) if (before.count(id) && ready_at_1.count(id) && ready_at_1[id]) L->bin("division_attempts_failed_mother_survives");
        if (gone.empty() && born.empty()) return;
        if (iter % 5 != 0) { viol("population_changed_outside_division_and_removal", "population changed at the division point of an iteration that is not a multiple of 5"); return; }
        for (unsigned id : gone) if (!ready_at_1[id]) { viol("divided_although_not_ready", "cell id " + std::to_string(id) + " disappeared at the division point although is_ready_to_divide() was false"); return; }
        if (born.size() != 2 * gone.size()) { viol("division_population_count", std::to_string(gone.size()) + " cells disappeared at the division point but " + std::to_string(born.size()) + " new ids appeared"); return; }
        for (unsigned id : born) if ((long)id <= max_id) { viol("removed_id_reappeared", "new cell id " + std::to_string(id) + " is not larger than every id used before"); return; }
        for (unsigned id : gone) { removed.insert(id); divisions++; }
        for (auto& p : l) if (!before.count(p->get_id())) { reg(p, true); auto ct = p->get_cell_type();
            if (!in_3sigma(p->get_growth_rate(), ct->avg_growth_rate_, ct->std_growth_rate_)) { viol("growth_rate_outside_3_sigma", "daughter growth rate " + fmt(p->get_growth_rate())); return; }
            if (!std::isinf(ct->avg_division_vol_) && !in_3sigma(p->get_division_volume(), ct->avg_division_vol_, ct->std_division_vol_)) { viol("division_volume_outside_3_sigma", "daughter division volume " + fmt(p->get_division_volume())); return; } }
        L->bin("divisions_observed", (long)gone.size());
    }
    void at_forces(const std::vector<cell_ptr>& l) {
        for (auto& p : l) {
            Track& t = tr[p->get_id()]; auto ct = p->get_cell_type();
            if (!t.subject) continue;
            OG og = own_geo(*p);
            if (!og.ok || !(og.V > 0) || og.V > 1e3 * std::max(t.Vforce, (R)1e-300)) { stop = true; stop_why = "mesh left the regime of the workload (non-finite, inverted or exploded positions)"; return; }
            t.Vforce = og.V; t.tolVforce = og.tolV();
            // a cell that lost 80% of its volume without being removed (min_vol below that) is about to degenerate; the refinement of
            // such a mesh may throw or not return (C11's subject).  The laws are still checked for this step, then the run ends.
            if (og.V < 0.2L * t.Vfirst && !stop) { collapse_pending = true; }
            const R K = ct->bulk_modulus_, gr = p->get_growth_rate(), mv = ct->min_vol_; const double vt = p->get_target_volume(), pr = p->get_pressure(), v = p->get_volume();
            t.vo.step(gr, (R)dt, mv); cell_steps++;
            const std::string who = "cell id " + std::to_string(p->get_id()) + " (" + CLSNAME[t.cls] + ", step " + std::to_string(t.vo.steps) + ")";
            R dvt = std::fabs((R)vt - t.vo.Vt), tvt = t.vo.tol(); worst_vt = std::max(worst_vt, tvt > 0 ? dvt / tvt : (dvt == 0 ? 0 : (R)INFINITY));
            L->bin("cell_steps:" + std::string(CLSNAME[t.cls])); L->bin(gr == 0 ? "cell_steps_growth:zero" : gr > 0 ? "cell_steps_growth:positive" : "cell_steps_growth:negative"); L->bin(K == 0 ? "cell_steps_K:zero" : "cell_steps_K:positive");
            if (t.vo.clamp_active) { L->bin("cell_steps_min_vol_clamp_active"); if (gr < 0) L->bin("cell_steps_shrinking_onto_min_vol"); }
            if (!(dvt <= tvt)) { viol(t.vo.clamp_active ? "target_volume_min_vol_clamp" : "target_volume_recurrence", who + ": target volume " + fmt(vt) + ", law max(min_vol, Vt + g dt) gives " + fmt(t.vo.Vt) + " (g " + fmt(gr) + ", dt " + fmt(dt) + ", min_vol " + fmt(mv) + ")"); return; }
            R dv = std::fabs((R)v - og.V); worst_v = std::max(worst_v, dv / og.tolV());
            if (!(dv <= og.tolV())) { viol("volume_not_of_current_mesh", who + ": get_volume() " + fmt(v) + " but the mesh encloses " + fmt(og.V)); return; }
            POracle po = pressure_oracle(K, (R)ct->max_pressure_, og.V, og.tolV(), t.vo.Vt, tvt);
            if (!po.finite) { stop = true; stop_why = "target volume reached zero"; return; }
            R dp = std::fabs((R)pr - po.p_exp); worst_p = std::max(worst_p, po.tol > 0 ? dp / po.tol : (dp == 0 ? 0 : (R)INFINITY));
            if (po.cap_active) L->bin("cell_steps_pressure_cap_active"); else if (std::isinf(ct->max_pressure_)) L->bin("cell_steps_p_max_inf"); else L->bin("cell_steps_p_max_finite_inactive");
            L->bin(po.p_exp > 0 ? "cell_steps_pressure:positive" : po.p_exp < 0 ? "cell_steps_pressure:negative" : "cell_steps_pressure:zero");
            if (!(dp <= po.tol) || (po.cap_active && pr != ct->max_pressure_)) { viol(po.cap_active ? "pressure_cap" : (K == 0 ? "pressure_law_K0" : "pressure_law"), who + ": pressure " + fmt(pr) + ", law min(p_max, -K ln(V/Vt)) gives " + fmt(po.p_exp) + " (uncapped " + fmt(po.p_unc) + ", p_max " + fmt(ct->max_pressure_) + ", K " + fmt(K) + ", V " + fmt(og.V) + ", Vt " + fmt(t.vo.Vt) + ")"); return; }
            if (!in_3sigma(p->get_growth_rate(), ct->avg_growth_rate_, ct->std_growth_rate_)) { viol("growth_rate_outside_3_sigma", who + ": growth rate " + fmt(gr)); return; }
            // the division volume of a living cell is the one drawn for it, whatever happened to it since (failed division attempts included)
            if (!std::isinf(ct->avg_division_vol_) ? !in_3sigma(p->get_division_volume(), ct->avg_division_vol_, ct->std_division_vol_) : p->get_division_volume() != ct->avg_division_vol_) { viol("division_volume_outside_3_sigma", who + ": division volume " + fmt(p->get_division_volume()) + " (mean " + fmt(ct->avg_division_vol_) + ", sigma " + fmt(ct->std_division_vol_) + ") during the run"); return; }
            sig = hash_combine(sig, hash_combine(hash_double(vt), hash_double(pr)));
        }
    }
    bool collapse_pending = false;
    void at_9(const std::vector<cell_ptr>& l) {
        snap9 = l; exp9.assign(l.size(), 0);
        for (size_t k = 0; k < l.size(); k++) {
            Track& t = tr[l[k]->get_id()]; const R mv = l[k]->get_cell_type()->min_vol_;
            // the volume that counts is the one of the force phase of this iteration (static ecm cells: of the construction)
            if (std::fabs(t.Vforce - mv) <= t.tolVforce) { exp9[k] = -1; L->bin("removal:tie_excluded"); continue; }
            exp9[k] = t.Vforce < mv ? 1 : 0;
            if (l[k]->is_below_min_vol() != (exp9[k] == 1)) { viol("is_below_min_vol", "cell id " + std::to_string(l[k]->get_id()) + ": is_below_min_vol() = " + std::to_string(l[k]->is_below_min_vol()) + " with V " + fmt(t.Vforce) + " and min_vol " + fmt(mv)); return; }
        }
    }
    void at_10(const std::vector<cell_ptr>& l) {
        std::set<unsigned> now; for (auto& p : l) now.insert(p->get_id());
        for (unsigned id : now) { bool was = false; for (auto& p : snap9) if (p->get_id() == id) was = true; if (!was) { viol("cell_appeared_at_removal", "cell id " + std::to_string(id) + " appeared during the removal phase"); return; } }
        for (size_t k = 0; k < snap9.size(); k++) {
            const unsigned id = snap9[k]->get_id(); const bool present = now.count(id) > 0; Track& t = tr[id]; const size_t n = snap9.size();
            const std::string pos = n == 1 ? "only" : k == 0 ? "first" : k == n - 1 ? "last" : "middle";
            if (exp9[k] == 1 && present) { viol("below_min_vol_cell_survived", "cell id " + std::to_string(id) + " (" + CLSNAME[t.cls] + ", list position " + pos + " of " + std::to_string(n) + ") has V " + fmt(t.Vforce) + " < min_vol " + fmt((R)snap9[k]->get_cell_type()->min_vol_) + " but is still in the population after the removal phase"); return; }
            if (exp9[k] == 0 && !present) { viol("cell_above_min_vol_disappeared", "cell id " + std::to_string(id) + " (" + CLSNAME[t.cls] + ", list position " + pos + " of " + std::to_string(n) + ") has V " + fmt(t.Vforce) + " >= min_vol " + fmt((R)snap9[k]->get_cell_type()->min_vol_) + " but disappeared in the removal phase"); return; }
            if (!present) { removed.insert(id); removed_total++; L->bin("removal:position_" + pos); L->bin(std::string("removal:class_") + CLSNAME[t.cls]); if (n > 1 && l.size() + 1 == n) L->bin("removal:single_out_of_several"); }
            else if (exp9[k] == 0) L->bin("removal:kept_above_min_vol");
        }
        if (snap9.size() - l.size() >= 2) L->bin("removal:several_in_one_iteration");
        snap9.clear();
        if (collapse_pending && !stop) { stop = true; stop_why = "a cell collapsed below 20% of its first volume"; }
    }
};
Mon* g_mon = nullptr;
void phase_sink(int tag, const std::vector<std::shared_ptr<cell>>* l) { if (g_mon) g_mon->on_phase(tag, *l); }

std::string solver_case(const Args& a, long i, const std::string& folder) {
    Rng g(a.seed, (uint64_t)i, 0x4B); rng_case(a.seed, i, 0x4B);
    Case c(i); Loc L; Mon mon; mon.c = &c; mon.L = &L; mon.g = &g;
    const long n_iter = a.geti("iters", 30);
    // ---- population: cells on a line, far apart (no contacts), all from the same icosphere level so that one l_min suits every mesh
    const int ncell = g.range(1, 6), level = g.coin(0.7) ? 1 : 2; const double r0 = g.logu(2e-6, 1e-5);
    // Division runs never remove a cell: the daughters of a division are coupled to each other through LOCAL cell ids and node ids of
    // the partner; a removal next to them is C08's subject (before repository commit ba8aed1 it indexed the population out of range).
    const bool division_run = g.coin(0.2);
    const int scenario = division_run ? g.range(0, 3) : g.range(0, 9);   // 0..3 generic | 4,5 one cell starts just below its min_vol | 6,7 forced removal | 8 shrink with stiff cells | 9 K = 0 on a cell that receives forces
    gen::TriMesh base = gen::icosphere(level);
    std::vector<cell_ptr> cells; std::vector<std::shared_ptr<cell_type_parameters>> cts; double emin = INFINITY, emax = 0;
    double dirv[3] = {g.normal(), g.normal(), g.normal()}; { double n = std::sqrt(dirv[0] * dirv[0] + dirv[1] * dirv[1] + dirv[2] * dirv[2]); for (auto& x : dirv) x /= n; }
    double along = -g.uni(0, 1) * ncell * 2.2 * r0; double dt_min = INFINITY, mnode_min = INFINITY;
    // 40 % of the division runs: the youngest cell (largest id, last of the list) starts just below its minimum volume and is removed at the end of
    // the first iteration, the first cell is an epithelial cell that grows past its division volume a few iterations later: the ids of the daughters
    // must be new although the largest id of the population has just left it
    const bool young_removed = division_run && ncell >= 2 && g.coin(0.4);
    const bool symmetric_mother = division_run && !young_removed && g.coin(0.5);
    const int k0_cell = scenario == 9 ? g.range(0, ncell - 1) : -1; const int below_cell = young_removed ? ncell - 1 : (scenario == 4 || scenario == 5) ? g.range(0, ncell - 1) : -1;
    const double growth_sign_run = scenario == 8 ? -1 : 0;
    struct CellPlan { int cls; double r, K, V0; };
    std::vector<CellPlan> plan;
    for (int k = 0; k < ncell; k++) {
        gen::TriMesh m = base; const double r = r0 * g.uni(0.8, 1.25);
        // a mesh that is symmetric with respect to its own division plane (icosphere stretched along x, neither jittered nor rotated): the plane
        // through the centroid passes through mesh nodes, the division pipeline gives up and the mother lives on
        if (symmetric_mother && k == 0) { gen::scale(m, g.uni(1.3, 1.6), 1, 1); gen::scale(m, r, r, r); }
        else { gen::jitter(m, g, g.uni(0.0, 0.02)); gen::rotate(m, gen::rot_random(g)); gen::scale(m, r, r, r); }
        const double gap = r * (symmetric_mother && k == 0 ? 1.6 : 1.0) * g.uni(2.6, 4.0); along += gap; gen::translate(m, dirv[0] * along, dirv[1] * along, dirv[2] * along); along += gap;
        for (auto& t : m.T) for (int e = 0; e < 3; e++) { auto& A = m.P[t[e]]; auto& B = m.P[t[(e + 1) % 3]]; double d = std::sqrt((A[0] - B[0]) * (A[0] - B[0]) + (A[1] - B[1]) * (A[1] - B[1]) + (A[2] - B[2]) * (A[2] - B[2])); emin = std::min(emin, d); emax = std::max(emax, d); }
        int cls; { double u = g.uni(); cls = u < 0.45 ? 0 : u < 0.6 ? 2 : u < 0.75 ? 3 : u < 0.87 ? 4 : 1; } if (k == k0_cell && cls == 1) cls = g.coin() ? 2 : 4;
        if ((young_removed || symmetric_mother) && k == 0) cls = 0; if (young_removed && k == ncell - 1 && cls == 1) cls = 0;
        std::shared_ptr<cell_type_parameters> ct;
        const bool share = k > 0 && k != k0_cell && k - 1 != k0_cell && k != below_cell && k - 1 != below_cell && plan[k - 1].cls == cls && g.coin(0.25);
        if (share) ct = cts[k - 1]; else { ct = gen::default_cell_type(3, (short)cls); ct->name_ = std::string(CLSNAME[cls]) + std::to_string(k); }
        cell_ptr cp = gen::make_cell_of_class(cls, m, (unsigned)k, ct); OG og = own_geo(*cp); const double V0 = (double)og.V;
        if (!share) {
            ct->mass_density_ = 1e3; const bool k0 = k == k0_cell || (cls == 1 && g.coin(0.6));
            // surface tensions first: the Laplace pressure 2 gamma / r sets the scale of K and of a finite pressure cap (a cell whose
            // pressure cannot balance its tension simply collapses - legitimate, but it ends the run early)
            double gmx = 0; for (auto& ft : ct->face_types_) { ft.surface_tension_ = k0 ? 0.0 : g.logu(1e-4, 2e-3); ft.adherence_strength_ = 0; ft.repulsion_strength_ = 1e9; gmx = std::max(gmx, ft.surface_tension_); }
            const double laplace = 2 * gmx / r;
            ct->bulk_modulus_ = k0 ? 0.0 : laplace * g.logu(3, 100) * (scenario == 8 ? 4 : 1);
            const double K = ct->bulk_modulus_;
            ct->initial_pressure_ = (K == 0 || g.coin(0.4)) ? 0.0 : K * g.uni(0.01, 0.3) * (g.coin() ? 1 : -1);
            { int pm = g.range(0, 9); ct->max_pressure_ = pm <= 3 ? INFINITY : pm <= 7 ? (K != 0 ? laplace * g.uni(0.8, 3) : 1.0) : pm == 8 ? 0.0 : (K != 0 ? K : 1.0) * 10; }
            // growth: total change of the target volume over the run as a fraction of V0
            int gm = g.coin(0.2) ? 0 : (g.coin(0.45) ? 1 : 2); if (growth_sign_run < 0 && cls != 1) gm = 2;
            const double frac = gm == 0 ? 0.0 : (gm == 1 ? 1 : -1) * (division_run && gm == 2 ? g.uni(0.02, 0.25) : g.uni(0.05, 0.6)) * (scenario == 8 ? 1.3 : 1);
            ct->avg_growth_rate_ = frac * V0;   // divided by (n_iter dt) once dt is known
            ct->std_growth_rate_ = (gm != 0 && g.coin(0.3)) ? 0.1 : 0.0;   // relative for now
            int mv = g.range(0, 2); if (gm == 2 && mv == 0) mv = 1; if (scenario == 8) mv = 2;
            ct->min_vol_ = mv == 0 ? 0.0 : mv == 1 ? V0 * g.uni(0.25, 0.6) : V0 * (1 - g.logu(1e-3, 0.12));
            if (division_run) ct->min_vol_ = 0.0;
            if (k == below_cell) ct->min_vol_ = V0 * (1 + g.logu(1e-4, 0.05));
            if (young_removed && k == 0) { ct->avg_growth_rate_ = g.uni(0.3, 0.6) * V0; ct->std_growth_rate_ = 0; }
            ct->avg_division_vol_ = (division_run && cls == 0) ? V0 * g.uni(0.6, 1.05) : (cls == 0 || g.coin() ? INFINITY : 0.0); ct->std_division_vol_ = (division_run && g.coin()) ? 0.05 * V0 : 0.0;
            if (young_removed && k == 0) { ct->avg_division_vol_ = V0 * g.uni(1.01, 1.04); ct->std_division_vol_ = 0; }
            if (symmetric_mother && k == 0) { ct->avg_division_vol_ = V0 * g.uni(0.6, 0.95); ct->std_division_vol_ = g.coin() ? 0.01 * V0 : 0.0; }
            ct->area_elasticity_modulus_ = g.coin() ? 0.0 : 1e-15; ct->target_isoperimetric_ratio_ = 150; ct->surface_coupling_max_curvature_ = 1e7;
        }
        // stability of the semi-implicit Euler step: breathing mode omega^2 = 9 K / (rho r^2), membrane modes ~ 16 gamma / m_node
        const double mnode = 1e3 * V0 / (double)m.P.size(); mnode_min = std::min(mnode_min, mnode);
        double gmax = 1e-4; for (auto& ft : ct->face_types_) gmax = std::max(gmax, ft.surface_tension_);   // floor: a tension-free K = 0 cell has no time scale of its own
        const double om = std::max(std::sqrt(9 * ct->bulk_modulus_ / (1e3 * r * r)), std::sqrt(16 * gmax / mnode)); dt_min = std::min(dt_min, 1 / om);
        plan.push_back({cls, r, ct->bulk_modulus_, V0}); cells.push_back(cp); cts.push_back(ct);
    }
    const double dt = dt_min * g.uni(0.08, 0.35); mon.dt = dt;
    { std::set<cell_type_parameters*> seen; for (auto& ct : cts) if (seen.insert(ct.get()).second) { ct->avg_growth_rate_ /= (double)n_iter * dt; ct->std_growth_rate_ *= std::fabs(ct->avg_growth_rate_); } }
    for (auto& cp : cells) cp->initialize_random_properties();   // growth rates / division volumes of the final parameter sets (H2-seeded)
    if (scenario == 6 || scenario == 7) { int nf = g.range(1, 2); for (int k = 0; k < nf; k++) mon.forced.push_back({g.range(0, (int)n_iter - 2), g.range(0, 2)}); }
    else if (!division_run && g.coin(0.3)) mon.forced.push_back({g.range(1, (int)n_iter - 2), g.range(0, 2)});
    global_simulation_parameters sp; sp.output_folder_path_ = folder; sp.input_mesh_path_ = ""; sp.perform_initial_triangulation_ = false; sp.enable_edge_swap_operation_ = g.coin();
    sp.time_step_ = dt; sp.damping_coefficient_ = mnode_min / dt * g.logu(1e-3, 1e-1); sp.simulation_duration_ = dt * (n_iter + 10); sp.sampling_period_ = dt * (g.coin(0.2) ? 7.5 : 1e6);
    // every edge inside [l_min, 3 l_min] with the largest possible margin on both sides
    sp.min_edge_len_ = std::sqrt(emin * emax / 3.0); sp.contact_cutoff_adhesion_ = 0.05 * r0; sp.contact_cutoff_repulsion_ = 0.05 * r0;
    if (young_removed) L.bin("scenario:youngest_cell_removed_then_division");
    if (symmetric_mother) L.bin("scenario:mother_symmetric_about_its_division_plane");
    L.bin(std::string("scenario:") + (scenario <= 3 ? "generic" : scenario <= 5 ? "one_cell_starts_below_min_vol" : scenario <= 7 ? "forced_removal" : scenario == 8 ? "stiff_cells_shrinking" : "K_zero_on_a_cell_with_forces"));
    L.bin("cells_per_run:" + std::to_string(ncell)); L.bin("icosphere_level:" + std::to_string(level)); if (division_run) L.bin("division_enabled_runs");
    // ---- run
    long done = 0; std::string ended = "all_iterations";
    MonSolver* s = nullptr;
    try {
        s = new MonSolver(sp, cells, g_solver_threads, true, false);   // never deleted: the base classes of the solver's members have no virtual destructor (C10's finding, not ours)
        g_mon = &mon; verif::get().phase = phase_sink;
        for (long it = 0; it < n_iter; it++) {
            mon.iter = (int)it; if (s->get_cell_lst().empty()) { ended = "population_empty"; break; }
            s->run_iteration(); done++;
            if (mon.stop) { ended = mon.stop_why; break; }
        }
    } catch (const std::exception& e) { ended = std::string("exception:") + typeid(e).name(); L.bin("run_ended_by_exception:" + std::string(typeid(e).name())); if (getenv("C04_DEBUG")) fprintf(stderr, "exception: %s\n", e.what()); }
    verif::get().phase = nullptr; g_mon = nullptr;
    std::error_code ec; std::filesystem::remove_all(folder, ec);
    L.bin("iterations_run", done); L.bin("cell_steps_checked", mon.cell_steps); L.bin("cells_removed", mon.removed_total); L.bin("runs_ended:" + (ended.rfind("exception", 0) == 0 ? std::string("exception") : ended));
    if (mon.removed_total) L.bin("runs_with_removal"); if (mon.divisions) L.bin("runs_with_division");
    L.maxi("solver:pressure_err_over_tol", (double)mon.worst_p); L.maxi("solver:target_volume_err_over_tol", (double)mon.worst_vt); L.maxi("solver:volume_err_over_tol", (double)mon.worst_v); L.maxi("solver:start_target_volume_err_over_tol", (double)mon.worst_start);
    L.bin("rng_hook_calls", g_rng_calls[0] + g_rng_calls[1]);
    c.nontrivial = c.v != "viol" && mon.cell_steps > 0 && (ended == "all_iterations" || ended == "population_empty"); c.sig = mon.sig;
    // ---- report
    std::ostringstream o; o << std::setprecision(17);
    J obs; obs.s("mode", "solver").i("cells", ncell).i("level", level).i("scenario", scenario).b("division_run", division_run).d("dt", dt).d("l_min", sp.min_edge_len_).d("r0", r0).i("iterations_run", done).s("ended", ended)
        .i("cell_steps_checked", mon.cell_steps).i("removed", mon.removed_total).i("divisions", mon.divisions);
    { std::vector<std::string> cl; std::vector<double> Ks, mv, gr, pm; for (size_t k = 0; k < plan.size(); k++) { cl.push_back(CLSNAME[plan[k].cls]); Ks.push_back(cts[k]->bulk_modulus_); mv.push_back(cts[k]->min_vol_ / plan[k].V0); gr.push_back(cts[k]->avg_growth_rate_ * dt * n_iter / plan[k].V0); pm.push_back(cts[k]->max_pressure_); }
      obs.raw("classes", jarrs(cl)).raw("K", jarr(Ks)).raw("min_vol_over_V0", jarr(mv)).raw("growth_over_run_over_V0", jarr(gr)).raw("p_max", jarr(pm)); }
    o << "V\t" << c.v << "\nK\t" << c.key << "\nG\t" << J::esc(c.msg) << "\nS\t" << c.sig << "\nN\t" << (c.nontrivial ? 1 : 0) << "\nO\t" << obs.str() << "\n";
    for (auto& kv : L.bins) o << "B\t" << kv.first << "\t" << kv.second << "\n";
    for (auto& kv : L.maxima) o << "M\t" << kv.first << "\t" << kv.second << "\n";
    return o.str();
}

int run_solver(const Args& a) {
    g_solver_threads = a.threads > 0 ? a.threads : 1;
    Agg agg; agg.max_viol = 40;
    char cwd[4096]; if (!getcwd(cwd, sizeof cwd)) { perror("getcwd"); return 2; }
    for (long i = a.first; i < a.first + a.cases; i++) {
        if (!a.mine(i)) continue;
        const std::string folder = std::string(cwd) + "/sim_s" + std::to_string(a.seed) + "_c" + std::to_string(i) + "_p" + std::to_string((long)getpid());
        IsoResult res; if (getenv("C04_NOFORK")) { res.line = solver_case(a, i, folder); res.completed = true; } else res = run_isolated([&]() { return solver_case(a, i, folder); }, a.getd("cpu_limit", 60), a.getd("wall_limit", 180));
        { std::error_code ec; std::filesystem::remove_all(folder, ec); }
        if (!res.completed) { emit(crash_line(i, res)); Case c(i); c.v = "crash"; agg.add(c); agg.bin("runs_crashed_or_timed_out"); continue; }
        Case c(i); std::istringstream is(res.line); std::string line;
        while (std::getline(is, line)) {
            if (line.size() < 2 || line[1] != '\t') continue; const char k = line[0]; std::string rest = line.substr(2);
            if (k == 'V') c.v = rest; else if (k == 'K') c.key = rest; else if (k == 'G') { std::string m; for (size_t p = 0; p < rest.size(); p++) { if (rest[p] == '\\' && p + 1 < rest.size()) { p++; m += rest[p] == 'n' ? '\n' : rest[p] == 't' ? '\t' : rest[p]; } else m += rest[p]; } c.msg = m; }
            else if (k == 'S') c.sig = strtoull(rest.c_str(), nullptr, 10); else if (k == 'N') c.nontrivial = rest == "1"; else if (k == 'O') c.obs.raw("run", rest);
            else if (k == 'B') { size_t t = rest.rfind('\t'); if (t != std::string::npos) agg.bin(rest.substr(0, t), atol(rest.c_str() + t + 1)); }
            else if (k == 'M') { size_t t = rest.rfind('\t'); if (t != std::string::npos) agg.maxi(rest.substr(0, t), atof(rest.c_str() + t + 1)); }
        }
        agg.add(c);
    }
    agg.flush(a.shard_i);
    return 0;
}

}  // namespace

static int cmd_cellcycle(const Args& a) {
    const std::string mode = a.get("mode", "direct");
    if (mode == "direct") return run_direct(a);
    if (mode == "draws") return run_draws(a);
    if (mode == "solver") return run_solver(a);
    fprintf(stderr, "cellcycle: unknown --mode=%s (direct|draws|solver)\n", mode.c_str()); return 2;
}
static Reg r_cellcycle("cellcycle", cmd_cellcycle);
