// Whole-simulation workloads: `mkscenario` writes the input files of a generated scenario (for the real executable),
// `simrun` drives the same scenarios through a monitored solver and reports which pipeline stages were reached
// (C10 evidence; under the asan flavour any sanitizer report in the forked child is a C10 violation).
#include "vh.hpp"
#include <omp.h>
#include "tissue.hpp"
#include "remesh_util.hpp"
#include "verif_hooks.hpp"
#include <atomic>
#include <mutex>
#include <unistd.h>

using namespace vh;

namespace {

struct Counters {
    std::atomic<long> splits{0}, merges{0}, swaps{0}, passes{0}, pass_throws{0}, divisions{0}, contact_pairs{0};
    long phases[11] = {0}; long removals = 0; long max_cells = 0; long min_cells = 1 << 30; size_t last_count = 0;
};
static Counters* g_cnt = nullptr;
static std::atomic<uint64_t> g_rng_counter{0};
static uint64_t g_rng_base = 0;
static std::mutex g_rng_mu; static std::map<std::pair<int, uint64_t>, uint64_t> g_rng_ctr;

static uint64_t rng_seed(int site, uint64_t ctx) { std::lock_guard<std::mutex> lk(g_rng_mu); uint64_t k = g_rng_ctr[{site, ctx}]++; return hash_combine(hash_combine(g_rng_base, (uint64_t)site), hash_combine(ctx, k)); }
static void on_remesh(int kind, int stage, cell*, unsigned, unsigned, unsigned) {
    if (!g_cnt) return;
    if (kind == VERIF_REMESH_PASS) { if (stage == VERIF_STAGE_PRE) g_cnt->passes++; if (stage == VERIF_STAGE_THROW) g_cnt->pass_throws++; return; }
    if (stage != VERIF_STAGE_POST) return;
    if (kind == VERIF_REMESH_SPLIT) g_cnt->splits++; else if (kind == VERIF_REMESH_MERGE) g_cnt->merges++; else if (kind == VERIF_REMESH_SWAP) g_cnt->swaps++;
}
static void on_division(int, const cell*, const cell*, const cell*) { if (g_cnt) g_cnt->divisions++; }
static void on_pair(const cell*, const node*, const cell*, const face*) { if (g_cnt) g_cnt->contact_pairs++; }
static double g_limit = 1e300; static double g_drift[3] = {0, 0, 0}; static bool g_no_guard = false;
static void on_phase(int tag, const std::vector<cell_ptr>* lst) {
    if (!g_cnt || tag < 0 || tag > 10) return; g_cnt->phases[tag]++;
    if (tag == 8 && !g_no_guard && tis::blown_up(*lst, g_limit)) throw tis::unstable_run();
#if CONTACT_MODEL_INDEX == 1
    if (tag == 7 && getenv("VH_TRACE")) { std::string o; for (size_t i = 0; i < lst->size(); i++) { long n = 0; unsigned mx = 0; for (const node& nd : cell_tester::nodes(*(*lst)[i])) if (nd.is_used() && cell_tester::coupled(nd).has_value()) { n++; mx = std::max(mx, cell_tester::coupled(nd).value().second); } o += " c" + std::to_string(i) + ":" + std::to_string(n) + "/" + std::to_string(mx) + (( *lst)[i]->is_below_min_vol() ? "*" : ""); } FILE* tf = fopen("/tmp/vh_trace.log", "a"); if (tf) { fprintf(tf, "it %ld%s\n", g_cnt->phases[7], o.c_str()); fclose(tf); } }
#endif
    // a cell leaves the population wherever the list gets shorter between two phase boundaries of one iteration (divisions only lengthen it)
    if (tag >= 3) { if (lst->size() < g_cnt->last_count) g_cnt->removals += (long)(g_cnt->last_count - lst->size()); }
    if (tag >= 2) g_cnt->last_count = lst->size();
    // family 10: the whole tissue drifts (every node shifted by the same small vector at the end of each iteration, as in a flow): the box of the
    // contact grid moves through several voxels while its voxel counts mostly stay the same
    if (tag == 10 && (g_drift[0] != 0 || g_drift[1] != 0 || g_drift[2] != 0)) for (auto& cp : *lst) for (node& n : cell_tester::nodes(*cp)) if (n.is_used()) cell_tester::pos(n).reset(n.pos().dx() + g_drift[0], n.pos().dy() + g_drift[1], n.pos().dz() + g_drift[2]);
    if (tag == 10) { g_cnt->max_cells = std::max<long>(g_cnt->max_cells, (long)lst->size()); g_cnt->min_cells = std::min<long>(g_cnt->min_cells, (long)lst->size()); }
}

static tis::Scenario scenario_of(const Args& a, long i, Rng& g) {
    int what = a.geti("what", -1); if (what < 0) what = (int)(i % 12);   // 0-6 named families, 7 polygonal cubes (initial triangulation), 8 cubes with a degenerate face in contact
    int iters = (int)a.geti("iterations", 0); if (iters <= 0) iters = g.range((int)a.geti("min_iterations", 40), (int)a.geti("max_iterations", 120));
    g_drift[0] = g_drift[1] = g_drift[2] = 0; g_no_guard = false;
    // family 11: a run that becomes unstable and is NOT stopped by the harness: the cells of the first type shrink until their target volume is zero (negative growth,
    // no minimum volume), the pressure law has no finite value any more and non-finite coordinates spread.  The run may end with any exception; its memory accesses stay judged
    if (what == 11) { tis::Scenario s = tis::make_scenario(g, std::vector<int>{0, 1, 2, 5}[g.range(0, 3)], iters, false); s.family = "vanishing_cell_unstable_run"; g_no_guard = true;
        double lo = 1e300, hi = -1e300; for (auto& p : s.cells[0].mesh.P) { lo = std::min(lo, p[0]); hi = std::max(hi, p[0]); } const double V0 = 4.19 * std::pow((hi - lo) / 2, 3);
        cell_type_parameters& t = s.types[s.cells[0].type_index]; t.min_vol_ = 0; t.std_growth_rate_ = 0; t.avg_growth_rate_ = -V0 * g.uni(2, 8) / (iters * s.P.time_step_); t.avg_division_vol_ = INFINITY; t.std_division_vol_ = 0;
        s.P.sampling_period_ = s.P.time_step_ * g.range(1, 20); return s; }
    if (what == 10) { tis::Scenario s = tis::make_scenario(g, 1, iters, false); s.family = "drifting_adhering_grid"; const double step = g.uni(0.2, 0.6) * s.P.contact_cutoff_adhesion_; double d[3] = {g.normal(), g.normal(), g.normal()}; const double n = std::sqrt(d[0] * d[0] + d[1] * d[1] + d[2] * d[2]);
        for (int k = 0; k < 3; k++) g_drift[k] = step * d[k] / n; if (g.coin(0.4)) { g_drift[0] = g_drift[1] = 0; g_drift[2] = (g.coin() ? 1 : -1) * step; } return s; }
    return tis::make_scenario(g, what, iters, a.geti("allow_triangulation", 1) != 0);
}

static int cmd_mkscenario(const Args& a) {
    const std::string dir = a.get("dir", ".");
    for (long i = a.first; i < a.first + a.cases; i++) {
        if (!a.mine(i)) continue;
        Rng g(a.seed, (uint64_t)i, 0x10);
        tis::Scenario s = scenario_of(a, i, g);
        std::string d = dir + "/s" + std::to_string(i); std::filesystem::create_directories(d);
        tis::write_vtk(s, d + "/mesh.vtk"); tis::write_xml(s, d + "/params.xml", d + "/mesh.vtk", d + "/out");
        size_t faces = 0; for (auto& c : s.cells) faces += c.mesh.T.size();
        J j; j.i("i", i).s("dir", d).s("family", s.family).i("cells", (long)s.cells.size()).i("faces", (long)faces).i("iterations", s.iterations).b("triangulation", s.P.perform_initial_triangulation_).b("swaps", s.P.enable_edge_swap_operation_).d("dt", s.P.time_step_).d("sampling", s.P.sampling_period_);
        emit(j.str());
    }
    return 0;
}
static Reg r_mk("mkscenario", cmd_mkscenario);

static std::string run_one(const Args& a, long i) {
    Rng g(a.seed, (uint64_t)i, 0x10);
    tis::Scenario s = scenario_of(a, i, g);
    Case c(i); Counters cnt; g_cnt = &cnt; g_rng_base = hash_combine(a.seed, (uint64_t)i); g_rng_ctr.clear();
    auto& S = verif::get(); S.rng_seed = rng_seed; S.remesh_event = on_remesh; S.division_event = on_division; S.contact_pair = on_pair; S.phase = on_phase;
    std::string out = "simrun_out_" + std::to_string(i) + "_" + std::to_string((long)getpid());
    s.P.output_folder_path_ = out;
    std::string ended = "completed"; long iters = 0, cells0 = 0, cells1 = 0; std::string what; g_limit = tis::extent_limit(s);
    try {
        std::vector<cell_ptr> cells;
        if (s.P.perform_initial_triangulation_) {     // through the files, as the product does
            std::filesystem::create_directories(out + "_in"); tis::write_vtk(s, out + "_in/mesh.vtk"); s.P.input_mesh_path_ = std::filesystem::absolute(out + "_in/mesh.vtk").string();
            std::vector<cell_type_param_ptr> tp; for (auto& t : s.types) tp.push_back(std::make_shared<cell_type_parameters>(t));
            simulation_initializer init(s.P, tp, false); cells = init.get_cell_lst();
        } else cells = tis::build_cells(s);
        cells0 = (long)cells.size();
        // --omp_default=k: the OpenMP default in force while the solver is constructed (its members are built before it sets its own thread count)
        if (a.geti("omp_default", 0) > 0) omp_set_num_threads((int)a.geti("omp_default", 0));
        tis::msolver sv(s.P, cells, a.threads, g.coin(0.5), false);
        while (!sv.finished()) { sv.run_iteration(); iters++; }
        cells1 = (long)sv.cells().size();
        for (auto& cp : sv.cells()) cp->rebase();
    } catch (const std::exception& e) { ended = "exception"; what = e.what(); }
    catch (const tis::unstable_run&) { ended = "unstable"; }
    std::error_code ec; std::filesystem::remove_all(out, ec); std::filesystem::remove_all(out + "_in", ec);
    g_cnt = nullptr;
    c.nontrivial = iters >= 10;
    c.sig = hash_combine(hash_combine(hash_str(s.family), (uint64_t)iters), hash_combine((uint64_t)cnt.splits.load(), (uint64_t)cnt.merges.load() * 31 + (uint64_t)cnt.divisions.load()));
    c.obs.s("family", s.family).s("ended", ended).s("what", what.substr(0, 160)).i("iterations", iters).i("cells_start", cells0).i("cells_end", cells1).i("max_cells", cnt.max_cells).i("splits", cnt.splits.load()).i("merges", cnt.merges.load()).i("swaps", cnt.swaps.load())
        .i("passes", cnt.passes.load()).i("pass_throws", cnt.pass_throws.load()).i("divisions", cnt.divisions.load()).i("removals", cnt.removals).i("contact_pairs", cnt.contact_pairs.load()).i("threads", a.threads).b("triangulation", s.P.perform_initial_triangulation_);
    return c.line();
}

static int cmd_simrun(const Args& a) {
    Agg agg; agg.max_samples = 8;
    for (long i = a.first; i < a.first + a.cases; i++) {
        if (!a.mine(i)) continue;
        IsoResult r = run_isolated([&]() { return run_one(a, i); }, a.getd("cpu_limit", 900), a.getd("cpu_limit", 900));
        agg.evaluations++;
        if (!r.completed) { emit(crash_line(i, r)); agg.bin(r.timeout ? "timeout" : "crash"); continue; }
        const std::string& L = r.line;
        auto num = [&](const std::string& k) -> long { size_t p = L.find("\"" + k + "\":"); if (p == std::string::npos) return 0; return atol(L.c_str() + p + k.size() + 3); };
        auto str = [&](const std::string& k) -> std::string { size_t p = L.find("\"" + k + "\":\""); if (p == std::string::npos) return ""; size_t s0 = p + k.size() + 4; return L.substr(s0, L.find('"', s0) - s0); };
        for (const char* k : {"iterations", "splits", "merges", "swaps", "passes", "divisions", "removals", "contact_pairs", "pass_throws"}) agg.bin(k, num(k));
        agg.bin("family:" + str("family")); agg.bin("ended:" + str("ended")); if (L.find("\"triangulation\":true") != std::string::npos) agg.bin("with_initial_triangulation");
        if (L.find("\"nt\":true") != std::string::npos) { agg.nontrivial++; size_t p = L.find("\"sig\":\""); if (p != std::string::npos) agg.sigs[strtoull(L.substr(p + 7, 16).c_str(), nullptr, 16)] = 1; if (agg.samples.size() < agg.max_samples) agg.samples.push_back(L); }
    }
    agg.flush(a.shard_i);
    return 0;
}
static Reg r_sim("simrun", cmd_simrun);

}  // namespace
