// C20 — uniform space partitioning grids (uspg_3d / uspg_4d): every point of the declared bounding box (faces,
// edges and corners included) maps to an existing voxel, an object is found in the voxel it was placed in, a
// neighbourhood query returns every stored object within one voxel size, the full-content query returns every
// stored object exactly once.
//
// One case = one grid.  The whole case runs in a forked child (vh::run_isolated): a crash / sanitizer report /
// libstdc++ assertion inside the grid code is this property's violation (out-of-range voxel index).
//
// The oracle shares nothing with the grid's arithmetic: the voxel counts and the indices are only *compared*
// (index < count), membership is decided by reading the voxel back, neighbours by brute-force long-double
// distances over the stored points (sorted along the longest axis of the box to bound the work).
#include "vh.hpp"
#include <omp.h>
#include <atomic>
#include "uspg_3d.hpp"
#include "uspg_4d.hpp"
#include "vec3.hpp"
#include <algorithm>
#include <numeric>
#include <cfloat>

using namespace vh;

// The repository declares these two names as friends of the grid templates (for its own unit tests).  Only the
// size of the private voxel storage is read through them; member names are prefixed to stay unique in the binary.
class uspg_3d_tester { public: template <class T> static size_t c20_storage(const uspg_3d<T>& g) { return g.voxel_lst_.size(); } };
class uspg_4d_tester { public: template <class T> static size_t c20_storage(const uspg_4d<T>& g) { return g.voxel_lst_.size(); } };

namespace {

typedef long double R;
const double EPS = std::numeric_limits<double>::epsilon();

// ---- case description -----------------------------------------------------------------------------------------
enum Origin { O_CORNER = 0, O_EDGE, O_FACE, O_VBOUND, O_RANDOM, O_PARTNER, O_NORIGIN };
const char* ORIGIN[] = {"corner", "edge", "face", "voxel_boundary", "random", "partner"};
const char* GEOM[] = {"interior", "face", "edge", "corner"};          // by number of coordinates on the box boundary
const char* EXT[] = {"multiple", "nonmultiple", "multiple_minus_pad", "multiple_pm_ulps", "tiny_over_multiple"};
const char* POS[] = {"origin", "straddle", "offset", "offset_aligned"};
const char* VSC[] = {"decimal", "pow2", "generic"};
const char* VARIANT[] = {"uspg_4d_int", "uspg_3d_int", "uspg_3d_ushort"};
const char* CTOR[] = {"ctor", "update_dimensions_reuse", "move_assign"};

struct Pt {
    double x[3]; int origin; bool store = false; int partner_of = -1;
    int bnd(int a, const double* lo, const double* hi) const { return x[a] == hi[a] ? 2 : x[a] == lo[a] ? 1 : 0; }
};
struct Spec {
    int variant, ctor_mode, vs_class, pos_class; int ext_class[3]; long n[3];
    double vs, lo[3], hi[3]; long k_store; std::vector<Pt> pts; uint64_t path_seed;
};

double decimal(double m, int k) { char b[40]; snprintf(b, sizeof b, "%.3ge%d", m, k); return strtod(b, nullptr); }   // correctly rounded m*10^k
double clampd(double v, double lo, double hi) { return v < lo ? lo : v > hi ? hi : v; }
int decade(double v) { return (int)std::floor(std::log10(v)); }

static bool g_huge = false;
Spec make_spec(Rng& g) {
    Spec s;
    { double u = g.uni(); s.variant = u < 0.5 ? 0 : u < 0.9 ? 1 : 2; }
    { double u = g.uni(); s.ctor_mode = u < 0.6 ? 0 : u < 0.85 ? 1 : 2; }
    // voxel size in [1e-7, 10)
    { double u = g.uni();
      if (u < 0.3) { s.vs_class = 0; static const double m[] = {1, 2, 2.5, 5}; s.vs = decimal(m[g.range(0, 3)], g.range(-7, 0)); }
      else if (u < 0.45) { s.vs_class = 1; s.vs = std::ldexp(1.0, g.range(-23, 3)); }
      else { s.vs_class = 2; s.vs = g.logu(1e-7, 9.99); } }
    // intended voxel counts: aspect ratio up to 1e3, product <= 2e5
    {
        double A = g.coin(0.5) ? g.logu(1, 10) : g.logu(10, 1000), r = g.logu(1, A), V = g.logu(1, 2e5);
        if (g_huge) { A = g.logu(1, 3); r = g.logu(1, A); V = g.logu(1.05e6, 2.5e6); }   // more than a million voxels (--huge=1)
        double m = std::cbrt(V / (A * r)); if (m < 1) m = 1;
        long n0 = (long)std::floor(m), n1 = std::max(1L, std::lround(m * r)), n2 = std::min(5000L, std::max(1L, std::lround(m * A)));
        if (!g_huge) n1 = std::min(n1, std::max(1L, 200000L / (n0 * n2)));
        long nn[3] = {n0, n1, n2}; int P[6][3] = {{0, 1, 2}, {0, 2, 1}, {1, 0, 2}, {1, 2, 0}, {2, 0, 1}, {2, 1, 0}}; int p = g.range(0, 5);
        for (int a = 0; a < 3; a++) s.n[a] = nn[P[p][a]];
    }
    // position of the min corner
    { double u = g.uni(); s.pos_class = u < 0.2 ? 0 : u < 0.35 ? 1 : u < 0.8 ? 2 : 3; }
    // a few boxes that live entirely below 1e-6 (smallest coordinate decade of the statement)
    const bool micro = g.coin(0.05);
    if (micro) { s.vs_class = 2; s.vs = g.logu(1e-7, 2.5e-7); for (int a = 0; a < 3; a++) s.n[a] = g.range(1, 3); if (s.pos_class == 3) s.pos_class = 2; }
    const double Mmax = micro ? 2e-7 : std::min(1e6, 1e9 * s.vs);           // keeps the voxel size >= ~4e6 ulp of the coordinates
    double M = g.logu(1e-7, Mmax); long kal = std::lround(g.logu(1, std::max(1.0, std::min(1e6, Mmax / s.vs))));
    bool sym = g.coin(0.2);
    for (int a = 0; a < 3; a++) {
        double ext = s.n[a] * s.vs;
        switch (s.pos_class) {
            case 0: s.lo[a] = 0; break;
            case 1: s.lo[a] = sym ? -0.5 * ext : -g.uni(0.1, 0.9) * ext; break;
            case 2: s.lo[a] = (g.coin() ? 1 : -1) * M * g.uni(0.5, 1); break;
            default: s.lo[a] = g.coin(0.15) ? 0.0 : (g.coin() ? 1 : -1) * (double)std::max(1L, std::lround(kal * g.uni(0.5, 1))) * s.vs; break;
        }
    }
    // extents: exact multiples of the voxel size, multiples up to rounding / up to the padding constant, generic
    bool same = g.coin(0.5); int common = -1;
    for (int a = 0; a < 3; a++) {
        int ec; if (same && common >= 0) ec = common; else { double u = g.uni(); ec = u < 0.35 ? 0 : u < 0.7 ? 1 : u < 0.8 ? 2 : u < 0.9 ? 3 : 4; common = ec; }
        double lo = s.lo[a], n = (double)s.n[a], hi;
        switch (ec) {
            case 0: hi = lo + n * s.vs; break;
            case 2: hi = lo + n * s.vs - EPS; break;                              // the repository pads with an absolute epsilon
            case 3: { hi = lo + n * s.vs; int j = g.range(1, 3); double dir = g.coin() ? INFINITY : -INFINITY; for (int t = 0; t < j; t++) hi = std::nextafter(hi, dir); } break;
            case 4: hi = lo + ((n - 1) + 1e-9) * s.vs; break;
            default: hi = lo + (n - g.uni(0.02, 0.98)) * s.vs; ec = 1; break;
        }
        if (!(hi > lo)) { hi = lo + (n - g.uni(0.02, 0.98)) * s.vs; ec = 1; }
        if (!(hi > lo)) { hi = std::nextafter(lo, INFINITY); ec = 1; }
        s.hi[a] = hi; s.ext_class[a] = ec;
    }
    // ---- points ----
    s.k_store = std::lround(g.logu(1, 1e4));
    auto rnd = [&](int a) { return clampd(s.lo[a] + g.uni() * (s.hi[a] - s.lo[a]), s.lo[a], s.hi[a]); };
    auto add = [&](double x, double y, double z, int origin) { Pt p; p.x[0] = x; p.x[1] = y; p.x[2] = z; p.origin = origin; s.pts.push_back(p); };
    // 8 corners, the max corner first
    for (int c = 7; c >= 0; c--) add((c & 1) ? s.hi[0] : s.lo[0], (c & 2) ? s.hi[1] : s.lo[1], (c & 4) ? s.hi[2] : s.lo[2], O_CORNER);
    // 12 edges
    for (int fa = 0; fa < 3; fa++) for (int c = 0; c < 4; c++) {
        double x[3]; int b = (fa + 1) % 3, d = (fa + 2) % 3; x[fa] = rnd(fa); x[b] = (c & 1) ? s.hi[b] : s.lo[b]; x[d] = (c & 2) ? s.hi[d] : s.lo[d]; add(x[0], x[1], x[2], O_EDGE);
    }
    // 6 faces
    for (int fa = 0; fa < 3; fa++) for (int c = 0; c < 2; c++) { double x[3] = {rnd(0), rnd(1), rnd(2)}; x[fa] = c ? s.hi[fa] : s.lo[fa]; add(x[0], x[1], x[2], O_FACE); }
    // interior voxel boundaries (1..3 axes on a boundary plane lo + k*vs, also one ulp to either side)
    for (int t = 0; t < 14; t++) {
        double x[3] = {rnd(0), rnd(1), rnd(2)}; int naxes = g.range(1, 3), a0 = g.range(0, 2);
        for (int j = 0; j < naxes; j++) { int a = (a0 + j) % 3; long k = s.n[a] >= 2 ? g.range(1, (int)std::min(s.n[a] - 1, 100000L)) : (long)g.range(0, 1);
            double v = s.lo[a] + (double)k * s.vs; int w = g.range(0, 3); if (w == 1) v = std::nextafter(v, INFINITY); else if (w == 2) v = std::nextafter(v, -INFINITY);
            x[a] = clampd(v, s.lo[a], s.hi[a]); }
        add(x[0], x[1], x[2], O_VBOUND);
    }
    // random interior points and partners at a distance just below / at one voxel size
    const long structured = (long)s.pts.size();
    const long total = std::max(s.k_store, structured + 12);
    const long nrand = ((total - structured) * 2 + 2) / 3;
    for (long t = 0; t < nrand; t++) add(rnd(0), rnd(1), rnd(2), O_RANDOM);
    while ((long)s.pts.size() < total) {
        int base = g.range(0, (int)s.pts.size() - 1); const Pt& b = s.pts[base];
        double sv; { int w = g.range(0, 5); sv = w == 0 ? 0.0 : w == 1 ? 1e-12 : w == 2 ? 1e-9 : w == 3 ? 1e-6 : w == 4 ? 1e-3 : g.uni(0, 1); }
        double L = s.vs * (1.0 - sv), u[3] = {0, 0, 0}; int w = g.range(0, 9);
        if (w < 4) u[g.range(0, 2)] = g.coin() ? 1 : -1;
        else if (w < 6) { int z = g.range(0, 2); for (int a = 0; a < 3; a++) u[a] = a == z ? 0 : (g.coin() ? 1 : -1) * std::sqrt(0.5); }
        else if (w < 8) for (int a = 0; a < 3; a++) u[a] = (g.coin() ? 1 : -1) / std::sqrt(3.0);
        else { double nn = 0; for (int a = 0; a < 3; a++) { u[a] = g.normal(); nn += u[a] * u[a]; } nn = std::sqrt(nn); if (nn == 0) { u[0] = 1; nn = 1; } for (int a = 0; a < 3; a++) u[a] /= nn; }
        Pt p; for (int a = 0; a < 3; a++) p.x[a] = clampd(b.x[a] + L * u[a], s.lo[a], s.hi[a]); p.origin = O_PARTNER; p.partner_of = base; s.pts.push_back(p);
    }
    // stored subset: all points when k_store covers them, otherwise a random subset (partners drag their base along)
    std::vector<int> order(s.pts.size()); std::iota(order.begin(), order.end(), 0);
    for (size_t i = order.size(); i > 1; i--) std::swap(order[i - 1], order[g.u64() % i]);
    long stored = 0;
    for (size_t i = 0; i < order.size() && stored < s.k_store; i++) {
        Pt& p = s.pts[order[i]]; if (!p.store) { p.store = true; stored++; }
        if (p.partner_of >= 0 && stored < s.k_store && !s.pts[p.partner_of].store) { s.pts[p.partner_of].store = true; stored++; }
    }
    s.path_seed = g.u64();
    return s;
}

std::string spec_json(const Spec& s) {
    J j; j.s("variant", VARIANT[s.variant]).s("construction", CTOR[s.ctor_mode]).d("voxel_size", s.vs)
        .raw("min", jv3(s.lo[0], s.lo[1], s.lo[2])).raw("max", jv3(s.hi[0], s.hi[1], s.hi[2]))
        .raw("intended_voxels", jarrl({s.n[0], s.n[1], s.n[2]}))
        .raw("extent_class", jarrs({EXT[s.ext_class[0]], EXT[s.ext_class[1]], EXT[s.ext_class[2]]}))
        .s("position_class", POS[s.pos_class]).i("points", (long long)s.pts.size()).i("to_store", s.k_store);
    return j.str();
}

// ---- adapters over the two grid templates ---------------------------------------------------------------------
template <class T> std::vector<T> voxel_all(const uspg_4d<T>& g, unsigned x, unsigned y, unsigned z) { const auto& l = g.get_voxel_content(x, y, z); return std::vector<T>(l.begin(), l.end()); }
template <class T> std::vector<T> voxel_all(const uspg_3d<T>& g, unsigned x, unsigned y, unsigned z) { auto o = g.get_voxel_content(x, y, z); std::vector<T> v; if (o) v.push_back(*o); return v; }
template <class T> bool voxel_front_is(const uspg_4d<T>& g, unsigned x, unsigned y, unsigned z, T id) { const auto& l = g.get_voxel_content(x, y, z); return !l.empty() && l.front() == id; }
template <class T> bool voxel_front_is(const uspg_3d<T>& g, unsigned x, unsigned y, unsigned z, T id) { auto o = g.get_voxel_content(x, y, z); return o && *o == id; }
template <class T> size_t storage(const uspg_4d<T>& g) { return uspg_4d_tester::c20_storage(g); }
template <class T> size_t storage(const uspg_3d<T>& g) { return uspg_3d_tester::c20_storage(g); }
template <class T> constexpr bool single_slot(const uspg_4d<T>*) { return false; }
template <class T> constexpr bool single_slot(const uspg_3d<T>*) { return true; }
template <class T> const char* place(uspg_4d<T>& g, T id, const double* x, const std::array<unsigned, 3>&, int path) {
    switch (path % 3) {
        case 0: g.place_object(id, x[0], x[1], x[2]); return "xyz";
        case 1: g.place_object(id, vec3(x[0], x[1], x[2])); return "vec3";
        default: { size_t v = g.get_voxel_index(vec3(x[0], x[1], x[2])); g.place_object(id, v); return "flat_index"; }
    }
}
template <class T> const char* place(uspg_3d<T>& g, T id, const double* x, const std::array<unsigned, 3>& ix, int path) {
    switch (path % 5) {
        case 0: g.place_object(id, x[0], x[1], x[2]); return "xyz";
        case 1: g.place_object(T(id), x[0], x[1], x[2]); return "xyz_rvalue";
        case 2: g.place_object(id, vec3(x[0], x[1], x[2])); return "vec3";
        case 3: g.place_object(T(id), vec3(x[0], x[1], x[2])); return "vec3_rvalue";
        default: g.update_voxel(ix[0], ix[1], ix[2], id); return "update_voxel";
    }
}

// ---- result of one case, serialised through the pipe of run_isolated ---------------------------------------------
struct Out {
    std::string v = "ok", key, msg, obs = "{}"; uint64_t sig = 0; bool nt = false;
    std::map<std::string, long> bins; std::map<std::string, double> maxima;
    bool open() const { return v != "viol"; }   // only the first violation of a case is kept: callers test open() before building the payload
    void viol(const std::string& k, const std::string& m, const std::string& o) { if (v != "viol") { v = "viol"; key = k; msg = m; obs = o; } }
    void bin(const std::string& b, long n = 1) { bins[b] += n; }
    void maxi(const std::string& k, double x) { auto it = maxima.find(k); if (it == maxima.end() || x > it->second) maxima[k] = x; }
    std::string ser() const {
        std::ostringstream o; o << std::setprecision(17);
        o << "V\t" << v << "\t" << key << "\t" << msg << "\t" << sig << "\t" << (nt ? 1 : 0) << "\n" << "O\t" << obs << "\n";
        for (auto& kv : bins) o << "B\t" << kv.first << "\t" << kv.second << "\n";
        for (auto& kv : maxima) o << "M\t" << kv.first << "\t" << kv.second << "\n";
        return o.str();
    }
    static bool parse(const std::string& s, Out& r) {
        std::istringstream in(s); std::string line; bool gotv = false;
        while (std::getline(in, line)) {
            std::vector<std::string> f; size_t p = 0; for (;;) { size_t q = line.find('\t', p); if (q == std::string::npos) { f.push_back(line.substr(p)); break; } f.push_back(line.substr(p, q - p)); p = q + 1; }
            if (f[0] == "V" && f.size() >= 6) { r.v = f[1]; r.key = f[2]; r.msg = f[3]; r.sig = strtoull(f[4].c_str(), nullptr, 10); r.nt = f[5] == "1"; gotv = true; }
            else if (f[0] == "O" && f.size() >= 2) r.obs = line.substr(2);
            else if (f[0] == "B" && f.size() >= 3) r.bins[f[1]] += atol(f[2].c_str());
            else if (f[0] == "M" && f.size() >= 3) r.maxima[f[1]] = atof(f[2].c_str());
        }
        return gotv;
    }
};

std::string pt_json(const Spec& s, const Pt& p, const std::array<unsigned, 3>& ix, const std::array<unsigned, 3>& nb) {
    int nbnd = 0; for (int a = 0; a < 3; a++) nbnd += p.bnd(a, s.lo, s.hi) != 0;
    J j; j.raw("grid", spec_json(s)).raw("voxel_counts", jarrl({(long)nb[0], (long)nb[1], (long)nb[2]})).raw("point", jv3(p.x[0], p.x[1], p.x[2]))
        .raw("index", jarrl({(long)ix[0], (long)ix[1], (long)ix[2]})).s("point_origin", ORIGIN[p.origin]).s("point_class", GEOM[nbnd]);
    return j.str();
}

template <class G, class T>
Out run_case(const Spec& s) {
    Out o; Rng pr(s.path_seed, 0, 0xC20);
    const size_t NP = s.pts.size();
    // ---- construction ----
    G unused_default;                  // default construction (and destruction) must be harmless too
    (void)unused_default;
    G* gp = nullptr; G ga, *gb = nullptr;
    if (s.ctor_mode == 0) gb = new G(s.lo[0], s.lo[1], s.lo[2], s.hi[0], s.hi[1], s.hi[2], s.vs, NP);
    else if (s.ctor_mode == 1) {
        // the contact model re-dimensions one grid object every iteration: build on a decoy box, fill, re-dimension
        double dl[3], dh[3]; for (int a = 0; a < 3; a++) { dl[a] = s.lo[a] - 3 * s.vs; dh[a] = dl[a] + 2.5 * s.vs; }
        gb = new G(dl[0], dl[1], dl[2], dh[0], dh[1], dh[2], s.vs, 5);
        for (int t = 0; t < 5; t++) { double f = 0.1 + 0.2 * t; gb->place_object(T(1000 + t), dl[0] + f * 2.5 * s.vs, dl[1] + f * 2.5 * s.vs, dl[2] + f * 2.5 * s.vs); }
        gb->update_dimensions(NP, s.lo[0], s.lo[1], s.lo[2], s.hi[0], s.hi[1], s.hi[2]);
    } else { ga = G(s.lo[0], s.lo[1], s.lo[2], s.hi[0], s.hi[1], s.hi[2], s.vs, NP); gp = &ga; }
    if (!gp) gp = gb;
    G& g = *gp;
    const std::array<unsigned, 3> nb = g.get_nb_voxels();
    const size_t total = (size_t)nb[0] * nb[1] * nb[2], stor = storage(g);
    o.sig = hash_combine(hash_combine(hash_combine(hash_double(s.vs), hash_double(s.lo[0]) ^ hash_double(s.hi[1])), hash_double(s.lo[2]) ^ hash_double(s.hi[0])), (uint64_t)s.variant * 1000003 + (uint64_t)s.k_store + ((uint64_t)total << 20));
    std::array<unsigned, 3> none = {0, 0, 0};
    if (stor != total) if (o.open()) o.viol("storage_size_mismatch", "voxel storage size differs from the product of the voxel counts", pt_json(s, s.pts[0], none, nb));
    if (g.get_voxel_size() != s.vs) if (o.open()) o.viol("voxel_size_changed", "grid reports a voxel size different from the one it was built with", pt_json(s, s.pts[0], none, nb));
    if (s.ctor_mode == 1) { auto c = g.get_grid_content(); if (!c.empty()) if (o.open()) o.viol("stale_content_after_update_dimensions", "objects of the previous box survive update_dimensions", pt_json(s, s.pts[0], none, nb)); }
    o.bin(std::string("counts_vs_intended:") + ((long)nb[0] == s.n[0] && (long)nb[1] == s.n[1] && (long)nb[2] == s.n[2] ? "equal" : "different"));
    o.bin("total_voxels_decade:" + std::to_string(total ? decade((double)total) : -1));

    // per-point counters (binned once per case)
    long c_idx_geom[4] = {0, 0, 0, 0}, c_idx_origin[O_NORIGIN] = {0}, c_corner[3] = {0, 0, 0}, c_last = 0, c_placed_geom[4] = {0, 0, 0, 0}, c_placed_origin[O_NORIGIN] = {0},
         c_query_geom[4] = {0, 0, 0, 0}, c_query_via[2] = {0, 0}; std::map<std::string, long> c_path;
    // ---- (a) every in-box point maps to an existing voxel ----
    std::vector<std::array<unsigned, 3>> idx(NP); std::vector<size_t> flat(NP, 0); std::vector<char> usable(NP, 1);
    for (size_t i = 0; i < NP; i++) {
        const Pt& p = s.pts[i];
        idx[i] = g.get_3d_voxel_index(p.x[0], p.x[1], p.x[2]);
        const std::array<unsigned, 3> iv = g.get_3d_voxel_index(vec3(p.x[0], p.x[1], p.x[2]));
        flat[i] = g.get_voxel_index(p.x[0], p.x[1], p.x[2]);
        const size_t fv = g.get_voxel_index(vec3(p.x[0], p.x[1], p.x[2]));
        int nbnd = 0; for (int a = 0; a < 3; a++) nbnd += p.bnd(a, s.lo, s.hi) != 0;
        c_idx_geom[nbnd]++; c_idx_origin[p.origin]++;
        if (nbnd == 3) { int nmax = 0; for (int a = 0; a < 3; a++) nmax += p.bnd(a, s.lo, s.hi) == 2; c_corner[nmax == 3 ? 0 : nmax == 0 ? 1 : 2]++; }
        for (int a = 0; a < 3; a++) {
            if (nb[a]) o.maxi("index_plus_one_over_count", (double)((R)(idx[i][a] + 1.0L) / nb[a]));
            if (idx[i][a] == nb[a] - 1) c_last++;
            if (!(idx[i][a] < nb[a])) {
                usable[i] = 0;
                int b = p.bnd(a, s.lo, s.hi); std::string q = b == 2 ? "max" : b == 1 ? "min" : "inner";
                o.bin("oob_points:" + q + "_" + GEOM[nbnd]);
                const char* scale = std::max(std::fabs(s.lo[a]), std::fabs(s.hi[a])) < 1 ? "coordinates_below_1" : "coordinates_above_1";
                o.bin(std::string("oob_axis:") + EXT[s.ext_class[a]] + "@" + scale);
                if (o.open()) o.viol("index_out_of_range:" + q + "_" + GEOM[nbnd], "a point of the declared box maps to voxel index >= voxel count on axis " + std::to_string(a) + " (index " + std::to_string(idx[i][a]) + ", count " + std::to_string(nb[a]) + "; extent of that axis: " + EXT[s.ext_class[a]] + ", " + scale + ")", pt_json(s, p, idx[i], nb));
                break;
            }
        }
        if (iv != idx[i] || fv != flat[i]) { usable[i] = 0; if (o.open()) o.viol("index_overload_disagree", "vec3 and (x,y,z) overloads return different voxel indices", pt_json(s, p, idx[i], nb)); }
        if (usable[i]) {
            const size_t own = ((size_t)idx[i][2] * nb[1] + idx[i][1]) * nb[0] + idx[i][0];
            if (flat[i] != own || !(flat[i] < stor)) { usable[i] = 0; if (o.open()) o.viol("flat_index_mismatch", "flattened voxel index is not z*nx*ny + y*nx + x or not below the storage size", pt_json(s, p, idx[i], nb)); }
        } else if (!(flat[i] < stor)) o.bin("oob_flat_index");
    }

    // checksum of the indices of the points that stay clear of the max faces by >= 1% of a voxel: lets two source trees be
    // compared for "same voxel for every interior point" (sum over the cases of hash mod 1000003, reported as a bin)
    {
        uint64_t h = 0x20; long cnt = 0;
        for (size_t i = 0; i < NP; i++) { const Pt& p = s.pts[i]; bool clear = true; for (int a = 0; a < 3; a++) if (!(p.x[a] <= s.hi[a] - 0.01 * s.vs)) clear = false;
            if (!clear) continue; cnt++; for (int a = 0; a < 3; a++) h = hash_combine(h, idx[i][a]); h = hash_combine(h, flat[i]); }
        o.bin("checksum_indices_of_points_clear_of_max_faces", (long)(h % 1000003)); o.bin("points_clear_of_max_faces", cnt);
    }

    // ---- (b) placement: the object is found in the voxel it was placed in ----
    std::vector<int> placed;                       // point ids (object id == point id + 1)
    // one grid in three: the first two objects stored are the largest and the smallest value of the object type (any value of T is an admissible object)
    const bool extreme_ids = (pr.u64() % 3) == 0; long ext_pt[2] = {-1, -1}; if (extreme_ids) o.bin("grids_storing_the_extreme_values_of_the_object_type");
    auto enc = [&](size_t i) -> T { if ((long)i == ext_pt[0]) return std::numeric_limits<T>::max(); if ((long)i == ext_pt[1]) return std::numeric_limits<T>::lowest(); return (T)(i + 1); };
    auto dec = [&](T v) -> long { if (ext_pt[0] >= 0 && v == std::numeric_limits<T>::max()) return ext_pt[0] + 1; if (ext_pt[1] >= 0 && v == std::numeric_limits<T>::lowest()) return ext_pt[1] + 1; return (long)v; };
    std::vector<char> occupied; if (single_slot((G*)nullptr)) occupied.assign(stor, 0);
    for (size_t i = 0; i < NP; i++) {
        const Pt& p = s.pts[i]; if (!p.store) continue;
        if (!usable[i]) { o.bin("not_placed:index_out_of_range"); continue; }
        if (single_slot((G*)nullptr)) { if (occupied[flat[i]]) { o.bin("not_placed:voxel_occupied_single_slot_grid"); continue; } occupied[flat[i]] = 1; }
        if (extreme_ids && ext_pt[0] < 0) ext_pt[0] = (long)i; else if (extreme_ids && ext_pt[1] < 0) ext_pt[1] = (long)i;
        const T id = enc(i);
        const char* path = place(g, id, p.x, idx[i], (int)(pr.u64() % 15));
        c_path[path]++; c_placed_origin[p.origin]++;
        int nbnd = 0; for (int a = 0; a < 3; a++) nbnd += p.bnd(a, s.lo, s.hi) != 0; c_placed_geom[nbnd]++;
        placed.push_back((int)i);
        if (!voxel_front_is(g, idx[i][0], idx[i][1], idx[i][2], id)) {
            std::vector<T> c = voxel_all(g, idx[i][0], idx[i][1], idx[i][2]);
            if (std::find(c.begin(), c.end(), id) == c.end()) if (o.open()) o.viol(std::string("placed_object_not_in_voxel:") + GEOM[nbnd], std::string("object placed via ") + path + " is not in the voxel its position maps to", pt_json(s, p, idx[i], nb));
        }
    }
    // every voxel that received objects holds exactly those objects
    {
        std::vector<std::pair<size_t, int>> byv; byv.reserve(placed.size()); for (int i : placed) byv.push_back({flat[i], i});
        std::sort(byv.begin(), byv.end());
        for (size_t a = 0; a < byv.size();) {
            size_t b = a; std::vector<T> expect; while (b < byv.size() && byv[b].first == byv[a].first) { expect.push_back(enc((size_t)byv[b].second)); b++; }
            const int i0 = byv[a].second; std::vector<T> got = voxel_all(g, idx[i0][0], idx[i0][1], idx[i0][2]);
            std::sort(expect.begin(), expect.end()); std::sort(got.begin(), got.end());
            o.maxi("objects_in_one_voxel", (double)expect.size());
            if (got != expect) if (o.open()) o.viol("voxel_content_mismatch", "a voxel does not hold exactly the objects placed in it (expected " + std::to_string(expect.size()) + ", found " + std::to_string(got.size()) + ")", pt_json(s, s.pts[i0], idx[i0], nb));
            a = b;
        }
        o.bin("voxels_read_back", (long)byv.size());
    }
    // ---- (d) full content = the placed multiset, each object exactly once ----
    {
        auto c = g.get_grid_content(); std::vector<long> got; for (const T& v : c) got.push_back(dec(v)); std::sort(got.begin(), got.end());
        std::vector<long> expect; for (int i : placed) expect.push_back(i + 1); std::sort(expect.begin(), expect.end());
        if (got != expect) {
            std::string what = "unknown";
            if (std::adjacent_find(got.begin(), got.end()) != got.end()) what = "duplicate";
            else if (got.size() < expect.size()) what = "missing"; else if (got.size() > expect.size()) what = "extra";
            if (o.open()) o.viol("grid_content_mismatch:" + what, "get_grid_content returned " + std::to_string(got.size()) + " objects, " + std::to_string(expect.size()) + " were placed", pt_json(s, s.pts[0], idx[0], nb));
        }
        o.bin("grid_content_objects", (long)got.size());
    }
    // ---- (c) neighbourhood contains every stored object within one voxel size ----
    {
        int ax = 0; for (int a = 1; a < 3; a++) if (s.hi[a] - s.lo[a] > s.hi[ax] - s.lo[ax]) ax = a;
        std::vector<int> sorted = placed; std::sort(sorted.begin(), sorted.end(), [&](int a, int b) { return s.pts[a].x[ax] < s.pts[b].x[ax]; });
        std::vector<double> key(sorted.size()); for (size_t k = 0; k < sorted.size(); k++) key[k] = s.pts[sorted[k]].x[ax];
        // Threshold ties are excluded: both indices are floor(fl(fl(x - m)/vs)); the two roundings perturb the quotient by
        // at most 2u(|p-m|+|q-m|)/vs <= 2*eps*N voxels (u = eps/2, N = voxel count of the axis), so for
        // |p-q| <= vs(1-tau), tau = 4*eps*(N+2), the computed quotients differ by < 1 and the voxel indices by <= 1.
        const unsigned nmax = std::max({nb[0], nb[1], nb[2]});
        const R tau = 4.0L * EPS * ((R)nmax + 2), vsl = s.vs, must = vsl * (1 - tau);
        o.maxi("tie_margin_tau", (double)tau);
        std::vector<int> stamp(NP + 2, -1); long returned = 0, compared = 0, queries = 0; bool truncated = false;
        long npair[4] = {0, 0, 0, 0}, nvox[2] = {0, 0}, tie[2] = {0, 0};       // counted locally, binned once per case
        for (size_t i = 0; i < NP; i++) {
            if (!usable[i]) continue;
            if (returned > 3000000 || compared > 20000000) { truncated = true; break; }
            const Pt& p = s.pts[i]; queries++;
            const bool by_index = (pr.u64() % 4) == 0;
            auto nbh = by_index ? g.get_neighborhood(idx[i][0], idx[i][1], idx[i][2]) : (pr.u64() & 1) ? g.get_neighborhood(vec3(p.x[0], p.x[1], p.x[2])) : g.get_neighborhood(p.x[0], p.x[1], p.x[2]);
            c_query_via[by_index ? 1 : 0]++;
            long cnt = 0; for (const T& v : nbh) { long id = dec(v); cnt++; if (id >= 1 && id <= (long)NP) stamp[id] = (int)i; else if (o.open()) o.viol("neighbourhood_unknown_object", "neighbourhood returned an object that was never placed", pt_json(s, p, idx[i], nb)); }
            returned += cnt; o.maxi("neighbourhood_size", (double)cnt);
            int nbnd = 0; for (int a = 0; a < 3; a++) nbnd += p.bnd(a, s.lo, s.hi) != 0; c_query_geom[nbnd]++;
            size_t k0 = std::lower_bound(key.begin(), key.end(), p.x[ax] - s.vs * 1.0000001) - key.begin();
            long truth = 0;
            for (size_t k = k0; k < key.size() && key[k] <= p.x[ax] + s.vs * 1.0000001; k++) {
                const Pt& q = s.pts[sorted[k]]; compared++;
                R dx = (R)p.x[0] - q.x[0], dy = (R)p.x[1] - q.x[1], dz = (R)p.x[2] - q.x[2]; R d = std::sqrt(dx * dx + dy * dy + dz * dz);
                if (d > vsl) continue;
                const bool found = stamp[sorted[k] + 1] == (int)i;
                if (d > must) { tie[found ? 0 : 1]++; continue; }
                truth++;
                const double rel = (double)(d / vsl);
                npair[rel == 0 ? 0 : rel < 0.5 ? 1 : rel < 0.99 ? 2 : 3]++;
                bool cross = false; for (int a = 0; a < 3; a++) if (idx[i][a] != idx[sorted[k]][a]) cross = true;
                nvox[cross ? 1 : 0]++;
                if (found) o.maxi("largest_found_distance_over_voxel_size", rel);
                else {
                    o.bin(std::string("neighbours_missed:") + GEOM[nbnd]);
                    if (o.open()) {
                        char rb[40]; snprintf(rb, sizeof rb, "%.17g", rel);
                        J j; j.raw("query", pt_json(s, p, idx[i], nb)).raw("missed_point", jv3(q.x[0], q.x[1], q.x[2])).raw("missed_index", jarrl({(long)idx[sorted[k]][0], (long)idx[sorted[k]][1], (long)idx[sorted[k]][2]})).d("distance_over_voxel_size", rel).s("query_via", by_index ? "voxel_index" : "position");
                        o.viol(std::string("neighbour_missed:") + GEOM[nbnd], std::string("get_neighborhood misses a stored object at distance ") + rb + " voxel sizes", j.str());
                    }
                }
            }
            if (truth > 1) o.bin("queries_with_other_neighbours");
        }
        static const char* PB[] = {"neighbour_pairs:coincident", "neighbour_pairs:d<0.5", "neighbour_pairs:0.5<=d<0.99", "neighbour_pairs:0.99<=d<1"};
        for (int k = 0; k < 4; k++) if (npair[k]) o.bin(PB[k], npair[k]);
        if (nvox[0]) o.bin("neighbour_pairs:same_voxel", nvox[0]); if (nvox[1]) o.bin("neighbour_pairs:other_voxel", nvox[1]);
        if (tie[0]) o.bin("threshold_tie_pairs:found", tie[0]); if (tie[1]) o.bin("threshold_tie_pairs:not_found_not_judged", tie[1]);
        o.bin("queries", queries); if (truncated) o.bin("cases_with_truncated_queries");
        o.nt = !placed.empty() && queries > 0;
    }
    // ---- the same queries asked by several threads at once: a query does not change the grid, so it must return what it returns alone -------------------
    { const int nt = omp_get_max_threads(); if (nt > 1 && o.open()) {
        std::vector<size_t> qs; for (size_t i = 0; i < NP && qs.size() < 400; i++) if (usable[i]) qs.push_back(i);
        auto fp = [&](size_t i) { auto nbh = g.get_neighborhood(idx[i][0], idx[i][1], idx[i][2]); std::vector<long> v; for (const T& x : nbh) v.push_back((long)x); std::sort(v.begin(), v.end()); uint64_t h = v.size(); for (long x : v) h = hash_combine(h, (uint64_t)x); return h; };
        std::vector<uint64_t> alone(qs.size()); for (size_t k = 0; k < qs.size(); k++) alone[k] = fp(qs[k]);
        std::atomic<long> wrong{0};
        for (int round = 0; round < 3; round++) {
#pragma omp parallel for schedule(dynamic, 4)
            for (long k = 0; k < (long)qs.size(); k++) if (fp(qs[(size_t)k]) != alone[(size_t)k]) wrong++;
        }
        o.bin("concurrent_queries", 3 * (long)qs.size());
        if (wrong.load() && !qs.empty()) o.viol("concurrent_queries_differ", std::to_string(wrong.load()) + " of " + std::to_string(3 * qs.size()) + " neighbourhood queries asked by " + std::to_string(nt) + " threads at once returned another set of objects than the same query asked alone", pt_json(s, s.pts[qs[0]], idx[qs[0]], nb));
    } }
    // ---- interleaved use: query, place (by voxel id as the contact model does, or by position), query the same point again --------------
    // a neighbourhood query must reflect every object stored so far, whatever the order of queries and placements
    if constexpr (!single_slot((G*)nullptr)) { if (o.open()) {
        long probes = 0;
        for (size_t i = 0; i < NP && probes < 6; i++) {
            if (!usable[i]) continue; const Pt& p = s.pts[i]; probes++;
            auto before = g.get_neighborhood(p.x[0], p.x[1], p.x[2]); long nb0 = 0; for (const T& v : before) { (void)v; nb0++; }
            const T fresh = (T)(20000 + probes); const bool by_id = (pr.u64() & 1) != 0;
            if (by_id) g.place_object(fresh, g.get_voxel_index(p.x[0], p.x[1], p.x[2])); else g.place_object(fresh, p.x[0], p.x[1], p.x[2]);
            auto after = g.get_neighborhood(p.x[0], p.x[1], p.x[2]); bool seen = false; long nb1 = 0; for (const T& v : after) { nb1++; if (v == fresh) seen = true; }
            o.bin(by_id ? "interleaved_place_by_voxel_id_then_requery" : "interleaved_place_by_position_then_requery");
            if (!seen || nb1 != nb0 + 1) { o.viol(std::string("neighbour_missed:placed_after_a_query_") + (by_id ? "by_voxel_id" : "by_position"), "an object stored in the voxel of the query point after a first query is not returned by the next query of the same point", pt_json(s, p, idx[i], nb)); break; }
        }
    } }
    o.bin("placed_objects", (long)placed.size());
    for (int k = 0; k < 4; k++) { if (c_idx_geom[k]) o.bin(std::string("index_checked:") + GEOM[k], c_idx_geom[k]); if (c_placed_geom[k]) o.bin(std::string("placed:") + GEOM[k], c_placed_geom[k]);
        if (c_query_geom[k]) o.bin(std::string("query:") + GEOM[k], c_query_geom[k]); }
    for (int k = 0; k < O_NORIGIN; k++) { if (c_idx_origin[k]) o.bin(std::string("index_checked_origin:") + ORIGIN[k], c_idx_origin[k]); if (c_placed_origin[k]) o.bin(std::string("placed_origin:") + ORIGIN[k], c_placed_origin[k]); }
    if (c_corner[0]) o.bin("corner:max", c_corner[0]); if (c_corner[1]) o.bin("corner:min", c_corner[1]); if (c_corner[2]) o.bin("corner:mixed", c_corner[2]);
    if (c_last) o.bin("index_in_last_voxel", c_last);
    if (c_query_via[0]) o.bin("query_via:position", c_query_via[0]); if (c_query_via[1]) o.bin("query_via:voxel_index", c_query_via[1]);
    for (auto& kv : c_path) o.bin("placed_via:" + kv.first, kv.second);
    delete gb;
    return o;
}

Out dispatch(const Spec& s) {
    switch (s.variant) {
        case 0: return run_case<uspg_4d<int>, int>(s);
        case 1: return run_case<uspg_3d<int>, int>(s);
        default: return run_case<uspg_3d<unsigned short>, unsigned short>(s);
    }
}

int cmd_grid(const Args& a) {
    Agg agg; long crash_lines = 0;
    for (long i = a.first; i < a.first + a.cases; i++) {
        if (!a.mine(i)) continue;
        Rng g(a.seed, (uint64_t)i, 0x20);
        g_huge = a.geti("huge", 0) != 0; const Spec s = make_spec(g); if (g_huge) agg.bin("grids_beyond_a_million_voxels");
        Case c(i);
        // what was generated (recorded by the parent, so it is counted even when the child dies)
        agg.bin(std::string("variant:") + VARIANT[s.variant]); agg.bin(std::string("construction:") + CTOR[s.ctor_mode]);
        agg.bin("voxel_size_decade:" + std::to_string(decade(s.vs))); agg.bin(std::string("voxel_size_class:") + VSC[s.vs_class]);
        double cmax = 0; for (int k = 0; k < 3; k++) cmax = std::max({cmax, std::fabs(s.lo[k]), std::fabs(s.hi[k])});
        agg.bin(decade(cmax) < -7 ? std::string("coordinate_decade:below_-7") : "coordinate_decade:" + std::to_string(decade(cmax))); agg.bin(std::string("position:") + POS[s.pos_class]);
        agg.bin("coordinate_over_voxel_size_decade:" + std::to_string(decade(cmax / s.vs)));
        for (int k = 0; k < 3; k++) agg.bin(std::string("axis_extent:") + EXT[s.ext_class[k]]);
        { bool allm = true, nonm = true; for (int k = 0; k < 3; k++) { if (s.ext_class[k] != 0) allm = false; if (s.ext_class[k] != 1) nonm = false; }
          agg.bin(allm ? "grid_extents:all_exact_multiples" : nonm ? "grid_extents:all_non_multiples" : "grid_extents:mixed_or_near_multiples"); }
        { long mx = std::max({s.n[0], s.n[1], s.n[2]}), mn = std::min({s.n[0], s.n[1], s.n[2]}); agg.bin("aspect_decade:" + std::to_string(decade((double)mx / mn))); agg.maxi("aspect_ratio", (double)mx / mn); }
        agg.bin("points_decade:" + std::to_string(decade((double)s.k_store))); agg.maxi("points_to_store", (double)s.k_store);
        agg.maxi("intended_voxels", (double)(s.n[0] * s.n[1] * s.n[2]));
        IsoResult res = run_isolated([&]() { return dispatch(s).ser(); }, 120, 300);
        Out o;
        if (!res.completed || !Out::parse(res.line, o)) {
            c.v = "crash"; agg.add(c); agg.bin("crashed_cases");
            if (crash_lines++ < 25) emit(crash_line(i, res, spec_json(s)));
            continue;
        }
        c.v = o.v; c.key = o.key; c.msg = o.msg; c.sig = o.sig; c.nontrivial = o.nt;
        if (o.v == "viol") c.obs.raw("observed", o.obs);
        else if (agg.samples.size() < agg.max_samples) c.obs.raw("grid", spec_json(s));
        for (auto& kv : o.bins) agg.bin(kv.first, kv.second);
        for (auto& kv : o.maxima) agg.maxi(kv.first, kv.second);
        agg.add(c);
    }
    agg.flush(a.shard_i);
    return 0;
}
Reg r_grid("grid", cmd_grid);

}  // namespace
