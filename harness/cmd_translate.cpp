// C14 — results do not depend on where the tissue is placed.  Twin runs of a monitored solver on a tissue and on its translated copy;
// to stay sound for a chaotic system every comparison is backed by noise twins (inputs perturbed by 1e-13 relative): a difference counts
// only when it separates the translated family from the reference family while both families agree within themselves.
#include "vh.hpp"
#include "tissue.hpp"
#include "verif_hooks.hpp"
#include <mutex>
#include <unistd.h>

using namespace vh;
static std::string sci(double x) { char b[32]; snprintf(b, sizeof b, "%.3e", x); return b; }
using orc::V3; using orc::R;

namespace {

static uint64_t g_rng_base = 0; static std::mutex g_mu; static std::map<std::pair<int, uint64_t>, uint64_t> g_ctr;
static uint64_t rng_seed(int site, uint64_t ctx) { std::lock_guard<std::mutex> lk(g_mu); uint64_t k = g_ctr[{site, ctx}]++; return hash_combine(hash_combine(g_rng_base, (uint64_t)site), hash_combine(ctx, k)); }

static double g_limit = 1e300;
struct CellState { std::vector<std::array<double, 3>> X; std::vector<char> used; std::vector<std::array<unsigned, 3>> T; double V = 0, p = 0, Vt = 0, K = 0; unsigned id = 0; };
struct State { std::vector<CellState> cells; long iters = 0; std::string exc; std::vector<CellState> div_cells; long div_iter = -1; long tie_pairs = 0; long first_tie_iter = -1; };
static State* g_state = nullptr; static std::array<double, 3> g_shift = {0, 0, 0}; static size_t g_prev_count = 0; static double g_cut2 = 0;
// A presented (node, face) pair whose outcome is decided by rounding: the node lies within the cut-off of the face, its closest point on the
// face is not the foot of the perpendicular (vertex / edge region), and the vector from that point to the node is perpendicular to the face
// normal up to 1e-7 - the sign test `(p - q).n < 0` of the repulsion rule then switches a finite force on or off by rounding noise.  After a
// division the rim nodes of one daughter lie exactly in the plane of interface faces of the other, so such ties are systematic there.
static void tie_pair(const cell* c1, const node* n, const cell* c2, const face* f) {
    if (!g_state) return; const auto& nl = cell_tester::nodes(*c2);
    const vec3 &p = n->pos(), &A = nl[cell_tester::n1(*f)].pos(), &B = nl[cell_tester::n2(*f)].pos(), &C = nl[cell_tester::n3(*f)].pos();
    V3 P(p.dx(), p.dy(), p.dz()), a(A.dx(), A.dy(), A.dz()), b(B.dx(), B.dy(), B.dz()), cc(C.dx(), C.dy(), C.dz()), q;
    R d2 = orc::closest_on_triangle(P, a, b, cc, q); if (!(d2 < (R)g_cut2) || !(d2 > 0)) return;
    V3 nrm = (b - a).cross(cc - a); R nn = nrm.norm(); if (!(nn > 0)) return; V3 v = P - q;
    if (std::fabs(v.dot(nrm)) <= 1e-7L * v.norm() * nn) { g_state->tie_pairs++; if (g_state->first_tie_iter < 0) g_state->first_tie_iter = g_state->iters; }
    (void)c1;
}
static void on_phase(int tag, const std::vector<cell_ptr>* lp) { if (tag == 8 && tis::blown_up(*lp, g_limit)) throw tis::unstable_run();
    // state right after the first division of the run (before the daughters meet the contact rules)
    if (g_state && tag == 0) g_prev_count = lp->size();
    if (g_state && tag == 2 && g_state->div_iter < 0 && lp->size() > g_prev_count) { g_state->div_iter = g_state->iters;
        for (auto& cp : *lp) { CellState cs; cs.id = cp->get_id(); for (const node& n : cell_tester::nodes(*cp)) { cs.X.push_back({n.pos().dx() - g_shift[0], n.pos().dy() - g_shift[1], n.pos().dz() - g_shift[2]}); cs.used.push_back(n.is_used()); }
            for (const face& f : cell_tester::faces(*cp)) if (f.is_used()) cs.T.push_back({cell_tester::n1(f), cell_tester::n2(f), cell_tester::n3(f)}); g_state->div_cells.push_back(cs); } }
}

static State run(const tis::Scenario& s0, const std::array<double, 3>& t, uint64_t noise_seed, double noise_rel, uint64_t rng_base, const std::string& out) {
    tis::Scenario s = s0; s.P.output_folder_path_ = out; State st;
    Rng ng(noise_seed, 0, 0x14);
    for (auto& c : s.cells) for (auto& p : c.mesh.P) for (int d = 0; d < 3; d++) { double x = p[d]; if (noise_rel > 0) x *= (1.0 + noise_rel * ng.uni(-1, 1)); p[d] = x + t[d]; }
    { std::lock_guard<std::mutex> lk(g_mu); g_rng_base = rng_base; g_ctr.clear(); } verif::rng_context() = 0;
    g_state = &st; g_shift = t; g_prev_count = s.cells.size(); g_cut2 = std::pow(std::max(s.P.contact_cutoff_adhesion_, s.P.contact_cutoff_repulsion_), 2);
    verif::get().contact_pair = tie_pair;
    try {
        std::vector<cell_ptr> cells = tis::build_cells(s);
        tis::msolver sv(s.P, cells, 1, true, false);
        while (!sv.finished()) { sv.run_iteration(); st.iters++;
            if (getenv("VH_TRACE")) { for (auto& cp : sv.cells()) { double mx = 0; for (const node& n : cell_tester::nodes(*cp)) if (n.is_used()) mx = std::max({mx, std::fabs(n.pos().dx()), std::fabs(n.pos().dy()), std::fabs(n.pos().dz())}); { FILE* tf = fopen("/tmp/vh_trace_tr.log", "a"); if (tf) { fprintf(tf, "it %ld cell %u type %s faces %zu V %.13e Vt %.13e p %.13e maxcoord %.3e\n", st.iters, cp->get_id(), cp->get_cell_type()->name_.c_str(), cp->get_nb_of_faces(), cp->get_volume(), cp->get_target_volume(), cp->get_pressure(), mx); fclose(tf); } } } } }
        for (auto& cp : sv.cells()) { CellState cs; cs.V = cp->get_volume(); cs.p = cp->get_pressure(); cs.Vt = cp->get_target_volume(); cs.id = cp->get_id(); cs.K = cp->get_cell_type()->bulk_modulus_;
            for (const node& n : cell_tester::nodes(*cp)) { cs.X.push_back({n.pos().dx() - t[0], n.pos().dy() - t[1], n.pos().dz() - t[2]}); cs.used.push_back(n.is_used()); }
            for (const face& f : cell_tester::faces(*cp)) if (f.is_used()) cs.T.push_back({cell_tester::n1(f), cell_tester::n2(f), cell_tester::n3(f)});
            st.cells.push_back(cs); }
    } catch (const std::exception& e) { st.exc = e.what(); }
    catch (const tis::unstable_run&) { st.exc = "unstable: coordinates exploded"; }
    g_state = nullptr; verif::get().contact_pair = nullptr;
    std::error_code ec; std::filesystem::remove_all(out, ec); return st;
}

// returns: -1 structure differs (cell count, connectivity, exception); otherwise max position deviation; also relative V/p deviation
static double compare(const State& a, const State& b, double& relVp) {
    relVp = 0; if (a.exc.empty() != b.exc.empty()) return -1; if (a.cells.size() != b.cells.size() || a.iters != b.iters) return -1; double dev = 0;
    for (size_t k = 0; k < a.cells.size(); k++) { const CellState &x = a.cells[k], &y = b.cells[k]; if (x.used != y.used || x.T != y.T) return -1;
        for (size_t i = 0; i < x.X.size(); i++) if (x.used[i]) for (int d = 0; d < 3; d++) dev = std::max(dev, std::fabs(x.X[i][d] - y.X[i][d]));
        if (x.V != 0) relVp = std::max(relVp, std::fabs(x.V - y.V) / std::fabs(x.V));
        // p = -K ln(V/Vt): an error dV/V in the volume is an absolute error K dV/V in the pressure, so the pressure is compared on the scale max(|p|, K)
        double ps = std::max({std::fabs(x.p), std::fabs(y.p), std::fabs(x.K)}); if (ps > 0) relVp = std::max(relVp, std::fabs(x.p - y.p) / ps); }
    return dev;
}

// the same comparison on the snapshots taken right after the first division; -2: neither run divided
static double compare_div(const State& a, const State& b) {
    if (a.div_iter < 0 && b.div_iter < 0) return -2; if (a.div_iter != b.div_iter || a.div_cells.size() != b.div_cells.size()) return -1; double dev = 0;
    for (size_t k = 0; k < a.div_cells.size(); k++) { const CellState &x = a.div_cells[k], &y = b.div_cells[k]; if (x.used != y.used || x.T != y.T || x.id != y.id) return -1;
        for (size_t i = 0; i < x.X.size(); i++) if (x.used[i]) for (int d = 0; d < 3; d++) dev = std::max(dev, std::fabs(x.X[i][d] - y.X[i][d])); }
    return dev;
}

static std::string one_case(const Args& a, long i) {
    Rng g(a.seed, (uint64_t)i, 0x14); Case c(i); verif::get().rng_seed = rng_seed; verif::get().phase = on_phase;
    int iters = g.range((int)a.geti("min_iterations", 20), (int)a.geti("max_iterations", 40));
    int what = (int)(i % 7); tis::Scenario s = tis::make_scenario(g, what, iters, false);
    // tissue extent and voxel size of the contact grid
    double lo[3] = {1e300, 1e300, 1e300}, hi[3] = {-1e300, -1e300, -1e300}; for (auto& cs : s.cells) for (auto& p : cs.mesh.P) for (int d = 0; d < 3; d++) { lo[d] = std::min(lo[d], p[d]); hi[d] = std::max(hi[d], p[d]); }
    double L = std::max({hi[0] - lo[0], hi[1] - lo[1], hi[2] - lo[2]}); double voxel = 3 * s.P.min_edge_len_ + 2 * std::max(s.P.contact_cutoff_adhesion_, s.P.contact_cutoff_repulsion_);
    uint64_t base = hash_combine(a.seed, (uint64_t)i); std::string out = "tr_out_" + std::to_string(i) + "_" + std::to_string((long)getpid());
    std::array<double, 3> zero = {0, 0, 0};
    g_limit = tis::extent_limit(s) * 100;   // translations reach 32 extents
    State ref = run(s, zero, 0, 0, base, out);
    if (ref.exc.rfind("unstable", 0) == 0) { c.v = "skip"; c.msg = "unstable simulation (coordinates exploded): not a subject of this property"; c.obs.s("family", s.family).b("ill_conditioned", true); return c.line(); }
    // conditioning of the reference: two noise twins
    // noise twins: every input coordinate perturbed by 1e-13 relative AND the whole tissue shifted by a random vector of 1e-11 L.  The shift
    // scrambles the rounding pattern of every later operation; it reveals exact ties that only arise during the run (after a division the rim
    // nodes of one daughter lie exactly in the plane of interface faces of the other: the sign test of the repulsion rule is then decided by
    // rounding noise and switches a finite force on or off) and that a relative perturbation of the inputs alone leaves intact.
    auto micro = [&](int k) { Rng mg(a.seed, (uint64_t)i, 0x140 + (uint64_t)k); std::array<double, 3> d = {mg.normal(), mg.normal(), mg.normal()}; double n = std::sqrt(d[0] * d[0] + d[1] * d[1] + d[2] * d[2]); for (auto& x : d) x *= 1e-11 * L / n; return d; };
    State r1 = run(s, micro(1), 1, 1e-13, base, out), r2 = run(s, micro(2), 2, 1e-13, base, out);
    double vp; double sR = std::max(compare(ref, r1, vp), compare(ref, r2, vp)); bool structR = compare(ref, r1, vp) < 0 || compare(ref, r2, vp) < 0;
    const double tolX = 1e-9 * L, condX = 1e-10 * L;
    c.obs.s("family", s.family).i("iterations", ref.iters).i("cells_end", (long)ref.cells.size()).d("L", L).d("reference_noise_scatter_over_L", sR / L).s("ref_exception", ref.exc.substr(0, 80));
    // two things are compared: the final state, and the state right after the first division of the run.  The final state is not compared
    // when a contact of the reference family was decided by rounding (see tie_pair): the trajectory after such a tie is a coin flip in every run.
    const bool ties_ref = ref.tie_pairs > 0 || r1.tie_pairs > 0 || r2.tie_pairs > 0;
    const bool final_ok = !(structR || sR > condX) && !ties_ref;
    const double dR1 = compare_div(ref, r1), dR2 = compare_div(ref, r2); const bool div_ok = ref.div_iter >= 0 && dR1 >= 0 && dR2 >= 0 && std::max(dR1, dR2) <= condX;
    c.obs.b("final_state_comparable", final_ok).b("first_division_comparable", div_ok).i("rounding_decided_contacts_in_reference", ref.tie_pairs).i("first_division_iteration", ref.div_iter);
    if (!final_ok && !div_ok) { c.v = "skip"; c.msg = ties_ref && !(structR || sR > condX) ? "a contact of the reference run is decided by rounding (node in the plane of a face it is not above) and the run has no division to compare" : "ill-conditioned reference: noise twins (1e-13 relative, shifted by 1e-11 L) already depart by more than 1e-10 L or change connectivity"; c.obs.b("ill_conditioned", true); return c.line(); }
    int ntr = (int)a.geti("translations", 4); long compared = 0, inconclusive = 0, div_compared = 0, final_compared = 0; double maxdev = 0, maxvp = 0, agg_tol = 0, maxdivdev = 0; std::string kinds;
    for (int k = 0; k < ntr && c.v != "viol"; k++) {
        int kind = g.range(0, 6); std::array<double, 3> t; std::string kn;
        auto dir = [&]() { std::array<double, 3> d = {g.normal(), g.normal(), g.normal()}; double n = std::sqrt(d[0] * d[0] + d[1] * d[1] + d[2] * d[2]); for (auto& x : d) x /= n; return d; };
        if (kind == 0) { auto d = dir(); double m = g.uni(0.01, 0.9) * voxel; t = {d[0] * m, d[1] * m, d[2] * m}; kn = "sub_voxel"; }
        else if (kind == 1) { t = {voxel * (g.coin() ? 1 : -1), 0, 0}; if (g.coin()) t = {0, voxel, -voxel}; kn = "exactly_one_voxel"; }
        else if (kind == 2) { t = {voxel * g.range(-40, 40), voxel * g.range(-40, 40), voxel * g.range(-40, 40)}; kn = "many_voxels"; }
        else if (kind == 3) { t = {-(lo[0] + hi[0]) / 2 + g.uni(-0.3, 0.3) * L, -(lo[1] + hi[1]) / 2 + g.uni(-0.3, 0.3) * L, -(lo[2] + hi[2]) / 2}; kn = "across_origin"; }
        else if (kind == 4) { auto d = dir(); double m = g.uni(8, 32) * L; t = {d[0] * m, d[1] * m, d[2] * m}; kn = "far_up_to_32_extents"; }
        else if (kind == 5) { t = {std::ldexp(1.0, g.range(-22, -12)) * (g.coin() ? 1 : -1), std::ldexp(1.0, g.range(-22, -12)), 0}; kn = "binary_exact"; }
        else { auto d = dir(); double m = g.uni(1, 8) * L; t = {d[0] * m, d[1] * m, d[2] * m}; kn = "few_extents"; }
        kinds += kn + ",";
        State tr = run(s, t, 0, 0, base, out); double dvp; double d = compare(ref, tr, dvp); compared++;
        const double tmag = std::sqrt(t[0] * t[0] + t[1] * t[1] + t[2] * t[2]);
        // The enclosed volume is summed relative to a node of the cell (repaired: it used to be summed relative to the origin, with a relative
        // error of 64 eps sqrt(F) (1+D/r)^3 at distance D): no allowance that grows with the distance from the origin is made any more.
        const double tolVp = 1e-9;
        const double tolXt = std::max(tolX, 10 * tolVp * L);
        agg_tol = std::max(agg_tol, tolVp);
        auto plus = [&](const std::array<double, 3>& u, const std::array<double, 3>& w) { return std::array<double, 3>{u[0] + w[0], u[1] + w[1], u[2] + w[2]}; };
        State t1, t2; bool have_twins = false; auto twins = [&]() { if (!have_twins) { t1 = run(s, plus(t, micro(3)), 1, 1e-13, base, out); t2 = run(s, plus(t, micro(4)), 2, 1e-13, base, out); have_twins = true; } };
        // ---- state right after the first division
        if (div_ok) { const double dd = compare_div(ref, tr); div_compared++;
            if (dd < 0 || dd > tolXt) { twins(); const double a1 = compare_div(tr, t1), a2 = compare_div(tr, t2);
                if (a1 < 0 || a2 < 0 || std::max(a1, a2) > condX) inconclusive++;
                else if (dd < 0 && compare_div(ref, t1) < 0 && compare_div(r1, tr) < 0) c.viol("translated_run_differs_at_first_division:structure:" + kn, "after a translation by " + std::to_string(tmag / L) + " tissue extents the first division happens in another iteration or yields other daughter meshes, although the reference and the translated inputs are each stable under noise");
                else if (dd > tolXt && std::min({compare_div(ref, t1), compare_div(ref, t2), compare_div(r1, tr), compare_div(r2, tr)}) > tolXt) c.viol("translated_run_differs_at_first_division:positions:" + kn, "after a translation by " + std::to_string(tmag / L) + " tissue extents the node positions right after the first division deviate by " + sci(dd / L) + " L from the translated reference");
                else inconclusive++; }
            else maxdivdev = std::max(maxdivdev, dd / tolXt);
            if (c.v == "viol") break; }
        // ---- final state
        if (!final_ok || tr.tie_pairs > 0) continue;
        final_compared++;
        bool differs = d < 0 || d > tolXt || dvp > tolVp;
        if (!differs) { maxdev = std::max(maxdev, d / tolXt); maxvp = std::max(maxvp, dvp / tolVp); continue; }
        // does the difference separate the two families?  translated noise twins
        twins(); double x;
        if (t1.tie_pairs > 0 || t2.tie_pairs > 0) { inconclusive++; continue; }
        double sT1 = compare(tr, t1, x), sT2 = compare(tr, t2, x); bool structT = sT1 < 0 || sT2 < 0; double sT = std::max(sT1, sT2);
        if (structT || sT > condX) { inconclusive++; continue; }                      // translated family is itself ill-conditioned
        // both families are tight: the gap between them is systematic
        double gap = std::min({compare(ref, t1, x), compare(ref, t2, x), compare(r1, tr, x), compare(r2, tr, x)});
        bool structural = d < 0 && compare(ref, t1, x) < 0 && compare(r1, tr, x) < 0;
        if (structural) c.viol("translated_run_differs_in_structure:" + kn, "after a translation by " + std::to_string(tmag / L) + " tissue extents the run ends with another cell count / connectivity / exception although the reference and the translated inputs are each stable under 1e-13 noise");
        else if (gap > tolXt || d > tolXt) c.viol("translated_run_differs_in_positions:" + kn, "after a translation by " + std::to_string(tmag / L) + " tissue extents node positions deviate by " + sci(d / L) + " L from the translated reference (noise scatter " + sci(std::max(sR, sT) / L) + " L, smallest distance between the two families " + sci(gap / L) + " L, tolerance " + sci(tolXt / L) + " L)");
        else if (dvp > tolVp) c.viol("translated_run_differs_in_volume_or_pressure:" + kn, "after a translation by " + std::to_string(tmag / L) + " tissue extents volume or pressure deviates by " + sci(dvp) + " relative (tolerance " + sci(tolVp) + ")");
        else inconclusive++;
    }
    c.nontrivial = ref.exc.empty() && ref.iters >= 10 && compared > 0; c.sig = hash_combine(hash_combine(hash_str(s.family), (uint64_t)ref.iters), hash_double(ref.cells.empty() ? 0.0 : ref.cells[0].V));
    c.obs.i("final_states_compared", final_compared).i("first_divisions_compared", div_compared).d("max_division_deviation_over_tolerance", maxdivdev).i("translations_compared", compared).i("translations_inconclusive", inconclusive).d("max_position_deviation_over_tolerance", maxdev).d("max_volume_pressure_deviation_over_tolerance", maxvp).d("largest_volume_tolerance", agg_tol).s("kinds", kinds).b("ill_conditioned", false);
    return c.line();
}

static int cmd_translate(const Args& a) {
    Agg agg; agg.max_samples = 6;
    for (long i = a.first; i < a.first + a.cases; i++) {
        if (!a.mine(i)) continue;
        IsoResult r = run_isolated([&]() { return one_case(a, i); }, a.getd("cpu_limit", 1200), a.getd("cpu_limit", 1200)); agg.evaluations++;
        if (!r.completed) { emit(crash_line(i, r)); agg.bin(r.timeout ? "timeout" : "crash"); continue; }
        const std::string& L = r.line;
        auto num = [&](const std::string& k) -> long { size_t p = L.find("\"" + k + "\":"); if (p == std::string::npos) return 0; return atol(L.c_str() + p + k.size() + 3); };
        auto dbl = [&](const std::string& k) -> double { size_t p = L.find("\"" + k + "\":"); if (p == std::string::npos) return 0; return atof(L.c_str() + p + k.size() + 3); };
        auto str = [&](const std::string& k) -> std::string { size_t p = L.find("\"" + k + "\":\""); if (p == std::string::npos) return ""; size_t s0 = p + k.size() + 4; return L.substr(s0, L.find('"', s0) - s0); };
        agg.bin("family:" + str("family")); agg.bin("translations_compared", num("translations_compared")); agg.bin("translations_inconclusive", num("translations_inconclusive")); agg.bin("iterations", num("iterations")); agg.bin("final_states_compared", num("final_states_compared")); agg.bin("first_divisions_compared", num("first_divisions_compared")); if (num("rounding_decided_contacts_in_reference") > 0) agg.bin("references_with_rounding_decided_contacts"); agg.maxi("max_division_deviation_over_tolerance", dbl("max_division_deviation_over_tolerance"));
        { std::string ks = str("kinds"); size_t p0 = 0; while (p0 < ks.size()) { size_t q = ks.find(',', p0); if (q == std::string::npos) break; agg.bin("translation:" + ks.substr(p0, q - p0)); p0 = q + 1; } }
        if (L.find("\"ill_conditioned\":true") != std::string::npos) { agg.bin("ill_conditioned_references"); agg.skipped++; }
        agg.maxi("max_position_deviation_over_tolerance", dbl("max_position_deviation_over_tolerance")); agg.maxi("max_volume_pressure_deviation_over_tolerance", dbl("max_volume_pressure_deviation_over_tolerance")); agg.maxi("largest_volume_tolerance", dbl("largest_volume_tolerance")); agg.maxi("reference_noise_scatter_over_L", dbl("reference_noise_scatter_over_L"));
        if (L.find("\"nt\":true") != std::string::npos) { agg.nontrivial++; size_t p = L.find("\"sig\":\""); if (p != std::string::npos) agg.sigs[strtoull(L.substr(p + 7, 16).c_str(), nullptr, 16)] = 1; }
        if (L.find("\"v\":\"viol\"") != std::string::npos) { agg.viol_total++; if (agg.viol_total <= (long)agg.max_viol) emit(L); }
        else if (agg.samples.size() < agg.max_samples && L.find("\"nt\":true") != std::string::npos) agg.samples.push_back(L);
    }
    agg.flush(a.shard_i);
    return 0;
}
static Reg r_tr("translate", cmd_translate);

}  // namespace
