// C14 — results do not depend on where the tissue is placed.  Twin runs of a monitored solver on a tissue and on its translated copy;
// to stay sound for a chaotic system every comparison is backed by noise twins (inputs perturbed by 1e-13 relative): a difference counts
// only when it separates the translated family from the reference family while both families agree within themselves.
#include "vh.hpp"
#include "tissue.hpp"
#include "verif_hooks.hpp"
#include <mutex>
#include <unistd.h>

using namespace vh;
using orc::V3; using orc::R;

namespace {

static uint64_t g_rng_base = 0; static std::mutex g_mu; static std::map<std::pair<int, uint64_t>, uint64_t> g_ctr;
static uint64_t rng_seed(int site, uint64_t ctx) { std::lock_guard<std::mutex> lk(g_mu); uint64_t k = g_ctr[{site, ctx}]++; return hash_combine(hash_combine(g_rng_base, (uint64_t)site), hash_combine(ctx, k)); }

static double g_limit = 1e300;
static void on_phase(int tag, const std::vector<cell_ptr>* lp) { if (tag == 8 && tis::blown_up(*lp, g_limit)) throw tis::unstable_run(); }
struct CellState { std::vector<std::array<double, 3>> X; std::vector<char> used; std::vector<std::array<unsigned, 3>> T; double V = 0, p = 0, Vt = 0, K = 0; unsigned id = 0; };
struct State { std::vector<CellState> cells; long iters = 0; std::string exc; };

static State run(const tis::Scenario& s0, const std::array<double, 3>& t, uint64_t noise_seed, double noise_rel, uint64_t rng_base, const std::string& out) {
    tis::Scenario s = s0; s.P.output_folder_path_ = out; State st;
    Rng ng(noise_seed, 0, 0x14);
    for (auto& c : s.cells) for (auto& p : c.mesh.P) for (int d = 0; d < 3; d++) { double x = p[d]; if (noise_rel > 0) x *= (1.0 + noise_rel * ng.uni(-1, 1)); p[d] = x + t[d]; }
    { std::lock_guard<std::mutex> lk(g_mu); g_rng_base = rng_base; g_ctr.clear(); } verif::rng_context() = 0;
    try {
        std::vector<cell_ptr> cells = tis::build_cells(s);
        tis::msolver sv(s.P, cells, 1, true, false);
        while (!sv.finished()) { sv.run_iteration(); st.iters++;
            if (getenv("VH_TRACE")) { for (auto& cp : sv.cells()) { double mx = 0; for (const node& n : cell_tester::nodes(*cp)) if (n.is_used()) mx = std::max({mx, std::fabs(n.pos().dx()), std::fabs(n.pos().dy()), std::fabs(n.pos().dz())}); fprintf(stderr, "it %ld cell %u type %s faces %zu V %.3e Vt %.3e p %.3e maxcoord %.3e\n", st.iters, cp->get_id(), cp->get_cell_type()->name_.c_str(), cp->get_nb_of_faces(), cp->get_volume(), cp->get_target_volume(), cp->get_pressure(), mx); } } }
        for (auto& cp : sv.cells()) { CellState cs; cs.V = cp->get_volume(); cs.p = cp->get_pressure(); cs.Vt = cp->get_target_volume(); cs.id = cp->get_id(); cs.K = cp->get_cell_type()->bulk_modulus_;
            for (const node& n : cell_tester::nodes(*cp)) { cs.X.push_back({n.pos().dx() - t[0], n.pos().dy() - t[1], n.pos().dz() - t[2]}); cs.used.push_back(n.is_used()); }
            for (const face& f : cell_tester::faces(*cp)) if (f.is_used()) cs.T.push_back({cell_tester::n1(f), cell_tester::n2(f), cell_tester::n3(f)});
            st.cells.push_back(cs); }
    } catch (const std::exception& e) { st.exc = e.what(); }
    catch (const tis::unstable_run&) { st.exc = "unstable: coordinates exploded"; }
    std::error_code ec; std::filesystem::remove_all(out, ec); return st;
}

// returns: -1 structure differs (cell count, connectivity, exception); otherwise max position deviation; also relative V/p deviation
static double compare(const State& a, const State& b, double& relVp) {
    relVp = 0; if (a.exc.empty() != b.exc.empty()) return -1; if (a.cells.size() != b.cells.size() || a.iters != b.iters) return -1; double dev = 0;
    for (size_t k = 0; k < a.cells.size(); k++) { const CellState &x = a.cells[k], &y = b.cells[k]; if (x.used != y.used || x.T != y.T) return -1;
        for (size_t i = 0; i < x.X.size(); i++) if (x.used[i]) for (int d = 0; d < 3; d++) dev = std::max(dev, std::fabs(x.X[i][d] - y.X[i][d]));
        if (x.V != 0) relVp = std::max(relVp, std::fabs(x.V - y.V) / std::fabs(x.V));
        // p = -K ln(V/Vt): an error dV/V in the volume is an absolute error K dV/V in the pressure, so the pressure is compared on the scale max(|p|, K)
        double ps = std::max({std::fabs(x.p), std::fabs(y.p), std::fabs(x.K)}); if (ps > 0) relVp = std::max(relVp, std::fabs(x.p - y.p) / ps); }
    return dev;
}

static std::string one_case(const Args& a, long i) {
    Rng g(a.seed, (uint64_t)i, 0x14); Case c(i); verif::get().rng_seed = rng_seed; verif::get().phase = on_phase;
    int iters = g.range((int)a.geti("min_iterations", 20), (int)a.geti("max_iterations", 40));
    int what = (int)(i % 7); tis::Scenario s = tis::make_scenario(g, what, iters, false);
    // tissue extent and voxel size of the contact grid
    double lo[3] = {1e300, 1e300, 1e300}, hi[3] = {-1e300, -1e300, -1e300}; for (auto& cs : s.cells) for (auto& p : cs.mesh.P) for (int d = 0; d < 3; d++) { lo[d] = std::min(lo[d], p[d]); hi[d] = std::max(hi[d], p[d]); }
    double L = std::max({hi[0] - lo[0], hi[1] - lo[1], hi[2] - lo[2]}); double voxel = 3 * s.P.min_edge_len_ + 2 * std::max(s.P.contact_cutoff_adhesion_, s.P.contact_cutoff_repulsion_);
    uint64_t base = hash_combine(a.seed, (uint64_t)i); std::string out = "tr_out_" + std::to_string(i) + "_" + std::to_string((long)getpid());
    std::array<double, 3> zero = {0, 0, 0};
    g_limit = tis::extent_limit(s) * 100;   // translations reach 32 extents
    State ref = run(s, zero, 0, 0, base, out);
    if (ref.exc.rfind("unstable", 0) == 0) { c.v = "skip"; c.msg = "unstable simulation (coordinates exploded): not a subject of this property"; c.obs.s("family", s.family).b("ill_conditioned", true); return c.line(); }
    // conditioning of the reference: two noise twins
    State r1 = run(s, zero, 1, 1e-13, base, out), r2 = run(s, zero, 2, 1e-13, base, out);
    double vp; double sR = std::max(compare(ref, r1, vp), compare(ref, r2, vp)); bool structR = compare(ref, r1, vp) < 0 || compare(ref, r2, vp) < 0;
    const double tolX = 1e-9 * L, condX = 1e-10 * L;
    c.obs.s("family", s.family).i("iterations", ref.iters).i("cells_end", (long)ref.cells.size()).d("L", L).d("reference_noise_scatter_over_L", sR / L).s("ref_exception", ref.exc.substr(0, 80));
    if (structR || sR > condX) { c.v = "skip"; c.msg = "ill-conditioned reference: noise twins (1e-13 relative) already depart by more than 1e-10 L or change connectivity"; c.obs.b("ill_conditioned", true); return c.line(); }
    int ntr = (int)a.geti("translations", 4); long compared = 0, inconclusive = 0; double maxdev = 0, maxvp = 0, agg_tol = 0; std::string kinds;
    for (int k = 0; k < ntr && c.v != "viol"; k++) {
        int kind = g.range(0, 6); std::array<double, 3> t; std::string kn;
        auto dir = [&]() { std::array<double, 3> d = {g.normal(), g.normal(), g.normal()}; double n = std::sqrt(d[0] * d[0] + d[1] * d[1] + d[2] * d[2]); for (auto& x : d) x /= n; return d; };
        if (kind == 0) { auto d = dir(); double m = g.uni(0.01, 0.9) * voxel; t = {d[0] * m, d[1] * m, d[2] * m}; kn = "sub_voxel"; }
        else if (kind == 1) { t = {voxel * (g.coin() ? 1 : -1), 0, 0}; if (g.coin()) t = {0, voxel, -voxel}; kn = "exactly_one_voxel"; }
        else if (kind == 2) { t = {voxel * g.range(-40, 40), voxel * g.range(-40, 40), voxel * g.range(-40, 40)}; kn = "many_voxels"; }
        else if (kind == 3) { t = {-(lo[0] + hi[0]) / 2 + g.uni(-0.3, 0.3) * L, -(lo[1] + hi[1]) / 2 + g.uni(-0.3, 0.3) * L, -(lo[2] + hi[2]) / 2}; kn = "across_origin"; }
        else if (kind == 4) { auto d = dir(); double m = g.uni(8, 32) * L; t = {d[0] * m, d[1] * m, d[2] * m}; kn = "far_up_to_32_extents"; }
        else if (kind == 5) { t = {std::ldexp(1.0, g.range(-22, -12)) * (g.coin() ? 1 : -1), std::ldexp(1.0, g.range(-22, -12)), 0}; kn = "binary_exact"; }
        else { auto d = dir(); double m = g.uni(1, 8) * L; t = {d[0] * m, d[1] * m, d[2] * m}; kn = "few_extents"; }
        kinds += kn + ",";
        State tr = run(s, t, 0, 0, base, out); double dvp; double d = compare(ref, tr, dvp); compared++;
        const double tmag = std::sqrt(t[0] * t[0] + t[1] * t[1] + t[2] * t[2]);
        // The documented signed-tetrahedron volume is evaluated relative to the origin: at distance D from it a cell of radius r with F
        // faces carries a relative volume error of about 64 eps sqrt(F) (1+D/r)^3 (DESIGN C12).  The pressure inherits it (dp = K dV/V), and
        // the positions inherit at most that relative error of the displacement accumulated over the run (<= L).
        double tolVp = 1e-9; { double Dmax = tmag + std::sqrt(std::max({lo[0] * lo[0], hi[0] * hi[0]}) + std::max({lo[1] * lo[1], hi[1] * hi[1]}) + std::max({lo[2] * lo[2], hi[2] * hi[2]}));
            for (auto& cs : ref.cells) { double r = std::cbrt(3 * std::fabs(cs.V) / (4 * M_PI)); if (r > 0) tolVp = std::max(tolVp, 64 * 2.22e-16 * std::sqrt((double)std::max<size_t>(cs.T.size(), 4)) * std::pow(1 + Dmax / r, 3)); } }
        const double tolXt = std::max(tolX, 10 * tolVp * L);
        agg_tol = std::max(agg_tol, tolVp);
        bool differs = d < 0 || d > tolXt || dvp > tolVp;
        if (!differs) { maxdev = std::max(maxdev, d / tolXt); maxvp = std::max(maxvp, dvp / tolVp); continue; }
        // does the difference separate the two families?  translated noise twins
        State t1 = run(s, t, 1, 1e-13, base, out), t2 = run(s, t, 2, 1e-13, base, out); double x;
        double sT1 = compare(tr, t1, x), sT2 = compare(tr, t2, x); bool structT = sT1 < 0 || sT2 < 0; double sT = std::max(sT1, sT2);
        if (structT || sT > condX) { inconclusive++; continue; }                      // translated family is itself ill-conditioned
        // both families are tight: the gap between them is systematic
        double gap = std::min({compare(ref, t1, x), compare(ref, t2, x), compare(r1, tr, x), compare(r2, tr, x)});
        bool structural = d < 0 && compare(ref, t1, x) < 0 && compare(r1, tr, x) < 0;
        if (structural) c.viol("translated_run_differs_in_structure:" + kn, "after a translation by " + std::to_string(tmag / L) + " tissue extents the run ends with another cell count / connectivity / exception although the reference and the translated inputs are each stable under 1e-13 noise");
        else if (gap > tolXt || d > tolXt) c.viol("translated_run_differs_in_positions:" + kn, "after a translation by " + std::to_string(tmag / L) + " tissue extents node positions deviate by " + std::to_string(d / L) + " L from the translated reference (noise scatter " + std::to_string(std::max(sR, sT) / L) + " L)");
        else if (dvp > tolVp) c.viol("translated_run_differs_in_volume_or_pressure:" + kn, "volume or pressure deviates by " + std::to_string(dvp) + " relative after translation");
        else inconclusive++;
    }
    c.nontrivial = ref.exc.empty() && ref.iters >= 10 && compared > 0; c.sig = hash_combine(hash_combine(hash_str(s.family), (uint64_t)ref.iters), hash_double(ref.cells.empty() ? 0.0 : ref.cells[0].V));
    c.obs.i("translations_compared", compared).i("translations_inconclusive", inconclusive).d("max_position_deviation_over_tolerance", maxdev).d("max_volume_pressure_deviation_over_tolerance", maxvp).d("largest_volume_tolerance", agg_tol).s("kinds", kinds).b("ill_conditioned", false);
    return c.line();
}

static int cmd_translate(const Args& a) {
    Agg agg; agg.max_samples = 6;
    for (long i = a.first; i < a.first + a.cases; i++) {
        if (!a.mine(i)) continue;
        IsoResult r = run_isolated([&]() { return one_case(a, i); }, a.getd("cpu_limit", 1200), a.getd("cpu_limit", 1200)); agg.evaluations++;
        if (!r.completed) { emit(crash_line(i, r)); agg.bin(r.timeout ? "timeout" : "crash"); continue; }
        const std::string& L = r.line;
        auto num = [&](const std::string& k) -> long { size_t p = L.find("\"" + k + "\":"); if (p == std::string::npos) return 0; return atol(L.c_str() + p + k.size() + 3); };
        auto dbl = [&](const std::string& k) -> double { size_t p = L.find("\"" + k + "\":"); if (p == std::string::npos) return 0; return atof(L.c_str() + p + k.size() + 3); };
        auto str = [&](const std::string& k) -> std::string { size_t p = L.find("\"" + k + "\":\""); if (p == std::string::npos) return ""; size_t s0 = p + k.size() + 4; return L.substr(s0, L.find('"', s0) - s0); };
        agg.bin("family:" + str("family")); agg.bin("translations_compared", num("translations_compared")); agg.bin("translations_inconclusive", num("translations_inconclusive")); agg.bin("iterations", num("iterations"));
        { std::string ks = str("kinds"); size_t p0 = 0; while (p0 < ks.size()) { size_t q = ks.find(',', p0); if (q == std::string::npos) break; agg.bin("translation:" + ks.substr(p0, q - p0)); p0 = q + 1; } }
        if (L.find("\"ill_conditioned\":true") != std::string::npos) { agg.bin("ill_conditioned_references"); agg.skipped++; }
        agg.maxi("max_position_deviation_over_tolerance", dbl("max_position_deviation_over_tolerance")); agg.maxi("max_volume_pressure_deviation_over_tolerance", dbl("max_volume_pressure_deviation_over_tolerance")); agg.maxi("largest_volume_tolerance", dbl("largest_volume_tolerance")); agg.maxi("reference_noise_scatter_over_L", dbl("reference_noise_scatter_over_L"));
        if (L.find("\"nt\":true") != std::string::npos) { agg.nontrivial++; size_t p = L.find("\"sig\":\""); if (p != std::string::npos) agg.sigs[strtoull(L.substr(p + 7, 16).c_str(), nullptr, 16)] = 1; }
        if (L.find("\"v\":\"viol\"") != std::string::npos) { agg.viol_total++; if (agg.viol_total <= (long)agg.max_viol) emit(L); }
        else if (agg.samples.size() < agg.max_samples && L.find("\"nt\":true") != std::string::npos) agg.samples.push_back(L);
    }
    agg.flush(a.shard_i);
    return 0;
}
static Reg r_tr("translate", cmd_translate);

}  // namespace
