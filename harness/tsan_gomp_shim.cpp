// ThreadSanitizer does not see libgomp's futex-based synchronisation (fork/join of parallel regions, critical
// sections, omp locks): an unannotated run of a correct OpenMP loop reports false races.  In the tsan flavour this
// file interposes exactly the libgomp entry points the repository's objects reference (`nm -u`), forwards to the
// real symbol (dlsym RTLD_NEXT) and brackets the call with __tsan_release / __tsan_acquire on a per-primitive
// address, which gives TSan the happens-before edges that libgomp really provides.  Probe results (DESIGN.md §1):
// a correct program is silent, a shared RNG in a parallel for and a push_back concurrent with operator[] are reported.
#ifdef VERIF_TSAN
#include <dlfcn.h>
#include <omp.h>
#include <cstdio>
#include <cstdlib>

extern "C" {
void __tsan_acquire(void* addr);
void __tsan_release(void* addr);
}

namespace {
char g_forkjoin_tag, g_critical_tag, g_atomic_tag;
template <class F> F real(const char* name) {
    void* p = dlsym(RTLD_NEXT, name);
    if (!p) { fprintf(stderr, "tsan shim: cannot resolve %s\n", name); abort(); }
    return reinterpret_cast<F>(p);
}
struct Wrap { void (*fn)(void*); void* data; };
void trampoline(void* p) {
    Wrap* w = static_cast<Wrap*>(p);
    __tsan_acquire(&g_forkjoin_tag);      // everything the master did before the fork is visible
    w->fn(w->data);
    __tsan_release(&g_forkjoin_tag);      // everything this worker did is visible after the join
}
}  // namespace

extern "C" {

void GOMP_parallel(void (*fn)(void*), void* data, unsigned num_threads, unsigned flags) {
    static auto f = real<void (*)(void (*)(void*), void*, unsigned, unsigned)>("GOMP_parallel");
    Wrap w{fn, data};
    __tsan_release(&g_forkjoin_tag);
    f(trampoline, &w, num_threads, flags);
    __tsan_acquire(&g_forkjoin_tag);
}
void GOMP_parallel_sections(void (*fn)(void*), void* data, unsigned num_threads, unsigned count, unsigned flags) {
    static auto f = real<void (*)(void (*)(void*), void*, unsigned, unsigned, unsigned)>("GOMP_parallel_sections");
    Wrap w{fn, data};
    __tsan_release(&g_forkjoin_tag);
    f(trampoline, &w, num_threads, count, flags);
    __tsan_acquire(&g_forkjoin_tag);
}
void GOMP_critical_start(void) {
    static auto f = real<void (*)(void)>("GOMP_critical_start");
    f(); __tsan_acquire(&g_critical_tag);
}
void GOMP_critical_end(void) {
    static auto f = real<void (*)(void)>("GOMP_critical_end");
    __tsan_release(&g_critical_tag); f();
}
void GOMP_atomic_start(void) {
    static auto f = real<void (*)(void)>("GOMP_atomic_start");
    f(); __tsan_acquire(&g_atomic_tag);
}
void GOMP_atomic_end(void) {
    static auto f = real<void (*)(void)>("GOMP_atomic_end");
    __tsan_release(&g_atomic_tag); f();
}
void GOMP_barrier(void) {
    static auto f = real<void (*)(void)>("GOMP_barrier");
    __tsan_release(&g_forkjoin_tag); f(); __tsan_acquire(&g_forkjoin_tag);
}
void omp_set_lock(omp_lock_t* l) {
    static auto f = real<void (*)(omp_lock_t*)>("omp_set_lock");
    f(l); __tsan_acquire(l);
}
void omp_unset_lock(omp_lock_t* l) {
    static auto f = real<void (*)(omp_lock_t*)>("omp_unset_lock");
    __tsan_release(l); f(l);
}
}
#endif
