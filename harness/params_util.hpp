// C18 helpers: an own model of the XML parameter file (tag tables, value generator, number formatter,
// own number parser, own XML emitter).  Nothing here uses the repository's reader or tinyxml2.
#pragma once
#include "vh.hpp"
#include <charconv>
#include <cctype>
#include <set>
#include <algorithm>

namespace pu {

using vh::Rng;

enum Kind { K_STR, K_DBL, K_INT, K_BOOL };
enum Cons { C_NONE, C_POS /* > 0 */, C_NONNEG /* >= 0 */ };
struct TagSpec { const char* tag; Kind kind; Cons cons; bool inf_ok; bool neg_ok; };

// the 11 numerical, 14+1 cell-type and 6 face-type tags read by parameter_reader (doc/parameter_file_doc.md + sample files);
// constraints are the ones the reader states in its own diagnostics
static const std::vector<TagSpec> NUM_TAGS = {
    {"input_mesh_file_path", K_STR, C_NONE, false, false},
    {"output_mesh_folder_path", K_STR, C_NONE, false, false},
    {"damping_coefficient", K_DBL, C_NONNEG, false, false},
    {"perform_initial_triangulation", K_BOOL, C_NONE, false, false},
    {"simulation_duration", K_DBL, C_POS, false, false},
    {"time_step", K_DBL, C_POS, false, false},
    {"sampling_period", K_DBL, C_POS, false, false},
    {"min_edge_length", K_DBL, C_POS, false, false},
    {"contact_cutoff_adhesion", K_DBL, C_POS, false, false},
    {"contact_cutoff_repulsion", K_DBL, C_POS, false, false},
    {"enable_edge_swap_operation", K_BOOL, C_NONE, false, false},
};
static const std::vector<TagSpec> CELL_TAGS = {
    {"cell_type_name", K_STR, C_NONE, false, false},
    {"global_cell_id", K_INT, C_NONE, false, false},
    {"cell_mass_density", K_DBL, C_NONE, false, false},
    {"cell_bulk_modulus", K_DBL, C_NONE, false, false},
    {"max_inner_pressure", K_DBL, C_NONE, true, false},
    {"area_elasticity_modulus", K_DBL, C_NONE, false, false},
    {"avg_division_volume", K_DBL, C_NONE, true, false},
    {"std_division_volume", K_DBL, C_NONE, false, false},
    {"avg_growth_rate", K_DBL, C_NONE, false, true},
    {"std_growth_rate", K_DBL, C_NONE, false, false},
    {"target_isoperimetric_ratio", K_DBL, C_POS, false, false},
    {"angle_regularization_factor", K_DBL, C_NONE, false, false},
    {"min_vol", K_DBL, C_NONE, false, false},
    {"surface_coupling_max_curvature", K_DBL, C_NONNEG, false, false},
};
static const std::vector<TagSpec> FACE_TAGS = {
    {"face_type_name", K_STR, C_NONE, false, false},
    {"global_face_id", K_INT, C_NONNEG, false, false},
    {"surface_tension", K_DBL, C_NONNEG, false, false},
    {"adherence_strength", K_DBL, C_NONNEG, false, false},
    {"repulsion_strength", K_DBL, C_NONNEG, false, false},
    {"bending_modulus", K_DBL, C_NONNEG, false, false},
};

struct Field {
    std::string tag; Kind kind = K_DBL;
    std::string text;    // exactly what is written between <tag> and </tag> (already XML-escaped)
    std::string sval;    // expected string value (K_STR)
    double dval = 0;     // expected double = own parse of text (K_DBL)
    long ival = 0;       // expected integer (K_INT) / 0-1 (K_BOOL)
    std::string style;   // how the text was produced (evidence)
    bool present = true;
};
struct CellT { std::vector<Field> f; std::vector<std::vector<Field>> faces; bool face_types_present = true; };
struct Doc { std::vector<Field> num; std::vector<CellT> cells; bool num_present = true, cells_present = true; };

inline Field& fld(std::vector<Field>& v, const std::string& tag) { for (auto& f : v) if (f.tag == tag) return f; fprintf(stderr, "C18 harness: no tag %s\n", tag.c_str()); abort(); }
inline const Field& fld(const std::vector<Field>& v, const std::string& tag) { for (auto& f : v) if (f.tag == tag) return f; fprintf(stderr, "C18 harness: no tag %s\n", tag.c_str()); abort(); }

// ---- own number parser: optional surrounding white space, optional sign, "inf" in any case, else std::from_chars -----------
inline bool own_parse_double(const std::string& text, double& out) {
    size_t b = 0, e = text.size();
    while (b < e && std::isspace((unsigned char)text[b])) b++;
    while (e > b && std::isspace((unsigned char)text[e - 1])) e--;
    if (b == e) return false;
    std::string s = text.substr(b, e - b); bool neg = false; size_t k = 0;
    if (s[0] == '+') k = 1; else if (s[0] == '-') { neg = true; k = 1; }
    std::string low; for (size_t i = k; i < s.size(); i++) low += (char)std::tolower((unsigned char)s[i]);
    if (low == "inf") { out = neg ? -INFINITY : INFINITY; return true; }
    double v = 0; const char* first = s.data() + k; const char* last = s.data() + s.size();
    auto r = std::from_chars(first, last, v, std::chars_format::general);
    if (r.ec != std::errc() || r.ptr != last) return false;
    out = neg ? -v : v; return true;
}
inline bool same_bits(double a, double b) { return std::memcmp(&a, &b, sizeof a) == 0; }

// ---- number formatting --------------------------------------------------------------------------------------------
inline std::string insert_after_sign(const std::string& s, const std::string& ins) { size_t k = (!s.empty() && (s[0] == '+' || s[0] == '-')) ? 1 : 0; return s.substr(0, k) + ins + s.substr(k); }

// exact_only: restrict to styles that print all 17 significant digits (the file then says exactly v)
inline std::string fmt_number(Rng& g, double v, std::string& style, bool exact_only = false) {
    char b[96];
    if (v == 0) { static const char* Z[] = {"0", "0.0", "0e0", "0.", "0.000", "0E+00"}; style = "zero"; std::string z = Z[g.range(0, 5)]; if (std::signbit(v)) z = "-" + z; return z; }
    if (exact_only) {
        switch (g.range(0, 3)) {
            case 0: snprintf(b, sizeof b, "%.17g", v); style = "g17"; return b;
            case 1: snprintf(b, sizeof b, "%+.17g", v); style = "plus_g17"; return b;
            case 2: snprintf(b, sizeof b, "%.17G", v); style = "G17"; return b;
            default: snprintf(b, sizeof b, "%.16e", v); style = "e16"; return b;
        }
    }
    double av = std::fabs(v);
    switch (g.range(0, 12)) {
        case 0: case 1: snprintf(b, sizeof b, "%.17g", v); style = "g17"; return b;
        case 2: snprintf(b, sizeof b, "%e", v); style = "e"; return b;
        case 3: snprintf(b, sizeof b, "%E", v); style = "E"; return b;
        case 4: snprintf(b, sizeof b, "%+.17g", v); style = "plus_g17"; return b;
        case 5: snprintf(b, sizeof b, "%.3g", v); style = "g3"; return b;
        case 6: snprintf(b, sizeof b, "%.10G", v); style = "G10"; return b;
        case 7: if (av >= 1e-3 && av < 1e9) { snprintf(b, sizeof b, "%.6f", v); style = "fixed"; } else { snprintf(b, sizeof b, "%.1e", v); style = "e1"; } return b;
        case 8: if (av >= 1 && av < 1e15) { snprintf(b, sizeof b, "%.0f", v); style = "int"; } else { snprintf(b, sizeof b, "%.2E", v); style = "E2"; } return b;
        case 9: { snprintf(b, sizeof b, "%.5e", v); std::string s = b; size_t p = s.find('e'); std::string ex = s.substr(p + 2);
                  style = "e_pad"; return s.substr(0, p) + (g.coin() ? "e" : "E") + s[p + 1] + "0" + ex; }
        case 10: { int ex = (int)std::floor(std::log10(av)); double m = v / std::pow(10.0, ex); if (!(std::fabs(m) >= 0.5 && std::fabs(m) < 20)) { snprintf(b, sizeof b, "%.17g", v); style = "g17"; return b; }
                   snprintf(b, sizeof b, "%.0f.%s%d", m, g.coin() ? "e" : "E", ex); style = "dot_e"; return b; }
        case 11: if (av < 1 && av >= 1e-4) { snprintf(b, sizeof b, "%.8f", av); std::string s = b; s = s.substr(1); if (v < 0) s = "-" + s; style = "leading_dot"; return s; }
                 snprintf(b, sizeof b, "%.17g", v); style = "leading_zeros"; return insert_after_sign(b, "00");
        default: snprintf(b, sizeof b, "%+e", v); style = "plus_e"; return b;
    }
}
inline std::string wrap_ws(Rng& g, const std::string& s, std::string& style, double p = 0.3) {
    static const char* W[] = {" ", "  ", "\t", "\n        ", " \t "};
    std::string o = s; bool w = false;
    if (g.coin(p)) { o = std::string(W[g.range(0, 4)]) + o; w = true; }
    if (g.coin(p)) { o = o + W[g.range(0, 4)]; w = true; }
    if (w) style += "+ws";
    return o;
}
inline void set_double(Field& f, Rng& g, double v, bool exact_only = false, bool ws = true) {
    for (int attempt = 0; attempt < 4; attempt++) {
        std::string st; std::string t = fmt_number(g, v, st, exact_only || attempt == 3); if (ws) t = wrap_ws(g, t, st);
        double d; if (!own_parse_double(t, d)) continue;
        // the formatted text must still satisfy what was intended: same sign, finite, normal
        if ((v > 0) != (d > 0) || (v < 0) != (d < 0) || !std::isfinite(d) || (d != 0 && std::fabs(d) < 1e-305)) continue;
        f.text = t; f.style = st; f.dval = d; return;
    }
    char b[64]; snprintf(b, sizeof b, "%.17g", v); f.text = b; f.style = "g17"; own_parse_double(f.text, f.dval);
}
inline void set_inf(Field& f, Rng& g) {
    static const char* FORMS[] = {"INF", "inf", "Inf", "iNf", "inF", "InF"};
    int k = g.coin(0.8) ? g.range(0, 2) : g.range(3, 5);
    std::string st = std::string("inf:") + (k <= 2 ? FORMS[k] : "mixed"); f.text = wrap_ws(g, FORMS[k], st, 0.12); f.style = st; f.dval = INFINITY;
}
inline void set_int(Field& f, Rng& g, long v) {
    char b[32]; std::string st = "d";
    switch (g.range(0, 5)) { case 0: if (v >= 0) { snprintf(b, sizeof b, "+%ld", v); st = "plus_d"; break; } /* fallthrough */
        case 1: if (v >= 0) { snprintf(b, sizeof b, "0%ld", v); st = "zero_d"; break; } /* fallthrough */
        default: snprintf(b, sizeof b, "%ld", v); }
    f.text = wrap_ws(g, b, st, 0.2); f.style = st; f.ival = v;
}
inline std::string xml_escape(const std::string& s) { std::string o; for (char c : s) { if (c == '&') o += "&amp;"; else if (c == '<') o += "&lt;"; else if (c == '>') o += "&gt;"; else o += c; } return o; }
inline void set_str(Field& f, const std::string& v) { f.sval = v; f.text = xml_escape(v); f.style = (f.text != v) ? "str_escaped" : "str"; }

inline double gen_magnitude(Rng& g) {
    double u = g.uni();
    if (u < 0.06) { static const double Rr[] = {1, 10, 100, 1000, 2500, 0.5, 0.25, 150, 1e6, 1e-6}; return Rr[g.range(0, 9)]; }
    if (u < 0.66) return g.logu(1e-12, 1e12);
    if (u < 0.90) return g.logu(1e-30, 1e30);
    return g.logu(1e-300, 1e300);
}
inline std::string gen_name(Rng& g, bool path) {
    static const char* NAMES[] = {"epithelial", "ecm", "lumen", "nucleus", "static_cell", "apical", "lateral", "basal", "ecm_face", "type", "membrane", "T"};
    static const char* PATHS[] = {"/data/input_meshes/big_sphere.vtk", "./simulation_results", "../simulation_results/dynamic_simulation", "data/input_meshes/2_cubes.vtk", "/tmp/out dir/run", "C:\\sim\\out", "/a/b/c.d/e_f-g"};
    std::string s = path ? PATHS[g.range(0, 6)] : NAMES[g.range(0, 11)];
    if (g.coin(0.5)) s += "_" + std::to_string(g.range(0, 9999));
    if (g.coin(0.12)) s += " with space";
    if (g.coin(0.08)) s += "&co";
    if (g.coin(0.05)) s += "<1>";
    if (g.coin(0.05)) s += "\xc3\xa9\xc3\xbc";     // UTF-8 letters
    if (g.coin(0.05)) s += "'q\"";
    return s;
}

inline void gen_field(Field& f, const TagSpec& ts, Rng& g, bool path = false) {
    f.tag = ts.tag; f.kind = ts.kind; f.present = true;
    if (ts.kind == K_STR) { set_str(f, gen_name(g, path)); return; }
    if (ts.kind == K_BOOL) { set_int(f, g, g.coin() ? 1 : 0); return; }
    if (ts.kind == K_INT) { set_int(f, g, g.coin(0.8) ? g.range(0, 9) : g.range(0, 32767)); return; }
    if (ts.inf_ok && g.coin(0.3)) { set_inf(f, g); return; }
    if (ts.cons != C_POS && g.coin(0.12)) { set_double(f, g, (ts.cons == C_NONE || ts.cons == C_NONNEG) && g.coin(0.1) ? -0.0 : 0.0); return; }
    double v = gen_magnitude(g); if (ts.neg_ok && g.coin(0.35)) v = -v;
    set_double(f, g, v);
}

// sampling_period >= time_step must hold on the values the file actually states
inline void fix_sampling(std::vector<Field>& num, Rng& g) {
    Field& dt = fld(num, "time_step"); Field& S = fld(num, "sampling_period");
    if (g.coin(0.15)) { S.text = dt.text; S.dval = dt.dval; S.style = dt.style + "=dt"; return; }
    double target = dt.dval * g.logu(1.0, 1e6); if (!(target < 1e300)) target = dt.dval;
    set_double(S, g, target);
    if (!(S.dval >= dt.dval)) { S.text = dt.text; S.dval = dt.dval; S.style = dt.style + "=dt"; }
}

inline Doc gen_doc(Rng& g, int min_cells = 1, int max_cells = 6, int min_faces = 1, int max_faces = 5) {
    Doc d;
    for (auto& ts : NUM_TAGS) { Field f; gen_field(f, ts, g, true); d.num.push_back(f); }
    fix_sampling(d.num, g);
    int nc = g.range(min_cells, max_cells); long face_counter = 0; bool seq_ids = g.coin(0.7);
    for (int c = 0; c < nc; c++) {
        CellT ct; for (auto& ts : CELL_TAGS) { Field f; gen_field(f, ts, g); ct.f.push_back(f); }
        if (seq_ids) set_int(fld(ct.f, "global_cell_id"), g, c);
        int nf = g.range(min_faces, max_faces);
        for (int k = 0; k < nf; k++) { std::vector<Field> ff; for (auto& ts : FACE_TAGS) { Field f; gen_field(f, ts, g); ff.push_back(f); } if (seq_ids) set_int(fld(ff, "global_face_id"), g, face_counter++); ct.faces.push_back(ff); }
        d.cells.push_back(ct);
    }
    return d;
}

// ---- own XML emitter ----------------------------------------------------------------------------------------------
struct EmitStats { int extras = 0, decoys = 0, comments = 0, shuffled_sections = 0, attrs = 0; bool crlf = false, decl = false, sections_swapped = false; };

struct Emitter {
    Rng& g; EmitStats st; std::string eol = "\n"; std::string unit = "    "; double p_extra = 0.15, p_comment = 0.2, p_shuffle = 0.8, p_decoy = 0.04;
    explicit Emitter(Rng& gg) : g(gg) {
        if (g.coin(0.15)) { eol = "\r\n"; st.crlf = true; }
        int u = g.range(0, 3); unit = u == 0 ? "  " : u == 1 ? "    " : u == 2 ? "\t" : "";
        if (g.coin(0.25)) { p_extra = 0; p_decoy = 0; } if (g.coin(0.25)) p_comment = 0; if (g.coin(0.15)) p_shuffle = 0;
    }
    std::string ind(int n) const { std::string s; for (int i = 0; i < n; i++) s += unit; return s; }
    std::string field(const Field& f, int n) {
        std::string attr; if (g.coin(0.04)) { attr = " unit=\"x\""; st.attrs++; }
        return ind(n) + "<" + f.tag + attr + ">" + f.text + "</" + f.tag + ">" + (g.coin(0.3) ? " " : "") + eol;
    }
    std::string comment(int n) {
        static const char* C[] = {"The damping coefficients [M / T]", "time_step 1e-7", "<time_step>5</time_step>", "Set to INF to have no pressure limit", "x", "face_types"};
        st.comments++; return ind(n) + "<!-- " + C[g.range(0, 5)] + (g.coin() ? " <! -->" : " -->") + eol;
    }
    // an element the reader does not know at this level; `known` = names that would be read at this level
    std::string extra(int n, const std::set<std::string>& known, const std::vector<std::string>& decoy_names) {
        static const char* X[] = {"INMForce", "note", "cell_cycle_duration", "my_extra_parameter", "comment", "polarization", "version", "x"};
        std::string name; bool decoy = false;
        if (!decoy_names.empty() && g.coin(p_decoy / (p_decoy + p_extra + 1e-12))) { name = decoy_names[g.u64() % decoy_names.size()]; decoy = true; }
        else name = std::string(X[g.range(0, 7)]) + (g.coin(0.3) ? std::to_string(g.range(0, 99)) : "");
        if (known.count(name)) return "";
        if (decoy) st.decoys++; else st.extras++;
        switch (g.range(0, 4)) {
            case 0: return ind(n) + "<" + name + "/>" + eol;
            case 1: return ind(n) + "<" + name + "></" + name + ">" + eol;
            case 2: return ind(n) + "<" + name + ">" + eol + ind(n + 1) + "<time_step>123</time_step>" + eol + ind(n + 1) + "<surface_tension>-5</surface_tension>" + eol + ind(n) + "</" + name + ">" + eol;
            case 3: return ind(n) + "<" + name + ">some text</" + name + ">" + eol;
            default: { char b[48]; snprintf(b, sizeof b, "%g", -gen_magnitude(g)); return ind(n) + "<" + name + ">" + b + "</" + name + ">" + eol; }
        }
    }
    // assemble a section body from chunks: optional shuffle, then comments/extras in between
    std::string body(std::vector<std::string> chunks, bool may_shuffle, int n, const std::set<std::string>& known, const std::vector<std::string>& decoys) {
        if (may_shuffle && g.coin(p_shuffle)) { for (size_t i = chunks.size(); i > 1; i--) std::swap(chunks[i - 1], chunks[g.u64() % i]); st.shuffled_sections++; }
        std::string o;
        for (size_t i = 0; i <= chunks.size(); i++) {
            if (g.coin(p_comment)) o += comment(n);
            if (g.coin(p_extra + p_decoy)) o += extra(n, known, decoys);
            if (g.coin(0.15)) o += eol;
            if (i < chunks.size()) o += chunks[i];
        }
        return o;
    }
    static std::set<std::string> names(const std::vector<TagSpec>& t) { std::set<std::string> s; for (auto& x : t) s.insert(x.tag); return s; }

    std::string emit(const Doc& d) {
        std::set<std::string> kn_num = names(NUM_TAGS), kn_cell = names(CELL_TAGS), kn_face = names(FACE_TAGS); kn_cell.insert("face_types");
        std::vector<std::string> dec_num = {"cell_type", "cell_type_name", "surface_tension", "face_types", "cell_mass_density"};
        std::vector<std::string> dec_cell = {"time_step", "surface_tension", "face_type", "bending_modulus", "global_face_id", "face_type_name", "sampling_period", "cell_type"};
        std::vector<std::string> dec_face = {"cell_type_name", "time_step", "cell_mass_density", "face_types", "global_cell_id", "min_vol"};
        std::vector<std::string> dec_root_ct = {"face_type", "cell_type_name", "time_step"}, dec_root_ft = {"cell_type", "face_type_name", "surface_tension"};
        std::vector<std::string> top;
        if (d.num_present) {
            std::vector<std::string> ch; for (auto& f : d.num) if (f.present) ch.push_back(field(f, 1));
            top.push_back("<numerical_parameters>" + eol + body(ch, true, 1, kn_num, dec_num) + "</numerical_parameters>" + eol);
        }
        if (d.cells_present) {
            std::vector<std::string> cts;
            for (auto& ct : d.cells) {
                std::vector<std::string> ch; for (auto& f : ct.f) if (f.present) ch.push_back(field(f, 2));
                if (ct.face_types_present) {
                    std::vector<std::string> fts;
                    for (auto& ff : ct.faces) { std::vector<std::string> fc; for (auto& f : ff) if (f.present) fc.push_back(field(f, 4)); fts.push_back(ind(3) + "<face_type>" + eol + body(fc, true, 4, kn_face, dec_face) + ind(3) + "</face_type>" + eol); }
                    ch.push_back(ind(2) + "<face_types>" + eol + body(fts, false, 3, {"face_type"}, dec_root_ft) + ind(2) + "</face_types>" + eol);
                }
                cts.push_back(ind(1) + "<cell_type>" + eol + body(ch, true, 2, kn_cell, dec_cell) + ind(1) + "</cell_type>" + eol);
            }
            top.push_back("<cell_types>" + eol + body(cts, false, 1, {"cell_type"}, dec_root_ct) + "</cell_types>" + eol);
        }
        if (top.size() == 2 && g.coin(0.3)) { std::swap(top[0], top[1]); st.sections_swapped = true; }
        std::string o;
        if (g.coin(0.7)) { o += "<?xml version=\"1.0\"?>" + eol; st.decl = true; }
        if (g.coin(0.3)) o += eol + comment(0) + eol;
        for (size_t i = 0; i < top.size(); i++) { if (g.coin(0.15)) { o += "<other_section>" + eol + ind(1) + "<time_step>77</time_step>" + eol + "</other_section>" + eol; st.extras++; } o += top[i] + eol; }
        if (g.coin(0.1)) { o += "<trailing_section><cell_type><cell_type_name>zz</cell_type_name></cell_type></trailing_section>" + eol; st.extras++; }
        return o;
    }
};

}  // namespace pu
