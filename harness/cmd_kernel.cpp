// C05 — point-to-triangle distance kernel: closest point, barycentric coordinates and squared distance,
// in every Voronoi region of the triangle, at every position relative to the origin, and under joint
// rigid motion.
#include "vh.hpp"
#include "gen.hpp"
#include "oracle.hpp"
#include "contact_model_abstract.hpp"

using namespace vh;
using orc::V3; using orc::R;

static vec3 tv(const V3& v) { return vec3((double)v.x, (double)v.y, (double)v.z); }
static V3 fv(const vec3& v) { return V3(v.dx(), v.dy(), v.dz()); }
static V3 fa(const std::array<double, 3>& a) { return V3(a[0], a[1], a[2]); }

static const char* REG[] = {"interior", "edge_ab", "edge_bc", "edge_ca", "vertex_a", "vertex_b", "vertex_c"};

struct Scene { V3 p, a, b, c; int target_region; double L; double offset_over_L; double aspect; double scale; int dist_class; };

static Scene make_scene(Rng& g) {
    Scene s;
    s.scale = g.logu(1e-7, 1e2);
    // triangle in a local frame: a=(0,0), b=(1,0), c=(x, h): aspect controls h
    s.aspect = g.coin(0.5) ? g.logu(1, 10) : g.logu(10, 1e3);
    double cx = g.uni(-1.5, 2.5), h = 1.0 / s.aspect * g.uni(0.5, 1.5) * 1.0;
    V3 a(0, 0, 0), b(1, 0, 0), c(cx, h, 0);
    int perm = g.range(0, 5); V3 t[3] = {a, b, c}; int P[6][3] = {{0, 1, 2}, {0, 2, 1}, {1, 0, 2}, {1, 2, 0}, {2, 0, 1}, {2, 1, 0}};
    a = t[P[perm][0]]; b = t[P[perm][1]]; c = t[P[perm][2]];
    // target region and query point in the local frame
    s.target_region = g.range(0, 6);
    V3 n(0, 0, 1); V3 v[3] = {a, b, c};
    V3 ctr = (a + b + c) / 3;
    // distance classes: 0 on the triangle / boundary, 1 tiny, 2 comparable, 3 far, 4 far field
    // (4: the far field, 1e3 .. 1e5 edge lengths away, still straight above the interior of the face or of an edge - or beyond a corner)
    s.dist_class = g.range(0, 4);
    double dist = s.dist_class == 0 ? 0.0 : s.dist_class == 1 ? g.logu(1e-9, 1e-4) : s.dist_class == 2 ? g.logu(1e-2, 2) : s.dist_class == 3 ? g.logu(2, 50) : g.logu(1e3, 1e5);
    V3 q, dir;
    if (s.target_region == 0) {
        double u = g.uni(0.02, 1), w = g.uni(0.02, 1), x = g.uni(0.02, 1); double sm = u + w + x; u /= sm; w /= sm; x /= sm;
        if (g.coin(0.1)) { u = 0; double s2 = w + x; w /= s2; x /= s2; }   // on a region boundary
        q = a * u + b * w + c * x; dir = n * (g.coin() ? 1.0 : -1.0);
    } else if (s.target_region <= 3) {
        int e = s.target_region - 1; V3 e0 = v[e], e1 = v[(e + 1) % 3], opp = v[(e + 2) % 3];
        double tt = g.coin(0.1) ? (g.coin() ? 0.0 : 1.0) : g.uni(0.02, 0.98);
        q = e0 + (e1 - e0) * tt; V3 ed = e1 - e0; V3 out = (opp - e0) - ed * ((opp - e0).dot(ed) / ed.n2()); out = out * (-1 / out.norm());
        double al = g.uni(0, 1), be = g.uni(-1, 1); if (g.coin(0.1)) al = 0;   // al=0: boundary with the interior region
        dir = out * al + n * be; if (dir.norm() == 0) dir = out; dir = dir / dir.norm();
    } else {
        int k = s.target_region - 4; V3 vk = v[k], e1 = v[(k + 1) % 3] - vk, e2 = v[(k + 2) % 3] - vk; q = vk;
        bool found = false;
        for (int tr = 0; tr < 40 && !found; tr++) { V3 d(g.normal(), g.normal(), g.normal()); if (d.dot(e1) <= 0 && d.dot(e2) <= 0 && d.norm() > 0) { dir = d / d.norm(); found = true; } }
        if (!found) { dir = (e1 / e1.norm() + e2 / e2.norm()) * -1; if (dir.norm() == 0) dir = n; dir = dir / dir.norm(); }
    }
    V3 p = q + dir * dist;
    // embed: scale, rotate, translate (offset relative to the triangle diameter)
    gen::Rot rot = gen::rot_random(g);
    double diam = (double)std::max({(a - b).norm(), (b - c).norm(), (c - a).norm()});
    s.offset_over_L = g.coin(0.3) ? 0.0 : g.logu(1e-2, 1e3);
    V3 off(g.normal(), g.normal(), g.normal()); off = off / off.norm() * (s.offset_over_L * diam * s.scale);
    auto emb = [&](const V3& x) -> V3 { auto r = gen::rapply(rot, {(double)(x.x * s.scale), (double)(x.y * s.scale), (double)(x.z * s.scale)}); // round to double here: inputs are doubles
        return V3((double)(r[0] + (double)off.x), (double)(r[1] + (double)off.y), (double)(r[2] + (double)off.z)); };
    s.p = emb(p); s.a = emb(a); s.b = emb(b); s.c = emb(c);
    s.L = (double)(std::max({(s.a - s.b).norm(), (s.b - s.c).norm(), (s.c - s.a).norm()}) + (s.p - (s.a + s.b + s.c) / 3).norm());
    return s;
}

struct KOut { double d2; V3 bary; V3 q; };
static KOut run_kernel(const V3& p, const V3& a, const V3& b, const V3& c) {
    auto r = contact_model_abstract::compute_node_triangle_distance(tv(p), tv(a), tv(b), tv(c));
    KOut o; o.d2 = r.first; o.bary = fv(r.second); o.q = a * o.bary.x + b * o.bary.y + c * o.bary.z; return o;
}

static int cmd_kernel(const Args& a) {
    Agg agg;
    for (long i = a.first; i < a.first + a.cases; i++) {
        if (!a.mine(i)) continue;
        Rng g(a.seed, (uint64_t)i, 0x05);
        Scene s = make_scene(g);
        Case c(i);
        // non-degenerate triangle required by the statement
        R area2 = (s.b - s.a).cross(s.c - s.a).norm(); R diam = std::max({(s.a - s.b).norm(), (s.b - s.c).norm(), (s.c - s.a).norm()});
        if (!(area2 > 1e-7L * diam * diam)) { c.v = "skip"; agg.add(c); continue; }
        V3 qs; int reg = -1; R d2s = orc::closest_on_triangle(s.p, s.a, s.b, s.c, qs, &reg);
        KOut k = run_kernel(s.p, s.a, s.b, s.c);
        // Forward-error model of any dot-product based evaluation (Ericson): the barycentric coordinates are ratios of
        // differences of products of dot products; their relative error is eps * cond with
        // cond = (D/diam)^2 * (diam^2/|n|)^2, D = largest vertex-to-query distance, |n| = twice the area.
        const R L = s.L; R Dq = std::max({(s.p - s.a).norm(), (s.p - s.b).norm(), (s.p - s.c).norm(), diam});
        const R cond = (Dq / diam) * (Dq / diam) * (diam * diam / area2) * (diam * diam / area2);
        const R tolq = std::max(1e-9L * L, 256 * 2.220446e-16L * cond * diam);
        // squared distance: the kernel may designate a point q' of the triangle within delta of the closest point q and forms it
        // in absolute coordinates (rounding r = 16 eps M, M = largest input magnitude); |p-q'|^2 then differs from |p-q|^2 by at most
        // 2 h (delta + r) + (delta + r)^2 with h = |p-q|; plus a relative 1e-12 for the final sum.  (An evaluation that obtains the
        // distance as a difference of two large squares loses it for h << L and is outside this bound.)
        const R Mabs = std::max({s.p.norm(), s.a.norm(), s.b.norm(), s.c.norm()});
        const R dlt = 256 * 2.220446e-16L * cond * diam + 16 * 2.220446e-16L * Mabs;
        const R told = std::min(1e-9L * std::max(d2s, L * L), 2 * std::sqrt(d2s) * dlt + dlt * dlt + 1e-12L * d2s);
        agg.bin("cond_decade:" + std::to_string((int)std::floor(std::log10((double)cond))));
        std::string rname = reg >= 0 ? REG[reg] : "none";
        c.nontrivial = true;
        c.sig = hash_combine(hash_combine(hash_double((double)s.p.x) ^ hash_double((double)s.a.y), hash_double((double)s.b.z)), hash_double((double)s.c.x));
        agg.bin(std::string("region:") + rname); agg.bin("distclass:" + std::to_string(s.dist_class));
        agg.bin(std::string("side:") + (((s.p - s.a).dot((s.b - s.a).cross(s.c - s.a)) >= 0) ? "pos" : "neg"));
        agg.bin("scale_decade:" + std::to_string((int)std::floor(std::log10(s.scale))));
        agg.bin(s.offset_over_L == 0 ? std::string("offset:0") : "offset_decade:" + std::to_string((int)std::floor(std::log10(s.offset_over_L))));
        agg.bin("aspect_decade:" + std::to_string((int)std::floor(std::log10(s.aspect))));
        // (1) barycentric coordinates
        R bs = k.bary.x + k.bary.y + k.bary.z;
        if (!(k.bary.x >= -1e-12L && k.bary.y >= -1e-12L && k.bary.z >= -1e-12L)) c.viol("bary_negative:" + rname, "negative barycentric coordinate");
        else if (!(std::fabs(bs - 1) <= 1e-12L)) c.viol("bary_sum:" + rname, "barycentric coordinates do not sum to one");
        // (2) closest point
        R dq = (k.q - qs).norm();
        agg.maxi("closest_point_err_over_L", (double)(dq / L)); agg.maxi("closest_point_err_over_tol", (double)(dq / tolq));
        if (!(dq <= tolq)) c.viol("closest_point:" + rname, "designated point is not the closest point of the triangle");
        // (3) squared distance
        R dd = std::fabs((R)k.d2 - d2s);
        agg.maxi("d2_err_over_scale", (double)(dd / std::max(d2s, L * L))); agg.maxi("d2_err_over_tol", (double)(dd / told));
        if (reg == 0 && d2s > 0 && std::sqrt(d2s) < 1e-5L * (s.p - s.a).norm()) agg.bin("interior_h_over_L_below_1e-5");
        if (!(dd <= told)) c.viol("d2:" + rname, "returned squared distance differs from |p-q|^2");
        // (4) joint rigid motion
        {
            gen::Rot rot = gen::rot_random(g); double tl = g.coin(0.3) ? 0.0 : g.logu(1e-2, 1e2) * (double)L;
            V3 t(g.normal(), g.normal(), g.normal()); t = t / t.norm() * tl;
            auto mv = [&](const V3& x) -> V3 { auto r = gen::rapply(rot, {(double)x.x, (double)x.y, (double)x.z}); return V3((double)(r[0] + (double)t.x), (double)(r[1] + (double)t.y), (double)(r[2] + (double)t.z)); };
            V3 p2 = mv(s.p), a2 = mv(s.a), b2 = mv(s.b), c2 = mv(s.c);
            KOut k2 = run_kernel(p2, a2, b2, c2);
            // the moved inputs are rounded to double: judge the moved result against the oracle on the moved inputs
            V3 qs2; R d2s2 = orc::closest_on_triangle(p2, a2, b2, c2, qs2, nullptr);
            R L2 = L + tl;
            if (!((k2.q - qs2).norm() <= std::max(1e-9L * L2, 256 * 2.220446e-16L * cond * diam))) c.viol("moved_closest_point:" + rname, "closest point wrong after joint rigid motion");
            const R Mabs2 = std::max({p2.norm(), a2.norm(), b2.norm(), c2.norm()}); const R dlt2 = 256 * 2.220446e-16L * cond * diam + 16 * 2.220446e-16L * Mabs2;
            const R told2 = std::min(1e-9L * std::max(d2s2, L2 * L2), 2 * std::sqrt(d2s2) * dlt2 + dlt2 * dlt2 + 1e-12L * d2s2);
            agg.maxi("moved_d2_err_over_tol", (double)(std::fabs((R)k2.d2 - d2s2) / told2));
            if (!(std::fabs((R)k2.d2 - d2s2) <= told2)) c.viol("moved_d2:" + rname, "squared distance wrong after joint rigid motion");
            // and the two results must agree with each other up to the rounding of the motion itself
            R mag = std::max({p2.norm(), a2.norm(), s.p.norm(), s.a.norm(), (R)L});
            if (!(std::fabs((R)k2.d2 - (R)k.d2) <= 1e-9L * std::max(d2s, L * L) + 64 * 2.3e-16L * mag * (std::sqrt(d2s) + L))) c.viol("motion_dependence_d2:" + rname, "squared distance changes under joint rigid motion");
        }
        if (c.v == "viol") {
            c.obs.s("region", rname).d("scale", s.scale).d("aspect", s.aspect).d("offset_over_L", s.offset_over_L)
                .raw("p", jv3(s.p.x, s.p.y, s.p.z)).raw("a", jv3(s.a.x, s.a.y, s.a.z))
                .raw("b", jv3(s.b.x, s.b.y, s.b.z)).raw("c", jv3(s.c.x, s.c.y, s.c.z))
                .d("d2_impl", k.d2).d("d2_oracle", (double)d2s).raw("bary_impl", jv3(k.bary.x, k.bary.y, k.bary.z));
        } else if (agg.samples.size() < agg.max_samples) {
            c.obs.s("region", rname).d("scale", s.scale).d("aspect", s.aspect).d("offset_over_L", s.offset_over_L).d("d2_impl", k.d2).d("d2_oracle", (double)d2s)
                .raw("p", jv3(s.p.x, s.p.y, s.p.z)).raw("a", jv3(s.a.x, s.a.y, s.a.z));
        }
        agg.add(c);
    }
    agg.flush(a.shard_i);
    return 0;
}
static Reg r_kernel("kernel", cmd_kernel);

// The kernel is called concurrently by every thread of the contact phase (`#pragma omp parallel for` over the nodes).  kernel_par evaluates
// batches of generated (point, triangle) pairs with a.threads threads at once and compares every result bit for bit with the value the
// same call returned when it ran alone: any state the routine keeps between calls (static scratch, caches) shows up as a difference.
#include <omp.h>
static int cmd_kernel_par(const Args& a) {
    Agg agg;
    const long B = a.geti("batch", 20000);
    for (long i = a.first; i < a.first + a.cases; i++) {
        if (!a.mine(i)) continue;
        Case c(i);
        std::vector<Scene> sc; sc.reserve(B);
        for (long k = 0; k < B; k++) { Rng g(a.seed, (uint64_t)(i * B + k), 0x55); sc.push_back(make_scene(g)); }
        std::vector<std::pair<double, vec3>> ser(B), par(B);
        for (long k = 0; k < B; k++) ser[k] = contact_model_abstract::compute_node_triangle_distance(tv(sc[k].p), tv(sc[k].a), tv(sc[k].b), tv(sc[k].c));
        long mism = 0, first_bad = -1; int rounds = (int)a.geti("rounds", 6);
        omp_set_num_threads(a.threads);
        for (int r = 0; r < rounds; r++) {
            #pragma omp parallel for schedule(static, 1)
            for (long k = 0; k < B; k++) par[k] = contact_model_abstract::compute_node_triangle_distance(tv(sc[k].p), tv(sc[k].a), tv(sc[k].b), tv(sc[k].c));
            for (long k = 0; k < B; k++) if (std::memcmp(&ser[k].first, &par[k].first, sizeof(double)) != 0 || std::memcmp(&ser[k].second, &par[k].second, sizeof(vec3)) != 0) { mism++; if (first_bad < 0) first_bad = k; }
        }
        if (mism) { c.viol("concurrent_kernel_result_differs", std::to_string(mism) + " kernel results obtained while other threads evaluate the kernel differ from the result of the same call made alone");
            const Scene& s = sc[first_bad]; c.obs.raw("p", jv3(s.p.x, s.p.y, s.p.z)).raw("a", jv3(s.a.x, s.a.y, s.a.z)).raw("b", jv3(s.b.x, s.b.y, s.b.z)).raw("c", jv3(s.c.x, s.c.y, s.c.z)).d("d2_alone", ser[first_bad].first).d("d2_concurrent", par[first_bad].first); }
        c.nontrivial = true; c.sig = hash_combine((uint64_t)i, hash_double(ser[0].first));
        c.obs.i("threads", a.threads).i("calls_compared", B * rounds);
        agg.bin("concurrent_calls_compared", B * rounds);
        agg.add(c);
    }
    agg.flush(a.shard_i);
    return 0;
}
static Reg r_kernel_par("kernel_par", cmd_kernel_par);

// kernel_seq: (i) the kernel called again and again on the SAME vec3 objects while some of them move between calls (as the contact phase does
// with the positions of a face's nodes from one iteration to the next; a pinned corner stays where it is): every result is judged against the
// oracle, so anything remembered from an earlier call shows; (ii) exact translations: scenes whose coordinates lie on a 2^-10 grid (triangle frame, sizes of order 1) are shifted
// by 2^30 and 2^40 along every axis - every coordinate difference stays exact, so the barycentric coordinates must not change at
// all (the squared distance may, by the rounding of the closest point at the far position).
// kernel_lattice: structured geometry - triangle corners and query points on a small integer lattice (two layers built from the same grid, nodes
// exactly above corners or edges), placed by the 48 signed axis permutations and exact power-of-two scales / integer offsets.  Dot products that
// are EXACTLY zero, normals exactly along -x / -y / -z and points exactly on region boundaries are the rule here and never occur in the
// generic scenes.
static int cmd_kernel_lattice(const Args& a) {
    Agg agg;
    for (long i = a.first; i < a.first + a.cases; i++) {
        if (!a.mine(i)) continue;
        Rng g(a.seed, (uint64_t)i, 0x57); Case c(i);
        int P[3]; { int perm[6][3] = {{0, 1, 2}, {0, 2, 1}, {1, 0, 2}, {1, 2, 0}, {2, 0, 1}, {2, 1, 0}}; int k = g.range(0, 5); for (int d = 0; d < 3; d++) P[d] = perm[k][d]; }
        const int sg[3] = {g.coin() ? 1 : -1, g.coin() ? 1 : -1, g.coin() ? 1 : -1}; const double sc = std::ldexp(1.0, g.range(-20, 6)); const long off[3] = {g.range(-40, 40), g.range(-40, 40), g.range(-40, 40)};
        auto place = [&](const long q[3]) { double x[3]; for (int d = 0; d < 3; d++) x[d] = sc * (double)(sg[d] * q[P[d]] + off[d]); return V3(x[0], x[1], x[2]); };
        // triangle in the plane z = 0 of the lattice frame (or slightly tilted by lattice steps), point on the lattice above / below / in the plane
        long A[3] = {g.range(-4, 4), g.range(-4, 4), 0}, B[3] = {g.range(-4, 4), g.range(-4, 4), g.coin(0.8) ? 0 : g.range(-1, 1)}, Cq[3] = {g.range(-4, 4), g.range(-4, 4), g.coin(0.8) ? 0 : g.range(-1, 1)}, Q[3] = {g.range(-6, 6), g.range(-6, 6), g.range(-3, 3)};
        V3 pa = place(A), pb = place(B), pc = place(Cq), pq = place(Q);
        R area2 = (pb - pa).cross(pc - pa).norm(), diam = std::max({(pa - pb).norm(), (pb - pc).norm(), (pc - pa).norm()});
        if (!(area2 > 1e-6L * diam * diam)) { c.v = "skip"; agg.add(c); continue; }
        V3 qs; int reg = -1; R d2s = orc::closest_on_triangle(pq, pa, pb, pc, qs, &reg);
        auto r = contact_model_abstract::compute_node_triangle_distance(tv(pq), tv(pa), tv(pb), tv(pc)); V3 bary = fv(r.second); V3 q = pa * bary.x + pb * bary.y + pc * bary.z;
        const std::string rname = reg >= 0 ? REG[reg] : "none"; const R L = diam + (pq - (pa + pb + pc) / 3).norm();
        agg.bin(std::string("lattice_region:") + rname); c.nontrivial = true; c.sig = hash_combine((uint64_t)i, hash_double((double)d2s));
        if (!std::isfinite(r.first) || !std::isfinite((double)bary.norm())) c.viol("lattice:not_finite:" + rname, "the kernel returns a non-finite value for lattice-aligned input");
        else if (!(bary.x >= -1e-12L && bary.y >= -1e-12L && bary.z >= -1e-12L) || !(std::fabs(bary.x + bary.y + bary.z - 1) <= 1e-12L)) c.viol("lattice:barycentric:" + rname, "barycentric coordinates (" + std::to_string((double)bary.x) + ", " + std::to_string((double)bary.y) + ", " + std::to_string((double)bary.z) + ") are not those of a point of the triangle");
        else if (!((q - qs).norm() <= 1e-9L * L)) c.viol("lattice:closest_point:" + rname, "designated point is " + std::to_string((double)((q - qs).norm() / diam)) + " triangle sizes away from the closest point of the triangle");
        else if (!(std::fabs((R)r.first - d2s) <= 1e-9L * std::max(d2s, L * L))) c.viol("lattice:d2:" + rname, "squared distance " + std::to_string(r.first) + " instead of " + std::to_string((double)d2s));
        if (c.v == "viol") c.obs.raw("p", jv3(pq.x, pq.y, pq.z)).raw("a", jv3(pa.x, pa.y, pa.z)).raw("b", jv3(pb.x, pb.y, pb.z)).raw("c", jv3(pc.x, pc.y, pc.z));
        agg.add(c);
    }
    agg.flush(a.shard_i);
    return 0;
}
static Reg r_kernel_lattice("kernel_lattice", cmd_kernel_lattice);

static int cmd_kernel_seq(const Args& a) {
    Agg agg;
    for (long i = a.first; i < a.first + a.cases; i++) {
        if (!a.mine(i)) continue;
        Rng g(a.seed, (uint64_t)i, 0x56); Case c(i);
        // ---- (i) persistent objects
        Scene s = make_scene(g); s.offset_over_L = 0;
        vec3 P = tv(s.p), A = tv(s.a), B = tv(s.b), Cc = tv(s.c); long calls = 0; const int steps = g.range(20, 60);
        const double h = (double)std::max({(s.a - s.b).norm(), (s.b - s.c).norm(), (s.c - s.a).norm()});
        for (int k = 0; k < steps && c.v != "viol"; k++) {
            const int pin = g.range(0, 3);   // which corner (or none) stays where it is in this step
            auto mv = [&](vec3& x) { x.reset(x.dx() + h * g.uni(-0.02, 0.02), x.dy() + h * g.uni(-0.02, 0.02), x.dz() + h * g.uni(-0.02, 0.02)); };
            if (pin != 0 && g.coin(0.8)) mv(A); if (pin != 1 && g.coin(0.8)) mv(B); if (pin != 2 && g.coin(0.8)) mv(Cc); if (g.coin(0.7)) mv(P);
            V3 p = fv(P), aa = fv(A), bb = fv(B), cc = fv(Cc);
            R area2 = (bb - aa).cross(cc - aa).norm(), diam = std::max({(aa - bb).norm(), (bb - cc).norm(), (cc - aa).norm()}); if (!(area2 > 1e-4L * diam * diam)) break;
            auto r = contact_model_abstract::compute_node_triangle_distance(P, A, B, Cc); calls++;
            V3 qs; R d2s = orc::closest_on_triangle(p, aa, bb, cc, qs, nullptr); V3 bary = fv(r.second); V3 q = aa * bary.x + bb * bary.y + cc * bary.z;
            R Dq = std::max({(p - aa).norm(), (p - bb).norm(), (p - cc).norm(), diam}); R cond = (Dq / diam) * (Dq / diam) * (diam * diam / area2) * (diam * diam / area2);
            R L = diam + (p - (aa + bb + cc) / 3).norm(); R tolq = std::max(1e-9L * L, 256 * 2.220446e-16L * cond * diam);
            if (!((q - qs).norm() <= tolq)) c.viol("sequence:closest_point", "called again on the same objects after " + std::to_string(k + 1) + " moves (corner " + std::to_string(pin) + " pinned in the last one) the kernel designates a point " + std::to_string((double)((q - qs).norm() / diam)) + " triangle sizes away from the closest point");
            else if (!(std::fabs((R)r.first - d2s) <= 1e-9L * std::max(d2s, L * L))) c.viol("sequence:d2", "called again on the same objects the kernel returns a wrong squared distance");
        }
        agg.bin("sequence_calls", calls);
        // ---- (ii) exact translations
        long shifted = 0;
        if (c.v != "viol") {
            Scene t = make_scene(g); const double grid = std::ldexp(1.0, -10); const double sc = t.scale;
            auto qz = [&](const V3& x) { return V3(std::round((double)x.x / sc / grid) * grid, std::round((double)x.y / sc / grid) * grid, std::round((double)x.z / sc / grid) * grid); };
            V3 ctr = (t.a + t.b + t.c) / 3; V3 p0 = qz(t.p - ctr), a0 = qz(t.a - ctr), b0 = qz(t.b - ctr), c0 = qz(t.c - ctr);
            R area2 = (b0 - a0).cross(c0 - a0).norm(), diam = std::max({(a0 - b0).norm(), (b0 - c0).norm(), (c0 - a0).norm()});
            if (area2 > 1e-4L * diam * diam && p0.norm() < 4096 && diam > 64 * grid) {
                auto r0 = contact_model_abstract::compute_node_triangle_distance(tv(p0), tv(a0), tv(b0), tv(c0));
                for (int e : {30, 40}) { const double T = std::ldexp(1.0, e); V3 sh(T * (g.coin() ? 1 : -1), T * (g.coin() ? 1 : -1), T * (g.coin() ? 1 : -1));
                    auto r1 = contact_model_abstract::compute_node_triangle_distance(tv(p0 + sh), tv(a0 + sh), tv(b0 + sh), tv(c0 + sh)); shifted++;
                    V3 d = fv(r1.second) - fv(r0.second); R dev = std::max({std::fabs(d.x), std::fabs(d.y), std::fabs(d.z)});
                    agg.maxi("exact_translation_bary_dev", (double)dev);
                    if (!(dev <= 1e-12L)) { c.viol("exact_translation:barycentric_coordinates_2^" + std::to_string(e), "an exact translation of point and triangle by 2^" + std::to_string(e) + " triangle-frame units changes the barycentric coordinates by " + std::to_string((double)dev)); break; } }
            }
        }
        agg.bin("exact_translations", shifted);
        c.nontrivial = calls > 0; c.sig = hash_combine((uint64_t)i, (uint64_t)calls * 131 + (uint64_t)shifted);
        agg.add(c);
    }
    agg.flush(a.shard_i);
    return 0;
}
static Reg r_kernel_seq("kernel_seq", cmd_kernel_seq);
