// C01 / C11 — histories of refinement passes, direct split/merge/swap operations, compaction and node
// displacement on closed genus-0 cells, monitored through the remesh_event sink (synchronous callbacks at
// the entry and exit of every operation) and by full-state invariants after operations and passes.
#include "vh.hpp"
#include "gen.hpp"
#include "oracle.hpp"
#include "remesh_util.hpp"
#include "verif_hooks.hpp"
#include <unordered_set>

using namespace vh;
using orc::V3; using orc::R;

namespace {

struct D3 { double x, y, z; };
static inline D3 dpos(const node& n) { return {n.pos().dx(), n.pos().dy(), n.pos().dz()}; }
static inline bool same_bits(const D3& a, const D3& b) { return std::memcmp(&a, &b, sizeof(D3)) == 0; }

struct Monitor {
    cell* c = nullptr; bool on = false;
    bool oracle_c01 = true, oracle_c11 = true;
    double lmin = 0, lmax = 0; bool swaps = true;
    // history-wide
    std::string viol_key, viol_msg;
    std::vector<char> opseq; long n_split = 0, n_merge = 0, n_swap = 0, n_swap_refused = 0, n_merge_refused = 0, n_pass = 0, n_throw = 0;
    long inv_checks = 0; int sample_every = 1; long opcount = 0; bool topology_only = false;
    bool regimeA = true;    // cached normals refreshed after the move
    // per pass
    bool in_pass = false; long pass_ops = 0; bool pass_only_splits = true; std::unordered_set<unsigned> deleted, created;
    // pending op
    double dbg_a1 = 0, dbg_a2 = 0, dbg_dot1 = 0, dbg_dot2 = 0;
    int pend_kind = -1; unsigned pa = 0, pb = 0, pc = 0, pd = 0; D3 xa{}, xb{}; V3 psum; unsigned short lab1 = 0, lab2 = 0; V3 mom_a, mom_b; bool pend_swap = false;

    void viol(const std::string& k, const std::string& m) { if (viol_key.empty()) { viol_key = k; viol_msg = m; } }

    V3 total_momentum() const {
        V3 s;
#if DYNAMIC_MODEL_INDEX == 0
        for (const node& n : cell_tester::nodes(*c)) if (n.is_used()) s += V3(n.momentum().dx(), n.momentum().dy(), n.momentum().dz());
#endif
        return s;
    }
    R momentum_scale() const {
        R s = 0;
#if DYNAMIC_MODEL_INDEX == 0
        for (const node& n : cell_tester::nodes(*c)) if (n.is_used()) s += V3(n.momentum().dx(), n.momentum().dy(), n.momentum().dz()).norm();
#endif
        return s;
    }
    void full_check(const char* where, bool normals) {
        if (!oracle_c01) return;
        inv_checks++;
        rmu::Inv r = rmu::check_cell(*c, normals && regimeA);
        if (!r.ok && topology_only && r.key == "negative_signed_volume") return;   // 'tiny' probe: see there
        if (!r.ok) viol("c01." + r.key + "@" + where, r.msg + " [op #" + std::to_string(opcount) + " kind=" + std::to_string(pend_kind) + " edge=(" + std::to_string(pa) + "," + std::to_string(pb) + ") opp=(" + std::to_string(pc) + "," + std::to_string(pd) + ") areas/lmin^2=" + std::to_string(dbg_a1 / (lmin * lmin)) + "," + std::to_string(dbg_a2 / (lmin * lmin)) + " cached_n.winding_n=" + std::to_string(dbg_dot1) + "," + std::to_string(dbg_dot2) + " in_pass=" + std::to_string(in_pass) + " pass#" + std::to_string(n_pass) + "]");
    }
    void event(int kind, int stage, unsigned a, unsigned b, unsigned nid) {
        if (!viol_key.empty()) return;
        const auto& nl = cell_tester::nodes(*c); const auto& fl = cell_tester::faces(*c);
        if (kind == VERIF_REMESH_PASS) {
            if (stage == VERIF_STAGE_PRE) { in_pass = true; pass_ops = 0; pass_only_splits = true; deleted.clear(); created.clear(); }
            else { in_pass = false; if (stage == VERIF_STAGE_THROW) n_throw++; }
            return;
        }
        if (stage == VERIF_STAGE_CHECK) { if (nid != 2) n_merge_refused++; return; }
        if (stage == VERIF_STAGE_PRE) {
            if (pend_swap) { n_swap_refused++; pend_swap = false; }   // previous swap returned early
            pend_kind = kind; pa = a; pb = b;
            if (a >= nl.size() || b >= nl.size() || !nl[a].is_used() || !nl[b].is_used()) { viol("c11.op_on_dead_node", "operation called on an edge with a dead node"); return; }
            xa = dpos(nl[a]); xb = dpos(nl[b]);
            { auto e = c->get_edge(a, b); if (e.has_value() && e->is_manifold()) { for (int w = 0; w < 2; w++) { const face& f = fl[w == 0 ? e->f1() : e->f2()]; unsigned v[3] = {cell_tester::n1(f), cell_tester::n2(f), cell_tester::n3(f)};
                V3 A(nl[v[0]].pos().dx(), nl[v[0]].pos().dy(), nl[v[0]].pos().dz()), B(nl[v[1]].pos().dx(), nl[v[1]].pos().dy(), nl[v[1]].pos().dz()), C(nl[v[2]].pos().dx(), nl[v[2]].pos().dy(), nl[v[2]].pos().dz());
                V3 wn = (B - A).cross(C - A); double ar = (double)wn.norm() / 2; double dt = wn.norm() > 0 ? (double)((wn.x * f.get_normal().dx() + wn.y * f.get_normal().dy() + wn.z * f.get_normal().dz()) / wn.norm()) : 0;
                if (w == 0) { dbg_a1 = ar; dbg_dot1 = dt; } else { dbg_a2 = ar; dbg_dot2 = dt; } } } }
            if (oracle_c11) {
                psum = total_momentum();
#if DYNAMIC_MODEL_INDEX == 0
                mom_a = V3(nl[a].momentum().dx(), nl[a].momentum().dy(), nl[a].momentum().dz()); mom_b = V3(nl[b].momentum().dx(), nl[b].momentum().dy(), nl[b].momentum().dz());
#endif
                auto e = c->get_edge(a, b);
                if (!e.has_value() || !e->is_manifold()) { viol("c11.op_on_missing_edge", "operation called on an edge that is not in the edge set"); return; }
                const face& f1 = fl[e->f1()]; const face& f2 = fl[e->f2()];
                lab1 = cell_tester::type_id(f1); lab2 = cell_tester::type_id(f2); pc = f1.get_opposite_node(a, b); pd = f2.get_opposite_node(a, b);
                R l2 = (V3(xa.x, xa.y, xa.z) - V3(xb.x, xb.y, xb.z)).n2();
                if (in_pass && kind == VERIF_REMESH_SPLIT && !(l2 > (R)lmax * lmax * (1 - 1e-12L))) viol("c11.split_of_edge_not_longer_than_lmax", "a refinement pass split an edge that is not longer than the maximum length");
                if (in_pass && kind == VERIF_REMESH_MERGE && !(l2 < (R)lmin * lmin * (1 + 1e-12L))) viol("c11.merge_of_edge_not_shorter_than_lmin", "a refinement pass collapsed an edge that is not shorter than the minimum length");
            }
            if (kind == VERIF_REMESH_SWAP) pend_swap = true;
            return;
        }
        // POST
        opcount++; if (in_pass) pass_ops++;
        if (kind == VERIF_REMESH_SPLIT) { n_split++; opseq.push_back('s'); created.insert(nid); }
        if (kind == VERIF_REMESH_MERGE) { n_merge++; opseq.push_back('m'); pass_only_splits = false; deleted.insert(pa); deleted.insert(pb); created.insert(nid); }
        if (kind == VERIF_REMESH_SWAP) { n_swap++; opseq.push_back('w'); pass_only_splits = false; pend_swap = false; }
        if (oracle_c11 && kind != VERIF_REMESH_SWAP) {
            if (nid >= nl.size() || !nl[nid].is_used()) { viol("c11.new_node_dead", "node created by the operation is not live"); return; }
            D3 xn = dpos(nl[nid]); double mx = 0.5 * (xa.x + xb.x), my = 0.5 * (xa.y + xb.y), mz = 0.5 * (xa.z + xb.z);
            double sc = std::max({std::fabs(xa.x), std::fabs(xa.y), std::fabs(xa.z), std::fabs(xb.x), std::fabs(xb.y), std::fabs(xb.z)}) * 4.5e-16 + 1e-300;
            if (std::fabs(xn.x - mx) > sc || std::fabs(xn.y - my) > sc || std::fabs(xn.z - mz) > sc) viol(std::string("c11.new_node_not_at_midpoint:") + (kind == VERIF_REMESH_SPLIT ? "split" : "merge"), "new node is not at the midpoint of the operated edge");
            V3 after = total_momentum(); R ms = momentum_scale() + psum.norm();
            if (!((after - psum).norm() <= 1e-12L * ms)) viol(std::string("c11.momentum_not_conserved:") + (kind == VERIF_REMESH_SPLIT ? "split" : "merge"), "total node momentum changed across the operation");
            if (kind == VERIF_REMESH_SPLIT) {
                if (!same_bits(dpos(nl[pa]), xa) || !same_bits(dpos(nl[pb]), xb)) viol("c11.split_moved_endpoint", "edge split moved an endpoint");
                long around = 0;
                for (const face& f : fl) if (f.is_used() && f.has_node(nid)) { around++; bool hc = f.has_node(pc), hd = f.has_node(pd);
                    if (hc == hd) { viol("c11.split_fan_shape", "faces around the new node are not the four expected ones"); break; }
                    unsigned short lab = cell_tester::type_id(f);
                    if (hc && lab != lab1) { viol("c11.split_label_not_inherited", "sub-triangle of an edge split does not carry its parent's face-type label"); break; }
                    if (hd && lab != lab2) { viol("c11.split_label_not_inherited", "sub-triangle of an edge split does not carry its parent's face-type label"); break; } }
                if (around != 4) viol("c11.split_fan_shape", "an edge split did not produce four triangles around the new node");
            }
#if DYNAMIC_MODEL_INDEX == 0
            if (kind == VERIF_REMESH_MERGE) {
                V3 pm(nl[nid].momentum().dx(), nl[nid].momentum().dy(), nl[nid].momentum().dz());
                if (!((pm - (mom_a + mom_b)).norm() <= 1e-14L * (mom_a.norm() + mom_b.norm()) + 1e-300L)) viol("c11.merge_momentum", "collapsed node does not carry the sum of the two momenta");
            }
#endif
        }
        if (sample_every > 0 && (opcount % sample_every) == 0) full_check(kind == VERIF_REMESH_SPLIT ? "split" : kind == VERIF_REMESH_MERGE ? "merge" : "swap", true);
    }
};

static Monitor* g_mon = nullptr;
static void sink(int kind, int stage, cell* c, unsigned a, unsigned b, unsigned nid) { if (g_mon && g_mon->on && g_mon->c == c) g_mon->event(kind, stage, a, b, nid); }

// own triangle quality score as documented: q = (36/sqrt 3) A / P^2.  The product evaluates the rule with the cached
// face area, which in the product loop is one move stale; a mesh is classified as conforming only when the rule holds both
// with the area of the current geometry and with the cached one (so that legitimate staleness can never be blamed).
static bool oracle_conforming(const cell& c, double lmin, double lmax, bool swaps, bool with_cached_area = true) {
    std::vector<V3> P; std::vector<orc::Tri> T; std::vector<unsigned> fslot; gen::extract(c, P, T, nullptr, nullptr, &fslot);
    const auto& fl = cell_tester::faces(c);
    for (size_t k = 0; k < T.size(); k++) { auto& t = T[k]; V3 a = P[t.a], b = P[t.b], cc = P[t.c]; R l[3] = {(a - b).norm(), (b - cc).norm(), (cc - a).norm()};
        for (R x : l) if (!(x > lmin * (1 + 1e-9L) && x < lmax * (1 - 1e-9L))) return false;
        if (swaps) { R A = (b - a).cross(cc - a).norm() / 2, Pm = l[0] + l[1] + l[2]; R q = (36 / std::sqrt((R)3)) * A / (Pm * Pm); if (!(q > 0.2L * (1 + 1e-9L))) return false;
            if (with_cached_area) { R qc = (36 / std::sqrt((R)3)) * (R)fl[fslot[k]].get_area() / (Pm * Pm); if (!(qc > 0.2L * (1 + 1e-9L))) return false; } } }
    return true;
}

struct Hist { std::string line; };

static std::string run_history(const Args& a, long i) {
    Rng g(a.seed, (uint64_t)i, 0x01);
    Case cs(i);
    const std::string which = a.get("oracle", "both");
    const int max_faces = (int)a.geti("max_faces", 640);
    // ---- start mesh and edge-length band ---------------------------------------------------------
    gen::TriMesh m; std::shared_ptr<epithelial_cell> c; auto ct = gen::default_cell_type(4, 0);
    double scale = 1, lmin = 0, lmax = 0, ratio = 3; bool have = false, lens = false, fan = false, tiny = false, strip = false;
    const bool big = a.geti("big", 0) != 0;   // one large mesh (node and face ids beyond 2^15 / 2^16): rejected construction is a violation here
    for (int attempt = 0; attempt < 30 && !have; attempt++) {
        if (big) { lens = fan = tiny = strip = false; m = gen::icosphere(6); gen::jitter(m, g, 0.05); m.name = "big_ico"; gen::rotate(m, gen::rot_random(g));
            try { c = gen::make_cell<epithelial_cell>(m, 0, ct); } catch (const std::exception& e) { cs.viol("c01.valid_mesh_rejected:big", std::string("a valid closed sphere of 40962 nodes was rejected at construction: ") + e.what()); return cs.line(); }
            double me = gen::mean_edge(m); lmin = me * g.uni(0.45, 0.6); lmax = 3 * lmin; ratio = 3; have = true; break; }
        if (g.coin(0.06)) {
            // 'lens6': 6 nodes, 8 faces; the needle ABC / ABD on the long edge AB has opposite nodes C, D that are already joined by an edge
            // (3-cycles A-C-D and B-C-D are not faces), A and B have four faces each: the configuration in which an edge swap must be refused
            double w = g.uni(0.05, 0.15), dz = g.uni(0.02, 0.08), cap = g.uni(0.4, 0.8), cx = g.uni(0.3, 0.7);
            m = gen::TriMesh(); m.name = "lens6"; m.P = {{-1, 0, 0}, {1, 0, 0}, {0, w, -dz}, {0, -w, -dz}, {-cx, 0, -cap}, {cx, 0, -cap}};
            m.T = {{0, 1, 2}, {0, 3, 1}, {0, 2, 4}, {2, 3, 4}, {3, 0, 4}, {1, 5, 2}, {2, 5, 3}, {3, 5, 1}}; lens = true; fan = false; tiny = false; strip = false;
        } else if (g.coin(0.04)) { lens = false; fan = false; tiny = false; strip = true;
            // 'strip': a long thin box (aspect 12-40, two triangles per side): both diagonals of every long side give needle triangles, so the
            // sliver removal swaps back and forth if nothing bounds it; every edge is inside the band, only the swap rule acts
            m = gen::box(1, g.uni(6, 20), 0.5, g.uni(0.4, 0.6)); m.name = "strip";
        } else if (g.coin(0.05)) { lens = false; fan = false; tiny = true; strip = false;
            // 'tiny': the smallest closed surfaces (tetrahedron; bipyramids over a triangle, square or pentagon), distorted so that one or two edges
            // fall below l_min: whatever the pass decides, at least four triangles must remain (an edge of a tetrahedron cannot be collapsed)
            const int k = g.range(2, 5); m = gen::TriMesh();
            if (k == 2) { m.name = "tinytetra"; m.P = {{0, 0, 0}, {1, 0, 0}, {0.5, 0.9, 0}, {0.5, 0.3, 0.8}}; m.T = {{0, 2, 1}, {0, 1, 3}, {1, 2, 3}, {2, 0, 3}}; }
            else { m.name = "tinybipyramid" + std::to_string(k); for (int q = 0; q < k; q++) { double ph = 2 * M_PI * q / k; m.P.push_back({std::cos(ph), std::sin(ph), 0}); } m.P.push_back({0, 0, g.uni(0.5, 1.2)}); m.P.push_back({0, 0, -g.uni(0.5, 1.2)});
                for (int q = 0; q < k; q++) { unsigned r0 = (unsigned)q, r1 = (unsigned)((q + 1) % k); m.T.push_back({(unsigned)k, r0, r1}); m.T.push_back({(unsigned)k + 1, r1, r0}); } }
            // pull one node towards a neighbour: a short edge
            { auto t = m.T[(size_t)(g.u64() % m.T.size())]; unsigned u = t[0], w = t[1]; double f = g.uni(0.75, 0.95); for (int d = 0; d < 3; d++) m.P[u][d] = m.P[u][d] * (1 - f) + m.P[w][d] * f; }
        } else if (g.coin(0.06)) { lens = false; fan = true; tiny = false; strip = false;
            // 'fan': a bipyramid over a ring of N >= 17 nodes (both poles have valence N, as the poles of a latitude-longitude sphere) with a few
            // valence-3 nodes inserted into triangles next to a pole: collapsing the pole edge that faces such a node must be refused
            // (the end nodes share three neighbours), whatever the valence of the pole
            const int N = g.range(17, 40); m = gen::TriMesh(); m.name = "fan" + std::to_string(N);
            const double h1 = g.uni(0.3, 1.2), h2 = g.uni(0.3, 1.2);
            m.P.push_back({0, 0, h1}); for (int k = 0; k < N; k++) { double ph = 2 * M_PI * k / N; m.P.push_back({std::cos(ph), std::sin(ph), 0}); } m.P.push_back({0, 0, -h2});
            for (int k = 0; k < N; k++) { unsigned r0 = 1 + (unsigned)k, r1 = 1 + (unsigned)((k + 1) % N); m.T.push_back({0, r0, r1}); m.T.push_back({(unsigned)N + 1, r1, r0}); }
            const int ins = g.range(1, 4);
            for (int k = 0; k < ins; k++) { size_t ti = (size_t)(g.u64() % m.T.size()); auto t = m.T[ti]; std::array<double, 3> x = {0, 0, 0}; for (unsigned v : t) for (int d = 0; d < 3; d++) x[d] += m.P[v][d] / 3;
                for (int d = 0; d < 3; d++) x[d] *= 1.02; unsigned X = (unsigned)m.P.size(); m.P.push_back(x); m.T[ti] = {t[0], t[1], X}; m.T.push_back({t[1], t[2], X}); m.T.push_back({t[2], t[0], X}); }
        } else { lens = false; fan = false; tiny = false; strip = false;
        m = gen::random_shape(g, std::max(20, max_faces / 2));
        if (g.coin(0.5)) gen::jitter(m, g, 0.05);
        }
        scale = g.coin(0.5) ? 1.0 : g.logu(1e-6, 1e1);
        gen::scale(m, scale, scale, scale); gen::rotate(m, gen::rot_random(g));
        double off = g.coin(0.5) ? 0.0 : g.uni(0, 10) * scale; gen::translate(m, off * g.uni(-1, 1), off * g.uni(-1, 1), off * g.uni(-1, 1));
        if (g.coin(0.3)) gen::permute(m, g);
        try { c = gen::make_cell<epithelial_cell>(m, 0, ct); } catch (const std::exception& e) { cs.v = "skip"; cs.msg = std::string("generator produced a rejected mesh: ") + e.what(); return cs.line(); }
        // thickness of the body: smallest half-extent over a few random frames
        std::vector<V3> P; std::vector<orc::Tri> T; gen::extract(*c, P, T); orc::Geo g0 = orc::geometry(P, T);
        double thick = 1e300; for (int k = 0; k < 6; k++) { gen::Rot r = k == 0 ? gen::rot_identity() : gen::rot_random(g); double lo[3] = {1e300, 1e300, 1e300}, hi[3] = {-1e300, -1e300, -1e300};
            for (auto& t : T) for (unsigned v : {t.a, t.b, t.c}) { auto q = gen::rapply(r, {(double)P[v].x, (double)P[v].y, (double)P[v].z}); for (int d = 0; d < 3; d++) { lo[d] = std::min(lo[d], q[d]); hi[d] = std::max(hi[d], q[d]); } }
            for (int d = 0; d < 3; d++) thick = std::min(thick, 0.5 * (hi[d] - lo[d])); }
        // target face count -> average edge -> band centred on it; the body must stay thicker than 2*l_max even when
        // squeezed by the factor 0.7 the deformations may apply (a cell smaller than the band is legitimately collapsed)
        double nf_target = g.logu(60, max_faces); double lavg = std::sqrt((double)g0.area / (0.43 * nf_target));
        ratio = g.coin(0.7) ? 3.0 : g.uni(1.5, 10.0);
        lmin = 2.0 * lavg / (1.0 + ratio); lmax = ratio * lmin;
        double cap = thick * 0.7 / 2.0; if (lmax > cap) { lmax = cap; lmin = lmax / ratio; }
        double expected_faces = (double)g0.area * 1.5 * 1.5 / (0.43 * std::pow(0.5 * (lmin + lmax), 2));   // at the largest stretch
        have = expected_faces <= 4.0 * max_faces;
        if (tiny) {   // the shortest edge (and nothing else) is below the band
            double emin = 1e300, e2 = 1e300, emax = 0; for (auto& t : T) { V3 q[3] = {P[t.a], P[t.b], P[t.c]}; for (int k = 0; k < 3; k++) { double l = (double)(q[k] - q[(k + 1) % 3]).norm(); if (l < emin * (1 - 1e-9)) { e2 = emin; emin = l; } else if (l > emin * (1 + 1e-9) && l < e2) e2 = l; emax = std::max(emax, l); } }
            lmin = std::min(1.3 * emin, 0.5 * (emin + e2)); lmax = 2.0 * emax; ratio = lmax / lmin; have = true; }
        else if (lens || fan || strip) {   // focused probe: every edge inside the band (the thin body must not be remeshed away), only the swap rule is exercised
            double emin = 1e300, emax = 0; for (auto& t : T) { V3 q[3] = {P[t.a], P[t.b], P[t.c]}; for (int k = 0; k < 3; k++) { double l = (double)(q[k] - q[(k + 1) % 3]).norm(); emin = std::min(emin, l); emax = std::max(emax, l); } }
            lmin = 0.5 * emin; lmax = 2.0 * emax; ratio = lmax / lmin; have = true; }
    }
    if (!have) { cs.v = "skip"; cs.msg = "no shape within the face budget"; return cs.line(); }
    bool swaps = g.coin(0.6) || lens || strip;
    local_mesh_refiner lmr(lmin, lmax, swaps);
    // random labels and momenta
    for (face& f : cell_tester::faces(*c)) if (f.is_used()) f.set_face_type_id((unsigned short)g.range(0, 3));
#if DYNAMIC_MODEL_INDEX == 0
    for (node& n : cell_tester::nodes(*c)) if (n.is_used()) n.set_momentum(vec3(g.normal(), g.normal(), g.normal()) * (g.coin(0.2) ? 0.0 : g.logu(1e-12, 1e3)));
#endif
    Monitor mon; mon.c = c.get(); mon.lmin = lmin; mon.lmax = lmax; mon.swaps = swaps; mon.on = true;
    mon.oracle_c01 = which != "c11"; mon.oracle_c11 = which != "c01";
    mon.sample_every = big ? 20000 : g.coin(0.1) ? 1 : g.range(4, 40);
    if (a.geti("force_sample", 0) > 0) mon.sample_every = (int)a.geti("force_sample", 0);
    mon.regimeA = tiny ? true : g.coin(0.5);
    // a body of 4-10 faces whose edges are pulled below l_min on purpose may legitimately fold when an edge is collapsed to its midpoint:
    // the tiny probe judges the combinatorial clauses (closed, manifold, consistently wound, >= 4 faces, bookkeeping), not the sign of the volume
    mon.topology_only = tiny;
    g_mon = &mon; verif::get().remesh_event = sink;
    const int npass = big ? 2 : tiny ? g.range(2, 4) : (lens || fan || strip) ? g.range(1, 3) : g.range(5, (int)a.geti("max_passes", 25));
    double D[3] = {1, 1, 1}; gen::Rot frame = gen::rot_random(g); double twist_state = 0;
    long passes_done = 0, repeated_conforming = 0, conforming_checked = 0, rebases = 0, direct_ops = 0; bool threw = false; std::string throw_what;
    long faces_max = 0;
    auto cell_faces = [&]() { return (long)c->get_nb_of_faces(); };
    mon.full_check("initial", true);
    for (int p = 0; p < npass && mon.viol_key.empty() && !threw; p++) {
        // ---- (a) deformation ----------------------------------------------------------------------
        {
            std::vector<V3> Q; std::vector<orc::Tri> TT; gen::extract(*c, Q, TT); orc::Geo gg = orc::geometry(Q, TT); V3 ctr = gg.centroid;
            double Dn[3]; for (int d = 0; d < 3; d++) Dn[d] = (g.coin(0.3) || lens || fan || tiny || strip) ? D[d] : g.uni(0.7, 1.5);
            double tw = 0; if (g.coin(0.25) && !lens && !fan && !tiny && !strip) { tw = (twist_state == 0 ? g.uni(-0.35, 0.35) : -twist_state); }
            gen::Rot rr = (mon.regimeA && g.coin(0.4)) ? gen::rot_random(g) : gen::rot_identity();
            double ext = 0.5 * std::sqrt((double)std::max({(gg.hi[0] - gg.lo[0]) * (gg.hi[0] - gg.lo[0]), (gg.hi[1] - gg.lo[1]) * (gg.hi[1] - gg.lo[1]), (gg.hi[2] - gg.lo[2]) * (gg.hi[2] - gg.lo[2])}));
            // shortest incident edge per node for the noise bound
            std::vector<double> minl(Q.size(), 1e300); for (auto& t : TT) { unsigned v[3] = {t.a, t.b, t.c}; for (int k = 0; k < 3; k++) { double l = (double)(Q[v[k]] - Q[v[(k + 1) % 3]]).norm(); minl[v[k]] = std::min(minl[v[k]], l); minl[v[(k + 1) % 3]] = std::min(minl[v[(k + 1) % 3]], l); } }
            double noise = (lens || fan || tiny || strip) ? g.uni(0, 0.02) : (g.coin(0.3) ? 0.0 : g.uni(0, 0.2));
            auto& nl = cell_tester::nodes(*c);
            // regime B emulates the product loop: the force phase refreshes the cached normals, then the integrator moves the
            // nodes, then the next refinement pass runs with normals that are one move stale.
            if (!mon.regimeA) c->update_all_face_normals_and_areas();
            std::vector<std::array<double, 3>> Xn(nl.size());
            for (size_t k = 0; k < nl.size(); k++) if (nl[k].is_used()) {
                V3 x = Q[k] - ctr; auto loc = gen::rapply(frame, {(double)x.x, (double)x.y, (double)x.z});
                for (int d = 0; d < 3; d++) loc[d] *= Dn[d] / D[d];
                if (tw != 0 && ext > 0) { double ang = tw * loc[2] / ext; double cx = std::cos(ang) * loc[0] - std::sin(ang) * loc[1], cy = std::sin(ang) * loc[0] + std::cos(ang) * loc[1]; loc[0] = cx; loc[1] = cy; }
                // back to the world frame (frame is orthogonal: inverse = transpose)
                std::array<double, 3> w = {frame.m[0][0] * loc[0] + frame.m[1][0] * loc[1] + frame.m[2][0] * loc[2], frame.m[0][1] * loc[0] + frame.m[1][1] * loc[1] + frame.m[2][1] * loc[2], frame.m[0][2] * loc[0] + frame.m[1][2] * loc[1] + frame.m[2][2] * loc[2]};
                w = gen::rapply(rr, w);
                double nz = noise * (std::isfinite(minl[k]) && minl[k] < 1e299 ? minl[k] : 0);
                Xn[k] = {(double)ctr.x + w[0] + nz * g.uni(-1, 1), (double)ctr.y + w[1] + nz * g.uni(-1, 1), (double)ctr.z + w[2] + nz * g.uni(-1, 1)};
            }
            // tiny probe, later passes: one more edge is pulled below l_min (a cell that has just been collapsed to a tetrahedron still carries the
            // unused slots of the collapse; its edges must not be collapsed either)
            if (tiny && p > 0 && !TT.empty()) { const orc::Tri& t = TT[(size_t)(g.u64() % TT.size())]; unsigned u = t.a, w = t.b; double len = 0; for (int d = 0; d < 3; d++) len += (Xn[u][d] - Xn[w][d]) * (Xn[u][d] - Xn[w][d]); len = std::sqrt(len);
                if (len > 0.6 * lmin) for (int d = 0; d < 3; d++) Xn[u][d] = Xn[w][d] + (Xn[u][d] - Xn[w][d]) * (0.5 * lmin / len); }
            if (!mon.regimeA) {
                // one move must not turn any triangle by 60 degrees or more away from its cached normal: a larger turn in a single
                // step is outside what the integrator produces, and the refiner legitimately relies on the cached normal
                const auto& fl = cell_tester::faces(*c);
                for (int it = 0; it < 8; it++) {
                    bool okm = true;
                    for (const face& f : fl) if (f.is_used()) {
                        unsigned v[3] = {cell_tester::n1(f), cell_tester::n2(f), cell_tester::n3(f)};
                        V3 A(Xn[v[0]][0], Xn[v[0]][1], Xn[v[0]][2]), B(Xn[v[1]][0], Xn[v[1]][1], Xn[v[1]][2]), Cc(Xn[v[2]][0], Xn[v[2]][1], Xn[v[2]][2]);
                        V3 w = (B - A).cross(Cc - A); R wn = w.norm(); const vec3& n = f.get_normal(); R nn = std::sqrt(n.dx() * n.dx() + n.dy() * n.dy() + n.dz() * n.dz());
                        if (nn == 0 || wn == 0) { okm = (wn != 0 || nn == 0) && okm; if (wn == 0 && nn != 0) okm = false; continue; }
                        if ((w.x * n.dx() + w.y * n.dy() + w.z * n.dz()) / (wn * nn) < 0.5L) { okm = false; break; }
                    }
                    if (okm) break;
                    for (size_t k = 0; k < nl.size(); k++) if (nl[k].is_used()) for (int d = 0; d < 3; d++) { double xo = d == 0 ? (double)Q[k].x : d == 1 ? (double)Q[k].y : (double)Q[k].z; Xn[k][d] = it == 7 ? xo : xo + 0.5 * (Xn[k][d] - xo); }
                }
            }
            for (size_t k = 0; k < nl.size(); k++) if (nl[k].is_used()) cell_tester::pos(nl[k]).reset(Xn[k][0], Xn[k][1], Xn[k][2]);
            for (int d = 0; d < 3; d++) D[d] = Dn[d]; twist_state += tw; if (std::fabs(twist_state) < 1e-12) twist_state = 0;
            if (mon.regimeA) c->update_all_face_normals_and_areas();
        }
        // faces whose cached normal is fresh in regime B are only those (re)created from now on: remember slot contents
        std::vector<std::array<unsigned, 3>> before_tri; std::vector<char> before_used;
        if (!mon.regimeA) { const auto& fl = cell_tester::faces(*c); before_tri.resize(fl.size()); before_used.resize(fl.size()); for (size_t k = 0; k < fl.size(); k++) { before_used[k] = fl[k].is_used(); before_tri[k] = {cell_tester::n1(fl[k]), cell_tester::n2(fl[k]), cell_tester::n3(fl[k])}; } }
        // ---- (b) compaction -------------------------------------------------------------------------
        if (g.coin(0.25)) { try { c->rebase(); rebases++; before_tri.clear(); before_used.clear(); } catch (const std::exception& e) { mon.viol("c01.rebase_threw", e.what()); break; } mon.full_check("rebase", true); }
        // ---- (c) burst of direct operations ---------------------------------------------------------
        if ((g.coin(0.25) || fan) && mon.viol_key.empty() && !lens && !tiny && !strip && cell_faces() >= 40) {   // (random collapses / swaps on a body of a dozen faces fold it: the thorough tier saw a cube turned inside out by 2-5 of them)
            int nops = fan ? g.range(1, 6) : g.range(1, 10); edge_set dummy;
            for (int k = 0; k < nops && mon.viol_key.empty(); k++) {
                const auto& es = cell_tester::edges(*c); if (es.empty()) break;
                auto it = es.begin(); std::advance(it, (long)(g.u64() % es.size())); edge e = *it; int what = g.range(0, 2);
                if (fan) {   // aim at the pole edges: guarded collapse only (the small, flat body is not meant to be remeshed at random)
                    what = 1;
                    std::map<unsigned, int> deg; for (const edge& x : es) { deg[x.n1()]++; deg[x.n2()]++; }
                    std::vector<edge> pe; for (const edge& x : es) if (deg[x.n1()] >= 12 || deg[x.n2()] >= 12) pe.push_back(x);
                    if (!pe.empty()) { e = pe[(size_t)(g.u64() % pe.size())]; what = 1; } }
                try {
                    if (what == 0) { dummy.clear(); lmr.split_edge(e, c, dummy); }
                    else if (what == 1) { if (lmr.can_be_merged(e, c)) { dummy.clear(); lmr.merge_edge(e, c, dummy); } }
                    else { lmr.swap_edge(e, c); if (mon.pend_swap) { mon.n_swap_refused++; mon.pend_swap = false; } }
                    direct_ops++;
                } catch (const std::exception& ex) { threw = true; throw_what = std::string("direct op: ") + ex.what();
                    if (mon.oracle_c01) mon.viol(std::string("c01.operation_refused_by_mesh_structure@direct_") + (what == 0 ? "split" : what == 1 ? "merge" : "swap"), std::string("a direct split / guarded merge / swap on a valid mesh ended with an exception of the mesh structure: ") + ex.what()); break; }
                mon.full_check("direct_op", true);
            }
            before_tri.clear(); before_used.clear();   // direct ops touched faces: only regime A judges normals afterwards
        }
        if (threw || !mon.viol_key.empty()) break;
        // ---- (d) refinement pass ----------------------------------------------------------------------
        // pre-pass snapshot for C11
        std::vector<D3> xpre; std::vector<char> upre; V3 ppre; R pscale = 0; orc::Geo gpre; uint64_t fp_pre = 0; bool conforming = false; long ops_before = mon.opcount;
        long E = (long)cell_tester::edges(*c).size(); R bound_len = 0;
        if (mon.oracle_c11) {
            const auto& nl = cell_tester::nodes(*c); xpre.resize(nl.size()); upre.resize(nl.size());
            for (size_t k = 0; k < nl.size(); k++) { upre[k] = nl[k].is_used(); xpre[k] = dpos(nl[k]); }
            ppre = mon.total_momentum(); pscale = mon.momentum_scale();
            std::vector<V3> Q; std::vector<orc::Tri> TT; gen::extract(*c, Q, TT); gpre = orc::geometry(Q, TT);
            for (const edge& e : cell_tester::edges(*c)) { R l = (Q[e.n1()] - Q[e.n2()]).norm() / lmax; bound_len += l * l; }
            conforming = oracle_conforming(*c, lmin, lmax, swaps); if (conforming) fp_pre = rmu::fingerprint(*c);
        }
        try { lmr.refine_mesh(c); passes_done++; }
        catch (const std::exception& ex) { threw = true; throw_what = ex.what(); }
        mon.n_pass++;
        if (mon.pend_swap) { mon.n_swap_refused++; mon.pend_swap = false; }
        // A pass may give up with its documented failure ("The refinement of the mesh of cell N failed ..."): allowed outcome, the state after
        // it is not judged.  Any other exception comes from the mesh structure refusing an operation (third face on an edge, face missing from
        // an edge): the pass tried to build a non-manifold configuration on a valid input mesh, which is what C01 forbids.
        if (threw && mon.oracle_c01 && throw_what.find("The refinement of the mesh of cell") != 0) { std::string sl; for (char ch : throw_what) { if (std::isalpha((unsigned char)ch)) sl += ch; else if (ch == ' ' && !sl.empty() && sl.back() != '_') sl += '_'; if (sl.size() >= 40) break; } mon.viol("c01.operation_refused_by_mesh_structure@pass:" + sl, "a refinement pass on a valid mesh ended with an exception of the mesh structure: " + throw_what); }
        if (threw) break;
        faces_max = std::max(faces_max, cell_faces());
        if (mon.oracle_c01 && mon.viol_key.empty()) {
            mon.inv_checks++;
            std::vector<char> mask; const std::vector<char>* mp = nullptr; bool normals = true;
            if (!mon.regimeA) { if (before_tri.empty()) normals = false; else { const auto& fl = cell_tester::faces(*c); mask.assign(fl.size(), 0); for (size_t k = 0; k < fl.size(); k++) if (fl[k].is_used()) { std::array<unsigned, 3> t = {cell_tester::n1(fl[k]), cell_tester::n2(fl[k]), cell_tester::n3(fl[k])}; if (k >= before_tri.size() || !before_used[k] || before_tri[k] != t) mask[k] = 1; } mp = &mask; } }
            rmu::Inv r = rmu::check_cell(*c, normals, mp);
            if (!r.ok && !(mon.topology_only && r.key == "negative_signed_volume")) mon.viol("c01." + r.key + "@pass", r.msg);
        }
        if (mon.oracle_c11 && mon.viol_key.empty()) {
            const auto& nl = cell_tester::nodes(*c); long pops = mon.opcount - ops_before;
            for (size_t k = 0; k < xpre.size() && k < nl.size(); k++) if (upre[k] && !mon.deleted.count((unsigned)k)) {
                if (!nl[k].is_used()) { mon.viol("c11.node_vanished_without_collapse", "a node disappeared during a pass without being an endpoint of a collapsed edge"); break; }
                if (!same_bits(dpos(nl[k]), xpre[k])) { mon.viol("c11.surviving_node_moved", "a node that survived the pass was moved"); break; } }
            V3 pafter = mon.total_momentum();
            if (!((pafter - ppre).norm() <= 1e-12L * (pscale + ppre.norm()) * std::max<R>(1, std::sqrt((R)pops)))) mon.viol("c11.momentum_not_conserved:pass", "total node momentum changed across a refinement pass");
            if (mon.pass_only_splits && pops > 0) { std::vector<V3> Q; std::vector<orc::Tri> TT; gen::extract(*c, Q, TT); orc::Geo ga = orc::geometry(Q, TT);
                R posmag = std::max({std::fabs(ga.ref.x), std::fabs(ga.ref.y), std::fabs(ga.ref.z)}) + std::sqrt(ga.area);
                // midpoints are rounded to double: each moves the surface by <= eps*|x|; V changes by <= A*eps*|x| per split
                R tolV = 1e-12L * std::fabs(gpre.volume) + 4 * 2.3e-16L * posmag * gpre.area * pops, tolA = 1e-12L * gpre.area + 16 * 2.3e-16L * posmag * std::sqrt(gpre.area) * pops;
                if (!(std::fabs(ga.volume - gpre.volume) <= tolV)) mon.viol("c11.split_only_pass_changed_volume", "a pass made only of edge splits changed the enclosed volume");
                if (!(std::fabs(ga.area - gpre.area) <= tolA)) mon.viol("c11.split_only_pass_changed_area", "a pass made only of edge splits changed the area"); }
            if (conforming) { conforming_checked++; if (pops != 0) mon.viol("c11.conforming_mesh_modified", "a mesh satisfying the length band and the quality rule was modified by a pass"); else if (rmu::fingerprint(*c) != fp_pre) mon.viol("c11.conforming_mesh_state_changed", "a conforming mesh was left in a different state by a pass"); }
            R bound = 100 * ((R)E + bound_len) + 1e4L;
            if (!((R)pops <= bound)) mon.viol("c11.operation_bound_exceeded", "a pass performed more operations than 100*(E+sum (len/lmax)^2)+1e4");
        }
        // ---- (e) the pass repeated at once (cell_divider::run refines the daughters and solver::run_iteration refines them again before any
        //      cache refresh).  In regime A every cached area was fresh when the first pass started and the operations of a pass maintain the
        //      caches of the faces they touch, so a mesh that satisfies band and quality rule by its TRUE geometry must be left unchanged.
        if (mon.oracle_c11 && mon.regimeA && mon.viol_key.empty() && !threw && g.coin(0.4)) {
            const bool conf2 = oracle_conforming(*c, lmin, lmax, swaps, false); const uint64_t fp2 = conf2 ? rmu::fingerprint(*c) : 0; const long ops2 = mon.opcount;
            try { lmr.refine_mesh(c); passes_done++; } catch (const std::exception& ex) { threw = true; throw_what = ex.what(); }
            mon.n_pass++; if (mon.pend_swap) { mon.n_swap_refused++; mon.pend_swap = false; }
            if (threw) break;
            if (conf2) { repeated_conforming++; if (mon.opcount != ops2) mon.viol("c11.conforming_mesh_modified:repeated_pass", "a pass repeated at once on a mesh that satisfies the length band and the quality rule (true geometry) performed " + std::to_string(mon.opcount - ops2) + " operations");
                else if (rmu::fingerprint(*c) != fp2) mon.viol("c11.conforming_mesh_state_changed:repeated_pass", "a repeated pass left a conforming mesh in a different state"); }
            if (mon.oracle_c01 && mon.viol_key.empty()) { rmu::Inv r = rmu::check_cell(*c, true, nullptr); if (!r.ok) mon.viol("c01." + r.key + "@repeated_pass", r.msg); }
        }
    }
    mon.on = false; g_mon = nullptr;
    if (!mon.viol_key.empty()) cs.viol(mon.viol_key, mon.viol_msg);
    cs.nontrivial = mon.n_split > 0 && mon.n_merge > 0;
    uint64_t h = 0x51; for (char ch : mon.opseq) h = hash_combine(h, (uint64_t)ch);
    h = hash_combine(h, (uint64_t)c->get_nb_of_faces()); h = hash_combine(h, (uint64_t)c->get_nb_of_nodes()); cs.sig = h;
    cs.obs.s("shape", m.name).i("faces0", (long)m.T.size()).i("faces_end", (long)c->get_nb_of_faces()).i("faces_max", faces_max).d("scale", scale).d("lmin_over_mean_edge", lmin / (gen::mean_edge(m))).d("lmax_over_lmin", ratio)
        .b("swaps", swaps).b("regimeA", mon.regimeA).i("passes", passes_done).i("splits", mon.n_split).i("merges", mon.n_merge).i("swaps_done", mon.n_swap).i("swaps_refused", mon.n_swap_refused)
        .i("merges_refused", mon.n_merge_refused).i("rebases", rebases).i("direct_ops", direct_ops).i("invariant_checks", mon.inv_checks).i("conforming_checked", conforming_checked).i("repeated_conforming", repeated_conforming).b("threw", threw).s("throw_what", throw_what.substr(0, 120)).i("sample_every", mon.sample_every).b("fan_refused", fan && mon.n_merge_refused > 0);
    return cs.line();
}

static int cmd_remesh(const Args& a) {
    Agg agg; agg.max_samples = 4;
    const double cpu_limit = a.getd("cpu_limit", 120);
    for (long i = a.first; i < a.first + a.cases; i++) {
        if (!a.mine(i)) continue;
        IsoResult r = run_isolated([&]() { return run_history(a, i); }, cpu_limit, cpu_limit * 3);
        if (!r.completed) { emit(crash_line(i, r)); agg.evaluations++; agg.bin(r.timeout ? "timeout" : "crash"); continue; }
        // re-parse the few fields we need for aggregation (cheap hand parsing of our own output)
        {
            const std::string& L = r.line; Case c(i);
            auto num = [&](const std::string& k) -> long { size_t p = L.find("\"" + k + "\":"); if (p == std::string::npos) return 0; return atol(L.c_str() + p + k.size() + 3); };
            auto flag = [&](const std::string& k) -> bool { size_t p = L.find("\"" + k + "\":"); return p != std::string::npos && L.compare(p + k.size() + 3, 4, "true") == 0; };
            bool viol = L.find("\"v\":\"viol\"") != std::string::npos; bool skip = L.find("\"v\":\"skip\"") != std::string::npos;
            agg.evaluations++;
            if (skip) { agg.skipped++; agg.bin("skipped_generator_reject"); continue; }
            agg.bin("splits", num("splits")); agg.bin("merges", num("merges")); agg.bin("swaps_done", num("swaps_done")); agg.bin("swaps_refused", num("swaps_refused")); agg.bin("merges_refused", num("merges_refused"));
            agg.bin("passes", num("passes")); agg.bin("rebases", num("rebases")); agg.bin("direct_ops", num("direct_ops")); agg.bin("invariant_checks", num("invariant_checks")); agg.bin("conforming_checked", num("conforming_checked")); agg.bin("repeated_pass_on_conforming_mesh", num("repeated_conforming"));
            { size_t p = L.find("\"shape\":\""); if (p != std::string::npos) { std::string w = L.substr(p + 9, 24), sl; for (char ch : w) { if (ch == '"') break; if (!std::isdigit((unsigned char)ch)) sl += ch; } agg.bin("shape:" + sl); } }
            if (flag("threw")) { agg.bin("histories_ended_by_exception"); size_t p = L.find("\"throw_what\":\""); if (p != std::string::npos) { std::string w = L.substr(p + 14, 60), sl; for (char ch : w) { if (ch == '"') break; if (std::isalpha((unsigned char)ch)) sl += ch; else if (ch == ' ' && !sl.empty() && sl.back() != '_') sl += '_'; } agg.bin("exception:" + sl.substr(0, 48)); } } if (flag("regimeA")) agg.bin("regimeA_histories"); else agg.bin("regimeB_histories"); if (flag("swaps")) agg.bin("histories_with_swaps_enabled");
            if (flag("fan_refused")) agg.bin("fan_histories_with_refused_pole_collapse");
            agg.maxi("faces_max", (double)num("faces_max"));
            if (flag("nt")) { agg.nontrivial++; size_t p = L.find("\"sig\":\""); if (p != std::string::npos) agg.sigs[strtoull(L.substr(p + 7, 16).c_str(), nullptr, 16)] = 1; }
            if (viol) { agg.viol_total++; if (agg.viol_total <= (long)agg.max_viol) emit(L); }
            else if (agg.samples.size() < agg.max_samples && flag("nt")) agg.samples.push_back(L);
        }
    }
    agg.flush(a.shard_i);
    return 0;
}
static Reg r_remesh("remesh", cmd_remesh);

}  // namespace
