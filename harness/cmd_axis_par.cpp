// C12 — the longest axis asked for by several threads at once.  cell_divider::run asks every dividing cell for its division axis inside an OpenMP
// loop over the cells; get_cell_longest_axis goes through the eigen solver of mat33.  axis_par builds a population of differently rotated
// elongated cells, takes the longest axis of each cell alone (one thread) and then lets a.threads threads ask for the axes of all cells at the
// same time, round after round: every answer must be bitwise the answer the cell gave alone.  State shared between calls (static scratch
// buffers of the eigen solver, caches) shows up as another cell's axis or a mixture.  The same workload runs under ThreadSanitizer.
#include "vh.hpp"
#include "gen.hpp"
#include "oracle.hpp"
#include <omp.h>
#include <atomic>

using namespace vh;

static int cmd_axis_par(const Args& a) {
    Agg agg;
    for (long i = a.first; i < a.first + a.cases; i++) {
        if (!a.mine(i)) continue;
        Rng g(a.seed, (uint64_t)i, 0x12a); Case c(i);
        const int ncell = g.range(8, 32), rounds = (int)a.geti("rounds", 200);
        std::vector<cell_ptr> L; auto ct = gen::default_cell_type(3, 0);
        for (int k = 0; k < ncell; k++) { gen::TriMesh m = g.coin(0.5) ? gen::icosphere(g.range(1, 2)) : gen::random_shape(g, 300); gen::scale(m, g.uni(1.3, 3), 1, g.uni(0.5, 0.9)); gen::jitter(m, g, 0.02); gen::rotate(m, gen::rot_random(g));
            const double sc = g.logu(1e-6, 1); gen::scale(m, sc, sc, sc); gen::translate(m, sc * g.uni(-5, 5), sc * g.uni(-5, 5), sc * g.uni(-5, 5));
            try { L.push_back(gen::make_cell<epithelial_cell>(m, (unsigned)k, ct)); } catch (const std::exception&) {} }
        if (L.size() < 4) { c.v = "skip"; agg.add(c); continue; }
        const int n = (int)L.size(); std::vector<std::array<double, 3>> alone(n);
        omp_set_num_threads(1); for (int k = 0; k < n; k++) { vec3 ax = L[k]->get_cell_longest_axis(); alone[k] = {ax.dx(), ax.dy(), ax.dz()}; }
        // asked again alone: the answer of a cell must not depend on what was asked before
        long differs_serial = 0; for (int k = n - 1; k >= 0; k--) { vec3 ax = L[k]->get_cell_longest_axis(); if (ax.dx() != alone[k][0] || ax.dy() != alone[k][1] || ax.dz() != alone[k][2]) differs_serial++; }
        std::atomic<long> wrong{0}, asked{0}; std::atomic<int> first_cell{-1}, first_round{-1};
        omp_set_num_threads(a.threads);
        for (int r = 0; r < rounds; r++) {
#pragma omp parallel for schedule(dynamic, 1)
            for (int k = 0; k < n; k++) { vec3 ax = L[k]->get_cell_longest_axis(); asked++;
                if (ax.dx() != alone[k][0] || ax.dy() != alone[k][1] || ax.dz() != alone[k][2]) { wrong++; int e = -1; if (first_cell.compare_exchange_strong(e, k)) first_round = r; } }
        }
        omp_set_num_threads(1);
        if (differs_serial) c.viol("axis_depends_on_earlier_calls", std::to_string(differs_serial) + " cells returned another longest axis when asked a second time (one thread, other cells asked in between)");
        else if (wrong.load()) c.viol("axis_concurrent_differs_from_alone", std::to_string(wrong.load()) + " of " + std::to_string(asked.load()) + " longest axes asked for by " + std::to_string(a.threads) + " threads at the same time differ from the axis the same cell returns alone (first: cell " + std::to_string(first_cell.load()) + " in round " + std::to_string(first_round.load()) + ")");
        c.nontrivial = true; c.sig = hash_combine(hash_combine((uint64_t)n, hash_double(alone[0][0])), hash_double(alone[n - 1][2]));
        c.obs.i("cells", n).i("rounds", rounds).i("threads", a.threads).i("axes_asked_concurrently", asked.load());
        agg.bin("axis_par_populations"); agg.bin("axes_asked_concurrently", asked.load());
        agg.add(c);
    }
    agg.flush(a.shard_i);
    return 0;
}
static Reg r_ap("axis_par", cmd_axis_par);
