// C01 oracle: closed, consistently oriented genus-0 2-manifold + agreement of the cell's own bookkeeping
// with what can be recomputed from the triangle list alone.  Used by remesh / division / solver monitors.
#pragma once
#include "gen.hpp"
#include "oracle.hpp"
#include <set>
#include <map>

namespace rmu {

struct Inv {
    bool ok = true; std::string key, msg;
    void fail(const std::string& k, const std::string& m) { if (ok) { ok = false; key = k; msg = m; } }
};

inline std::string topo_slug(const std::string& why) {
    if (why.rfind("V-E+F", 0) == 0) return "euler_characteristic";
    std::string s; for (char ch : why) { if (ch == '(') break; if (ch == ' ' || ch == '-') s += '_'; else if (std::isalpha((unsigned char)ch)) s += ch; }
    while (!s.empty() && s.back() == '_') s.pop_back();
    if (s.size() > 48) s.resize(48);
    return s;
}

// normal_mask: per face slot, 1 = the cached normal of this slot must agree with its winding (nullptr = all live faces)
inline Inv check_cell(const cell& c, bool check_normals, const std::vector<char>* normal_mask = nullptr, bool require_positive_volume = true, orc::Geo* geo_out = nullptr, orc::Topo* topo_out = nullptr) {
    Inv r;
    std::vector<orc::V3> P; std::vector<orc::Tri> T; std::vector<char> used; std::vector<unsigned> live, fslot;
    gen::extract(c, P, T, &used, &live, &fslot);
    const auto& nl = cell_tester::nodes(c); const auto& fl = cell_tester::faces(c);
    orc::Topo t = orc::check_topology(T, &live, nl.size(), &used);
    if (topo_out) *topo_out = t;
    if (!t.ok) { r.fail("topology:" + topo_slug(t.why), t.why); return r; }
    // --- bookkeeping ---------------------------------------------------------------------------
    if (c.get_nb_of_nodes() != live.size()) { r.fail("bookkeeping:node_count", "get_nb_of_nodes() != number of live node slots"); return r; }
    if (c.get_nb_of_faces() != T.size()) { r.fail("bookkeeping:face_count", "get_nb_of_faces() != number of live face slots"); return r; }
    {
        std::vector<unsigned> fq = cell_tester::free_nodes(c), exp; std::sort(fq.begin(), fq.end());
        for (size_t i = 0; i < nl.size(); i++) if (!nl[i].is_used()) exp.push_back((unsigned)i);
        if (fq != exp) { r.fail("bookkeeping:free_node_queue", "free node queue is not exactly the set of unused node slots"); return r; }
        std::vector<unsigned> ff = cell_tester::free_faces(c), expf; std::sort(ff.begin(), ff.end());
        for (size_t i = 0; i < fl.size(); i++) if (!fl[i].is_used()) expf.push_back((unsigned)i);
        if (ff != expf) { r.fail("bookkeeping:free_face_queue", "free face queue is not exactly the set of unused face slots"); return r; }
    }
    for (unsigned i : live) if (nl[i].get_local_id() != i) { r.fail("bookkeeping:node_id", "a live node's id differs from its slot index"); return r; }
    for (unsigned s : fslot) {
        if (cell_tester::face_id(fl[s]) != s) { r.fail("bookkeeping:face_id", "a live face's local id differs from its slot index"); return r; }
        if (cell_tester::owner(fl[s]).get() != &c) { r.fail("bookkeeping:owner_cell", "a live face's owner cell is not the containing cell"); return r; }
    }
    {
        std::map<std::pair<unsigned, unsigned>, std::vector<unsigned>> em;
        for (size_t k = 0; k < T.size(); k++) { unsigned v[3] = {T[k].a, T[k].b, T[k].c}; for (int j = 0; j < 3; j++) { unsigned a = v[j], b = v[(j + 1) % 3]; em[{std::min(a, b), std::max(a, b)}].push_back(fslot[k]); } }
        const auto& es = cell_tester::edges(c);
        if (es.size() != em.size()) { r.fail("bookkeeping:edge_set_size", "edge set size differs from the number of edges of the triangle list"); return r; }
        for (const edge& e : es) {
            auto it = em.find({e.n1(), e.n2()});
            if (it == em.end()) { r.fail("bookkeeping:edge_set_extra_edge", "edge set holds an edge that no live triangle has"); return r; }
            if (!e.is_manifold()) { r.fail("bookkeeping:edge_set_face_missing", "an edge of the edge set does not record two faces"); return r; }
            unsigned f1 = e.f1(), f2 = e.f2(); auto& v = it->second;
            if (!(v.size() == 2 && ((v[0] == f1 && v[1] == f2) || (v[0] == f2 && v[1] == f1)))) { r.fail("bookkeeping:edge_set_faces", "edge-to-face adjacency disagrees with the triangle list"); return r; }
        }
    }
    // --- geometry --------------------------------------------------------------------------------
    orc::Geo g = orc::geometry(P, T); if (geo_out) *geo_out = g;
    orc::R L2 = 0; for (int k = 0; k < 3; k++) L2 = std::max(L2, (g.hi[k] - g.lo[k]) * (g.hi[k] - g.lo[k]));
    if (check_normals) {
        for (size_t k = 0; k < T.size(); k++) {
            unsigned s = fslot[k]; if (normal_mask && (s >= normal_mask->size() || !(*normal_mask)[s])) continue;
            orc::V3 w = (P[T[k].b] - P[T[k].a]).cross(P[T[k].c] - P[T[k].a]);
            if (w.norm() / 2 < 1e-14L * L2) continue;
            const vec3& n = cell_tester::face_normal(fl[s]);
            orc::R d = w.x * n.dx() + w.y * n.dy() + w.z * n.dz();
            if (!(d > 0)) { r.fail("cached_normal_opposes_winding", "a triangle's cached normal does not point to the side given by its winding"); return r; }
        }
    }
    if (require_positive_volume && !(g.volume > 0)) { r.fail("negative_signed_volume", "surface is not oriented outward (own signed volume <= 0)"); return r; }
    return r;
}

// geometric + label fingerprint of a cell, independent of slot numbering: sorted triangles as coordinate triples
inline uint64_t fingerprint(const cell& c, bool with_state = true) {
    const auto& nl = cell_tester::nodes(c); const auto& fl = cell_tester::faces(c);
    std::vector<uint64_t> hs;
    for (const face& f : fl) if (f.is_used()) {
        unsigned v[3] = {cell_tester::n1(f), cell_tester::n2(f), cell_tester::n3(f)}; uint64_t hv[3];
        for (int k = 0; k < 3; k++) { const node& n = nl[v[k]]; uint64_t h = vh::hash_combine(vh::hash_double(n.pos().dx()), vh::hash_combine(vh::hash_double(n.pos().dy()), vh::hash_double(n.pos().dz())));
#if DYNAMIC_MODEL_INDEX == 0
            if (with_state) h = vh::hash_combine(h, vh::hash_combine(vh::hash_double(n.momentum().dx()), vh::hash_combine(vh::hash_double(n.momentum().dy()), vh::hash_double(n.momentum().dz()))));
#endif
            hv[k] = h; }
        // rotation-invariant combination that keeps orientation: min over the 3 rotations
        uint64_t best = ~0ULL; for (int r0 = 0; r0 < 3; r0++) { uint64_t h = vh::hash_combine(hv[r0], vh::hash_combine(hv[(r0 + 1) % 3], hv[(r0 + 2) % 3])); best = std::min(best, h); }
        if (with_state) best = vh::hash_combine(best, cell_tester::type_id(f));
        hs.push_back(best);
    }
    std::sort(hs.begin(), hs.end()); uint64_t h = 0x1234; for (uint64_t x : hs) h = vh::hash_combine(h, x); return h;
}

}  // namespace rmu
