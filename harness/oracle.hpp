// Oracles that share nothing with the repository's numerics: own vector type (long double),
// own topology builder, own closest-point-on-triangle, own volume / area / centroid.
#pragma once
#include <vector>
#include <array>
#include <map>
#include <set>
#include <string>
#include <algorithm>
#include <cmath>
#include <cstdint>
#include <sstream>

namespace orc {

typedef long double R;
struct V3 {
    R x = 0, y = 0, z = 0;
    V3() {}
    V3(R a, R b, R c) : x(a), y(b), z(c) {}
    V3 operator+(const V3& o) const { return V3(x + o.x, y + o.y, z + o.z); }
    V3 operator-(const V3& o) const { return V3(x - o.x, y - o.y, z - o.z); }
    V3 operator*(R s) const { return V3(x * s, y * s, z * s); }
    V3 operator/(R s) const { return V3(x / s, y / s, z / s); }
    V3& operator+=(const V3& o) { x += o.x; y += o.y; z += o.z; return *this; }
    R dot(const V3& o) const { return x * o.x + y * o.y + z * o.z; }
    V3 cross(const V3& o) const { return V3(y * o.z - z * o.y, z * o.x - x * o.z, x * o.y - y * o.x); }
    R n2() const { return x * x + y * y + z * z; }
    R norm() const { return std::sqrt(n2()); }
};
inline V3 operator*(R s, const V3& v) { return v * s; }

struct Tri { unsigned a, b, c; };

// ---------------------------------------------------------------------------------------------
// Topology of a triangle list, from the list alone.
struct Topo {
    bool ok = true;
    std::string why;          // first failure
    long V = 0, E = 0, F = 0;
    void fail(const std::string& w) { if (ok) { ok = false; why = w; } }
};

inline uint64_t ekey(unsigned a, unsigned b) { return ((uint64_t)a << 32) | b; }

// tris: live triangles (node indices); live_nodes: indices of nodes flagged live (may be empty => not checked)
inline Topo check_topology(const std::vector<Tri>& tris, const std::vector<unsigned>* live_nodes = nullptr, size_t node_slots = 0, const std::vector<char>* node_used = nullptr) {
    Topo t; t.F = (long)tris.size();
    if (tris.size() < 4) { t.fail("fewer than 4 triangles"); return t; }
    std::vector<uint64_t> directed; directed.reserve(tris.size() * 3);
    std::vector<std::array<unsigned, 3>> sorted_tris; sorted_tris.reserve(tris.size());
    std::vector<unsigned> verts; verts.reserve(tris.size() * 3);
    for (size_t i = 0; i < tris.size(); i++) {
        const Tri& f = tris[i];
        if (f.a == f.b || f.b == f.c || f.a == f.c) { t.fail("triangle repeats a node"); return t; }
        if (node_slots && (f.a >= node_slots || f.b >= node_slots || f.c >= node_slots)) { t.fail("triangle refers to a node index out of range"); return t; }
        if (node_used && (!(*node_used)[f.a] || !(*node_used)[f.b] || !(*node_used)[f.c])) { t.fail("live triangle refers to a dead node"); return t; }
        std::array<unsigned, 3> s = {f.a, f.b, f.c}; std::sort(s.begin(), s.end()); sorted_tris.push_back(s);
        verts.push_back(f.a); verts.push_back(f.b); verts.push_back(f.c);
        directed.push_back(ekey(f.a, f.b)); directed.push_back(ekey(f.b, f.c)); directed.push_back(ekey(f.c, f.a));
    }
    std::sort(sorted_tris.begin(), sorted_tris.end());
    if (std::adjacent_find(sorted_tris.begin(), sorted_tris.end()) != sorted_tris.end()) { t.fail("two live triangles over the same three nodes"); return t; }
    std::sort(directed.begin(), directed.end());
    if (std::adjacent_find(directed.begin(), directed.end()) != directed.end()) { t.fail("a directed edge is used by more than one triangle (non-manifold or inconsistent orientation)"); return t; }
    long und = 0;
    for (uint64_t k : directed) {
        unsigned a = (unsigned)(k >> 32), b = (unsigned)(k & 0xffffffffu);
        if (!std::binary_search(directed.begin(), directed.end(), ekey(b, a))) { t.fail("an edge has only one triangle (open surface or inconsistent orientation)"); return t; }
        if (a < b) und++;
    }
    std::sort(verts.begin(), verts.end()); verts.erase(std::unique(verts.begin(), verts.end()), verts.end());
    t.V = (long)verts.size(); t.E = und;
    if (t.V - t.E + t.F != 2) { std::ostringstream o; o << "V-E+F=" << (t.V - t.E + t.F) << " (V=" << t.V << ",E=" << t.E << ",F=" << t.F << ")"; t.fail(o.str()); return t; }
    // vertex links: each must be a single cycle.  entry (v, b, c) for triangle (v,b,c): around v, b is followed by c
    struct L { unsigned v, b, c; };
    std::vector<L> lk; lk.reserve(tris.size() * 3);
    for (const Tri& f : tris) { lk.push_back({f.a, f.b, f.c}); lk.push_back({f.b, f.c, f.a}); lk.push_back({f.c, f.a, f.b}); }
    std::sort(lk.begin(), lk.end(), [](const L& x, const L& y) { return x.v != y.v ? x.v < y.v : x.b < y.b; });
    for (size_t i = 0; i < lk.size();) {
        size_t j = i; while (j < lk.size() && lk[j].v == lk[i].v) j++;
        size_t n = j - i; unsigned start = lk[i].b, cur = start; size_t steps = 0;
        do {
            // find entry (v, cur)
            size_t lo = i, hi = j; while (lo < hi) { size_t mid = (lo + hi) / 2; if (lk[mid].b < cur) lo = mid + 1; else hi = mid; }
            if (lo >= j || lk[lo].b != cur) { t.fail("vertex link is not closed"); return t; }
            cur = lk[lo].c; steps++;
        } while (cur != start && steps <= n);
        if (cur != start || steps != n) { t.fail("vertex link is not a single cycle (pinched vertex)"); return t; }
        i = j;
    }
    if (live_nodes) {
        if (live_nodes->size() != verts.size()) { t.fail("set of live nodes differs from the set of referenced nodes"); return t; }
        for (unsigned v : *live_nodes) if (!std::binary_search(verts.begin(), verts.end(), v)) { t.fail("a live node is not referenced by any triangle"); return t; }
    }
    return t;
}

// ---------------------------------------------------------------------------------------------
// Geometry (relative to a reference point to avoid cancellation)
struct Geo { R volume = 0, area = 0; V3 centroid; V3 ref; R lo[3], hi[3]; };

inline Geo geometry(const std::vector<V3>& P, const std::vector<Tri>& T) {
    Geo g;
    std::set<unsigned> used; for (auto& f : T) { used.insert(f.a); used.insert(f.b); used.insert(f.c); }
    V3 m; for (unsigned v : used) m += P[v];
    if (!used.empty()) m = m / (R)used.size();
    g.ref = m;
    for (int k = 0; k < 3; k++) { g.lo[k] = INFINITY; g.hi[k] = -INFINITY; }
    for (unsigned v : used) { R c[3] = {P[v].x, P[v].y, P[v].z}; for (int k = 0; k < 3; k++) { g.lo[k] = std::min(g.lo[k], c[k]); g.hi[k] = std::max(g.hi[k], c[k]); } }
    V3 cw;
    for (auto& f : T) {
        V3 a = P[f.a] - m, b = P[f.b] - m, c = P[f.c] - m;
        g.volume += a.dot(b.cross(c)) / 6;
        R ar = (b - a).cross(c - a).norm() / 2;
        g.area += ar;
        cw += (a + b + c) / 3 * ar;
    }
    g.centroid = g.area > 0 ? m + cw / g.area : m;
    return g;
}

// ---------------------------------------------------------------------------------------------
// Closest point on triangle abc to p: minimum over the plane projection (if inside) and the three
// clamped segment projections.  Returns squared distance and the closest point.
inline R seg_closest(const V3& p, const V3& a, const V3& b, V3& q) {
    V3 ab = b - a; R l2 = ab.n2(); R t = l2 > 0 ? (p - a).dot(ab) / l2 : 0; if (t < 0) t = 0; if (t > 1) t = 1;
    q = a + ab * t; return (p - q).n2();
}
// region: 0 interior, 1..3 edges ab,bc,ca, 4..6 vertices a,b,c (classification of the minimiser)
inline R closest_on_triangle(const V3& p, const V3& a, const V3& b, const V3& c, V3& q, int* region = nullptr) {
    V3 n = (b - a).cross(c - a); R nn = n.n2();
    R best = INFINITY; int reg = -1;
    if (nn > 0) {
        R t = (p - a).dot(n) / nn; V3 pr = p - n * t;
        // inside test by barycentric signs
        R w0 = (b - pr).cross(c - pr).dot(n), w1 = (c - pr).cross(a - pr).dot(n), w2 = (a - pr).cross(b - pr).dot(n);
        if (w0 >= 0 && w1 >= 0 && w2 >= 0) { best = (p - pr).n2(); q = pr; reg = 0; }
    }
    V3 qq; R d;
    d = seg_closest(p, a, b, qq); if (d < best) { best = d; q = qq; reg = 1; }
    d = seg_closest(p, b, c, qq); if (d < best) { best = d; q = qq; reg = 2; }
    d = seg_closest(p, c, a, qq); if (d < best) { best = d; q = qq; reg = 3; }
    if (reg >= 1) {
        R tol = 1e-30L;
        if ((q - a).n2() <= tol * (1 + a.n2())) reg = 4; else if ((q - b).n2() <= tol * (1 + b.n2())) reg = 5; else if ((q - c).n2() <= tol * (1 + c.n2())) reg = 6;
    }
    if (region) *region = reg;
    return best;
}

}  // namespace orc
