// Core of the verification harness "vh": argument parsing, counter-based PRNG, JSONL output,
// command registry and per-case process isolation.
#pragma once
#include <cstdint>
#include <cstdio>
#include <cstdlib>
#include <cstring>
#include <cmath>
#include <string>
#include <vector>
#include <map>
#include <array>
#include <functional>
#include <sstream>
#include <iomanip>
#include <limits>

namespace vh {

struct Args {
    std::string cmd;
    uint64_t seed = 1;
    long cases = 100;     // total number of cases of the run (all shards together)
    long first = 0;       // first case index
    int shard_i = 0, shard_n = 1;
    std::string out;      // JSONL output file ("" = stdout)
    long only = -1;       // run only this case index (replay)
    int threads = 1;
    std::string tier = "quick";
    std::map<std::string, std::string> kv;
    std::string get(const std::string& k, const std::string& d = "") const {
        auto it = kv.find(k); return it == kv.end() ? d : it->second;
    }
    long geti(const std::string& k, long d) const { auto it = kv.find(k); return it == kv.end() ? d : std::atol(it->second.c_str()); }
    double getd(const std::string& k, double d) const { auto it = kv.find(k); return it == kv.end() ? d : std::atof(it->second.c_str()); }
    bool mine(long i) const { if (only >= 0) return i == only; return (i % shard_n) == shard_i; }
};

inline uint64_t mix64(uint64_t z) {
    z += 0x9e3779b97f4a7c15ULL;
    z = (z ^ (z >> 30)) * 0xbf58476d1ce4e5b9ULL;
    z = (z ^ (z >> 27)) * 0x94d049bb133111ebULL;
    return z ^ (z >> 31);
}
inline uint64_t hash_combine(uint64_t a, uint64_t b) { return mix64(a ^ (mix64(b) + 0x9e3779b97f4a7c15ULL + (a << 6) + (a >> 2))); }
inline uint64_t hash_double(double d) { uint64_t u; std::memcpy(&u, &d, 8); return mix64(u); }
inline uint64_t hash_str(const std::string& s) { uint64_t h = 1469598103934665603ULL; for (unsigned char c : s) { h ^= c; h *= 1099511628211ULL; } return mix64(h); }

// Counter-based generator: the stream of case i depends on (seed, stream tag, i) only.
struct Rng {
    uint64_t s;
    Rng(uint64_t seed, uint64_t idx, uint64_t tag = 0) : s(hash_combine(hash_combine(seed, tag), idx)) {}
    uint64_t u64() { s += 0x9e3779b97f4a7c15ULL; uint64_t z = s; z = (z ^ (z >> 30)) * 0xbf58476d1ce4e5b9ULL; z = (z ^ (z >> 27)) * 0x94d049bb133111ebULL; return z ^ (z >> 31); }
    double uni() { return (u64() >> 11) * (1.0 / 9007199254740992.0); }
    double uni(double a, double b) { return a + (b - a) * uni(); }
    double logu(double a, double b) { return std::exp(uni(std::log(a), std::log(b))); }
    int range(int a, int b) { return a + (int)(u64() % (uint64_t)(b - a + 1)); } // inclusive
    bool coin(double p = 0.5) { return uni() < p; }
    double normal() { double u1 = uni(), u2 = uni(); if (u1 < 1e-300) u1 = 1e-300; return std::sqrt(-2.0 * std::log(u1)) * std::cos(6.283185307179586 * u2); }
    template <class T> const T& pick(const std::vector<T>& v) { return v[u64() % v.size()]; }
};

// Minimal JSON object builder
struct J {
    std::ostringstream os; bool first = true;
    J() { os << "{"; os << std::setprecision(17); }
    void key(const std::string& k) { if (!first) os << ","; first = false; os << "\"" << k << "\":"; }
    static std::string esc(const std::string& s) {
        std::string o; for (unsigned char c : s) { if (c == '"' || c == '\\') { o += '\\'; o += c; } else if (c == '\n') o += "\\n"; else if (c == '\t') o += "\\t"; else if (c < 0x20) { char b[8]; snprintf(b, 8, "\\u%04x", c); o += b; } else o += c; } return o;
    }
    J& s(const std::string& k, const std::string& v) { key(k); os << "\"" << esc(v) << "\""; return *this; }
    J& i(const std::string& k, long long v) { key(k); os << v; return *this; }
    J& u(const std::string& k, unsigned long long v) { key(k); os << v; return *this; }
    J& b(const std::string& k, bool v) { key(k); os << (v ? "true" : "false"); return *this; }
    J& d(const std::string& k, double v) { key(k); if (std::isfinite(v)) os << v; else os << "\"" << (std::isnan(v) ? "nan" : (v > 0 ? "inf" : "-inf")) << "\""; return *this; }
    J& raw(const std::string& k, const std::string& json) { key(k); os << json; return *this; }
    J& hex(const std::string& k, uint64_t v) { char b[32]; snprintf(b, 32, "%016llx", (unsigned long long)v); return s(k, b); }
    std::string str() const { return os.str() + "}"; }
};
inline std::string jarr(const std::vector<double>& v) { std::ostringstream o; o << std::setprecision(17) << "["; for (size_t i = 0; i < v.size(); i++) { if (i) o << ","; if (std::isfinite(v[i])) o << v[i]; else o << "null"; } o << "]"; return o.str(); }
inline std::string jv3(long double x, long double y, long double z) { return jarr(std::vector<double>{(double)x, (double)y, (double)z}); }
inline std::string jarrl(const std::vector<long>& v) { std::ostringstream o; o << "["; for (size_t i = 0; i < v.size(); i++) { if (i) o << ","; o << v[i]; } o << "]"; return o.str(); }
inline std::string jarrs(const std::vector<std::string>& v) { std::ostringstream o; o << "["; for (size_t i = 0; i < v.size(); i++) { if (i) o << ","; o << "\"" << J::esc(v[i]) << "\""; } o << "]"; return o.str(); }

void open_out(const std::string& path);
void emit(const std::string& line);   // append one JSONL line (flushed)

// One result line per case.  v: "ok" | "viol" | "skip" | "crash" | "inconclusive"
struct Case {
    long i; std::string v = "ok"; std::string key; std::string msg; uint64_t sig = 0; bool nontrivial = false; J obs;
    explicit Case(long idx) : i(idx) {}
    void viol(const std::string& k, const std::string& m) { if (v != "viol") { v = "viol"; key = k; msg = m; } }
    std::string line() const { J j; j.i("i", i).s("v", v); if (!key.empty()) j.s("key", key); if (!msg.empty()) j.s("msg", msg); j.hex("sig", sig).b("nt", nontrivial).raw("obs", obs.str()); return j.str(); }
};

// Aggregator for bulk commands: counts, named bins, a few samples, distinct signatures, and the first
// violations.  One "summary" line is emitted per shard; violations are emitted as ordinary case lines.
struct Agg {
    long evaluations = 0, nontrivial = 0, skipped = 0, viol_total = 0; size_t max_samples = 6, max_viol = 25;
    std::map<std::string, long> bins; std::vector<std::string> samples; std::map<uint64_t, char> sigs; std::map<std::string, double> maxima;
    void bin(const std::string& b, long n = 1) { bins[b] += n; }
    void maxi(const std::string& k, double v) { auto it = maxima.find(k); if (it == maxima.end() || v > it->second) maxima[k] = v; }
    void add(const Case& c) {
        evaluations++; if (c.v == "skip") skipped++;
        if (c.nontrivial) { nontrivial++; sigs[c.sig] = 1; }
        if (c.v == "viol") { viol_total++; if (viol_total <= (long)max_viol) emit(c.line()); }
        else if (samples.size() < max_samples && c.nontrivial) samples.push_back(c.line());
    }
    void flush(int shard_i) {
        J j; j.b("summary", true).i("shard", shard_i).i("evaluations", evaluations).i("nontrivial", nontrivial).i("skipped", skipped).i("viol_total", viol_total).i("distinct", (long long)sigs.size());
        { J b; for (auto& kv : bins) b.i(kv.first, kv.second); j.raw("bins", b.str()); }
        { J b; for (auto& kv : maxima) b.d(kv.first, kv.second); j.raw("maxima", b.str()); }
        { std::ostringstream o; o << "["; for (size_t k = 0; k < samples.size(); k++) { if (k) o << ","; o << samples[k]; } o << "]"; j.raw("samples", o.str()); }
        if (sigs.size() <= 20000) { std::ostringstream o; o << "["; bool f = true; for (auto& kv : sigs) { if (!f) o << ","; f = false; char b[24]; snprintf(b, 24, "\"%016llx\"", (unsigned long long)kv.first); o << b; } o << "]"; j.raw("sigs", o.str()); }
        emit(j.str());
    }
};

using CmdFn = int (*)(const Args&);
struct Reg { Reg(const char* name, CmdFn f); };
std::map<std::string, CmdFn>& registry();

// ---- process isolation ------------------------------------------------------------------------
struct IsoResult {
    bool completed = false;      // child produced a result line and exited 0
    int exit_code = -1; int signal = 0; bool timeout = false;
    std::string line;            // what the child returned
    std::string err;             // captured stderr (tail)
    double cpu_s = 0; long maxrss_kb = 0;
};
// Runs body in a forked child (the parent must never have opened an OpenMP parallel region).
IsoResult run_isolated(const std::function<std::string()>& body, double cpu_limit_s = 120, double wall_limit_s = 300, size_t as_limit_mb = 0);
// JSON line for a case that crashed / timed out in the child (check.py derives the stable key from "err")
std::string crash_line(long idx, const IsoResult& r, const std::string& extra_obs_json = "{}");

}  // namespace vh
