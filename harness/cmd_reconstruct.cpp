// C13 — initial surface reconstruction returns a faithful closed mesh or fails cleanly.
//
// Every case writes a generated polyhedron file (own legacy-VTK emitter), runs the repository's
// simulation_initializer on it in a forked child with deterministic seeding of the clock-seeded generators
// (hook H2) and judges the outcome with code that shares nothing with the repository:
//   A  cells are returned: as many as the file holds, each a closed, connected, outward oriented genus-0
//      triangulation with consistent bookkeeping (rmu::check_cell + own connectivity test) that approximates
//      the input polyhedron (bounding box, enclosed volume, node-to-surface distance, all relative to l_min);
//   B  an intialization_exception (spelling of the repository) reaches the caller;
//   anything else (another exception type, invalid cell, wrong cell count, an accepted input that must be
//   rejected) is a violation.  terminate() caused by an exception that cannot propagate is an "escaping
//   exception" violation; other crashes and time-outs are reported as crash lines (owned by C10).
// The Poisson point cloud of the public poisson_sampling::compute_poisson_point_cloud is checked separately
// (pairwise spacing >= l_min, points on the input surface).
//
// Options (all optional; a case is a pure function of --seed, the case index and these):
//   --max_nodes=N   budget of sample points per file (l_min is raised to meet it)      --cpu_limit=S  per-case CPU limit
//   --c1= --c2= --c3=  override the frozen faithfulness constants (calibration: 1e9)    --dump_obs=1   emit every case line
//   --mode=0..4 (tri_on, tri_off_triangulated, tri_off_polygonal, tri_off_not_a_cell, tri_on_not_a_cell)  --bad_kind=0..6
//   --family=0..6  --ncell=K  --rho=R (l_min/size)  --flip_p=P  --rng_salt=K (other sampling outcomes on the same input)
//   --keep_files=1 (keep the generated .vtk in the working directory)  --no_cloud=1 (skip the point-cloud check)
#include "vh.hpp"
#include "gen.hpp"
#include "oracle.hpp"
#include "remesh_util.hpp"
#include "verif_hooks.hpp"
#include "simulation_initializer.hpp"
#include "poisson_sampling.hpp"
#include <unistd.h>
#include <omp.h>
#include <cxxabi.h>
#include <typeinfo>
#include <mutex>

using namespace vh;
using orc::V3; using orc::R;

namespace {

// ------------------------------------------------------------------------------------------------
// Tolerance constants of outcome A, all in units of l_min (resolution dependent).  Initial values 3 / 1 / 4 from the geometry of the
// algorithm (DESIGN.md); calibration soak on the tree with the proposed fixes applied (plain flavour, constants disabled):
// 28 800 input files, 18 284 files / 34 000+ cells accepted with triangulation enabled; largest deviations observed on accepted
// cells: bounding-box shrink 1.747 l_min, |V-V_in| = 0.375 l_min A_in, node-to-surface distance 1.577 l_min (all three maxima but
// the volume one come from a single cube whose corner region was closed by the hole filling; without it 1.39 / 0.375 / 0.96).
//   C1 = 3.0 (1.72 x max): a side of the bounding box of the cell may lie at most C1*l_min inside the bounding box of the input
//       (samples are >= l_min apart and not maximal; a filled hole of <= 12 boundary nodes can cut a corner)
//   C2 = 0.7 (1.87 x max): |V - V_in| <= C2 * l_min * A_in  (a shell of thickness ~ l_min around the input surface); the tail of the
//       observed distribution falls by a factor 5-10 per 0.05
//   C3 = 4.0 (2.54 x max): every node within C3*l_min of the input surface (sample points are on the surface up to rounding; a
//       hole-centre node is the centroid of <= 12 boundary samples: heavy tail, hence the larger factor)
// They are deliberately loose: their job is to catch gross unfaithfulness (wrong scale, mirrored, part of the body missing at
// fine and moderate resolution); the sharp oracles are the manifold/orientation/volume test, the exception discipline and the
// spacing test.  At l_min/size >= ~0.3 the body is only a few l_min across and these bounds cannot tell a partial patch from a cell.
static const double C1_DEFAULT = 3.0, C2_DEFAULT = 0.7, C3_DEFAULT = 4.0;

// ------------------------------------------------------------------------------------------------
// deterministic seeds for the repository's generators: hash(base, site, context, n-th call of this site/context)
static uint64_t g_rng_base = 0; static std::map<std::pair<int, uint64_t>, uint64_t> g_rng_ctr; static std::mutex g_rng_mu; static long g_rng_calls = 0;
static uint64_t rng_sink(int site, uint64_t ctx) {
    uint64_t n; { std::lock_guard<std::mutex> lk(g_rng_mu); n = g_rng_ctr[{site, ctx}]++; g_rng_calls++; }
    return hash_combine(hash_combine(hash_combine(g_rng_base, (uint64_t)site), ctx), n);
}

// ------------------------------------------------------------------------------------------------
// polygonal closed surfaces
struct PFace { std::vector<unsigned> v; bool convex = true; };
struct Poly {
    std::vector<std::array<double, 3>> P; std::vector<PFace> F; std::string family; double thick = 1;
};
typedef std::vector<std::array<double, 2>> Poly2;

static Poly box_poly(int n, double hx, double hy, double hz) {
    Poly m; std::map<std::array<long, 3>, unsigned> idx;
    auto vid = [&](long i, long j, long k) -> unsigned { std::array<long, 3> key = {i, j, k}; auto it = idx.find(key); if (it != idx.end()) return it->second;
        m.P.push_back({hx * (2.0 * i / n - 1), hy * (2.0 * j / n - 1), hz * (2.0 * k / n - 1)}); return idx[key] = (unsigned)m.P.size() - 1; };
    auto quad = [&](unsigned a, unsigned b, unsigned c, unsigned d) { PFace f; f.v = {a, b, c, d}; m.F.push_back(f); };
    for (long u = 0; u < n; u++) for (long v = 0; v < n; v++) {
        quad(vid(u, v, 0), vid(u, v + 1, 0), vid(u + 1, v + 1, 0), vid(u + 1, v, 0));
        quad(vid(u, v, n), vid(u + 1, v, n), vid(u + 1, v + 1, n), vid(u, v + 1, n));
        quad(vid(u, 0, v), vid(u + 1, 0, v), vid(u + 1, 0, v + 1), vid(u, 0, v + 1));
        quad(vid(u, n, v), vid(u, n, v + 1), vid(u + 1, n, v + 1), vid(u + 1, n, v));
        quad(vid(0, u, v), vid(0, u, v + 1), vid(0, u + 1, v + 1), vid(0, u + 1, v));
        quad(vid(n, u, v), vid(n, u + 1, v), vid(n, u + 1, v + 1), vid(n, u, v + 1));
    }
    m.thick = 2 * std::min({hx, hy, hz});
    return m;
}
// prism over a counter-clockwise polygon, z in [-h, h], sides split in `layers`
static Poly prism_poly(const Poly2& pg, double h, int layers, bool cap_convex) {
    Poly m; const int n = (int)pg.size();
    for (int l = 0; l <= layers; l++) for (int i = 0; i < n; i++) m.P.push_back({pg[i][0], pg[i][1], -h + 2 * h * l / layers});
    auto ring = [&](int l, int i) -> unsigned { return (unsigned)(l * n + ((i % n + n) % n)); };
    PFace bot, top; bot.convex = top.convex = cap_convex;
    for (int i = n - 1; i >= 0; i--) bot.v.push_back(ring(0, i));
    for (int i = 0; i < n; i++) top.v.push_back(ring(layers, i));
    m.F.push_back(bot); m.F.push_back(top);
    for (int l = 0; l < layers; l++) for (int i = 0; i < n; i++) { PFace f; f.v = {ring(l, i), ring(l, i + 1), ring(l + 1, i + 1), ring(l + 1, i)}; m.F.push_back(f); }
    double lo[2] = {1e300, 1e300}, hi[2] = {-1e300, -1e300}; for (auto& p : pg) for (int d = 0; d < 2; d++) { lo[d] = std::min(lo[d], p[d]); hi[d] = std::max(hi[d], p[d]); }
    m.thick = std::min({2 * h, hi[0] - lo[0], hi[1] - lo[1]});
    return m;
}
static Poly uv_poly(int nu, int nv) {
    Poly m; m.P.push_back({0, 0, 1});
    for (int j = 1; j < nv; j++) { double th = M_PI * j / nv; for (int i = 0; i < nu; i++) { double ph = 2 * M_PI * i / nu; m.P.push_back({std::sin(th) * std::cos(ph), std::sin(th) * std::sin(ph), std::cos(th)}); } }
    m.P.push_back({0, 0, -1}); unsigned south = (unsigned)m.P.size() - 1;
    auto ring = [&](int j, int i) -> unsigned { return 1 + (unsigned)((j - 1) * nu + ((i % nu + nu) % nu)); };
    for (int i = 0; i < nu; i++) { PFace f; f.v = {0, ring(1, i), ring(1, i + 1)}; m.F.push_back(f); }
    for (int j = 1; j < nv - 1; j++) for (int i = 0; i < nu; i++) { PFace f; f.v = {ring(j, i), ring(j + 1, i), ring(j + 1, i + 1), ring(j, i + 1)}; m.F.push_back(f); }
    for (int i = 0; i < nu; i++) { PFace f; f.v = {south, ring(nv - 1, i + 1), ring(nv - 1, i)}; m.F.push_back(f); }
    m.thick = 2;
    return m;
}
static Poly from_trimesh(const gen::TriMesh& t) { Poly m; m.P = t.P; for (auto& f : t.T) { PFace pf; pf.v = {f[0], f[1], f[2]}; m.F.push_back(pf); } return m; }
static void pscale(Poly& m, double sx, double sy, double sz) { for (auto& p : m.P) { p[0] *= sx; p[1] *= sy; p[2] *= sz; } }
static void ptranslate(Poly& m, double x, double y, double z) { for (auto& p : m.P) { p[0] += x; p[1] += y; p[2] += z; } }
static void protate(Poly& m, const gen::Rot& r) { for (auto& p : m.P) p = gen::rapply(r, p); }
static void pappend(Poly& m, const Poly& o) { unsigned off = (unsigned)m.P.size(); m.P.insert(m.P.end(), o.P.begin(), o.P.end()); for (auto f : o.F) { for (auto& v : f.v) v += off; m.F.push_back(f); } }

// every face with more than 3 nodes must be star-shaped (with margin) w.r.t. the centroid of its nodes, because the
// repository fans such a face from that point
static bool faces_star_shaped(const Poly& m) {
    for (auto& f : m.F) { if (f.v.size() <= 3) continue; V3 c; for (unsigned v : f.v) c += V3(m.P[v][0], m.P[v][1], m.P[v][2]); c = c / (R)f.v.size();
        V3 n; std::vector<V3> t; for (size_t i = 0; i < f.v.size(); i++) { auto& a = m.P[f.v[i]]; auto& b = m.P[f.v[(i + 1) % f.v.size()]]; V3 w = (V3(a[0], a[1], a[2]) - c).cross(V3(b[0], b[1], b[2]) - c); t.push_back(w); n += w; }
        R nn = n.norm(); if (!(nn > 0)) return false;
        for (auto& w : t) if (!(w.dot(n) / nn > 0.02L * nn / (R)f.v.size())) return false; }
    return true;
}
// input surface as the repository reads it: triangles as they are, larger faces fanned from the centroid of their nodes
struct Surf { std::vector<V3> P; std::vector<orc::Tri> T; orc::Geo geo; std::vector<std::array<R, 6>> box; };
static Surf surface_of(const Poly& m) {
    Surf s; for (auto& p : m.P) s.P.push_back(V3(p[0], p[1], p[2]));
    for (auto& f : m.F) { if (f.v.size() == 3) { s.T.push_back({f.v[0], f.v[1], f.v[2]}); continue; }
        V3 c; for (unsigned v : f.v) c += s.P[v]; c = c / (R)f.v.size(); unsigned ci = (unsigned)s.P.size(); s.P.push_back(c);
        for (size_t i = f.v.size() - 1, j = 0; j < f.v.size(); i = j++) s.T.push_back({f.v[i], f.v[j], ci}); }
    s.geo = orc::geometry(s.P, s.T);
    for (auto& t : s.T) { std::array<R, 6> b; for (int d = 0; d < 3; d++) { R x[3] = {d == 0 ? s.P[t.a].x : d == 1 ? s.P[t.a].y : s.P[t.a].z, d == 0 ? s.P[t.b].x : d == 1 ? s.P[t.b].y : s.P[t.b].z, d == 0 ? s.P[t.c].x : d == 1 ? s.P[t.c].y : s.P[t.c].z}; b[d] = std::min({x[0], x[1], x[2]}); b[d + 3] = std::max({x[0], x[1], x[2]}); } s.box.push_back(b); }
    return s;
}
static R dist_to_surface(const Surf& s, const V3& p) {
    R best = INFINITY; V3 q;
    for (size_t k = 0; k < s.T.size(); k++) { const auto& b = s.box[k]; R c[3] = {p.x, p.y, p.z}, lb = 0;
        for (int d = 0; d < 3; d++) { R e = c[d] < b[d] ? b[d] - c[d] : c[d] > b[d + 3] ? c[d] - b[d + 3] : 0; lb += e * e; }
        if (lb >= best) continue;
        R d2 = orc::closest_on_triangle(p, s.P[s.T[k].a], s.P[s.T[k].b], s.P[s.T[k].c], q); if (d2 < best) best = d2; }
    return std::sqrt(best);
}

// face handling: triangulate (all / some) faces, flip windings
static void triangulate_faces(Poly& m, Rng& g, double p_face) {
    std::vector<PFace> out;
    for (auto& f : m.F) { if (f.v.size() == 3 || !g.coin(p_face)) { out.push_back(f); continue; }
        const size_t n = f.v.size();
        if (f.convex && g.coin(0.6)) { size_t k = g.u64() % n; for (size_t j = 1; j + 1 < n; j++) { PFace t; t.v = {f.v[k], f.v[(k + j) % n], f.v[(k + j + 1) % n]}; out.push_back(t); } }
        else { std::array<double, 3> c = {0, 0, 0}; for (unsigned v : f.v) for (int d = 0; d < 3; d++) c[d] += m.P[v][d]; for (auto& x : c) x /= (double)n; unsigned ci = (unsigned)m.P.size(); m.P.push_back(c);
            for (size_t i = 0; i < n; i++) { PFace t; t.v = {f.v[i], f.v[(i + 1) % n], ci}; out.push_back(t); } } }
    m.F = out;
}
static int flip_faces(Poly& m, Rng& g, double p) { int n = 0; for (auto& f : m.F) if (g.coin(p)) { std::reverse(f.v.begin(), f.v.end()); n++; } return n; }
static bool is_polygonal(const Poly& m) { for (auto& f : m.F) if (f.v.size() > 3) return true; return false; }

static const char* FAMILIES[] = {"cube", "box", "prism", "sphere", "ellipsoid", "lprism", "starprism", "dumbbell", "fine_tower"};
static Poly make_family(int fam, Rng& g) {
    Poly m;
    switch (fam) {
        case 0: { m = box_poly(g.range(1, 2), 1, 1, 1); break; }
        case 1: { m = box_poly(g.range(1, 2), 1, g.uni(0.5, 2), g.uni(0.5, 2)); break; }
        case 2: { int n = g.range(3, 8); Poly2 pg; double ph0 = g.uni(0, 6.28); for (int i = 0; i < n; i++) pg.push_back({std::cos(ph0 + 2 * M_PI * i / n), std::sin(ph0 + 2 * M_PI * i / n)}); m = prism_poly(pg, g.uni(0.5, 1.5), g.range(1, 2), true); break; }
        case 3: { if (g.coin(0.5)) m = uv_poly(g.range(6, 12), g.range(4, 8)); else m = from_trimesh(gen::icosphere(g.range(1, 2))); m.thick = 2; break; }
        case 4: { if (g.coin(0.5)) m = uv_poly(g.range(6, 12), g.range(4, 8)); else m = from_trimesh(gen::icosphere(g.range(1, 2))); double b = g.uni(0.45, 1), c = g.uni(0.45, 1); pscale(m, 1, b, c); m.thick = 2 * std::min(b, c); break; }
        case 5: { double a = g.uni(1.2, 2), d = g.uni(1.2, 2), c = a * g.uni(0.55, 0.9), b = d * g.uni(0.55, 0.9); Poly2 pg = {{0, 0}, {a, 0}, {a, b}, {c, b}, {c, d}, {0, d}};
            for (auto& p : pg) { p[0] -= a / 2; p[1] -= d / 2; } m = prism_poly(pg, g.uni(0.4, 1.0), 1, false); m.thick = std::min({m.thick, c, b}); break; }
        case 7: {   // dumbbell: 2-3 unit cubes in a row joined by square necks 0.04 wide and 0.5 long (closed, genus 0, every face a quad).  For every
            // l_min above ~0.05 the necks are thinner than the sampling distance: the reconstruction must then fail cleanly or still reproduce
            // all lobes; a front that swept one lobe only and was closed by the hole filling is neither
            const int nl = g.range(2, 3); const double w = 0.02, gap = 0.5; auto add = [&](double x, double y, double z) { m.P.push_back({x, y, z}); return (unsigned)m.P.size() - 1; };
            auto quad = [&](unsigned a, unsigned b, unsigned c, unsigned d) { PFace f; f.v = {a, b, c, d}; m.F.push_back(f); };
            std::vector<std::array<unsigned, 4>> holeL(nl), holeR(nl);
            for (int k = 0; k < nl; k++) { const double x0 = k * (1 + gap), x1 = x0 + 1;
                unsigned c[2][2][2]; for (int i = 0; i < 2; i++) for (int j = 0; j < 2; j++) for (int l = 0; l < 2; l++) c[i][j][l] = add(i ? x1 : x0, j, l);
                quad(c[0][0][0], c[1][0][0], c[1][0][1], c[0][0][1]); quad(c[0][1][0], c[0][1][1], c[1][1][1], c[1][1][0]);   // y = 0, y = 1
                quad(c[0][0][0], c[0][1][0], c[1][1][0], c[1][0][0]); quad(c[0][0][1], c[1][0][1], c[1][1][1], c[0][1][1]);   // z = 0, z = 1
                for (int side = 0; side < 2; side++) { const bool has = side == 0 ? k > 0 : k + 1 < nl; const double x = side ? x1 : x0; unsigned o[4] = {c[side][0][0], c[side][1][0], c[side][1][1], c[side][0][1]};   // (y,z): 00 10 11 01
                    if (!has) { if (side) quad(o[0], o[1], o[2], o[3]); else quad(o[0], o[3], o[2], o[1]); continue; }
                    unsigned h[4] = {add(x, 0.5 - w, 0.5 - w), add(x, 0.5 + w, 0.5 - w), add(x, 0.5 + w, 0.5 + w), add(x, 0.5 - w, 0.5 + w)};
                    for (int e = 0; e < 4; e++) { int e1 = (e + 1) % 4; if (side) quad(o[e], o[e1], h[e1], h[e]); else quad(o[e1], o[e], h[e], h[e1]); }
                    for (int e = 0; e < 4; e++) (side ? holeR[k][e] : holeL[k][e]) = h[e]; } }
            for (int k = 0; k + 1 < nl; k++) for (int e = 0; e < 4; e++) { int e1 = (e + 1) % 4; quad(holeR[k][e], holeR[k][e1], holeL[k + 1][e1], holeL[k + 1][e]); }
            ptranslate(m, -0.5 * (nl * (1 + gap) - gap), -0.5, -0.5); m.thick = 1; break; }
        case 8: {   // mixed resolution: a coarse cube (side 2, polygonal sides) whose top is a smooth tower of height 2.6-3.2 tessellated into 2 x 128^2 triangles.  At
            // l_min of 0.26-0.36 cube sides every triangle of the tower is smaller than the area one sample point stands for: the tower receives no sample at
            // all.  The reconstruction must then fail cleanly - a cube closed flat across the missing tower is not the input (its bounding box is > 3 l_min short)
            const int N = 128; const double h = g.uni(2.6, 3.2); auto add = [&](double x, double y, double z) { m.P.push_back({x, y, z}); return (unsigned)m.P.size() - 1; };
            const unsigned b00 = add(-1, -1, -1), b10 = add(1, -1, -1), b11 = add(1, 1, -1), b01 = add(-1, 1, -1); std::vector<unsigned> top((size_t)(N + 1) * (N + 1));
            for (int j = 0; j <= N; j++) for (int i = 0; i <= N; i++) { const double x = -1 + 2.0 * i / N, y = -1 + 2.0 * j / N; top[(size_t)j * (N + 1) + i] = add(x, y, 1 + h * (1 - x * x) * (1 - y * y)); }
            auto T = [&](int i, int j) { return top[(size_t)j * (N + 1) + i]; };
            { PFace f; f.v = {b00, b01, b11, b10}; m.F.push_back(f); }
            { PFace f; f.v = {b00, b10}; for (int i = N; i >= 0; i--) f.v.push_back(T(i, 0)); m.F.push_back(f); }
            { PFace f; f.v = {b10, b11}; for (int j = N; j >= 0; j--) f.v.push_back(T(N, j)); m.F.push_back(f); }
            { PFace f; f.v = {b11, b01}; for (int i = 0; i <= N; i++) f.v.push_back(T(i, N)); m.F.push_back(f); }
            { PFace f; f.v = {b01, b00}; for (int j = 0; j <= N; j++) f.v.push_back(T(0, j)); m.F.push_back(f); }
            for (int j = 0; j < N; j++) for (int i = 0; i < N; i++) { PFace f1; f1.v = {T(i, j), T(i + 1, j), T(i + 1, j + 1)}; m.F.push_back(f1); PFace f2; f2.v = {T(i, j), T(i + 1, j + 1), T(i, j + 1)}; m.F.push_back(f2); }
            m.thick = 2; break; }
        default: { int k = g.range(4, 7); double rin = g.uni(0.5, 0.8); Poly m2;
            for (int attempt = 0; attempt < 4; attempt++) { Poly2 pg; double jit = attempt < 3 ? 0.08 : 0.0; for (int j = 0; j < 2 * k; j++) { double r = (j % 2 == 0 ? 1.0 : rin) * (1 + jit * g.uni(-1, 1)); pg.push_back({r * std::cos(M_PI * j / k), r * std::sin(M_PI * j / k)}); }
                m2 = prism_poly(pg, g.uni(0.4, 1.0), 1, false); if (faces_star_shaped(m2)) break; }
            m = m2; break; }
    }
    m.family = FAMILIES[fam];
    return m;
}

// closed or open surfaces that are NOT admissible cells (triangulated); `kind` selects the defect
static const char* BAD_KINDS[] = {"torus", "open_box", "pinched_double_pyramid", "two_components", "duplicated_face", "torus_and_sphere", "torus_with_bodies_touching_in_single_nodes"};
static Poly torus_poly(int nu, int nv, double Rr, double r) {
    Poly m; for (int i = 0; i < nu; i++) for (int j = 0; j < nv; j++) { double a = 2 * M_PI * i / nu, b = 2 * M_PI * j / nv; m.P.push_back({(Rr + r * std::cos(b)) * std::cos(a), (Rr + r * std::cos(b)) * std::sin(a), r * std::sin(b)}); }
    auto id = [&](int i, int j) -> unsigned { return (unsigned)(((i % nu + nu) % nu) * nv + ((j % nv + nv) % nv)); };
    for (int i = 0; i < nu; i++) for (int j = 0; j < nv; j++) { PFace a, b; a.v = {id(i, j), id(i + 1, j), id(i + 1, j + 1)}; b.v = {id(i, j), id(i + 1, j + 1), id(i, j + 1)}; m.F.push_back(a); m.F.push_back(b); }
    return m;
}
static Poly make_bad(int kind, Rng& g) {
    Poly m;
    switch (kind) {
        case 0: m = torus_poly(g.range(8, 12), g.range(6, 8), 1, 0.4); break;
        case 1: { m = box_poly(g.range(1, 2), 1, g.uni(0.6, 1.5), g.uni(0.6, 1.5)); triangulate_faces(m, g, 1.0); int drop = g.range(1, 2); size_t k = (g.u64() % (m.F.size() / 2)) * 2; m.F.erase(m.F.begin() + (long)k, m.F.begin() + (long)k + drop); break; }
        case 2: { double a = g.uni(0.5, 1); m.P = {{0, 0, 0}, {a, a, 1}, {-a, a, 1}, {-a, -a, 1}, {a, -a, 1}, {a, a, -1}, {-a, a, -1}, {-a, -a, -1}, {a, -a, -1}};
            auto tri = [&](unsigned x, unsigned y, unsigned z) { PFace f; f.v = {x, y, z}; m.F.push_back(f); };
            for (unsigned i = 0; i < 4; i++) { tri(0, 1 + i, 1 + (i + 1) % 4); tri(0, 5 + (i + 1) % 4, 5 + i); }
            tri(1, 3, 2); tri(1, 4, 3); tri(5, 6, 7); tri(5, 7, 8); break; }
        case 3: { m = box_poly(1, 1, 1, 1); Poly o = g.coin(0.5) ? box_poly(1, 0.6, 0.8, 0.7) : from_trimesh(gen::icosphere(1)); ptranslate(o, 3.5, 0, 0); pappend(m, o); triangulate_faces(m, g, 1.0); break; }
        case 4: { m = g.coin(0.5) ? box_poly(1, 1, 1, 1) : from_trimesh(gen::icosphere(1)); triangulate_faces(m, g, 1.0); PFace f = m.F[g.u64() % m.F.size()]; if (g.coin(0.5)) std::reverse(f.v.begin(), f.v.end()); m.F.insert(m.F.begin() + (long)(g.u64() % m.F.size()), f); break; }
        case 6: {   // a torus carrying two closed bodies that each share exactly ONE node with it: every edge has two faces and V - E + F = 0 + 2 + 2 - 2 = 2,
            // yet the surface is no 2-manifold (two nodes with two face fans) and its pieces share no edge
            const int nu = g.range(8, 12), nv = g.range(6, 8); m = torus_poly(nu, nv, 1, 0.4); const size_t nT = m.P.size();
            for (int side = 0; side < 2; side++) {
                const double phi = 2 * M_PI * (side == 0 ? 0 : nu / 2) / nu, d[3] = {std::cos(phi), std::sin(phi), 0};
                size_t v = 0; double best = -1e300; for (size_t k = 0; k < nT; k++) { double x = m.P[k][0] * d[0] + m.P[k][1] * d[1]; if (x > best) { best = x; v = k; } }
                Poly o = from_trimesh(gen::icosphere(g.range(0, 1))); pscale(o, 0.3, 0.3, 0.3); protate(o, gen::rot_random(g));
                size_t w = 0; best = 1e300; for (size_t k = 0; k < o.P.size(); k++) { double x = o.P[k][0] * d[0] + o.P[k][1] * d[1]; if (x < best) { best = x; w = k; } }
                ptranslate(o, m.P[v][0] - o.P[w][0], m.P[v][1] - o.P[w][1], m.P[v][2] - o.P[w][2]);
                const bool inward = g.coin(0.5); std::vector<unsigned> map(o.P.size()); for (size_t k = 0; k < o.P.size(); k++) { if (k == w) map[k] = (unsigned)v; else { map[k] = (unsigned)m.P.size(); m.P.push_back(o.P[k]); } }
                for (auto f : o.F) { for (auto& x : f.v) x = map[x]; if (inward) std::reverse(f.v.begin(), f.v.end()); m.F.push_back(f); }
            }
            break; }
        default: { m = torus_poly(g.range(8, 12), g.range(6, 8), 1, 0.4); Poly o = from_trimesh(gen::icosphere(1)); pscale(o, 0.3, 0.3, 0.3); if (g.coin(0.5)) for (auto& f : o.F) std::reverse(f.v.begin(), f.v.end());
            if (g.coin(0.5)) { Poly t = m; m = o; pappend(m, t); } else pappend(m, o); break; }
    }
    m.family = BAD_KINDS[kind]; m.thick = kind == 0 || kind == 5 || kind == 6 ? 0.8 : 1.2;
    return m;
}

// ------------------------------------------------------------------------------------------------
// own legacy-VTK emitter (layout of /repo/data/input_meshes/*.vtk: POINTS, CELLS with polyhedron face streams,
// CELL_TYPES 42, cell_type_id field)
static std::string vtk_text(const std::vector<Poly>& cells, const std::vector<int>& type_ids, const std::vector<std::array<double, 3>>& extra_points) {
    std::ostringstream o; size_t np = extra_points.size(); for (auto& c : cells) np += c.P.size();
    o << "# vtk DataFile Version 4.2\nvtk output\nASCII\nDATASET UNSTRUCTURED_GRID\nPOINTS " << np << " double\n";
    char b[128]; auto pt = [&](const std::array<double, 3>& p) { snprintf(b, sizeof b, "%.17g %.17g %.17g \n", p[0], p[1], p[2]); o << b; };
    // unreferenced points first (if any), then the points of each cell
    for (auto& p : extra_points) pt(p);
    for (auto& c : cells) for (auto& p : c.P) pt(p);
    size_t total = 0; std::vector<size_t> cnt; for (auto& c : cells) { size_t n = 1; for (auto& f : c.F) n += 1 + f.v.size(); cnt.push_back(n); total += n + 1; }
    o << "\nCELLS " << cells.size() << " " << total << "\n";
    size_t off = extra_points.size();
    for (size_t k = 0; k < cells.size(); k++) { o << cnt[k] << " " << cells[k].F.size() << " "; for (auto& f : cells[k].F) { o << f.v.size() << " "; for (unsigned v : f.v) o << (v + off) << " "; } o << "\n"; off += cells[k].P.size(); }
    o << "CELL_TYPES " << cells.size() << "\n"; for (size_t k = 0; k < cells.size(); k++) o << "42\n";
    o << "\nCELL_DATA " << cells.size() << "\nFIELD FieldData 1\ncell_type_id 1 " << cells.size() << " int\n"; for (int t : type_ids) o << t << " "; o << "\n";
    return o.str();
}

static std::string demangled(const char* n) { int st = 0; char* d = abi::__cxa_demangle(n, nullptr, nullptr, &st); std::string s = (st == 0 && d) ? d : n; free(d); return s; }
static std::string strip_digits(std::string s) { for (auto& ch : s) if (std::isdigit((unsigned char)ch)) ch = '#'; return s; }

// connected components of a triangle list (over referenced nodes)
static int components(const std::vector<orc::Tri>& T, size_t nslots) {
    std::vector<int> p(nslots, -1); std::function<int(int)> find = [&](int x) { while (p[x] != x) { p[x] = p[p[x]]; x = p[x]; } return x; };
    for (auto& t : T) for (unsigned v : {t.a, t.b, t.c}) if (p[v] < 0) p[v] = (int)v;
    for (auto& t : T) { int a = find((int)t.a), b = find((int)t.b), c = find((int)t.c); p[b] = a; p[find(c)] = a; }
    int n = 0; for (size_t i = 0; i < nslots; i++) if (p[i] == (int)i) n++; return n;
}

enum Mode { TRI_ON = 0, OFF_VALID = 1, OFF_POLY = 2, OFF_BAD = 3, ON_BAD = 4 };
static const char* MODE_NAMES[] = {"tri_on", "tri_off_triangulated", "tri_off_polygonal", "tri_off_not_a_cell", "tri_on_not_a_cell"};

struct Meta { std::map<std::string, long> bins; std::map<std::string, double> maxima;
    void bin(const std::string& k, long n = 1) { bins[k] += n; } void maxi(const std::string& k, double v) { auto it = maxima.find(k); if (it == maxima.end() || v > it->second) maxima[k] = v; }
    std::string str() const { std::ostringstream o; o << std::setprecision(17); for (auto& kv : bins) o << "b:" << kv.first << "=" << kv.second << ";"; for (auto& kv : maxima) o << "m:" << kv.first << "=" << kv.second << ";"; return o.str(); } };

// ------------------------------------------------------------------------------------------------
static std::string run_case(const Args& a, long i, const std::string& path) {
    Rng g(a.seed, (uint64_t)i, 0x13); Case cs(i); Meta mt;
    const double c1 = a.getd("c1", C1_DEFAULT), c2 = a.getd("c2", C2_DEFAULT), c3 = a.getd("c3", C3_DEFAULT);
    const double max_nodes = a.getd("max_nodes", 2500);
    // ---- mode (stratified by case index so that every rejection kind occurs in every run) -------------------
    int slot = (int)(i % 25); Mode mode = slot <= 16 ? TRI_ON : slot <= 19 ? OFF_VALID : slot == 20 ? OFF_POLY : slot <= 23 ? OFF_BAD : ON_BAD;
    int bad_kind = (int)(((i / 25) * 3 + (slot - 21)) % 7); if (mode == ON_BAD) bad_kind = (int)((i / 25) % 7);
    if (a.kv.count("mode")) mode = (Mode)a.geti("mode", 0);
    if (a.kv.count("bad_kind")) bad_kind = (int)a.geti("bad_kind", 0);
    const bool tri_on = mode == TRI_ON || mode == ON_BAD, bad = mode == OFF_BAD || mode == ON_BAD;
    // ---- cells of the file -------------------------------------------------------------------------------------
    int ncell = bad ? 1 : (g.coin(0.6) ? 1 : g.range(2, 3)); if (a.kv.count("ncell")) ncell = (int)a.geti("ncell", 1);
    double scale = g.coin(0.35) ? 1e-5 * g.uni(0.5, 2) : g.logu(1e-6, 1e1);
    std::vector<Poly> cells; std::vector<int> type_ids; std::vector<std::string> fams; int nflip = 0, npolyfaces = 0; double flip_p = 0; double thick_min = 1e300, area_sum = 0;
    std::string tri_style; std::vector<Surf> surf;
    for (int k = 0; k < ncell; k++) {
        Poly m;
        if (bad) m = make_bad(bad_kind, g);
        else { int fam = a.kv.count("family") ? (int)a.geti("family", 0) : g.range(0, 7); if (!a.kv.count("family") && mode == TRI_ON && g.coin(0.12)) fam = 8; m = make_family(fam, g); }
        if (!bad) {
            // face style: polygonal as generated / all triangulated / mixed
            int style = mode == OFF_VALID ? 1 : mode == OFF_POLY ? (g.coin(0.5) ? 0 : 2) : g.range(0, 2);
            if (style == 1) triangulate_faces(m, g, 1.0); else if (style == 2) triangulate_faces(m, g, 0.5);
            if (mode == OFF_POLY && !is_polygonal(m)) { m = box_poly(1, 1, g.uni(0.5, 2), g.uni(0.5, 2)); m.family = "box"; }
            tri_style += style == 0 ? 'p' : style == 1 ? 't' : 'm';
        }
        if (!faces_star_shaped(m)) { cs.v = "skip"; cs.msg = "generator produced a face that is not star-shaped w.r.t. its node centroid"; mt.bin("skipped_generator_reject"); return mt.str() + "\n" + cs.line(); }
        // windings
        double fp = g.coin(0.45) ? 0.0 : g.coin(0.3) ? 1.0 : g.coin(0.5) ? g.uni(0.02, 0.2) : 0.5; if (a.kv.count("flip_p")) fp = a.getd("flip_p", 0);
        // placement: rotation, scale, offset; cells side by side with a gap
        if (g.coin(0.7)) protate(m, gen::rot_random(g));
        pscale(m, scale, scale, scale); m.thick *= scale;
        double off = g.coin(0.4) ? 0.0 : g.uni(0, 10) * scale; ptranslate(m, 4.5 * scale * k + off * g.uni(-1, 1), off * g.uni(-1, 1), off * g.uni(-1, 1));
        // the orientation given by the generator is outward: verify with the own signed volume before flipping
        // (the reference surface is taken before the flips: its signed volume is the enclosed volume of the polyhedron)
        surf.push_back(surface_of(m));
        if (!bad && (!(surf.back().geo.volume > 0) || !orc::check_topology(surf.back().T).ok)) { cs.v = "skip"; cs.msg = "generator produced an invalid reference surface"; mt.bin("skipped_generator_reject"); return mt.str() + "\n" + cs.line(); }
        area_sum += (double)surf.back().geo.area;
        int nf = flip_faces(m, g, fp); nflip += nf; flip_p = std::max(flip_p, fp);
        for (auto& f : m.F) if (f.v.size() > 3) npolyfaces++;
        thick_min = std::min(thick_min, m.thick); fams.push_back(m.family);
        type_ids.push_back(g.range(0, 4)); cells.push_back(m);
    }
    // ---- resolution ---------------------------------------------------------------------------------------------
    // l_min / size: log-uniform over 0.04..0.5; one input in seven beyond that (0.5..1.6), where the sample cannot represent the
    // body any more and the reconstruction legitimately fails more and more often (observed: 25% at 0.8, 60% at 1.0, 100% at 1.7)
    double rho = g.coin(0.15) ? g.uni(0.5, 1.6) : g.logu(0.04, 0.5); if (bad) rho = g.uni(0.12, 0.3); for (auto& f : fams) if (f == "fine_tower") rho = g.uni(0.26, 0.36); if (a.kv.count("rho")) rho = a.getd("rho", 0.1);
    double lmin = rho * thick_min;
    // bound on the work: about A / (0.75 l_min^2) sample points are kept
    { double nest = area_sum / (0.75 * lmin * lmin); if (tri_on && nest > max_nodes) { lmin = std::sqrt(area_sum / (0.75 * max_nodes)); rho = lmin / thick_min; } }
    // ---- file ---------------------------------------------------------------------------------------------------
    std::vector<std::array<double, 3>> extra; if (g.coin(0.2)) { int ne = g.range(1, 4); for (int k = 0; k < ne; k++) extra.push_back({scale * g.uni(-3, 3), scale * g.uni(-3, 3), scale * g.uni(-3, 3)}); }
    const std::string text = vtk_text(cells, type_ids, extra);
    { FILE* f = fopen(path.c_str(), "w"); if (!f) { cs.v = "inconclusive"; cs.msg = "cannot write " + path; return mt.str() + "\n" + cs.line(); } fputs(text.c_str(), f); fclose(f); }
    // ---- parameters ---------------------------------------------------------------------------------------------
    global_simulation_parameters sp; sp.output_folder_path_ = ""; sp.input_mesh_path_ = path; sp.perform_initial_triangulation_ = tri_on; sp.enable_edge_swap_operation_ = true;
    sp.damping_coefficient_ = 1; sp.simulation_duration_ = 1; sp.sampling_period_ = 1; sp.time_step_ = 1e-3; sp.min_edge_len_ = lmin; sp.contact_cutoff_adhesion_ = lmin; sp.contact_cutoff_repulsion_ = lmin;
    std::vector<cell_type_param_ptr> types; for (int t = 0; t < 5; t++) types.push_back(gen::default_cell_type(3, (short)t));
    g_rng_base = hash_combine(hash_combine(a.seed, (uint64_t)i), 0xC13ULL + (uint64_t)a.geti("rng_salt", 0)); g_rng_ctr.clear(); verif::get().rng_seed = rng_sink;
    // ---- run ----------------------------------------------------------------------------------------------------
    std::vector<cell_ptr> out; std::string outcome, what, extype;
    try { simulation_initializer init(sp, types, false); out = init.get_cell_lst(); outcome = "cells"; }
    catch (const intialization_exception& e) { outcome = "initialization_exception"; what = e.what(); }
    catch (const std::exception& e) { outcome = "other_exception"; what = e.what(); extype = demangled(typeid(e).name()); }
    catch (...) { outcome = "other_exception"; extype = "unknown"; }
    if (!a.geti("keep_files", 0)) unlink(path.c_str());
    const long rng_calls_init = g_rng_calls;
    // ---- judge --------------------------------------------------------------------------------------------------
    const std::string mname = MODE_NAMES[mode];
    mt.bin("mode:" + mname); mt.bin("outcome:" + mname + ":" + outcome);
    if (ncell > 1) mt.bin("multi_cell_files");
    if (npolyfaces > 0 && !bad) mt.bin("inputs_with_polygonal_faces"); if (nflip > 0 && !bad) mt.bin("inputs_with_flipped_windings");
    if (!extra.empty()) mt.bin("inputs_with_unreferenced_points");
    for (auto& f : fams) mt.bin(bad ? "tried:" + mname + ":" + f : "family_tried:" + f);
    { int dec = (int)std::floor(std::log10(scale)); mt.bin("scale_decade:1e" + std::to_string(dec)); }
    { const char* rb = rho < 0.07 ? "0.04-0.07" : rho < 0.12 ? "0.07-0.12" : rho < 0.2 ? "0.12-0.2" : rho < 0.33 ? "0.2-0.33" : rho <= 0.5 ? "0.33-0.5" : rho < 0.9 ? "0.5-0.9" : "0.9-1.6+"; if (mode == TRI_ON) { mt.bin(std::string("lmin_over_size:") + rb); if (outcome == "cells") mt.bin(std::string("accepted_lmin_over_size:") + rb); } }
    long nodes_total = 0, faces_total = 0, hole_nodes = 0; double w_aabb = 0, w_vol = 0, w_dist = 0, w_cover = 0, w_vrel = -1e300, w_arel = -1e300, min_edge_ratio = 1e300, max_edge_ratio = 0;
    if (outcome == "other_exception") cs.viol("wrong_exception_type:" + extype, "an exception that is not an intialization_exception reached the caller of simulation_initializer: " + extype + ": " + what);
    else if (outcome == "initialization_exception") {
        // allowed for every input (clean failure); mandatory for inputs that must be rejected
        mt.bin(bad ? "rejected_not_a_cell:" + mname + ":" + fams[0] : mode == OFF_POLY ? "rejected_untriangulated_input" : "clean_failure:" + mname);
        if (mode == TRI_ON && nflip > 0) mt.bin("clean_failure_with_flipped_windings");
    }
    else {
        if (mode == OFF_POLY) cs.viol("accepted_untriangulated_input", "initial triangulation is disabled and the input has faces with more than 3 nodes, but cells were returned");
        else if (mode == OFF_BAD) cs.viol("accepted_input_that_is_not_a_cell:" + fams[0], "initial triangulation is disabled and the input surface is not a closed connected genus-0 2-manifold (" + fams[0] + "), but a cell was returned to the caller");
        if (out.size() != (size_t)ncell) cs.viol("cell_count", "the file holds " + std::to_string(ncell) + " cells, " + std::to_string(out.size()) + " were returned");
        for (size_t k = 0; k < out.size() && cs.v != "viol"; k++) {
            if (!out[k]) { cs.viol("null_cell", "a null cell pointer was returned"); break; }
            const cell& c = *out[k]; orc::Geo geo; orc::Topo topo;
            rmu::Inv r = rmu::check_cell(c, true, nullptr, false, &geo, &topo);
            // a closed surface that encloses nothing (flat up to rounding: |V| <= 1e-6 A^1.5, a sphere has 0.094 A^1.5) is not a cell,
            // whatever sign the rounding noise gives to its volume; then the orientation
            if (r.ok && std::fabs(geo.volume) <= 1e-6L * geo.area * std::sqrt(geo.area)) r.fail("zero_volume", "surface is closed but flat: it encloses no volume");
            if (r.ok && !(geo.volume > 0)) r.fail("negative_signed_volume", "surface is not oriented outward (own signed volume <= 0)");
            if (!r.ok) { std::ostringstream d; d << std::setprecision(6) << " [own signed volume " << (double)geo.volume << ", input volume " << (k < surf.size() ? (double)surf[k].geo.volume : 0.0) << ", cell::get_volume() " << c.get_volume() << ", own area " << (double)geo.area << ", input area " << (k < surf.size() ? (double)surf[k].geo.area : 0.0) << ", V=" << topo.V << " F=" << topo.F << ", l_min " << lmin << "]";
                cs.viol("invalid_cell:" + r.key + (bad ? std::string(":") + mname : ""), "returned cell " + std::to_string(k) + " (" + fams[std::min(k, fams.size() - 1)] + "): " + r.msg + d.str()); break; }
            std::vector<V3> P; std::vector<orc::Tri> T; std::vector<char> used; gen::extract(c, P, T, &used);
            int ncomp = components(T, P.size());
            if (ncomp != 1) { cs.viol(std::string("invalid_cell:disconnected_surface") + (bad ? std::string(":") + mname : ""), "returned cell " + std::to_string(k) + " has " + std::to_string(ncomp) + " connected components"); break; }
            if (c.get_id() != k) { cs.viol("cell_id", "cell at position " + std::to_string(k) + " carries id " + std::to_string(c.get_id())); break; }
            nodes_total += topo.V; faces_total += topo.F;
            mt.bin("cells_validated"); mt.bin("cell_class:" + std::to_string(type_ids[k]));
            if (bad) continue;     // only validity is judged when the input is not an admissible cell
            mt.bin("family_accepted:" + fams[k]);
            const Surf& s = surf[k]; const orc::Geo& gi = s.geo;
            R L = 0, posmax = 0; for (int d = 0; d < 3; d++) { L = std::max(L, gi.hi[d] - gi.lo[d]); posmax = std::max({posmax, std::fabs(gi.hi[d]), std::fabs(gi.lo[d])}); }
            // (1) bounding box.  Outside: nodes are convex combinations of input points (u*n1+v*n2+w*n3 with u+v+w=1 up to
            // rounding, hole centres are means of nodes): error <= ~8 eps |x| << 1e-9 L for |x| <= 25 L
            R grow = 1e-9L * L, shrink = 0, outside = 0;
            for (int d = 0; d < 3; d++) { outside = std::max({outside, gi.lo[d] - geo.lo[d], geo.hi[d] - gi.hi[d]}); shrink = std::max({shrink, geo.lo[d] - gi.lo[d], gi.hi[d] - geo.hi[d]}); }
            mt.maxi("aabb_outside_over_1e-9L", (double)(outside / grow));
            if (outside > grow) { cs.viol("unfaithful:aabb_outside_input", "bounding box of returned cell " + std::to_string(k) + " exceeds the input bounding box by " + std::to_string((double)(outside / L)) + " L"); break; }
            w_aabb = std::max(w_aabb, (double)(shrink / lmin));
            // (2) volume
            R dv = std::fabs(geo.volume - gi.volume) / ((R)lmin * gi.area); w_vol = std::max(w_vol, (double)dv);
            w_vrel = std::max(w_vrel, (double)(1 - geo.volume / gi.volume)); w_arel = std::max(w_arel, (double)(1 - geo.area / gi.area));
            // (3) distance of every node to the input surface
            R dmax = 0; for (size_t n = 0; n < P.size(); n++) if (used[n]) dmax = std::max(dmax, dist_to_surface(s, P[n]));
            w_dist = std::max(w_dist, (double)(dmax / lmin));
            if (mode == OFF_VALID) {
                // nothing may be altered: same counts, every node exactly an input point
                std::set<unsigned> us; for (auto& f : cells[k].F) for (unsigned v : f.v) us.insert(v); size_t nin = us.size();
                std::set<std::array<double, 3>> inpts; for (unsigned v : us) inpts.insert(cells[k].P[v]);
                bool all_input_points = true; const auto& nl = cell_tester::nodes(c); for (const node& n : nl) if (n.is_used() && !inpts.count({n.pos().dx(), n.pos().dy(), n.pos().dz()})) all_input_points = false;
                if ((size_t)topo.V != nin || (size_t)topo.F != cells[k].F.size() || !all_input_points || shrink > 0) { cs.viol("tri_off:mesh_altered", "initial triangulation is disabled but the returned cell differs from the input mesh"); break; }
                R tolv = 1e-12L * (std::fabs(gi.volume) + gi.area * posmax);
                if (std::fabs(geo.volume - gi.volume) > tolv) { cs.viol("tri_off:volume", "returned cell does not enclose the input volume"); break; }
            }
            if (shrink / lmin > c1) { cs.viol(std::string("unfaithful:aabb_shrunk") + (fams[k] == "dumbbell" ? ":necks_thinner_than_lmin" : ""), "a side of the bounding box of returned cell " + std::to_string(k) + " (" + fams[k] + ") lies " + std::to_string((double)(shrink / lmin)) + " l_min inside the input bounding box"); break; }
            if (dv > c2) { cs.viol(std::string("unfaithful:volume") + (fams[k] == "dumbbell" ? ":necks_thinner_than_lmin" : ""), "|V-V_in| of returned cell " + std::to_string(k) + " (" + fams[k] + ") is " + std::to_string((double)dv) + " l_min*A_in"); break; }
            if (dmax / lmin > c3) { cs.viol("unfaithful:node_off_surface", "a node of returned cell " + std::to_string(k) + " (" + fams[k] + ") is " + std::to_string((double)(dmax / lmin)) + " l_min away from the input surface"); break; }
            if (mode == TRI_ON) {
                // evidence only: edge lengths, coverage of the input vertices, hole-filling (a hole-centre node is exactly the mean of its ring)
                std::vector<std::vector<unsigned>> nb(P.size());
                for (auto& t : T) { unsigned v[3] = {t.a, t.b, t.c}; for (int e = 0; e < 3; e++) { nb[v[e]].push_back(v[(e + 1) % 3]); R l = (P[v[e]] - P[v[(e + 1) % 3]]).norm() / lmin; min_edge_ratio = std::min(min_edge_ratio, (double)l); max_edge_ratio = std::max(max_edge_ratio, (double)l); } }
                for (size_t n = 0; n < P.size(); n++) if (used[n] && !nb[n].empty()) { V3 m; for (unsigned q : nb[n]) m += P[q]; m = m / (R)nb[n].size(); if ((m - P[n]).norm() <= 1e-9L * lmin) hole_nodes++; }
                for (auto& f : cells[k].F) for (unsigned v : f.v) { R best = INFINITY; for (size_t n = 0; n < P.size(); n++) if (used[n]) best = std::min(best, (P[n] - s.P[v]).n2()); w_cover = std::max(w_cover, (double)(std::sqrt(best) / lmin)); }
            }
        }
        if (cs.v != "viol" && !bad) {
            mt.bin("accepted:" + mname);
            if (mode == TRI_ON) { mt.maxi("soak_aabb_shrink_over_lmin", w_aabb); mt.maxi("soak_dV_over_lmin_Ain", w_vol); mt.maxi("soak_node_dist_over_lmin", w_dist); mt.maxi("input_vertex_to_nearest_node_over_lmin", w_cover);
                mt.maxi("aabb_shrink_over_c1", w_aabb / c1); mt.maxi("dV_over_c2", w_vol / c2); mt.maxi("node_dist_over_c3", w_dist / c3);
                if (min_edge_ratio < 1e299) { mt.maxi("lmin_over_shortest_edge", 1.0 / min_edge_ratio); mt.maxi("longest_edge_over_lmin", max_edge_ratio); }
                if (npolyfaces > 0) mt.bin("accepted_with_polygonal_faces"); if (nflip > 0) mt.bin("accepted_with_flipped_windings");
                if (hole_nodes > 0) { mt.bin("accepted_with_hole_filling"); mt.bin("hole_centre_nodes", hole_nodes); }
                mt.bin("accepted_nodes", nodes_total); mt.maxi("largest_accepted_cell_nodes", (double)nodes_total / std::max<size_t>(1, out.size())); }
        }
        if (cs.v != "viol" && bad) mt.bin("valid_cell_from_input_that_is_not_a_cell:" + fams[0]);
    }
    // ---- a second initialisation in the same process: the same file with every point stretched along one axis and shifted (same cell ids,
    //      same node / face counts, same l_min, other coordinates).  The result must describe the NEW surface.
    if (mode == TRI_ON && outcome == "cells" && cs.v != "viol" && !bad && a.geti("reinit", 1) != 0) {
        double st[3] = {1, 1, 1}; st[g.range(0, 2)] = g.uni(1.3, 2.0); const double sh[3] = {scale * g.uni(0.5, 3), scale * g.uni(-3, -0.5), scale * g.uni(0.5, 3)};
        std::vector<Poly> cells2 = cells; for (auto& pc : cells2) for (auto& q : pc.P) for (int d = 0; d < 3; d++) q[d] = q[d] * st[d] + sh[d];
        std::vector<std::array<double, 3>> extra2 = extra; for (auto& q : extra2) for (int d = 0; d < 3; d++) q[d] = q[d] * st[d] + sh[d];
        const std::string text2 = vtk_text(cells2, type_ids, extra2);
        { FILE* f = fopen(path.c_str(), "w"); if (f) { fputs(text2.c_str(), f); fclose(f); } }
        std::vector<cell_ptr> out2; std::string outcome2, what2;
        try { simulation_initializer init2(sp, types, false); out2 = init2.get_cell_lst(); outcome2 = "cells"; }
        catch (const intialization_exception& e) { outcome2 = "initialization_exception"; }
        catch (const std::exception& e) { outcome2 = "other_exception"; what2 = demangled(typeid(e).name()) + ": " + e.what(); }
        catch (...) { outcome2 = "other_exception"; what2 = "unknown"; }
        if (!a.geti("keep_files", 0)) unlink(path.c_str());
        mt.bin("second_initialisation:" + outcome2);
        if (outcome2 == "other_exception") cs.viol("wrong_exception_type:second_initialisation", "second initialisation in the same process: " + what2);
        else if (outcome2 == "cells") {
            if (out2.size() != (size_t)ncell) cs.viol("cell_count:second_initialisation", "second initialisation returned " + std::to_string(out2.size()) + " cells for " + std::to_string(ncell));
            for (size_t k = 0; k < out2.size() && cs.v != "viol"; k++) {
                orc::Geo geo2; orc::Topo topo2; rmu::Inv r2 = rmu::check_cell(*out2[k], true, nullptr, false, &geo2, &topo2);
                if (!r2.ok) { cs.viol("invalid_cell:" + r2.key + ":second_initialisation", "second initialisation in the same process returned an invalid cell: " + r2.msg); break; }
                const orc::Geo& gi = surf[k].geo; R L2 = 0, outside = 0, shrink = 0;
                for (int d = 0; d < 3; d++) { R lo = gi.lo[d] * st[d] + sh[d], hi = gi.hi[d] * st[d] + sh[d]; L2 = std::max(L2, hi - lo); outside = std::max({outside, lo - geo2.lo[d], geo2.hi[d] - hi}); shrink = std::max({shrink, geo2.lo[d] - lo, hi - geo2.hi[d]}); }
                if (outside > 1e-9L * (L2 + std::fabs((R)sh[0]) + std::fabs((R)sh[1]) + std::fabs((R)sh[2]))) { cs.viol("unfaithful:aabb_outside_input:second_initialisation", "second initialisation in the same process (same cell ids and counts, other coordinates): bounding box of returned cell " + std::to_string(k) + " exceeds the bounding box of its input by " + std::to_string((double)(outside / L2)) + " L"); break; }
                if (shrink / lmin > c1) { cs.viol(std::string("unfaithful:aabb_shrunk:second_initialisation") + (fams[std::min(k, fams.size() - 1)] == "dumbbell" ? ":necks_thinner_than_lmin" : ""), "second initialisation in the same process (same cell ids and counts, other coordinates): a side of the bounding box of returned cell " + std::to_string(k) + " lies " + std::to_string((double)(shrink / lmin)) + " l_min inside the bounding box of its input"); break; }
                mt.bin("second_initialisation_cells_validated");
            }
        }
    }
    // ---- Poisson point cloud of the public entry point (first cell of admissible inputs, triangulation enabled) ---
    long cloud_n = 0;
    if (mode == TRI_ON && cs.v != "viol" && !a.geti("no_cloud", 0)) {
        // consistently outward oriented coarse triangulation of the input (pre-flip orientation is lost: orient through the cell class)
        const Surf& s = surf[0]; gen::TriMesh tm; for (auto& p : s.P) tm.P.push_back({(double)p.x, (double)p.y, (double)p.z}); for (auto& t : s.T) tm.T.push_back({t.a, t.b, t.c});
        std::shared_ptr<cell> cc; bool have = true;
        try { cc = std::make_shared<cell>(gen::to_repo_mesh(tm), 0); cc->initialize_cell_properties(true); } catch (const std::exception&) { have = false; }
        if (have) {
            verif::rng_context() = 1000; std::vector<oriented_point> pc; bool threw = false;
            try { pc = poisson_sampling::compute_poisson_point_cloud(lmin, cc); } catch (const std::exception& e) { threw = true; mt.bin("point_cloud_threw"); }
            if (!threw) {
                cloud_n = (long)pc.size(); mt.bin("point_clouds_checked"); mt.bin("point_cloud_points", cloud_n);
                std::vector<V3> Q; for (auto& p : pc) Q.push_back(V3(p.position_.dx(), p.position_.dy(), p.position_.dz()));
                // spacing: the sampler accepts a candidate when its computed squared distance to every kept neighbour is >= l_min^2;
                // the computed value differs from the exact one (of the stored doubles) by <= ~4 eps relative: 1e-12 leaves a factor 1e3
                R l2 = (R)lmin * lmin, dmin2 = INFINITY; std::vector<size_t> ord(Q.size()); std::iota(ord.begin(), ord.end(), 0); std::sort(ord.begin(), ord.end(), [&](size_t x, size_t y) { return Q[x].x < Q[y].x; });
                for (size_t x = 0; x < ord.size(); x++) for (size_t y = x + 1; y < ord.size() && Q[ord[y]].x - Q[ord[x]].x < lmin; y++) dmin2 = std::min(dmin2, (Q[ord[x]] - Q[ord[y]]).n2());
                if (Q.size() >= 2 && dmin2 < INFINITY) mt.maxi("point_cloud_lmin_over_closest_pair", (double)((R)lmin / std::sqrt(dmin2)));
                if (dmin2 < l2 * (1 - 2e-12L)) cs.viol("point_cloud:spacing", "two points of the Poisson point cloud are " + std::to_string((double)(std::sqrt(dmin2) / lmin)) + " l_min apart");
                // on the surface: p = u n1 + v n2 + w n3, error <= ~6 eps |x|
                const orc::Geo& gi = s.geo; R L = 0; for (int d = 0; d < 3; d++) L = std::max(L, gi.hi[d] - gi.lo[d]);
                R dm = 0; for (auto& q : Q) dm = std::max(dm, dist_to_surface(s, q)); mt.maxi("point_cloud_dist_over_1e-9L", (double)(dm / (1e-9L * L)));
                if (dm > 1e-9L * L) cs.viol("point_cloud:off_surface", "a point of the Poisson point cloud is " + std::to_string((double)(dm / L)) + " L away from the input surface");
                if (Q.size() < 4) mt.bin("point_cloud_fewer_than_4_points");
            }
        }
    }
    cs.nontrivial = cs.v != "skip" && (outcome == "cells" || outcome == "initialization_exception");
    uint64_t h = hash_str(text); h = hash_combine(h, hash_double(lmin)); h = hash_combine(h, (uint64_t)mode); cs.sig = h;
    std::string famstr; for (auto& f : fams) famstr += (famstr.empty() ? "" : "+") + f;
    cs.obs.s("mode", mname).s("shapes", famstr).s("face_style", tri_style).i("cells_in_file", ncell).i("polygonal_faces", npolyfaces).i("flipped_faces", nflip).d("flip_p", flip_p).d("scale", scale)
        .d("l_min", lmin).d("lmin_over_size", rho).s("outcome", outcome).s("what", what.substr(0, 160)).i("nodes", nodes_total).i("faces", faces_total).i("hole_centre_nodes", hole_nodes)
        .d("aabb_shrink_over_lmin", w_aabb).d("dV_over_lmin_Ain", w_vol).d("volume_deficit_rel", w_vrel).d("area_deficit_rel", w_arel).d("node_dist_over_lmin", w_dist).i("point_cloud_points", cloud_n).i("rng_seed_requests", rng_calls_init).hex("rng_base", g_rng_base);
    if (cs.v == "viol") cs.obs.s("input_vtk", text.size() <= 24000 ? text : std::string("(too large: regenerate with --only and --keep_files=1)"));
    return mt.str() + "\n" + cs.line();
}

static int cmd_reconstruct(const Args& a) {
    Agg agg; agg.max_samples = 6;
    const double cpu_limit = a.getd("cpu_limit", 600);
    char cwd[4096]; if (!getcwd(cwd, sizeof cwd)) { perror("getcwd"); return 2; }
    for (long i = a.first; i < a.first + a.cases; i++) {
        if (!a.mine(i)) continue;
        const std::string path = std::string(cwd) + "/c13_input_" + std::to_string((long)getpid()) + "_" + std::to_string(i) + ".vtk";
        IsoResult r = run_isolated([&]() { return run_case(a, i, path); }, cpu_limit, cpu_limit * 3);
        if (!a.geti("keep_files", 0)) unlink(path.c_str());
        agg.maxi("case_cpu_s", r.cpu_s);
        if (!r.completed) {
            agg.evaluations++;
            // an exception that cannot propagate (noexcept function, destructor, ...) ends in terminate(): the failure was not
            // reported through an initialisation exception
            size_t p = r.err.find("terminate called after throwing an instance of '");
            if (!r.timeout && p != std::string::npos) {
                size_t q = r.err.find('\'', p + 48); std::string ty = r.err.substr(p + 48, q == std::string::npos ? 40 : q - (p + 48));
                Case c(i); c.viol("escaping_exception:terminate:" + ty, "the process was terminated by an exception that could not propagate to the caller of simulation_initializer: " + r.err.substr(p, 300)); c.obs.i("signal", r.signal);
                agg.viol_total++; emit(c.line()); agg.bin("terminate"); continue;
            }
            emit(crash_line(i, r)); agg.bin(r.timeout ? "timeout" : "crash"); continue;
        }
        const std::string& out = r.line; size_t nl = out.find('\n'); std::string meta = nl == std::string::npos ? "" : out.substr(0, nl), L = nl == std::string::npos ? out : out.substr(nl + 1);
        for (size_t p = 0; p < meta.size();) { size_t e = meta.find(';', p); if (e == std::string::npos) break; std::string kv = meta.substr(p, e - p); p = e + 1; size_t eq = kv.rfind('='); if (eq == std::string::npos || kv.size() < 3) continue;
            std::string k = kv.substr(2, eq - 2), v = kv.substr(eq + 1); if (kv[0] == 'b') agg.bin(k, atol(v.c_str())); else agg.maxi(k, atof(v.c_str())); }
        agg.evaluations++;
        bool viol = L.find("\"v\":\"viol\"") != std::string::npos, skip = L.find("\"v\":\"skip\"") != std::string::npos, inc = L.find("\"v\":\"inconclusive\"") != std::string::npos;
        bool nt = L.find("\"nt\":true") != std::string::npos;
        if (skip) { agg.skipped++; continue; }
        if (inc) { emit(L); continue; }
        if (nt) { agg.nontrivial++; size_t p = L.find("\"sig\":\""); if (p != std::string::npos) agg.sigs[strtoull(L.substr(p + 7, 16).c_str(), nullptr, 16)] = 1; }
        if (viol) { agg.viol_total++; if (agg.viol_total <= (long)agg.max_viol) emit(L); }
        else if (a.geti("dump_obs", 0)) emit(L);
        else if (agg.samples.size() < agg.max_samples && nt) agg.samples.push_back(L);
    }
    agg.flush(a.shard_i);
    return 0;
}
static Reg r_reconstruct("reconstruct", cmd_reconstruct);

// ------------------------------------------------------------------------------------------------
// C14 — the translated INPUT FILE.  The tissue a user translates is the mesh file; with the initial triangulation enabled the cells the
// solver receives are made by the sampling grid, the ball pivoting and the first refinement of the initializer.  translate_init writes a
// polyhedral tissue and its translated copy, runs simulation_initializer on both with the same seeding of the clock-seeded generators and
// demands the same outcome, the same meshes (node slots, triangles) and node positions that differ by the translation to rounding.  As in
// the solver-level check a difference counts only when it separates two families of noise twins that each agree within themselves.
struct InitState { std::string outcome; std::vector<std::vector<std::array<double, 3>>> X; std::vector<std::vector<char>> used; std::vector<std::vector<std::array<unsigned, 3>>> T; };
static InitState init_run(const std::vector<Poly>& cells0, const std::vector<int>& type_ids, const std::array<double, 3>& t, uint64_t noise_seed, double noise_rel,
                          const global_simulation_parameters& sp, const std::vector<cell_type_param_ptr>& types, const std::string& path, uint64_t rng_base) {
    std::vector<Poly> cells = cells0; Rng ng(noise_seed, 0, 0x14c);
    for (auto& pc : cells) for (auto& q : pc.P) for (int d = 0; d < 3; d++) { double x = q[d]; if (noise_rel > 0) x *= (1.0 + noise_rel * ng.uni(-1, 1)); q[d] = x + t[d]; }
    const std::string text = vtk_text(cells, type_ids, {});
    InitState st; { FILE* f = fopen(path.c_str(), "w"); if (!f) { st.outcome = "cannot_write"; return st; } fputs(text.c_str(), f); fclose(f); }
    { std::lock_guard<std::mutex> lk(g_rng_mu); g_rng_base = rng_base; g_rng_ctr.clear(); } verif::get().rng_seed = rng_sink; verif::rng_context() = 0;
    try { simulation_initializer init(sp, types, false); std::vector<cell_ptr> out = init.get_cell_lst(); st.outcome = "cells";
        for (auto& cp : out) { st.X.emplace_back(); st.used.emplace_back(); st.T.emplace_back();
            for (const node& n : cell_tester::nodes(*cp)) { st.X.back().push_back({n.pos().dx() - t[0], n.pos().dy() - t[1], n.pos().dz() - t[2]}); st.used.back().push_back(n.is_used()); }
            for (const face& f : cell_tester::faces(*cp)) if (f.is_used()) st.T.back().push_back({cell_tester::n1(f), cell_tester::n2(f), cell_tester::n3(f)}); } }
    catch (const intialization_exception&) { st.outcome = "initialization_exception"; }
    catch (const std::exception& e) { st.outcome = "other_exception"; }
    unlink(path.c_str()); return st;
}
static double init_compare(const InitState& a, const InitState& b) {
    if (a.outcome != b.outcome || a.X.size() != b.X.size()) return -1; double dev = 0;
    for (size_t k = 0; k < a.X.size(); k++) { if (a.used[k] != b.used[k] || a.T[k] != b.T[k]) return -1;
        for (size_t i = 0; i < a.X[k].size(); i++) if (a.used[k][i]) for (int d = 0; d < 3; d++) dev = std::max(dev, std::fabs(a.X[k][i][d] - b.X[k][i][d])); }
    return dev;
}
static std::string translate_init_case(const Args& a, long i, const std::string& path) {
    Rng g(a.seed, (uint64_t)i, 0x14d); Case cs(i);
    const int ncell = g.coin(0.5) ? 1 : g.range(2, 3); const double scale = g.coin(0.35) ? 1e-5 * g.uni(0.5, 2) : g.logu(1e-6, 1e1);
    std::vector<Poly> cells; std::vector<int> type_ids; std::string fams; double thick_min = 1e300, area_sum = 0;
    for (int k = 0; k < ncell; k++) { Poly m = make_family(g.range(0, 6), g); const int style = g.range(0, 2); if (style == 1) triangulate_faces(m, g, 1.0); else if (style == 2) triangulate_faces(m, g, 0.5);
        if (!faces_star_shaped(m)) { cs.v = "skip"; return cs.line(); }
        if (g.coin(0.7)) protate(m, gen::rot_random(g)); pscale(m, scale, scale, scale); m.thick *= scale; const double off = g.coin(0.4) ? 0.0 : g.uni(0, 10) * scale;
        ptranslate(m, 4.5 * scale * k + off * g.uni(-1, 1), off * g.uni(-1, 1), off * g.uni(-1, 1));
        Surf sf = surface_of(m); if (!(sf.geo.volume > 0) || !orc::check_topology(sf.T).ok) { cs.v = "skip"; return cs.line(); } area_sum += (double)sf.geo.area;
        flip_faces(m, g, g.coin(0.5) ? 0.0 : 0.5); thick_min = std::min(thick_min, m.thick); fams += (fams.empty() ? "" : "+") + m.family; type_ids.push_back(g.range(0, 4)); cells.push_back(m); }
    double rho = g.logu(0.06, 0.4), lmin = rho * thick_min; { const double max_nodes = a.getd("max_nodes", 900), nest = area_sum / (0.75 * lmin * lmin); if (nest > max_nodes) { lmin = std::sqrt(area_sum / (0.75 * max_nodes)); rho = lmin / thick_min; } }
    global_simulation_parameters sp; sp.output_folder_path_ = ""; sp.input_mesh_path_ = path; sp.perform_initial_triangulation_ = true; sp.enable_edge_swap_operation_ = true;
    sp.damping_coefficient_ = 1; sp.simulation_duration_ = 1; sp.sampling_period_ = 1; sp.time_step_ = 1e-3; sp.min_edge_len_ = lmin; sp.contact_cutoff_adhesion_ = lmin; sp.contact_cutoff_repulsion_ = lmin;
    std::vector<cell_type_param_ptr> types; for (int t = 0; t < 5; t++) types.push_back(gen::default_cell_type(3, (short)t));
    double lo[3] = {1e300, 1e300, 1e300}, hi[3] = {-1e300, -1e300, -1e300}; for (auto& pc : cells) for (auto& q : pc.P) for (int d = 0; d < 3; d++) { lo[d] = std::min(lo[d], q[d]); hi[d] = std::max(hi[d], q[d]); }
    const double L = std::max({hi[0] - lo[0], hi[1] - lo[1], hi[2] - lo[2]}); const uint64_t base = hash_combine(hash_combine(a.seed, (uint64_t)i), 0xC14ULL);
    auto micro = [&](int k) { Rng mg(a.seed, (uint64_t)i, 0x150 + (uint64_t)k); std::array<double, 3> d = {mg.normal(), mg.normal(), mg.normal()}; double n = std::sqrt(d[0] * d[0] + d[1] * d[1] + d[2] * d[2]); for (auto& x : d) x *= 1e-11 * L / n; return d; };
    auto plus = [&](const std::array<double, 3>& u, const std::array<double, 3>& w) { return std::array<double, 3>{u[0] + w[0], u[1] + w[1], u[2] + w[2]}; };
    const std::array<double, 3> zero = {0, 0, 0};
    InitState ref = init_run(cells, type_ids, zero, 0, 0, sp, types, path, base);
    cs.obs.s("shapes", fams).i("cells_in_file", ncell).d("l_min", lmin).d("lmin_over_size", rho).d("L", L).s("reference_outcome", ref.outcome);
    if (ref.outcome != "cells" && ref.outcome != "initialization_exception") { cs.v = "skip"; cs.msg = "reference initialisation: " + ref.outcome; return cs.line(); }
    InitState r1 = init_run(cells, type_ids, micro(1), 1, 1e-13, sp, types, path, base), r2 = init_run(cells, type_ids, micro(2), 2, 1e-13, sp, types, path, base);
    const double condX = 1e-10 * L, tolX = 1e-9 * L; const double s1 = init_compare(ref, r1), s2 = init_compare(ref, r2);
    if (s1 < 0 || s2 < 0 || std::max(s1, s2) > condX) { cs.v = "skip"; cs.msg = "ill-conditioned reference: the reconstruction of noise twins of the input (1e-13 relative, shifted by 1e-11 L) already differs"; cs.obs.b("ill_conditioned", true); return cs.line(); }
    long compared = 0, inconclusive = 0, nodes = 0; double maxdev = 0; std::string kinds; for (auto& u : ref.used) for (char x : u) nodes += x ? 1 : 0;
    const int ntr = (int)a.geti("translations", 3);
    for (int k = 0; k < ntr && cs.v != "viol"; k++) {
        const int kind = g.range(0, 6); std::array<double, 3> t; std::string kn;
        auto dir = [&]() { std::array<double, 3> d = {g.normal(), g.normal(), g.normal()}; double n = std::sqrt(d[0] * d[0] + d[1] * d[1] + d[2] * d[2]); for (auto& x : d) x /= n; return d; };
        if (kind == 0) { auto d = dir(); const double m = g.uni(0.01, 0.9) * lmin; t = {d[0] * m, d[1] * m, d[2] * m}; kn = "below_lmin"; }
        else if (kind == 1) { t = {lmin * (g.coin() ? 1 : -1), 0, 0}; if (g.coin()) t = {0, 1.7 * lmin, -lmin}; kn = "exactly_one_grid_cell"; }
        else if (kind == 2) { auto d = dir(); const double m = g.uni(1, 40) * lmin; t = {d[0] * m, d[1] * m, d[2] * m}; kn = "several_lmin"; }
        else if (kind == 3) { t = {-(lo[0] + hi[0]) / 2 + g.uni(-0.3, 0.3) * L, -(lo[1] + hi[1]) / 2 + g.uni(-0.3, 0.3) * L, -(lo[2] + hi[2]) / 2}; kn = "across_origin"; }
        else if (kind == 4) { auto d = dir(); const double m = g.uni(8, 32) * L; t = {d[0] * m, d[1] * m, d[2] * m}; kn = "far_up_to_32_extents"; }
        else if (kind == 5) { const double u = std::ldexp(1.0, (int)std::floor(std::log2(L)) - g.range(1, 8)); t = {u * (g.coin() ? 1 : -1), u, 0}; kn = "binary_exact"; }
        else { auto d = dir(); const double m = g.uni(1, 8) * L; t = {d[0] * m, d[1] * m, d[2] * m}; kn = "few_extents"; }
        kinds += kn + ","; compared++;
        InitState tr = init_run(cells, type_ids, t, 0, 0, sp, types, path, base); const double d = init_compare(ref, tr);
        if (d >= 0 && d <= tolX) { maxdev = std::max(maxdev, d / tolX); continue; }
        InitState t1 = init_run(cells, type_ids, plus(t, micro(3)), 1, 1e-13, sp, types, path, base), t2 = init_run(cells, type_ids, plus(t, micro(4)), 2, 1e-13, sp, types, path, base);
        const double a1 = init_compare(tr, t1), a2 = init_compare(tr, t2);
        if (a1 < 0 || a2 < 0 || std::max(a1, a2) > condX) { inconclusive++; continue; }
        const double tmag = std::sqrt(t[0] * t[0] + t[1] * t[1] + t[2] * t[2]);
        if (d < 0 && init_compare(ref, t1) < 0 && init_compare(ref, t2) < 0 && init_compare(r1, tr) < 0 && init_compare(r2, tr) < 0)
            cs.viol("translated_input_reconstructed_differently:structure:" + kn, "the initial triangulation of the input translated by " + std::to_string(tmag / lmin) + " l_min (" + std::to_string(tmag / L) + " tissue extents) ends with another outcome / node count / connectivity (reference: " + ref.outcome + " with " + std::to_string(nodes) + " nodes, translated: " + tr.outcome + "), although the reference and the translated input are each stable under noise and the random generators are seeded alike");
        else if (d > tolX && std::min({init_compare(ref, t1), init_compare(ref, t2), init_compare(r1, tr), init_compare(r2, tr)}) > tolX)
            cs.viol("translated_input_reconstructed_differently:positions:" + kn, "the nodes of the initial triangulation of the translated input deviate by " + std::to_string(d / L) + " L from the translated nodes of the reference");
        else inconclusive++;
    }
    cs.nontrivial = compared > 0 && ref.outcome == "cells"; cs.sig = hash_combine(hash_combine(hash_str(fams), (uint64_t)nodes), hash_double(lmin));
    cs.obs.i("nodes", nodes).i("translations_compared", compared).i("translations_inconclusive", inconclusive).d("max_position_deviation_over_tolerance", maxdev).s("kinds", kinds).b("ill_conditioned", false);
    return cs.line();
}
static int cmd_translate_init(const Args& a) {
    Agg agg; agg.max_samples = 6; char cwd[4096]; if (!getcwd(cwd, sizeof cwd)) { perror("getcwd"); return 2; }
    for (long i = a.first; i < a.first + a.cases; i++) {
        if (!a.mine(i)) continue;
        const std::string path = std::string(cwd) + "/c14_input_" + std::to_string((long)getpid()) + "_" + std::to_string(i) + ".vtk";
        IsoResult r = run_isolated([&]() { return translate_init_case(a, i, path); }, a.getd("cpu_limit", 900), a.getd("cpu_limit", 900) * 3); unlink(path.c_str()); agg.evaluations++;
        if (!r.completed) { emit(crash_line(i, r)); agg.bin(r.timeout ? "timeout" : "crash"); continue; }
        const std::string& L = r.line;
        auto num = [&](const std::string& k) -> long { size_t p = L.find("\"" + k + "\":"); if (p == std::string::npos) return 0; return atol(L.c_str() + p + k.size() + 3); };
        auto dbl = [&](const std::string& k) -> double { size_t p = L.find("\"" + k + "\":"); if (p == std::string::npos) return 0; return atof(L.c_str() + p + k.size() + 3); };
        auto str = [&](const std::string& k) -> std::string { size_t p = L.find("\"" + k + "\":\""); if (p == std::string::npos) return ""; size_t s0 = p + k.size() + 4; return L.substr(s0, L.find('"', s0) - s0); };
        agg.bin("init_translations_compared", num("translations_compared")); agg.bin("init_translations_inconclusive", num("translations_inconclusive")); agg.bin("init_nodes", num("nodes")); agg.bin("init_reference:" + str("reference_outcome"));
        { std::string ks = str("kinds"); size_t p0 = 0; while (p0 < ks.size()) { size_t q = ks.find(',', p0); if (q == std::string::npos) break; agg.bin("init_translation:" + ks.substr(p0, q - p0)); p0 = q + 1; } }
        if (L.find("\"ill_conditioned\":true") != std::string::npos) agg.bin("init_ill_conditioned_references");
        agg.maxi("init_max_position_deviation_over_tolerance", dbl("max_position_deviation_over_tolerance"));
        if (L.find("\"v\":\"skip\"") != std::string::npos) { agg.skipped++; continue; }
        if (L.find("\"nt\":true") != std::string::npos) { agg.nontrivial++; size_t p = L.find("\"sig\":\""); if (p != std::string::npos) agg.sigs[strtoull(L.substr(p + 7, 16).c_str(), nullptr, 16)] = 1; }
        if (L.find("\"v\":\"viol\"") != std::string::npos) { agg.viol_total++; if (agg.viol_total <= (long)agg.max_viol) emit(L); }
        else if (agg.samples.size() < agg.max_samples && L.find("\"nt\":true") != std::string::npos) agg.samples.push_back(L);
    }
    agg.flush(a.shard_i);
    return 0;
}
static Reg r_translate_init("translate_init", cmd_translate_init);

// ------------------------------------------------------------------------------------------------
// C13 — one input that is not a cell among valid ones, the cells initialised by several threads.  The initializer treats the cells of a file in a parallel
// loop; the failure of ANY of them (whichever thread meets it, wherever it sits in the file) must end the initialisation with an initialisation exception:
// the caller must never receive the list (with a null or an invalid entry in it).
static std::string among_valid_case(const Args& a, long i, const std::string& path) {
    Rng g(a.seed, (uint64_t)i, 0x13b); Case cs(i);
    const int ncell = g.range(3, 12), bad_at = g.range(0, ncell - 1), bad_kind = std::vector<int>{1, 3, 4, 0}[g.range(0, 3)]; const bool tri_on = g.coin(0.3); const double scale = g.logu(1e-6, 1e1);
    std::vector<Poly> cells; std::vector<int> type_ids;
    for (int k = 0; k < ncell; k++) { Poly m; if (k == bad_at) m = make_bad(bad_kind, g); else { m = make_family(g.range(0, 4), g); triangulate_faces(m, g, 1.0); }
        if (g.coin(0.5)) protate(m, gen::rot_random(g)); pscale(m, scale, scale, scale); ptranslate(m, 6.0 * scale * k, 0, 0); type_ids.push_back(g.range(0, 4)); cells.push_back(m); }
    const std::string text = vtk_text(cells, type_ids, {});
    { FILE* f = fopen(path.c_str(), "w"); if (!f) { cs.v = "inconclusive"; cs.msg = "cannot write " + path; return cs.line(); } fputs(text.c_str(), f); fclose(f); }
    global_simulation_parameters sp; sp.output_folder_path_ = ""; sp.input_mesh_path_ = path; sp.perform_initial_triangulation_ = tri_on; sp.enable_edge_swap_operation_ = true;
    const double lmin = 0.25 * scale; sp.damping_coefficient_ = 1; sp.simulation_duration_ = 1; sp.sampling_period_ = 1; sp.time_step_ = 1e-3; sp.min_edge_len_ = lmin; sp.contact_cutoff_adhesion_ = lmin; sp.contact_cutoff_repulsion_ = lmin;
    std::vector<cell_type_param_ptr> types; for (int t = 0; t < 5; t++) types.push_back(gen::default_cell_type(3, (short)t));
    { std::lock_guard<std::mutex> lk(g_rng_mu); g_rng_base = hash_combine(hash_combine(a.seed, (uint64_t)i), 0xC13BULL); g_rng_ctr.clear(); } verif::get().rng_seed = rng_sink;
    omp_set_num_threads(a.threads); std::vector<cell_ptr> out; std::string outcome, what;
    try { simulation_initializer init(sp, types, false); out = init.get_cell_lst(); outcome = "cells"; }
    catch (const intialization_exception& e) { outcome = "initialization_exception"; }
    catch (const std::exception& e) { outcome = "other_exception"; what = demangled(typeid(e).name()) + ": " + e.what(); }
    unlink(path.c_str());
    const std::string kind = BAD_KINDS[bad_kind];
    if (outcome == "other_exception") cs.viol("wrong_exception_type:among_valid_cells", what);
    else if (outcome == "cells" && !tri_on) { long nulls = 0; for (auto& p : out) if (!p) nulls++;
        cs.viol("accepted_input_that_is_not_a_cell:" + kind + ":among_valid_cells", "initial triangulation is disabled, cell " + std::to_string(bad_at) + " of " + std::to_string(ncell) + " in the file is no closed connected genus-0 2-manifold (" + kind + "), the cells are initialised by " + std::to_string(a.threads) + " threads - and the caller received a list of " + std::to_string(out.size()) + " cells (" + std::to_string(nulls) + " null entries) instead of an initialisation exception"); }
    else if (outcome == "cells") { for (size_t k = 0; k < out.size() && cs.v != "viol"; k++) { if (!out[k]) { cs.viol("null_cell:among_valid_cells", "a null cell pointer was returned at position " + std::to_string(k)); break; } rmu::Inv r = rmu::check_cell(*out[k], true, nullptr, false); if (!r.ok) cs.viol("invalid_cell:" + r.key + ":among_valid_cells", "returned cell " + std::to_string(k) + ": " + r.msg); } }
    cs.nontrivial = true; cs.sig = hash_combine(hash_str(text), (uint64_t)bad_at * 7 + (uint64_t)tri_on);
    cs.obs.i("cells_in_file", ncell).i("invalid_cell_at", bad_at).s("invalid_kind", kind).b("triangulation", tri_on).s("outcome", outcome).i("threads", a.threads);
    return std::string("b:among_valid:") + (tri_on ? "triangulation_on" : "triangulation_off") + "=1;b:among_valid_outcome:" + outcome + "=1;b:among_valid_position_" + (bad_at == 0 ? "first" : bad_at == ncell - 1 ? "last" : "middle") + "=1;\n" + cs.line();
}
static int cmd_reconstruct_among(const Args& a) {
    Agg agg; agg.max_samples = 4; char cwd[4096]; if (!getcwd(cwd, sizeof cwd)) { perror("getcwd"); return 2; }
    for (long i = a.first; i < a.first + a.cases; i++) {
        if (!a.mine(i)) continue;
        const std::string path = std::string(cwd) + "/c13a_input_" + std::to_string((long)getpid()) + "_" + std::to_string(i) + ".vtk";
        IsoResult r = run_isolated([&]() { return among_valid_case(a, i, path); }, a.getd("cpu_limit", 600), a.getd("cpu_limit", 600) * 3); unlink(path.c_str()); agg.evaluations++;
        if (!r.completed) { emit(crash_line(i, r)); agg.bin(r.timeout ? "timeout" : "crash"); continue; }
        const std::string& out = r.line; size_t nl = out.find('\n'); std::string meta = nl == std::string::npos ? "" : out.substr(0, nl), L = nl == std::string::npos ? out : out.substr(nl + 1);
        for (size_t p = 0; p < meta.size();) { size_t e = meta.find(';', p); if (e == std::string::npos) break; std::string kv = meta.substr(p, e - p); p = e + 1; size_t eq = kv.rfind('='); if (eq == std::string::npos || kv.size() < 3) continue; agg.bin(kv.substr(2, eq - 2), atol(kv.substr(eq + 1).c_str())); }
        if (L.find("\"nt\":true") != std::string::npos) { agg.nontrivial++; size_t p = L.find("\"sig\":\""); if (p != std::string::npos) agg.sigs[strtoull(L.substr(p + 7, 16).c_str(), nullptr, 16)] = 1; }
        if (L.find("\"v\":\"viol\"") != std::string::npos) { agg.viol_total++; if (agg.viol_total <= (long)agg.max_viol) emit(L); }
        else if (L.find("\"v\":\"inconclusive\"") != std::string::npos) emit(L);
        else if (agg.samples.size() < agg.max_samples) agg.samples.push_back(L);
    }
    agg.flush(a.shard_i);
    return 0;
}
static Reg r_reconstruct_among("reconstruct_among", cmd_reconstruct_among);

}  // namespace
