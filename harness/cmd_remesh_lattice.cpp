// C11 — edges EXACTLY at a bound of the length band.  "Splits only edges longer than the maximum length, collapses only edges shorter than the
// minimum length": an edge whose length equals a bound is neither.  Random geometry never produces such an edge; structured input does (a cube
// of side s refined with l_max = s, 3-4-5 triangles, halves of an edge of 2 l_max).  remesh_lattice builds meshes whose nodes lie on an integer
// lattice scaled by a power of two (octahedra with Pythagorean half axes, boxes of integer cells), picks l_min and / or l_max EQUAL to the length
// of some of their edges (only lengths whose square is exact in double), runs the repository's refinement pass and judges every split and every
// collapse through the remesh hook with exact arithmetic: all coordinates are dyadic rationals, squared lengths are exact in long double (the
// judgement is skipped, and counted, when they are not).  No grey zone is needed, none is used.
#include "vh.hpp"
#include "gen.hpp"
#include "oracle.hpp"
#include "remesh_util.hpp"
#include "local_mesh_refiner.hpp"
#include "verif_hooks.hpp"

using namespace vh;
using orc::V3; using orc::R;

namespace {
struct LMon { cell* c = nullptr; R lmin2 = 0, lmax2 = 0; long splits = 0, merges = 0, swaps = 0, at_lmax_seen = 0, at_lmin_seen = 0, inexact = 0; std::string key, msg; bool in_pass = false; };
static LMon* g_lm = nullptr;
static bool exact_l2(const node& a, const node& b, R& l2) {
    const R dx = (R)a.pos().dx() - (R)b.pos().dx(), dy = (R)a.pos().dy() - (R)b.pos().dy(), dz = (R)a.pos().dz() - (R)b.pos().dz(); l2 = dx * dx + dy * dy + dz * dz;
    // exact iff the double evaluation of the same expression agrees (dyadic coordinates of few bits: both are exact; otherwise they differ in the last bits)
    const double ddx = a.pos().dx() - b.pos().dx(), ddy = a.pos().dy() - b.pos().dy(), ddz = a.pos().dz() - b.pos().dz(); const double d2 = ddx * ddx + ddy * ddy + ddz * ddz;
    return (R)d2 == l2 && (R)ddx == dx && (R)ddy == dy && (R)ddz == dz;
}
static void lsink(int kind, int stage, cell* c, unsigned a, unsigned b, unsigned) {
    LMon* m = g_lm; if (!m || m->c != c) return;
    if (kind == VERIF_REMESH_PASS) { m->in_pass = stage == VERIF_STAGE_PRE; return; }
    if (stage != VERIF_STAGE_PRE || !m->in_pass) return;
    if (kind == VERIF_REMESH_SWAP) { m->swaps++; return; }
    const auto& nl = cell_tester::nodes(*c); if (a >= nl.size() || b >= nl.size()) return; R l2; const bool ex = exact_l2(nl[a], nl[b], l2);
    if (kind == VERIF_REMESH_SPLIT) { m->splits++; if (!ex) { m->inexact++; return; }
        if (l2 == m->lmax2) m->at_lmax_seen++;
        if (!(l2 > m->lmax2) && m->key.empty()) { m->key = l2 == m->lmax2 ? "c11.split_of_edge_not_longer_than_lmax:exactly_at_the_bound" : "c11.split_of_edge_not_longer_than_lmax:lattice"; m->msg = "a refinement pass split an edge of length " + std::to_string((double)std::sqrt(l2)) + " with l_max = " + std::to_string((double)std::sqrt(m->lmax2)) + " (exact arithmetic: l^2 / l_max^2 = " + std::to_string((double)(l2 / m->lmax2)) + ")"; } }
    if (kind == VERIF_REMESH_MERGE) { m->merges++; if (!ex) { m->inexact++; return; }
        if (l2 == m->lmin2) m->at_lmin_seen++;
        if (!(l2 < m->lmin2) && m->key.empty()) { m->key = l2 == m->lmin2 ? "c11.merge_of_edge_not_shorter_than_lmin:exactly_at_the_bound" : "c11.merge_of_edge_not_shorter_than_lmin:lattice"; m->msg = "a refinement pass collapsed an edge of length " + std::to_string((double)std::sqrt(l2)) + " with l_min = " + std::to_string((double)std::sqrt(m->lmin2)) + " (exact arithmetic: l^2 / l_min^2 = " + std::to_string((double)(l2 / m->lmin2)) + ")"; } }
}

static int cmd_remesh_lattice(const Args& a) {
    Agg agg; static const int PY[][2] = {{3, 4}, {6, 8}, {5, 12}, {9, 12}, {8, 15}, {4, 3}, {12, 5}, {8, 6}};
    for (long i = a.first; i < a.first + a.cases; i++) {
        if (!a.mine(i)) continue;
        Rng g(a.seed, (uint64_t)i, 0x11b); Case c(i);
        gen::TriMesh m; const int fam = g.range(0, 2);
        if (fam == 0) {   // octahedron with half axes (p, q, r): 4 edges sqrt(p^2+q^2), 4 edges sqrt(p^2+r^2), 4 edges sqrt(q^2+r^2)
            const int* py = PY[g.range(0, 7)]; const int p = py[0], q = py[1], r = g.coin(0.4) ? p : g.coin(0.5) ? q : g.range(1, 12);
            double h[3] = {(double)p, (double)q, (double)r}; if (g.coin(0.5)) std::swap(h[1], h[2]); if (g.coin(0.5)) std::swap(h[0], h[2]);
            m.P = {{h[0], 0, 0}, {-h[0], 0, 0}, {0, h[1], 0}, {0, -h[1], 0}, {0, 0, h[2]}, {0, 0, -h[2]}};
            m.T = {{0, 2, 4}, {2, 1, 4}, {1, 3, 4}, {3, 0, 4}, {2, 0, 5}, {1, 2, 5}, {3, 1, 5}, {0, 3, 5}}; m.name = "lattice_octahedron";
            if (g.coin(0.4)) { m = gen::subdivide(m, false); m.name = "lattice_octahedron_subdivided"; for (auto& x : m.P) for (double& v : x) v *= 2; }   // midpoints of even coordinates stay integer
        } else {   // box of n^3 cells of integer size (ex, ey, ez): axis edges ex, ey, ez and face diagonals
            const int n = 1 << g.range(0, 2); int e[3]; if (g.coin(0.5)) { const int* py = PY[g.range(0, 7)]; e[0] = py[0]; e[1] = py[1]; e[2] = g.coin(0.5) ? py[0] : g.range(1, 12); } else { e[0] = g.range(1, 9); e[1] = g.coin(0.5) ? e[0] : g.range(1, 9); e[2] = g.coin(0.5) ? e[0] : g.range(1, 9); }
            m = gen::box(n, 1, 1, 1); for (auto& x : m.P) for (int d = 0; d < 3; d++) x[d] = std::round((x[d] + 1) * n / 2) * e[d]; m.name = "lattice_box";
        }
        // lattice unit 2^k, integer offset
        const double unit = std::ldexp(1.0, g.range(-20, 4)); const int off[3] = {g.coin(0.4) ? 0 : g.range(-16, 16), g.coin(0.4) ? 0 : g.range(-16, 16), g.coin(0.4) ? 0 : g.range(-16, 16)};
        for (auto& x : m.P) for (int d = 0; d < 3; d++) x[d] = (x[d] + off[d]) * unit;
        gen::permute(m, g);
        // exact squared edge lengths (integers x unit^2) and those with an exact square root
        std::map<double, long> l2s; for (auto& t : m.T) for (int k = 0; k < 3; k++) { auto& A = m.P[t[k]]; auto& B = m.P[t[(k + 1) % 3]]; double d2 = 0; for (int d = 0; d < 3; d++) d2 += (A[d] - B[d]) * (A[d] - B[d]); l2s[d2]++; }
        std::vector<double> exact; for (auto& kv : l2s) { const double s = std::sqrt(kv.first); if (s * s == kv.first) exact.push_back(s); }
        if (exact.empty()) { c.v = "skip"; agg.add(c); continue; }
        const double lo = std::sqrt(l2s.begin()->first), hi = std::sqrt(l2s.rbegin()->first); const double e0 = exact[(size_t)g.range(0, (int)exact.size() - 1)];
        double lmin, lmax; const int mode = g.range(0, 3); const char* MODES[] = {"lmax_equals_an_edge", "lmin_equals_an_edge", "lmax_equals_half_an_edge", "both_bounds_equal_edges"};
        if (mode == 0) { lmax = e0; lmin = lmax / (g.coin(0.5) ? 3.0 : g.coin(0.5) ? 4.0 : 2.0); }
        else if (mode == 1) { lmin = e0; lmax = g.coin(0.5) ? 3 * lmin : std::max(3 * lmin, hi * (g.coin(0.5) ? 1.0 : 0.5)); }
        else if (mode == 2) { lmax = e0 / 2; lmin = lmax / (g.coin(0.5) ? 3.0 : 4.0); }
        else { lmin = exact.front(); lmax = exact.back() > lmin ? exact.back() : 3 * lmin; }
        if (!(lmax > lmin) || !(lmin > 0)) { c.v = "skip"; agg.add(c); continue; }
        (void)lo;
        std::shared_ptr<epithelial_cell> cp; try { cp = gen::make_cell<epithelial_cell>(m, 0, gen::default_cell_type(4, 0)); } catch (const std::exception&) { c.v = "skip"; agg.add(c); continue; }
        LMon mon; mon.c = cp.get(); mon.lmin2 = (R)lmin * (R)lmin; mon.lmax2 = (R)lmax * (R)lmax;
        // the bounds themselves must be exact too (lmin*lmin, lmax*lmax in double = the values the pass compares with)
        if ((R)(lmin * lmin) != mon.lmin2 || (R)(lmax * lmax) != mon.lmax2) { c.v = "skip"; agg.bin("skipped_inexact_bound"); agg.add(c); continue; }
        long at_max = 0, at_min = 0; for (auto& kv : l2s) { if ((R)kv.first == mon.lmax2) at_max += kv.second / 2; if ((R)kv.first == mon.lmin2) at_min += kv.second / 2; }
        const bool swaps = g.coin(0.5); bool threw = false; const int passes = g.range(1, 3);
        g_lm = &mon; verif::get().remesh_event = lsink;
        for (int ps = 0; ps < passes && !threw; ps++) { try { local_mesh_refiner lmr(lmin, lmax, swaps); lmr.refine_mesh(cp); } catch (const std::exception&) { threw = true; } }
        verif::get().remesh_event = nullptr; g_lm = nullptr;
        if (!mon.key.empty()) c.viol(mon.key, mon.msg + " [" + m.name + ", " + MODES[mode] + ", lattice unit 2^" + std::to_string((int)std::log2(unit)) + (swaps ? ", swaps enabled" : "") + "]");
        else if (!threw) { /* coarse lattice bodies collapse to a few nodes: only the topology is judged here (C01's tiny probe, DESIGN 8.2) */ rmu::Inv inv = rmu::check_cell(*cp, false, nullptr, false); if (!inv.ok) c.viol("c11.lattice_pass_left_invalid_cell:" + inv.key, inv.msg); }
        c.nontrivial = at_max + at_min > 0; c.sig = hash_combine(hash_combine(hash_str(m.name), hash_double(lmin)), hash_combine(hash_double(lmax), (uint64_t)(mon.splits * 1000 + mon.merges)));
        c.obs.s("mesh", m.name).s("band", MODES[mode]).d("l_min", lmin).d("l_max", lmax).i("edges_exactly_at_lmax", at_max).i("edges_exactly_at_lmin", at_min).i("splits", mon.splits).i("merges", mon.merges).i("swaps", mon.swaps).i("inexact_ops", mon.inexact).b("threw", threw);
        agg.bin("lattice_meshes"); agg.bin(std::string("lattice_band:") + MODES[mode]); agg.bin("lattice_edges_exactly_at_lmax", at_max); agg.bin("lattice_edges_exactly_at_lmin", at_min); agg.bin("lattice_splits_judged_exactly", mon.splits); agg.bin("lattice_merges_judged_exactly", mon.merges);
        agg.bin("lattice_ops_not_exact", mon.inexact); if (threw) agg.bin("lattice_pass_ended_by_exception"); if (mon.splits + mon.merges == 0 && !threw) agg.bin("lattice_meshes_left_alone");
        agg.add(c);
    }
    agg.flush(a.shard_i);
    return 0;
}
static Reg r_rl("remesh_lattice", cmd_remesh_lattice);
}  // namespace
