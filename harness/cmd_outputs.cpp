// C19 — output files and statistics of whole runs: mesh files numbered 1..K in pairs without gaps, each describing the
// cells alive when it was written; simulated time = n*dt and loop termination; statistics table (csv file and in-memory)
// with one header, one row per live cell for every recorded iteration (multiples of 50 and the final one written by
// solver::run), values equal to the getters at recording time to the printed precision.
//
// A monitored subclass of `solver` observes iteration_, file_number_, the time integrator and the cell list around every
// iteration and at the phase hooks (H4).  After run() the output directory is listed and every file is parsed with an own
// strict legacy-VTK parser (nothing shared with the repository's reader) and, for the cell files, also with mesh_reader.
#include "vh.hpp"
#include "gen.hpp"
#include "oracle.hpp"
#include "solver.hpp"
#include "local_mesh_refiner.hpp"
#include "mesh_reader.hpp"
#include "verif_hooks.hpp"
#include <filesystem>
#include <fstream>
#include <cfloat>
#include <set>
#include <mutex>
#include <unistd.h>

namespace {
using namespace vh;
namespace fs = std::filesystem;

// ------------------------------------------------------------------------------------------------------------------
// Numbers "to the printed precision".  A decimal literal d1.d2...dk e±x stands for the interval of half a unit of its
// last printed digit around it: a correctly rounded printf of `actual` always lies within it (glibc printf rounds
// exactly), so the comparison is an identity, not an error model.  4 eps |actual| covers the strtod of the literal.
struct Printed { bool ok = false; double v = 0, half_unit = 0; int sig = 0; };
static Printed parse_printed(const std::string& s) {
    Printed p; size_t i = 0, n = s.size(); if (n == 0 || n > 40) return p;
    if (s[i] == '+' || s[i] == '-') i++;
    size_t d0 = i; while (i < n && std::isdigit((unsigned char)s[i])) i++; size_t nint = i - d0; size_t nfrac = 0;
    if (i < n && s[i] == '.') { i++; size_t f0 = i; while (i < n && std::isdigit((unsigned char)s[i])) i++; nfrac = i - f0; }
    if (nint + nfrac == 0) return p;
    long ex = 0;
    if (i < n && (s[i] == 'e' || s[i] == 'E')) { i++; size_t e0 = i; if (i < n && (s[i] == '+' || s[i] == '-')) i++; size_t e1 = i; while (i < n && std::isdigit((unsigned char)s[i])) i++; if (i == e1) return p; ex = std::atol(s.c_str() + e0); }
    if (i != n) return p;
    char* end = nullptr; p.v = std::strtod(s.c_str(), &end); if (!end || *end || !std::isfinite(p.v)) return p;
    p.half_unit = 0.5 * std::pow(10.0, (double)(ex - (long)nfrac)); p.sig = (int)(nint + nfrac); p.ok = true; return p;
}
// returns |printed - actual| / allowed (<= 1 means equal to the printed precision); < 0 when the field is not a number
static double printed_dev(const std::string& field, double actual) {
    Printed p = parse_printed(field); if (!p.ok) return -1;
    double allowed = p.half_unit * (1 + 1e-9) + 4 * DBL_EPSILON * std::fabs(actual);
    return std::fabs(p.v - actual) / allowed;
}
static bool parse_int_strict(const std::string& s, long long& out) {
    if (s.empty() || s.size() > 20) return false; size_t i = 0; if (s[0] == '-' || s[0] == '+') i = 1; if (i == s.size()) return false;
    for (size_t k = i; k < s.size(); k++) if (!std::isdigit((unsigned char)s[k])) return false;
    out = std::atoll(s.c_str()); return true;
}

// ------------------------------------------------------------------------------------------------------------------
// Own strict parser of the ASCII legacy-VTK unstructured-grid subset.  Every declared count is verified against what
// is actually present, every token must be consumed, every index must be in range.
struct VtkArr { std::string name, type; long ncomp = 0, ntuples = 0; std::vector<std::string> vals; };
struct VtkFile {
    std::string err;                                   // empty = well-formed
    long npoints = 0; std::vector<std::string> pts;    // 3*npoints literals
    std::vector<std::vector<long>> cells; std::vector<long> types;
    std::vector<VtkArr> cell_arrays, point_arrays;
    const VtkArr* cell_array(const std::string& n) const { for (auto& a : cell_arrays) if (a.name == n) return &a; return nullptr; }
};
struct Tok {
    const std::string& s; size_t p = 0; explicit Tok(const std::string& str, size_t start) : s(str), p(start) {}
    bool next(std::string& t) { while (p < s.size() && std::isspace((unsigned char)s[p])) p++; if (p >= s.size()) return false; size_t b = p; while (p < s.size() && !std::isspace((unsigned char)s[p])) p++; t.assign(s, b, p - b); return true; }
};
static bool is_number(const std::string& t) { Printed p = parse_printed(t); return p.ok; }
static VtkFile parse_vtk(const std::string& content) {
    VtkFile f; auto fail = [&](const std::string& w) { if (f.err.empty()) f.err = w; return f; };
    // four header lines
    size_t pos = 0; std::string line[4];
    for (int k = 0; k < 4; k++) { size_t e = content.find('\n', pos); if (e == std::string::npos) return fail("header: fewer than four lines"); line[k] = content.substr(pos, e - pos); pos = e + 1; }
    if (line[0].rfind("# vtk DataFile Version ", 0) != 0) return fail("header: first line is not '# vtk DataFile Version x.y'");
    { std::string ver = line[0].substr(23); Printed p = parse_printed(ver); if (!p.ok) return fail("header: version is not a number"); }
    if (line[1].size() > 256) return fail("header: title longer than 256 characters");
    if (line[2] != "ASCII") return fail("header: third line is not ASCII");
    if (line[3] != "DATASET UNSTRUCTURED_GRID") return fail("header: fourth line is not DATASET UNSTRUCTURED_GRID");
    Tok tk(content, pos); std::string t;
    auto need_int = [&](long long& v, const char* what) -> bool { if (!tk.next(t) || !parse_int_strict(t, v) || v < 0) { fail(std::string("expected a non-negative integer for ") + what + ", got '" + t + "'"); return false; } return true; };
    if (!tk.next(t) || t != "POINTS") return fail("expected POINTS, got '" + t + "'");
    long long np; if (!need_int(np, "POINTS count")) return f; f.npoints = (long)np;
    if (!tk.next(t) || (t != "float" && t != "double")) return fail("POINTS data type is '" + t + "'");
    f.pts.reserve((size_t)np * 3);
    for (long long k = 0; k < np * 3; k++) { if (!tk.next(t)) return fail("POINTS: fewer coordinates than declared"); if (!is_number(t)) return fail("POINTS: coordinate '" + t + "' is not a finite number"); f.pts.push_back(t); }
    if (!tk.next(t) || t != "CELLS") return fail("expected CELLS after the declared number of coordinates, got '" + t + "'");
    long long nc, sz; if (!need_int(nc, "CELLS count") || !need_int(sz, "CELLS size")) return f;
    long long used = 0; f.cells.resize((size_t)nc);
    for (long long c = 0; c < nc; c++) {
        long long k; if (!need_int(k, "cell entry length")) return f; used += k + 1; if (used > sz) return fail("CELLS: entries exceed the declared size");
        f.cells[(size_t)c].resize((size_t)k);
        for (long long j = 0; j < k; j++) { long long v; if (!need_int(v, "cell entry")) return f; f.cells[(size_t)c][(size_t)j] = (long)v; }
    }
    if (used != sz) return fail("CELLS: declared size " + std::to_string(sz) + " but entries use " + std::to_string(used));
    if (!tk.next(t) || t != "CELL_TYPES") return fail("expected CELL_TYPES after the declared CELLS entries, got '" + t + "'");
    long long nct; if (!need_int(nct, "CELL_TYPES count")) return f; if (nct != nc) return fail("CELL_TYPES count differs from CELLS count");
    for (long long c = 0; c < nc; c++) { long long v; if (!need_int(v, "cell type")) return f; f.types.push_back((long)v); }
    // structure of each cell entry
    for (long long c = 0; c < nc; c++) {
        const auto& e = f.cells[(size_t)c]; long ty = f.types[(size_t)c];
        if (ty == 42) {          // polyhedron: nfaces, then (npts, ids...) per face
            if (e.empty()) return fail("polyhedron with an empty entry"); long nf = e[0]; size_t q = 1;
            for (long k = 0; k < nf; k++) { if (q >= e.size()) return fail("polyhedron: face list shorter than declared"); long npf = e[q++]; if (npf < 3) return fail("polyhedron: face with fewer than 3 points"); for (long j = 0; j < npf; j++) { if (q >= e.size()) return fail("polyhedron: face list shorter than declared"); if (e[q] >= f.npoints) return fail("polyhedron: point index out of range"); q++; } }
            if (q != e.size()) return fail("polyhedron: entry longer than its face list");
        } else if (ty == 7 || ty == 5) {
            if (e.size() < 3 || (ty == 5 && e.size() != 3)) return fail("polygon with fewer than 3 points"); for (long v : e) if (v >= f.npoints) return fail("polygon: point index out of range");
        } else return fail("unexpected VTK cell type " + std::to_string(ty));
    }
    // attribute sections
    int mode = 0; long count = 0;   // 1 = CELL_DATA, 2 = POINT_DATA
    while (tk.next(t)) {
        if (t == "CELL_DATA" || t == "POINT_DATA") {
            const int new_mode = t == "CELL_DATA" ? 1 : 2; long long m; if (!need_int(m, "attribute count")) return f; mode = new_mode; count = (long)m;
            if (mode == 1 && m != nc) return fail("CELL_DATA count differs from the number of cells");
            if (mode == 2 && m != np) return fail("POINT_DATA count differs from the number of points");
        } else if (t == "FIELD") {
            if (!mode) return fail("FIELD outside CELL_DATA / POINT_DATA");
            std::string fname; if (!tk.next(fname)) return fail("FIELD without a name"); long long na; if (!need_int(na, "FIELD array count")) return f;
            for (long long a = 0; a < na; a++) {
                VtkArr arr; if (!tk.next(arr.name)) return fail("FIELD: fewer arrays than declared"); if (is_number(arr.name)) return fail("FIELD: array name expected, got number '" + arr.name + "' (previous array longer than declared?)");
                long long ncomp, ntup; if (!need_int(ncomp, "array components") || !need_int(ntup, "array tuples")) return f; arr.ncomp = (long)ncomp; arr.ntuples = (long)ntup;
                if (!tk.next(arr.type) || (arr.type != "int" && arr.type != "float" && arr.type != "double" && arr.type != "long" && arr.type != "short" && arr.type != "unsigned_int")) return fail("FIELD array '" + arr.name + "': data type '" + arr.type + "'");
                if (ntup != count) return fail("FIELD array '" + arr.name + "': tuple count differs from the attribute count");
                bool integral = arr.type != "float" && arr.type != "double";
                for (long long k = 0; k < ncomp * ntup; k++) { if (!tk.next(t)) return fail("FIELD array '" + arr.name + "': fewer values than declared"); long long iv; if (integral ? !parse_int_strict(t, iv) : !is_number(t)) return fail("FIELD array '" + arr.name + "': value '" + t + "' does not match type " + arr.type); arr.vals.push_back(t); }
                (mode == 1 ? f.cell_arrays : f.point_arrays).push_back(std::move(arr));
            }
        } else if (t == "VECTORS" || t == "NORMALS") {
            if (!mode) return fail(t + " outside CELL_DATA / POINT_DATA"); std::string nm, ty; if (!tk.next(nm) || !tk.next(ty)) return fail("VECTORS header incomplete");
            for (long k = 0; k < 3 * count; k++) { if (!tk.next(t) || !is_number(t)) return fail("VECTORS '" + nm + "': fewer values than declared"); }
        } else return fail("unexpected token '" + t + "' after the declared data (a section is longer than declared or unknown)");
    }
    return f;
}

// ------------------------------------------------------------------------------------------------------------------
// What the monitor records
struct CellSnap { unsigned id = 0; int type = 0; size_t nfaces = 0, nnodes = 0; double area = 0, vol = 0, tvol = 0, pres = 0; std::vector<double> pos; };
static CellSnap snap(const cell_ptr& c, bool with_pos) {
    // live nodes and faces (the writer compacts every cell before it writes: unused slots are no points of the tissue)
    CellSnap s; s.id = c->get_id(); s.type = c->get_cell_type() ? c->get_cell_type()->global_type_id_ : -1; s.nfaces = 0; for (const face& f : c->get_face_lst()) if (f.is_used()) s.nfaces++; s.nnodes = 0; for (const node& n : c->get_node_lst()) if (n.is_used()) s.nnodes++;
    s.area = c->get_area(); s.vol = c->get_volume(); s.tvol = c->get_target_volume(); s.pres = c->get_pressure();
    if (with_pos) { s.pos.reserve(s.nnodes * 3); for (const node& n : c->get_node_lst()) if (n.is_used()) { s.pos.push_back(n.pos().dx()); s.pos.push_back(n.pos().dy()); s.pos.push_back(n.pos().dz()); } }
    return s;
}
struct FileRec { unsigned number = 0, iteration = 0; double t = 0; std::vector<CellSnap> cells; };
struct StatRec { unsigned iteration = 0; double t = 0; std::vector<CellSnap> cells; };

class mon_solver;
struct Monitor {
    mon_solver* S = nullptr; double T = 0, dt = 0, Sp = 0;
    std::vector<std::pair<std::string, std::string>> viols;
    void viol(const std::string& k, const std::string& m) { if (viols.size() < 8) viols.push_back({k, m}); }
    std::vector<FileRec> files; std::vector<StatRec> stats; StatRec final_rows; bool have_final = false;
    unsigned fn_at0 = 0; std::vector<unsigned> ids_at1, ids_at9; long iterations = 0, divisions = 0, removals = 0, div_at_recorded = 0, remesh_ops = 0, max_cells = 0;
    long removal_at_recorded = 0; bool extinct = false; double t_last_pre = 0; double max_time_err_over_tol = 0, max_step_err_over_tol = 0;
    long first_division_it = -1, first_removal_it = -1;
    void phase(int tag, const std::vector<cell_ptr>& lst);
    void pre(); void post();
};
static Monitor* g_mon = nullptr;

class mon_solver : public solver {
public:
    using solver::solver;
    // a run whose monitor has found a violation ends there (a frozen clock would otherwise keep run() looping for ever)
    void run_iteration() noexcept(false) override { g_mon->pre(); solver::run_iteration(); g_mon->post(); if (!g_mon->viols.empty()) throw std::runtime_error("run stopped by the monitor at its first violation"); }
    unsigned it() const { return iteration_; }
    unsigned fn() const { return file_number_; }
    double t() const { return time_integrator_ptr_->get_simulation_time(); }
    const std::vector<cell_ptr>& cells() const { return cell_lst_; }
};

// Rigorous bound for t_n = fl(t_{n-1} + dt): each addition errs by at most 2^-53 |t_k|, so |t_n - n dt| <= 2^-53 sum_k t_k
// ~ 2^-54 n (n dt).  The tolerance is four times that worst case: n 2^-52 (n dt).
static long double time_tol(long n, double dt) { return (long double)n * 0x1p-52L * (long double)n * (long double)dt; }

void Monitor::pre() {
    double t = S->t(); size_t nc = S->cells().size();
    if (!(t < T) || nc == 0) viol(nc == 0 ? "loop_overrun:empty_population" : "loop_overrun:time_reached", "an iteration was started although t >= T or no cell is left (t=" + std::to_string(t) + ")");
    if (S->it() != (unsigned)iterations) viol("iteration_counter", "iteration_ does not count the iterations run");
    t_last_pre = t;
}
void Monitor::post() {
    iterations++;
    double t = S->t(); long double exact = (long double)iterations * (long double)dt; long double tol = time_tol(iterations, dt);
    long double e = fabsl((long double)t - exact);
    if (tol > 0) max_time_err_over_tol = std::max(max_time_err_over_tol, (double)(e / tol));
    if (!(e <= tol)) viol("time_law", "simulated time after n iterations differs from n*dt beyond n*2^-52 relative");
    // one step: |(t_post - t_pre) - dt| <= ulp-level error of one addition (2^-53 t_post), tolerance 2^-51 t_post
    long double se = fabsl(((long double)t - (long double)t_last_pre) - (long double)dt), stol = 0x1p-51L * fabsl((long double)t);
    if (stol > 0) max_step_err_over_tol = std::max(max_step_err_over_tol, (double)(se / stol));
    if (!(se <= stol)) viol("time_step", "one iteration did not advance the simulated time by dt");
    if (S->it() != (unsigned)iterations) viol("iteration_counter", "iteration_ does not count the iterations run");
    // candidate for the final statistics record written by run(): nothing changes between here and that write
    final_rows.iteration = S->it(); final_rows.t = t; final_rows.cells.clear(); for (auto& c : S->cells()) final_rows.cells.push_back(snap(c, false)); have_final = true;
    if (S->cells().empty()) extinct = true;
}
void Monitor::phase(int tag, const std::vector<cell_ptr>& lst) {
    if (tag == 0) { fn_at0 = S->fn(); max_cells = std::max(max_cells, (long)lst.size()); }
    else if (tag == 1) {
        if (S->fn() != fn_at0) {   // save_mesh wrote a pair of files under the number file_number_; nothing moved since
            FileRec r; r.number = S->fn(); r.iteration = S->it(); r.t = S->t(); for (auto& c : lst) r.cells.push_back(snap(c, true)); files.push_back(std::move(r));
        }
        ids_at1.clear(); for (auto& c : lst) ids_at1.push_back(c->get_id());
    } else if (tag == 2) {
        std::set<unsigned> before(ids_at1.begin(), ids_at1.end()); long born = 0; for (auto& c : lst) if (!before.count(c->get_id())) born++;
        if (born) { divisions += born / 2; if (first_division_it < 0) first_division_it = S->it(); if (S->it() % 50 == 0) div_at_recorded += born / 2; }
    } else if (tag == 9) {
        ids_at9.clear(); for (auto& c : lst) ids_at9.push_back(c->get_id());
        if (S->it() % 50 == 0) { StatRec r; r.iteration = S->it(); r.t = S->t(); for (auto& c : lst) r.cells.push_back(snap(c, false)); stats.push_back(std::move(r)); }
    } else if (tag == 10) {
        long gone = (long)ids_at9.size() - (long)lst.size();
        if (gone > 0) { removals += gone; if (first_removal_it < 0) first_removal_it = S->it(); if (S->it() % 50 == 0) removal_at_recorded += gone; }
    }
}
static void phase_hook(int tag, const std::vector<std::shared_ptr<cell>>* lst) { if (g_mon && lst) g_mon->phase(tag, *lst); }
// (both hooks are called from the parallel phases of the solver when it runs with several threads: the monitor's own state is guarded)
static std::mutex g_hook_mu;
static void remesh_hook(int kind, int stage, cell*, unsigned, unsigned, unsigned) { if (g_mon && stage == VERIF_STAGE_POST && kind != VERIF_REMESH_PASS) { std::lock_guard<std::mutex> lk(g_hook_mu); g_mon->remesh_ops++; } }
static uint64_t g_rng_base = 0; static std::map<std::pair<int, uint64_t>, uint64_t>* g_rng_ctr = nullptr;
static uint64_t rng_hook(int site, uint64_t ctx) { uint64_t k; { std::lock_guard<std::mutex> lk(g_hook_mu); k = (*g_rng_ctr)[{site, ctx}]++; } return mix64(hash_combine(hash_combine(g_rng_base, (uint64_t)site * 1315423911ULL + ctx), k)); }

// ------------------------------------------------------------------------------------------------------------------
// Case description
struct Sweep { double T = 0, dt = 0, S = 0; std::string ratio, dt_kind, T_kind; long n_target = 0; };
static const char* HIST[] = {"plain", "growth", "division_at_0", "division_late", "removal_at_0", "removal_late", "extinction_at_0", "extinction_late", "mixed"};
enum Role { R_PLAIN = 0, R_GROW, R_DIV0, R_DIVLATE, R_REM0, R_SHRINK };

static Sweep make_sweep(Rng& g, int hist, const Args& a) {
    Sweep s;
    // ratio kind first: it decides how dt is drawn
    int rk = g.range(0, 99);
    long forced = a.geti("ratio", -1); if (forced >= 0) rk = (int)forced;
    std::string ratio = rk < 24 ? "S_eq_dt" : rk < 32 ? "S_near_dt" : rk < 52 ? "S_k_dt" : rk < 76 ? "incommensurable" : rk < 94 ? "binary_exact" : "S_gt_T";
    // time step
    if (ratio == "binary_exact") { s.dt = std::ldexp((double)(g.coin(0.7) ? 1 : g.coin() ? 3 : 5), -g.range(0, 20)); s.dt_kind = "binary"; }
    else { int k = g.range(0, 2);
        if (k == 0) { static const std::vector<double> menu = {0.1, 0.01, 0.001, 1e-7, 2.5e-3, 0.3, 0.7, 1.0, 3.0, 0.05, 1e-4, 0.2, 0.6, 1e-5, 0.9, 1.1e-3}; s.dt = g.pick(menu); s.dt_kind = "decimal"; }
        else if (k == 1) { s.dt = g.logu(1e-8, 10); s.dt_kind = "random"; }
        else { s.dt = (double)g.range(1, 999) * std::pow(10.0, -g.range(1, 9)); s.dt_kind = "decimal_random"; } }
    // number of iterations aimed at
    bool late = hist == 3 || hist == 5 || hist == 7;
    int nk = g.range(0, 99);
    bool special = false;   // final record labelled with a multiple of 50 (N = 50, 100, 150) or last iteration itself a recorded one (N = 51, 101)
    if (late) s.n_target = nk < 50 ? g.range(101, 135) : nk < 78 ? g.range(60, 100) : nk < 90 ? g.range(150, 230) : (special = true, g.coin() ? 100 + (g.coin() ? 0 : 1) : 150);
    else s.n_target = nk < 16 ? g.range(1, 12) : nk < 44 ? g.range(51, 75) : nk < 74 ? g.range(101, 130) : nk < 80 ? g.range(13, 50) : nk < 88 ? g.range(150, 260) : (special = true, g.coin() ? 50 + (g.coin() ? 0 : 1) : 100 + (g.coin() ? 0 : 1));
    if (a.geti("n", -1) > 0) s.n_target = a.geti("n", -1);
    // duration
    int tk = special ? 5 : g.range(0, 9);
    if (tk < 4) { s.T = (double)s.n_target * s.dt; s.T_kind = "T_multiple_of_dt"; }
    else if (tk < 9 || s.n_target > 1) { s.T = ((double)s.n_target - g.uni(0.05, 0.95)) * s.dt; s.T_kind = "T_fractional"; }
    else { s.T = 0.5 * s.dt; s.T_kind = "T_below_dt"; }
    // sampling period
    if (ratio == "S_eq_dt") s.S = s.dt;
    else if (ratio == "S_near_dt") { int e = g.range(0, 2); s.S = e == 0 ? std::nextafter(s.dt, INFINITY) : e == 1 ? s.dt * (1 + 1e-13) : s.dt * (1 + 1e-9); }
    else if (ratio == "S_k_dt") { static const std::vector<int> ks = {2, 3, 4, 5, 7, 10, 25, 50}; s.S = (double)g.pick(ks) * s.dt; }
    else if (ratio == "incommensurable") { static const std::vector<double> rs = {1.4142135623730951, 3.141592653589793, 2.718281828459045, 1.618033988749895, 1.7320508075688772, 10.0 / 3.0, 1.1, 7.3}; s.S = s.dt * (g.coin(0.6) ? g.pick(rs) : g.uni(1.0, 9.0)); }
    else if (ratio == "binary_exact") { static const std::vector<int> ms = {1, 2, 3, 4, 8, 16}; s.S = (double)g.pick(ms) * s.dt; }
    else { s.S = s.T * g.uni(1.1, 3.0); if (s.S < s.dt) s.S = s.dt * 1.5; }
    s.ratio = ratio;
    return s;
}

struct Pop { std::vector<cell_ptr> cells; std::vector<int> roles; double l_min = 0, r0 = 0, edge_min = 0, edge_max = 0; long faces = 0; std::vector<std::string> classes; bool all_static = false; long slot_states = 0; };

static Pop make_population(Rng& g, int hist, const Sweep& sw, const Args& a) {
    Pop p; const double dt = sw.dt;
    p.r0 = 1e-5 * g.logu(0.2, 5);
    int n = g.range(1, 6); bool many_files = sw.S < 1.5 * sw.dt && sw.n_target > 40;
    if (many_files) n = g.range(1, 3);                       // one pair of files per iteration: keep them small
    if ((hist == 8) && n < 3) n = 3;
    if (a.geti("cells", -1) > 0) n = (int)a.geti("cells", -1);
    // roles
    p.roles.assign(n, R_PLAIN);
    for (int k = 0; k < n; k++) {
        Role r = R_PLAIN;
        switch (hist) {
            case 0: r = R_PLAIN; break;
            case 1: r = R_GROW; break;
            case 2: r = (k == 0 || g.coin(0.5)) ? R_DIV0 : (g.coin() ? R_GROW : R_PLAIN); break;
            case 3: r = (k == 0 || g.coin(0.6)) ? R_DIVLATE : (g.coin() ? R_GROW : R_PLAIN); break;
            case 4: r = (k == 0 && n > 1) ? R_PLAIN : (k == 1 || g.coin(0.5)) ? R_REM0 : R_GROW; if (n == 1) r = R_PLAIN; break;
            case 5: r = (k == 0 && n > 1) ? R_PLAIN : (k == 1 || g.coin(0.6)) ? R_SHRINK : R_GROW; if (n == 1) r = R_PLAIN; break;
            case 6: r = R_REM0; break;
            case 7: r = (k == 0 || g.coin(0.7)) ? R_SHRINK : R_REM0; break;
            default: { static const Role all[] = {R_PLAIN, R_GROW, R_DIV0, R_DIVLATE, R_REM0, R_SHRINK}; r = all[g.range(0, 5)]; }
        }
        p.roles[k] = r;
    }
    if (hist == 4 || hist == 5) { if (n == 1) { n = 2; p.roles = {R_PLAIN, hist == 4 ? R_REM0 : R_SHRINK}; } }
    // meshes on a lattice, far apart (8 r0 between centres, largest radius 2.3 r0)
    std::vector<gen::TriMesh> meshes; std::vector<double> radius; double emin = INFINITY, emax = 0;
    for (int k = 0; k < n; k++) {
        int level = (many_files || g.coin(0.7)) ? 1 : 2;
        gen::TriMesh m = gen::icosphere(level); double r = p.r0 * (level == 2 ? 2.0 : 1.0) * g.uni(0.85, 1.15);
        gen::rotate(m, gen::rot_random(g)); gen::scale(m, r, r, r); gen::jitter(m, g, 0.03); radius.push_back(r);
        int ix = k % 3, iy = (k / 3) % 2; double ox = g.uni(-3, 3) * p.r0, oy = g.uni(-3, 3) * p.r0, oz = g.uni(-3, 3) * p.r0;
        gen::translate(m, ox + 8 * p.r0 * ix, oy + 8 * p.r0 * iy, oz);
        for (auto& t : m.T) for (int e = 0; e < 3; e++) { auto& A = m.P[t[e]]; auto& B = m.P[t[(e + 1) % 3]]; double d = std::sqrt((A[0] - B[0]) * (A[0] - B[0]) + (A[1] - B[1]) * (A[1] - B[1]) + (A[2] - B[2]) * (A[2] - B[2])); emin = std::min(emin, d); emax = std::max(emax, d); }
        p.faces += (long)m.T.size(); meshes.push_back(std::move(m));
    }
    p.edge_min = emin; p.edge_max = emax; p.l_min = emin / 1.35;     // every edge inside [1.35 l_min, < 2.6 l_min]: remeshing is rare
    // physics scaled to the time step so that every (dt) of the sweep gives a stable, responsive cell:
    // breathing mode omega = 3 sqrt(K / rho) / r ; omega dt = wdt (the damping, gamma dt / m_node, is set by the caller)
    const double rho = 1e3, wdt = a.getd("wdt", g.uni(0.03, 0.06));
    const double rr = 1.3 * p.r0, K = rho * (wdt / dt) * (wdt / dt) * rr * rr / 9.0;
    // a fifth of the histories without growth / division / removal: every cell is of a class that never moves (ECM, static)
    const bool all_static = hist == 0 && g.coin(0.35); p.all_static = all_static;
    // one cell type per cell (thresholds are relative to the cell's own start volume); the role is the printed type id
    for (int k = 0; k < n; k++) {
        Role r = (Role)p.roles[k];
        auto ct = gen::default_cell_type(3, (short)r);
        ct->mass_density_ = rho; ct->bulk_modulus_ = K; ct->max_pressure_ = INFINITY; ct->initial_pressure_ = g.coin(0.3) ? 0.01 * K : 0.0;
        ct->area_elasticity_modulus_ = 0; ct->target_isoperimetric_ratio_ = 150;
        for (auto& ft : ct->face_types_) ft.surface_tension_ = g.coin(0.5) ? 0.0 : 0.002 * K * rr;
        // start volume by an own formula
        std::vector<orc::V3> P; std::vector<orc::Tri> T; for (auto& q : meshes[k].P) P.push_back(orc::V3(q[0], q[1], q[2])); for (auto& t : meshes[k].T) T.push_back({t[0], t[1], t[2]});
        long double V6 = 0; for (auto& t : T) V6 += P[t.a].dot(P[t.b].cross(P[t.c])); const double V0 = (double)(V6 / 6);
        const double g_fast = a.getd("growth", g.uni(0.004, 0.008)) * V0 / dt;       // fraction of the start volume per time step
        switch (r) {
            case R_PLAIN: ct->avg_growth_rate_ = 0; break;
            case R_GROW: ct->avg_growth_rate_ = g.uni(0.0002, 0.002) * V0 / dt; ct->std_growth_rate_ = g.coin(0.4) ? 0.1 * ct->avg_growth_rate_ : 0; break;
            case R_DIV0: ct->avg_division_vol_ = g.uni(0.75, 0.97) * V0; ct->std_division_vol_ = g.coin(0.3) ? 0.01 * V0 : 0; ct->avg_growth_rate_ = g.coin(0.6) ? g.uni(0.002, 0.006) * V0 / dt : 0; break;
            case R_DIVLATE: ct->avg_division_vol_ = g.uni(1.03, 1.08) * V0; ct->std_division_vol_ = g.coin(0.3) ? 0.005 * V0 : 0; ct->avg_growth_rate_ = g_fast; ct->std_growth_rate_ = g.coin(0.3) ? 0.05 * g_fast : 0; break;
            case R_REM0: ct->min_vol_ = g.uni(1.05, 1.5) * V0; ct->avg_growth_rate_ = g.coin() ? 0 : g.uni(-0.001, 0.001) * V0 / dt; break;
            case R_SHRINK: {
                // The target volume is clamped at min_vol, so a cell only falls below min_vol when something compresses it: a surface
                // tension with Laplace pressure 2 sigma / r = s K holds the volume at exp(-s) of the target volume.  The run starts
                // balanced (initial pressure s K) and the target volume then decreases: the volume crosses min_vol after
                // (1 - min_vol / V0) / rate steps (about 15 to 110).
                const double s_l = g.uni(0.10, 0.16), rate = g.uni(0.0012, 0.003);
                for (auto& ft : ct->face_types_) ft.surface_tension_ = 0.5 * s_l * K * radius[k];
                ct->initial_pressure_ = s_l * K; ct->min_vol_ = g.uni(0.86, 0.96) * V0; ct->avg_growth_rate_ = -rate * V0 / dt; break; }
        }
        int cls = 0;                      // cell class: only epithelial cells divide
        if (r == R_PLAIN || r == R_REM0) { int q = g.range(0, 9); cls = q < 5 ? 0 : q == 5 ? 1 : q == 6 ? 2 : q == 7 ? 3 : q == 8 ? 4 : 0; if (all_static && r == R_PLAIN) cls = g.coin() ? 1 : 4; }
        else if (r == R_GROW || r == R_SHRINK) { int q = g.range(0, 9); cls = q < 6 ? 0 : q < 8 ? 2 : 3; }
        static const char* CLS[] = {"epithelial", "ecm", "lumen", "nucleus", "static"};
        p.classes.push_back(CLS[cls]);
        p.cells.push_back(gen::make_cell_of_class(cls, meshes[k], (unsigned)k, ct));
        // a quarter of the cells enter the run with the slot layout a collapse followed by a split leaves behind: an unused node slot, no unused face slot
        // (1 collapse + 1 split), or unused node and face slots (collapse only)
        if (g.coin(0.25)) { cell_ptr cp = p.cells.back(); local_mesh_refiner lmr(1e-12 * p.r0, 1e12 * p.r0, false); edge_set dummy; bool merged = false;
            for (int tr = 0; tr < 6 && !merged; tr++) { const auto& es = cell_tester::edges(*cp); auto it = es.begin(); std::advance(it, (long)(g.u64() % es.size())); edge e = *it; if (lmr.can_be_merged(e, cp)) { dummy.clear(); lmr.merge_edge(e, cp, dummy); merged = true; } }
            if (merged && g.coin(0.7)) { const auto& es = cell_tester::edges(*cp); auto it = es.begin(); std::advance(it, (long)(g.u64() % es.size())); edge e = *it; dummy.clear(); lmr.split_edge(e, cp, dummy); }
            if (merged) { cp->update_all_face_normals_and_areas(); p.slot_states++; } }
    }
    return p;
}

static std::string read_file(const std::string& p, bool& ok) { std::ifstream f(p, std::ios::binary); ok = (bool)f; std::ostringstream o; o << f.rdbuf(); return o.str(); }
static std::vector<std::string> split(const std::string& s, char sep) { std::vector<std::string> o; size_t b = 0; for (;;) { size_t e = s.find(sep, b); if (e == std::string::npos) { o.push_back(s.substr(b)); break; } o.push_back(s.substr(b, e - b)); b = e + 1; } return o; }
static std::string hexd(double d) { char b[64]; snprintf(b, sizeof b, "%a", d); return b; }

struct Out { Case c; std::map<std::string, long> bins; std::map<std::string, double> maxima; std::vector<std::pair<std::string, std::string>> vl; explicit Out(long i) : c(i) {}
    // every check runs on every run; the reported violation is the first one outside the file-numbering family, so that the
    // numbering defect (a known finding while it is unfixed) never hides another one of the same run
    void viol(const std::string& k, const std::string& m) { if (vl.size() < 16) vl.push_back({k, m}); }
    void settle() { if (vl.empty()) return; size_t pick = 0; for (size_t k = 0; k < vl.size(); k++) if (vl[k].first.rfind("file_number_gap", 0) != 0 && vl[k].first.rfind("file_count", 0) != 0) { pick = k; break; }
        c.viol(vl[pick].first, vl[pick].second); std::string all; for (auto& v : vl) all += (all.empty() ? "" : " ") + v.first; c.obs.s("all_violation_keys", all); }
    void bin(const std::string& b, long n = 1) { bins[b] += n; } void maxi(const std::string& k, double v) { auto it = maxima.find(k); if (it == maxima.end() || v > it->second) maxima[k] = v; } };

// list result_<n>.vtk of a folder; anything else is reported
static bool list_results(const std::string& dir, std::set<long>& nums, std::string& bad) {
    std::error_code ec; if (!fs::is_directory(dir, ec)) { bad = "folder missing"; return false; }
    for (auto& e : fs::directory_iterator(dir)) { std::string n = e.path().filename().string(); long long v;
        if (n.size() > 11 && n.rfind("result_", 0) == 0 && n.substr(n.size() - 4) == ".vtk" && parse_int_strict(n.substr(7, n.size() - 11), v) && n[7] != '+' && n[7] != '-' && (n[7] != '0' || n.size() == 12)) nums.insert((long)v); else { bad = n; } }
    return true;
}

// ---- statistics table ----------------------------------------------------------------------------------------------
static void check_statistics(const std::string& text, bool present, const Monitor& M, Out& o, const std::string& writer) {
    Case& c = o.c;
    if (!present) { o.viol("stats_missing:" + writer, "no statistics table was produced"); return; }
    std::vector<std::string> lines = split(text, '\n');
    if (!lines.empty() && lines.back().empty()) lines.pop_back(); else { o.viol("stats_format:no_final_newline", "statistics table does not end with a newline"); return; }
    if (lines.empty()) { o.viol("stats_header:missing", "statistics table is empty"); return; }
    std::vector<std::string> head = split(lines[0], ',');
    auto col = [&](const std::string& n) -> int { for (size_t k = 0; k < head.size(); k++) if (head[k] == n) return (int)k; return -1; };
    const char* needed[] = {"iteration", "simulation_time", "cell_id", "type_id", "area", "volume", "target_volume", "pressure"};
    for (const char* n : needed) if (col(n) < 0) { o.viol(std::string("stats_header:column_missing"), std::string("the header has no column '") + n + "'"); return; }
    { std::set<std::string> seen; for (auto& h : head) if (!h.empty() && !seen.insert(h).second) { o.viol("stats_header:duplicate_column", "column '" + h + "' appears twice in the header"); return; } }
    const int ci = col("iteration"), ct = col("simulation_time"), cid = col("cell_id"), cty = col("type_id"), ca = col("area"), cv = col("volume"), ctv = col("target_volume"), cp = col("pressure");
    // expected records, in the order they were written
    std::vector<const StatRec*> exp; for (auto& r : M.stats) exp.push_back(&r); if (M.have_final) exp.push_back(&M.final_rows);
    std::map<unsigned, const StatRec*> by_it; for (auto* r : exp) by_it[r->iteration] = r;
    std::map<unsigned, std::map<long long, int>> seen;      // iteration -> cell id -> count
    long prev_it = -1; long rows = 0;
    for (size_t li = 1; li < lines.size(); li++) {
        const std::string& L = lines[li];
        if (L == lines[0] || L.rfind("iteration", 0) == 0) { o.viol("stats_header:repeated", "the header line appears more than once"); return; }
        std::vector<std::string> f = split(L, ',');
        if (f.size() != head.size()) { o.viol("stats_fields", "a row has " + std::to_string(f.size()) + " fields, the header has " + std::to_string(head.size())); return; }
        long long it, id, ty;
        if (!parse_int_strict(f[ci], it) || it < 0) { o.viol("stats_value:iteration", "iteration field '" + f[ci] + "' is not an integer"); return; }
        if (!parse_int_strict(f[cid], id)) { o.viol("stats_value:cell_id", "cell_id field '" + f[cid] + "' is not an integer"); return; }
        if (!parse_int_strict(f[cty], ty)) { o.viol("stats_value:type_id", "type_id field '" + f[cty] + "' is not an integer"); return; }
        if (it < prev_it) { o.viol("stats_order", "rows are not ordered by iteration"); return; } prev_it = (long)it;
        auto e = by_it.find((unsigned)it);
        if (e == by_it.end()) { o.viol("stats_rows:unexpected_iteration", "rows recorded for iteration " + std::to_string(it) + " which is neither a multiple of 50 nor the final record (" + std::to_string(M.final_rows.iteration) + ")"); return; }
        // The record written by run() after the loop is labelled with the number N of iterations run, the records of the loop
        // with iteration numbers n < N (n % 50 == 0): the labels never coincide, also when N or N-1 is a multiple of 50.  So the
        // statement's "one row per cell alive" admits no exception: two rows with the same (iteration, cell id) are a violation.
        if (++seen[(unsigned)it][id] > 1) { o.viol("stats_rows:duplicate", "two rows for the same (iteration, cell id)"); return; }
        const CellSnap* s = nullptr; for (auto& cs : e->second->cells) if ((long long)cs.id == id) s = &cs;
        if (!s) { o.viol("stats_rows:cell_not_alive", "row for cell " + std::to_string(id) + " at iteration " + std::to_string(it) + ": no such cell in the list when the record was written"); return; }
        if (ty != s->type) { o.viol("stats_value:type_id", "type_id differs from the cell's type"); return; }
        struct { int col; double v; const char* n; } chk[] = {{ca, s->area, "area"}, {cv, s->vol, "volume"}, {ctv, s->tvol, "target_volume"}, {cp, s->pres, "pressure"}, {ct, e->second->t, "simulation_time"}};
        for (auto& k : chk) {
            if (!std::isfinite(k.v)) { o.bin("stats_nonfinite_value_not_compared"); continue; }
            double d = printed_dev(f[k.col], k.v);
            if (d < 0) { o.viol(std::string("stats_value:") + k.n, std::string(k.n) + " field '" + f[k.col] + "' is not a number"); return; }
            o.maxi("stats_printed_dev_over_half_unit", d);
            if (d > 1) { o.viol(std::string("stats_value:") + k.n, std::string(k.n) + " field '" + f[k.col] + "' differs from the getter value " + std::to_string(k.v) + " (printed precision) at iteration " + std::to_string(it)); return; }
            if (parse_printed(f[k.col]).sig < 3) { o.viol(std::string("stats_precision:") + k.n, "fewer than 3 significant digits printed"); return; }
        }
        rows++;
    }
    // every expected record complete
    for (auto* r : exp) {
        auto& got = seen[r->iteration];
        for (auto& cs : r->cells) if (!got.count(cs.id)) { o.viol(r == &M.final_rows ? "stats_rows:missing_final" : "stats_rows:missing", "no row for cell " + std::to_string(cs.id) + " alive at recorded iteration " + std::to_string(r->iteration)); return; }
    }
    o.bin("stats_rows_checked", rows); o.bin("stats_records_checked", (long)exp.size()); o.bin("stats_tables_checked:" + writer);
}

// ---- one pair of files ---------------------------------------------------------------------------------------------
static void check_points(const VtkFile& v, const FileRec& r, Out& o, const std::string& which) {
    Case& c = o.c; size_t q = 0;
    for (auto& cs : r.cells) for (double x : cs.pos) {
        if (q >= v.pts.size()) return; double d = printed_dev(v.pts[q++], x);
        o.maxi("point_printed_dev_over_half_unit", d);
        if (d > 1 || d < 0) { o.viol("file_content:point_coordinates:" + which, "a point coordinate differs from the node position when the file was written (printed precision), file " + std::to_string(r.number)); return; }
    }
}
static void check_file_pair(const std::string& dir, const FileRec& r, Out& o, bool use_reader) {
    Case& c = o.c; const std::string num = std::to_string(r.number);
    size_t total_nodes = 0, total_faces = 0; for (auto& cs : r.cells) { total_nodes += cs.nnodes; total_faces += cs.nfaces; }
    std::map<long long, const CellSnap*> by_id; for (auto& cs : r.cells) by_id[cs.id] = &cs;
    // ---- cell_data ----
    bool ok; std::string cpath = dir + "/cell_data/result_" + num + ".vtk"; std::string txt = read_file(cpath, ok);
    if (!ok) return;   // reported by the listing check
    VtkFile v = parse_vtk(txt);
    if (!v.err.empty()) { o.viol("file_parse:cell_data", "cell_data/result_" + num + ".vtk: " + v.err); return; }
    if (v.cells.size() != r.cells.size()) { o.viol("file_content:cell_count", "cell_data/result_" + num + ".vtk holds " + std::to_string(v.cells.size()) + " cells, " + std::to_string(r.cells.size()) + " were alive at the start of iteration " + std::to_string(r.iteration)); return; }
    for (long ty : v.types) if (ty != 42) { o.viol("file_content:cell_type", "cell file holds a non-polyhedron cell"); return; }
    if ((size_t)v.npoints != total_nodes) { o.viol("file_content:point_count:cell_data", "number of points differs from the number of nodes of the live cells"); return; }
    const VtkArr *aid = v.cell_array("cell_id"), *aty = v.cell_array("cell_type_id"), *aa = v.cell_array("cell_area"), *av = v.cell_array("cell_volume"), *ap = v.cell_array("cell_pressure");
    if (!aid || !aty || !aa || !av || !ap) { o.viol("file_content:cell_array_missing", "cell file lacks one of cell_id / cell_type_id / cell_area / cell_volume / cell_pressure"); return; }
    std::set<long long> ids_seen;
    for (size_t k = 0; k < v.cells.size(); k++) {
        long long id = std::atoll(aid->vals[k].c_str());
        if (!ids_seen.insert(id).second) { o.viol("file_content:cell_ids", "a cell id appears twice in cell file " + num); return; }
        auto e = by_id.find(id); if (e == by_id.end()) { o.viol("file_content:cell_ids", "cell file " + num + " holds cell " + std::to_string(id) + " which was not alive at the start of iteration " + std::to_string(r.iteration)); return; }
        const CellSnap& cs = *e->second;
        if ((size_t)v.cells[k][0] != cs.nfaces) { o.viol("file_content:face_count", "cell " + std::to_string(id) + " has " + std::to_string(v.cells[k][0]) + " faces in file " + num + ", " + std::to_string(cs.nfaces) + " in the simulation"); return; }
        for (size_t q = 1; q < v.cells[k].size(); q += 4) if (v.cells[k][q] != 3) { o.viol("file_content:non_triangle", "a face of a cell file is not a triangle"); return; }
        if (std::atoll(aty->vals[k].c_str()) != cs.type) { o.viol("file_content:cell_type_id", "cell_type_id differs from the cell's type"); return; }
        struct { const VtkArr* a; double val; const char* n; } chk[] = {{aa, cs.area, "cell_area"}, {av, cs.vol, "cell_volume"}, {ap, cs.pres, "cell_pressure"}};
        for (auto& q : chk) { if (!std::isfinite(q.val)) continue; double d = printed_dev(q.a->vals[k], q.val); o.maxi("file_printed_dev_over_half_unit", d);
            if (d > 1 || d < 0) { o.viol(std::string("file_content:") + q.n, std::string(q.n) + " of cell " + std::to_string(id) + " in file " + num + " ('" + q.a->vals[k] + "') differs from the getter value when written"); return; } }
    }
    { size_t nv = o.vl.size(); check_points(v, r, o, "cell_data"); if (o.vl.size() != nv) return; }
    o.bin("cell_files_parsed"); o.bin("cells_compared_in_files", (long)v.cells.size());
    // ---- repository reader on the same file ----
    if (use_reader) {
        try {
            mesh_reader mr(cpath, false); std::vector<mesh> ml = mr.read();
            if (ml.size() != r.cells.size()) { o.viol("mesh_reader:cell_count", "mesh_reader returns " + std::to_string(ml.size()) + " cells for file " + num + ", expected " + std::to_string(r.cells.size())); return; }
            for (size_t k = 0; k < ml.size(); k++) if (ml[k].face_point_ids.size() != (size_t)v.cells[k][0]) { o.viol("mesh_reader:face_count", "mesh_reader returns a different number of faces than written"); return; }
            o.bin("cell_files_read_by_mesh_reader");
        } catch (const std::exception& e) { o.viol("mesh_reader:rejects_written_file", std::string("mesh_reader throws on cell_data/result_") + num + ".vtk: " + e.what()); return; }
    }
    // ---- face_data ----
    std::string fpath = dir + "/face_data/result_" + num + ".vtk"; txt = read_file(fpath, ok); if (!ok) return;
    VtkFile w = parse_vtk(txt);
    if (!w.err.empty()) { o.viol("file_parse:face_data", "face_data/result_" + num + ".vtk: " + w.err); return; }
    if (w.cells.size() != total_faces) { o.viol("file_content:face_total", "face file " + num + " holds " + std::to_string(w.cells.size()) + " faces, the live cells had " + std::to_string(total_faces)); return; }
    if ((size_t)w.npoints != total_nodes) { o.viol("file_content:point_count:face_data", "number of points differs from the number of nodes of the live cells"); return; }
    for (size_t k = 0; k < w.cells.size(); k++) if (w.cells[k].size() != 3 || (w.types[k] != 7 && w.types[k] != 5)) { o.viol("file_content:non_triangle", "a face of the face file is not a triangle"); return; }
    const VtkArr* fc = w.cell_array("face_cell_id"); const VtkArr* fa = w.cell_array("face_area");
    if (!fc || !fa) { o.viol("file_content:face_array_missing", "face file lacks face_cell_id / face_area"); return; }
    std::map<long long, size_t> per; for (auto& s : fc->vals) per[std::atoll(s.c_str())]++;
    if (per.size() != r.cells.size()) { o.viol("file_content:face_cell_ids", "face file " + num + " refers to " + std::to_string(per.size()) + " cells, " + std::to_string(r.cells.size()) + " were alive"); return; }
    for (auto& kv : per) { auto e = by_id.find(kv.first); if (e == by_id.end() || e->second->nfaces != kv.second) { o.viol("file_content:face_cell_ids", "faces per cell id in the face file differ from the live cells"); return; } }
    { size_t nv = o.vl.size(); check_points(w, r, o, "face_data"); if (o.vl.size() != nv) return; }
    o.bin("face_files_parsed");
}

// ------------------------------------------------------------------------------------------------------------------
static std::string run_case(const Args& a, long i, const std::string& outdir) {
    Rng g(a.seed, (uint64_t)i, 0x19);
    Out o(i); Case& c = o.c;
    int hist; { int h = g.range(0, 99); hist = h < 12 ? 0 : h < 22 ? 1 : h < 38 ? 2 : h < 58 ? 3 : h < 68 ? 4 : h < 78 ? 5 : h < 85 ? 6 : h < 94 ? 7 : 8; }
    if (a.geti("hist", -1) >= 0) hist = (int)a.geti("hist", -1);
    Sweep sw = make_sweep(g, hist, a);
    if (!a.get("T").empty()) sw.T = std::strtod(a.get("T").c_str(), nullptr);
    if (!a.get("dt").empty()) sw.dt = std::strtod(a.get("dt").c_str(), nullptr);
    if (!a.get("S").empty()) sw.S = std::strtod(a.get("S").c_str(), nullptr);
    const bool in_memory = g.coin(0.4);
    g_rng_base = hash_combine(a.seed, (uint64_t)i); std::map<std::pair<int, uint64_t>, uint64_t> ctr; g_rng_ctr = &ctr;
    verif::get().rng_seed = rng_hook;
    Pop pop = make_population(g, hist, sw, a);
    const std::string feature = sw.S == sw.dt ? "S_eq_dt" : (sw.S / sw.dt - 1 < 1e-6 ? "S_near_dt" : "S_gt_dt");
    c.obs.s("history", HIST[hist]).s("ratio", sw.ratio).s("dt_kind", sw.dt_kind).s("T_kind", sw.T_kind).d("T", sw.T).d("dt", sw.dt).d("S", sw.S)
        .s("T_hex", hexd(sw.T)).s("dt_hex", hexd(sw.dt)).s("S_hex", hexd(sw.S)).i("cells", (long)pop.cells.size()).i("faces", pop.faces).s("writer", in_memory ? "string" : "csv").d("l_min", pop.l_min);
    c.sig = hash_combine(hash_combine(hash_double(sw.T), hash_double(sw.dt)), hash_combine(hash_double(sw.S), (uint64_t)hist * 64 + pop.cells.size()));

    global_simulation_parameters sp; sp.output_folder_path_ = outdir; sp.input_mesh_path_ = ""; sp.perform_initial_triangulation_ = false; sp.enable_edge_swap_operation_ = g.coin(0.5);
    sp.simulation_duration_ = sw.T; sp.sampling_period_ = sw.S; sp.time_step_ = sw.dt; sp.min_edge_len_ = pop.l_min;
    sp.contact_cutoff_adhesion_ = 0.25 * pop.l_min; sp.contact_cutoff_repulsion_ = 0.25 * pop.l_min;
    { // damping: gamma dt / m_node = gdt for a typical node
        const double rr = 1.3 * pop.r0, v_typ = 4.18879 * rr * rr * rr, m_node = 1e3 * v_typ / 60.0; sp.damping_coefficient_ = a.getd("gdt", g.uni(0.04, 0.12)) * m_node / sw.dt; }

    // ---- the output folder may have been used before: an earlier, longer run leaves more result files behind than this run will write (and a
    //      statistics file only if it did not keep its statistics in memory); afterwards the folder must hold this run's files only
    if (g.coin(0.3) && a.geti("reuse_folder", 1) != 0) {
        std::error_code ec2; fs::create_directories(outdir + "/cell_data", ec2); fs::create_directories(outdir + "/face_data", ec2);
        const long kmain = std::min<long>(200, (long)(sw.T / sw.S) + 1); const int extra = g.range(1, 6);
        for (long k = 1; k <= kmain + extra; k++) for (const char* sub : {"/cell_data", "/face_data"}) { FILE* f = fopen((outdir + sub + "/result_" + std::to_string(k) + ".vtk").c_str(), "w"); if (f) { fputs("# vtk DataFile Version 4.2\nleft behind by an earlier run\n", f); fclose(f); } }
        if (g.coin(0.4)) { FILE* f = fopen((outdir + "/simulation_statistics.csv").c_str(), "w"); if (f) { fputs("iteration,simulation_time,cell_id\n0,0,0\n", f); fclose(f); } }
        o.bin("output_folder_used_by_an_earlier_run");
    }
    // ---- an earlier simulation of the same process, written to another folder (a parameter sweep through the API runs one simulation after another): a few
    //      iterations of one fresh cell, one file pair per iteration.  It is not judged; what it leaves behind inside the process must not reach this run
    std::string earlier_dir; std::map<std::string, uint64_t> earlier_files;
    if (g.coin(0.3) && a.geti("earlier_run", 1) != 0) {
        earlier_dir = outdir + "_earlier"; global_simulation_parameters sp2 = sp; sp2.output_folder_path_ = earlier_dir; sp2.simulation_duration_ = 3.5 * sw.dt; sp2.sampling_period_ = sw.dt;
        try { gen::TriMesh m2 = gen::icosphere(1); gen::scale(m2, pop.r0, pop.r0, pop.r0); gen::translate(m2, 40 * pop.r0, 0, 0); sp2.min_edge_len_ = gen::mean_edge(m2) * 0.6; sp2.contact_cutoff_adhesion_ = sp2.contact_cutoff_repulsion_ = 0.1 * sp2.min_edge_len_;
            auto ct2 = std::make_shared<cell_type_parameters>(*pop.cells[0]->get_cell_type()); ct2->avg_growth_rate_ = 0; ct2->std_growth_rate_ = 0; ct2->avg_division_vol_ = INFINITY; ct2->std_division_vol_ = 0; ct2->min_vol_ = 0;
            std::vector<cell_ptr> l2 = {std::static_pointer_cast<cell>(gen::make_cell<lumen_cell>(m2, 0, ct2))}; auto S2 = std::make_unique<solver>(sp2, l2, 1, true, false); S2->run(); (void)S2.release(); o.bin("earlier_run_in_the_same_process"); }
        catch (const std::exception&) { o.bin("earlier_run_ended_by_exception"); }
        // what the earlier run wrote stays where it is; this run must not touch it
        std::error_code ec3; if (fs::exists(earlier_dir, ec3)) for (auto& e : fs::recursive_directory_iterator(earlier_dir, ec3)) if (e.is_regular_file()) { bool pr = false; earlier_files[e.path().string()] = hash_str(read_file(e.path().string(), pr)); }
    }
    Monitor M; M.T = sw.T; M.dt = sw.dt; M.Sp = sw.S; g_mon = &M;
    verif::get().phase = phase_hook; verif::get().remesh_event = remesh_hook;
    bool threw = false; std::string what; std::string stats_text; bool stats_present = false; double t_end = 0; size_t cells_end = 0;
    {
        std::unique_ptr<mon_solver> S;
        try { S = std::make_unique<mon_solver>(sp, pop.cells, a.threads, in_memory, false); }
        catch (const std::exception& e) { c.v = "skip"; c.msg = std::string("constructor threw: ") + e.what(); o.bin("skip:constructor_exception"); goto done; }
        M.S = S.get();
        try { S->run(); } catch (const std::exception& e) { threw = true; what = e.what(); } catch (...) { threw = true; what = "unknown exception"; }
        t_end = S->t(); cells_end = S->cells().size();
        if (!threw) {
            if (in_memory) { try { stats_text = S->get_simulation_statistics(); stats_present = true; } catch (const std::exception& e) { stats_present = false; } }
            else stats_text = read_file(outdir + "/simulation_statistics.csv", stats_present);
        }
        M.S = nullptr; g_mon = nullptr; verif::get().phase = nullptr; verif::get().remesh_event = nullptr;
        // the solver is destroyed through its own (non-virtual-base) destructor: leave that to C10, release without delete
        (void)S.release();
    }
    if (pop.all_static) o.bin("populations_of_cells_that_never_move"); if (pop.slot_states) o.bin("cells_entering_with_unused_slots", pop.slot_states);
    c.obs.i("iterations", M.iterations).i("files_written", (long)M.files.size()).i("divisions", M.divisions).i("removals", M.removals).i("first_division_it", M.first_division_it).i("first_removal_it", M.first_removal_it).i("remesh_ops", M.remesh_ops).i("cells_end", (long)cells_end).d("t_end", t_end);
    if (threw && !M.viols.empty()) { c.nontrivial = true; for (auto& v : M.viols) o.viol(v.first, v.second); goto done; }   // stopped by the monitor: its finding stands
    if (threw) { c.v = "skip"; c.msg = "run() ended with an exception: " + what.substr(0, 160); o.bin("skip:run_exception"); goto done; }
    {
        c.nontrivial = true;
        // ---------------- loop termination and time ----------------
        for (auto& v : M.viols) o.viol(v.first, v.second);
        if (!(t_end >= sw.T) && cells_end != 0) o.viol("loop_stopped_early", "run() returned although t < T and cells are left");
        o.maxi("time_err_over_tol", M.max_time_err_over_tol); o.maxi("step_err_over_tol", M.max_step_err_over_tol); o.maxi("iterations_max", (double)M.iterations);
        // ---------------- file numbering ----------------
        std::set<long> dc, df; std::string bad1, bad2;
        list_results(outdir + "/cell_data", dc, bad1); list_results(outdir + "/face_data", df, bad2);
        if (!bad1.empty() || !bad2.empty()) o.viol("file_unexpected_name", "unexpected entry in the output folders: " + bad1 + " " + bad2);
        if (!earlier_dir.empty()) { std::error_code ec4; std::map<std::string, uint64_t> now; if (fs::exists(earlier_dir, ec4)) for (auto& e : fs::recursive_directory_iterator(earlier_dir, ec4)) if (e.is_regular_file()) { bool pr = false; now[e.path().string()] = hash_str(read_file(e.path().string(), pr)); }
            if (now != earlier_files) o.viol("file_written_into_the_folder_of_an_earlier_run", "the output folder of an earlier simulation of the same process held " + std::to_string(earlier_files.size()) + " files before this run and holds " + std::to_string(now.size()) + " files (or other contents) after it: this run wrote there"); }
        std::set<long> W; for (auto& r : M.files) W.insert(r.number);
        if (W.size() != M.files.size()) o.viol("file_overwritten", "the same file number was written twice");
        if (dc != df) o.viol("file_pair", "cell_data and face_data do not hold the same file numbers");
        for (long w : W) if (!dc.count(w)) { o.viol("file_missing", "file number " + std::to_string(w) + " was announced by file_number_ but is not in the folder"); break; }
        for (long d : dc) if (!W.count(d)) { o.viol("file_unexpected", "file number " + std::to_string(d) + " is in the folder but file_number_ never took that value"); break; }
        long K = (long)dc.size();
        { long expect = 1; for (long d : dc) { if (d != expect) { o.viol("file_number_gap:" + feature, "files are not numbered 1..K: number " + std::to_string(expect) + " is missing, " + std::to_string(d) + " exists (K=" + std::to_string(K) + ", T=" + hexd(sw.T) + " dt=" + hexd(sw.dt) + " S=" + hexd(sw.S) + ")"); break; } expect++; } }
        { // K within one of floor(T/S)+1; when the population died out the run lasted t_end instead of T
            long double Teff = M.extinct ? (long double)t_end : (long double)sw.T; long Kexp = (long)floorl(Teff / (long double)sw.S) + 1;
            o.maxi("file_count_abs_diff", (double)std::labs(K - Kexp));
            if (std::labs(K - Kexp) > 1) o.viol("file_count:" + feature, "K=" + std::to_string(K) + " files, floor(T/S)+1=" + std::to_string(Kexp)); }
        // ---------------- when each file was written: the first iteration at or after (number-1)*S ----------------
        // ties (a sampling time that coincides with a step up to rounding) may fall on either side: 1e-3 dt + the time tolerance
        for (auto& r : M.files) {
            long double nominal = (long double)(r.number - 1) * (long double)sw.S, tol = 1e-3L * sw.dt + time_tol((long)r.iteration + 1, sw.dt);
            o.maxi("file_early_by_over_dt", (double)((nominal - (long double)r.t) / sw.dt)); o.maxi("file_late_by_over_dt", (double)(((long double)r.t - nominal - (long double)sw.dt) / sw.dt));   // tolerance: 1e-3
            if ((long double)r.t < nominal - tol) { o.viol("file_time:early", "file " + std::to_string(r.number) + " written at t=" + std::to_string(r.t) + ", before its sampling time " + std::to_string((double)nominal)); break; }
            if ((long double)r.t > nominal + (long double)sw.dt + tol) { o.viol("file_time:late", "file " + std::to_string(r.number) + " written at t=" + std::to_string(r.t) + ", more than one step after its sampling time " + std::to_string((double)nominal)); break; }
        }
        // ---------------- contents ----------------
        size_t nf = M.files.size(); size_t reader_stride = nf > 8 ? nf / 8 : 1;
        { size_t nv = o.vl.size(); for (size_t k = 0; k < nf && o.vl.size() == nv; k++) check_file_pair(outdir, M.files[k], o, k % reader_stride == 0 || k + 1 == nf); }
        // ---------------- statistics ----------------
        check_statistics(stats_text, stats_present, M, o, in_memory ? "string" : "csv");
        // ---------------- evidence ----------------
        o.bin(std::string("history:") + HIST[hist]); o.bin("ratio:" + sw.ratio); o.bin("feature:" + feature); o.bin("dt_kind:" + sw.dt_kind); o.bin(sw.T_kind); o.bin(in_memory ? "writer:string" : "writer:csv");
        o.bin("cells:" + std::to_string(pop.cells.size())); for (auto& cl : pop.classes) o.bin("class:" + cl);
        o.bin("iterations_total", M.iterations); o.bin("files_total", K); o.bin("divisions_total", M.divisions); o.bin("removals_total", M.removals); o.bin("remesh_ops_total", M.remesh_ops);
        if (M.divisions) o.bin("runs_with_division"); if (M.div_at_recorded) o.bin("runs_with_division_at_recorded_iteration"); if (M.first_division_it > 0) o.bin("runs_with_division_after_iteration_0");
        if (M.removals) o.bin("runs_with_removal"); if (M.removal_at_recorded) o.bin("runs_with_removal_at_recorded_iteration"); if (M.first_removal_it > 0) o.bin("runs_with_removal_after_iteration_0");
        if (M.extinct) o.bin("runs_with_extinction"); if (M.extinct && M.iterations > 1) o.bin("runs_with_extinction_after_iteration_0");
        if (M.iterations > 50) o.bin("runs_crossing_iteration_50"); if (M.iterations > 100) o.bin("runs_crossing_iteration_100");
        if (M.iterations % 50 == 0 && M.iterations > 0) o.bin("runs_final_record_on_multiple_of_50"); if (M.iterations > 0 && (M.iterations - 1) % 50 == 0) o.bin("runs_last_iteration_is_recorded_iteration");
        if (M.remesh_ops == 0) o.bin("runs_without_remeshing");
        auto bucket = [](long it) { return it == 0 ? std::string("0") : it < 50 ? std::string("1-49") : it < 100 ? std::string("50-99") : std::string("100+"); };
        if (M.first_division_it >= 0) o.bin("first_division_at_iteration:" + bucket(M.first_division_it)); if (M.first_removal_it >= 0) o.bin("first_removal_at_iteration:" + bucket(M.first_removal_it));
        if (M.extinct) o.bin("extinction_at_iteration:" + bucket(M.iterations - 1));
        if (M.max_cells > (long)pop.cells.size()) o.maxi("cells_max", (double)M.max_cells);
        if (sw.S == sw.dt) o.bin(K == M.iterations ? "S_eq_dt_one_file_per_iteration" : "S_eq_dt_fewer_files_than_iterations");
    }
done:
    if (!earlier_dir.empty()) { std::error_code ec5; fs::remove_all(earlier_dir, ec5); }
    o.settle();
    g_mon = nullptr; verif::get().phase = nullptr; verif::get().remesh_event = nullptr; verif::get().rng_seed = nullptr;
    std::ostringstream out; out << c.line() << "\n";
    for (auto& kv : o.bins) out << "B\t" << kv.first << "\t" << kv.second << "\n";
    out << std::setprecision(17); for (auto& kv : o.maxima) out << "M\t" << kv.first << "\t" << kv.second << "\n";
    return out.str();
}

static int cmd_outputs(const Args& a) {
    Agg agg; agg.max_samples = 6;
    const double cpu_limit = a.getd("cpu_limit", 120);
    std::error_code ec; const std::string cwd = fs::current_path(ec).string();
    for (long i = a.first; i < a.first + a.cases; i++) {
        if (!a.mine(i)) continue;
        const std::string outdir = cwd + "/c19_out_" + std::to_string((long)getpid()) + "_" + std::to_string(a.seed) + "_" + std::to_string(i);
        IsoResult r = run_isolated([&]() { return run_case(a, i, outdir); }, cpu_limit, cpu_limit * 3);
        if (a.geti("keep", 0) == 0) fs::remove_all(outdir, ec);
        if (!r.completed) { emit(crash_line(i, r)); agg.evaluations++; agg.bin(r.timeout ? "timeout" : "crash"); continue; }
        std::vector<std::string> lines = split(r.line, '\n'); const std::string& L = lines[0];
        auto flag = [&](const std::string& k) -> bool { size_t p = L.find("\"" + k + "\":"); return p != std::string::npos && L.compare(p + k.size() + 3, 4, "true") == 0; };
        bool viol = L.find("\"v\":\"viol\"") != std::string::npos, skip = L.find("\"v\":\"skip\"") != std::string::npos;
        agg.evaluations++;
        for (size_t k = 1; k < lines.size(); k++) { auto f = split(lines[k], '\t'); if (f.size() != 3) continue; if (f[0] == "B") agg.bin(f[1], std::atol(f[2].c_str())); else if (f[0] == "M") agg.maxi(f[1], std::atof(f[2].c_str())); }
        if (skip) { agg.skipped++; if (agg.samples.size() < agg.max_samples && agg.bins["skip_samples"] < 2) { agg.bin("skip_samples"); agg.samples.push_back(L); } continue; }
        if (flag("nt")) { agg.nontrivial++; size_t p = L.find("\"sig\":\""); if (p != std::string::npos) agg.sigs[strtoull(L.substr(p + 7, 16).c_str(), nullptr, 16)] = 1; }
        if (viol) { agg.viol_total++; if (agg.viol_total <= (long)agg.max_viol) emit(L); }
        else if (agg.samples.size() < agg.max_samples && flag("nt")) agg.samples.push_back(L);
    }
    agg.flush(a.shard_i);
    return 0;
}
static Reg r_outputs("outputs", cmd_outputs);

}  // namespace
