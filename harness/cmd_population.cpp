// C08 — cell identities and cross-references stay valid as the population changes.
// A monitored solver runs histories of divisions and removals on adhering tissues; at every phase boundary of
// every iteration (hook H4), i.e. immediately before the phases that dereference them, the monitor checks list
// indices, persistent ids, node couplings, face owners and face-type indices.
#include "vh.hpp"
#include <atomic>
#include <chrono>
#include "tissue.hpp"
#include "verif_hooks.hpp"
#include <set>
#include <mutex>
#include <unistd.h>

using namespace vh;

namespace {

struct Mon {
    std::string key, msg; double cutoff = 0; int nb_types_min = 99;
    std::set<unsigned> ever, retired, prev_ids; long checks = 0, couplings_checked = 0, faces_checked = 0, max_cells = 0;
    long divisions = 0, removals = 0, removal_first = 0, removal_middle = 0, removal_last = 0, iters_with_couplings = 0, shrunk_to_one = 0; std::vector<unsigned> prev_order;
    void viol(const std::string& k, const std::string& m) { if (key.empty()) { key = k; msg = m; } }
};
struct StopRun {};   // thrown by the phase hook (master thread, outside parallel regions) to end a run at the first violation
static Mon* g_mon = nullptr;
static uint64_t g_rng_base = 0; static std::mutex g_mu; static std::map<std::pair<int, uint64_t>, uint64_t> g_ctr;
static uint64_t rng_seed(int site, uint64_t ctx) { std::lock_guard<std::mutex> lk(g_mu); uint64_t k = g_ctr[{site, ctx}]++; return hash_combine(hash_combine(g_rng_base, (uint64_t)site), hash_combine(ctx, k)); }
static const char* TAG[] = {"begin", "after_save", "after_division", "after_face_reset", "after_refinement", "after_contacts", "after_polarisation", "after_forces", "after_integration", "after_statistics", "after_removal"};

static void on_phase_impl(int tag, const std::vector<cell_ptr>* lp);
static double g_limit = 1e300;
static void on_phase(int tag, const std::vector<cell_ptr>* lp) { if (tag == 8 && tis::blown_up(*lp, g_limit)) throw tis::unstable_run(); on_phase_impl(tag, lp); if (g_mon && !g_mon->key.empty()) throw StopRun(); }
static void on_phase_impl(int tag, const std::vector<cell_ptr>* lp) {
    Mon* m = g_mon; if (!m || !m->key.empty() || tag < 0 || tag > 10) return;
    const auto& L = *lp; m->checks++; m->max_cells = std::max<long>(m->max_cells, (long)L.size());
    const std::string at = std::string("@") + TAG[tag];
    // --- list indices and persistent ids -----------------------------------------------------------------
    // list indices and couplings are dereferenced by the contact phase (starts after tag 4), the polarisation update (after 5) and
    // the time integration (after 7): they are judged at the boundaries 4..7, i.e. where the simulation is about to use them.
    // (Couplings left over from the previous iteration are reset by the contact phase before any use, so they are not judged earlier.)
    const bool use_point = tag >= 4 && tag <= 7;
    std::set<unsigned> ids;
    for (size_t i = 0; i < L.size(); i++) {
        if (use_point && L[i]->get_local_id() != i) { m->viol("list_index_mismatch" + at, "cell at position " + std::to_string(i) + " of " + std::to_string(L.size()) + " reports list index " + std::to_string(L[i]->get_local_id())); return; }
        if (!ids.insert(L[i]->get_id()).second) { m->viol("duplicate_cell_id" + at, "two cells share the persistent id " + std::to_string(L[i]->get_id())); return; }
        if (m->retired.count(L[i]->get_id())) { m->viol("retired_cell_id_reused" + at, "persistent id " + std::to_string(L[i]->get_id()) + " reappeared after its cell had left the population"); return; }
    }
    if (tag == 2 || tag == 10 || tag == 0) {
        std::vector<unsigned> order; for (auto& c : L) order.push_back(c->get_id());
        if (tag == 2) { long gone = 0; for (unsigned id : m->prev_ids) if (!ids.count(id)) gone++; m->divisions += gone; }
        if (tag == 10) { for (size_t k = 0; k < m->prev_order.size(); k++) if (!ids.count(m->prev_order[k])) { m->removals++; if (k == 0) m->removal_first++; else if (k + 1 == m->prev_order.size()) m->removal_last++; else m->removal_middle++; } }
        for (unsigned id : m->prev_ids) if (!ids.count(id)) m->retired.insert(id);
        if (tag == 10 && L.size() == 1 && m->prev_order.size() == 2) m->shrunk_to_one++;
        m->prev_ids = ids; m->prev_order = order;
    } else { m->prev_ids = ids; m->prev_order.clear(); for (auto& c : L) m->prev_order.push_back(c->get_id()); }
    for (unsigned id : ids) m->ever.insert(id);
    // --- faces ---------------------------------------------------------------------------------------------
    for (size_t i = 0; i < L.size(); i++) {
        const cell& c = *L[i]; size_t nft = c.get_cell_type()->face_types_.size();
        for (const face& f : cell_tester::faces(c)) if (f.is_used()) { m->faces_checked++;
            if (cell_tester::owner(f).get() != &c) { m->viol("face_owner_mismatch" + at, "a live face's owner is not the cell that holds it"); return; }
            if (cell_tester::type_id(f) >= nft) { m->viol("face_type_index_out_of_range:class" + std::to_string(c.get_cell_type_id()) + "_index" + std::to_string(cell_tester::type_id(f)) + "_of_" + std::to_string(nft) + at, "face type index " + std::to_string(cell_tester::type_id(f)) + " with " + std::to_string(nft) + " face types (cell class " + std::to_string(c.get_cell_type_id()) + ")"); throw StopRun(); } }
    }
    // --- couplings -------------------------------------------------------------------------------------------
#if CONTACT_MODEL_INDEX == 1 || CONTACT_MODEL_INDEX == 2
    bool any = false;
    for (size_t i = 0; i < L.size() && tag >= 5 && tag <= 7; i++) {
        const cell& c = *L[i];
        for (const node& n : cell_tester::nodes(c)) if (n.is_used()) {
            std::vector<std::pair<unsigned, unsigned>> cps;
#if CONTACT_MODEL_INDEX == 1
            if (cell_tester::coupled(n).has_value()) cps.push_back(cell_tester::coupled(n).value());
#else
            for (auto& kv : cell_tester::coupled_map(n)) cps.push_back({kv.first, kv.second.first});
#endif
            for (auto& cp : cps) { any = true; m->couplings_checked++;
                if (cp.first >= L.size()) { m->viol("coupling_cell_index_out_of_range" + at, "a coupled node refers to list position " + std::to_string(cp.first) + " in a population of " + std::to_string(L.size())); return; }
                if (cp.first == i) { m->viol("coupling_to_own_cell" + at, "a node is coupled to a node of its own cell"); return; }
                const cell& o = *L[cp.first]; const auto& onl = cell_tester::nodes(o);
                if (cp.second >= onl.size()) { m->viol("coupling_node_index_out_of_range" + at, "a coupled node refers to a node slot beyond the partner cell's node list"); return; }
                if (!onl[cp.second].is_used()) { m->viol("coupling_to_dead_node" + at, "a coupled node refers to an unused node slot of the partner cell"); return; }
                // identity of the partner: right after the contact phase the partner must be the node it was coupled to, which lay within
                // the adhesion cut-off (pairs are then snapped together, so the distance can only have shrunk); a stale list index designates
                // a node of another cell, a cell size away
                { const vec3& a = n.pos(); const vec3& b = onl[cp.second].pos(); double d = std::sqrt((a.dx() - b.dx()) * (a.dx() - b.dx()) + (a.dy() - b.dy()) * (a.dy() - b.dy()) + (a.dz() - b.dz()) * (a.dz() - b.dz()));
                    // (model 2 couples a node to nodes of several cells and the couplings need not be mutual: each partner may have been pulled towards
                    // another partner by up to half a cut-off per coupling, so chains reach 2.5 cut-offs - observed once in 8250 histories; a stale
                    // index designates a node a cell size, i.e. 15-20 cut-offs, away)
                    const double lim = CONTACT_MODEL_INDEX == 2 ? 4.0 : 2.0;
                    if (!(d <= lim * m->cutoff)) { m->viol("coupling_designates_wrong_cell" + at, "a node is coupled to a node " + std::to_string(d / m->cutoff) + " adhesion cut-offs away (stale list index?)"); return; } }
            }
        }
    }
    if (any && tag == 5) m->iters_with_couplings++;
#endif
}

// adhering row / grid; some cells doomed (removed at staggered times), some dividing; cell types with 1..5 face types
static tis::Scenario make_pop(Rng& g, int iterations, bool few_face_types_epithelial) {
    tis::Scenario s; s.P = tis::base_params(g); s.iterations = iterations; s.family = "population";
    const double r = 4.2e-6 * g.uni(0.9, 1.1), V0 = 4.0 / 3.0 * M_PI * r * r * r * 0.93, gap = 0.4e-6 * g.uni(0.5, 1.0);
    int nx = g.range(2, 5), ny = g.range(1, 3); if (nx * ny > 12) ny = 2;
    if (g.coin(0.2)) { nx = 2; ny = 1; }   // adhering pair: the removal of one cell leaves a population of exactly one cell
    auto epi = [&](int nft) { cell_type_parameters c = tis::base_type(0, g, V0); while ((int)c.face_types_.size() > nft) c.face_types_.pop_back(); while ((int)c.face_types_.size() < nft) { face_type_parameters f = c.face_types_[0]; f.face_type_global_id_ = (short)(10 + c.face_types_.size()); f.name_ = "extra"; c.face_types_.push_back(f); } return c; };
    int nft_div = few_face_types_epithelial ? g.range(1, 2) : (g.coin() ? 3 : 5);
    cell_type_parameters stay = epi(few_face_types_epithelial ? g.range(1, 2) : (g.coin() ? 3 : 5)); stay.name_ = "epi_stay"; s.types.push_back(stay);
    cell_type_parameters div = epi(nft_div); div.name_ = "epi_fast"; div.avg_growth_rate_ = 0.5 * V0 / (0.3 * iterations * s.P.time_step_); div.avg_division_vol_ = V0 * g.uni(1.02, 1.08); div.std_division_vol_ = 0.005 * div.avg_division_vol_; s.types.push_back(div);
    for (int k = 0; k < 3; k++) { cell_type_parameters d = epi(3); d.name_ = "doomed" + std::to_string(k); d.min_vol_ = V0 * g.uni(0.9, 0.99); d.avg_growth_rate_ = -g.uni(0.5, 3.0) * V0 / (iterations * s.P.time_step_); d.bulk_modulus_ *= 4; s.types.push_back(d); }
    { cell_type_parameters c = tis::base_type(2, g, V0); s.types.push_back(c); }   // lumen (1 face type)
    { cell_type_parameters c = tis::base_type(4, g, V0); s.types.push_back(c); }   // static (1 face type)
    int n = nx * ny; std::vector<int> role(n, 0);
    // positions of doomed cells: first / middle / last on purpose
    int ndoom = g.range(1, std::min(3, n - 1)); std::vector<int> pos; if (g.coin(0.6)) pos.push_back(0); if (g.coin(0.6)) pos.push_back(n - 1); while ((int)pos.size() < ndoom) pos.push_back(g.range(0, n - 1));
    for (size_t k = 0; k < pos.size() && (int)k < ndoom; k++) role[pos[k]] = 2 + (int)(k % 3);
    for (int i = 0; i < n; i++) if (role[i] == 0) { double u = g.uni(); role[i] = u < 0.45 ? 1 : u < 0.85 ? 0 : u < 0.93 ? 5 : 6; }
    int idx = 0;
    for (int i = 0; i < nx; i++) for (int j = 0; j < ny; j++, idx++) { // a fifth of the cells come with a mesh much finer than the band: the first refinement passes collapse most of their edges, leaving more unused than used slots
        const int level = g.coin(0.2) ? (g.coin(0.3) ? 4 : 3) : 2; if (level > 2) s.family = "population_with_fine_meshes";
        s.cells.push_back({tis::sphere(r, i * (2 * r + gap), j * (2 * r + gap), 0, g, level), role[idx]}); }
    s.P.simulation_duration_ = (iterations - 0.5) * s.P.time_step_; s.P.sampling_period_ = 20 * s.P.time_step_;
    { double u = g.uni(); s.construction_ids = u < 0.7 ? 0 : u < 0.85 ? 1 : 2; }   // ids the cells are built with before the solver takes them over
    return s;
}

static std::atomic<long> g_arrived{0};
static void rendezvous(int tag, long) { if (tag != 21) return; const long n = ++g_arrived; const auto t0 = std::chrono::steady_clock::now();
    if (n % 2 == 0) return;   // the second of a pair: its partner is waiting, both go on together
    while (g_arrived.load() < n + 1 && std::chrono::steady_clock::now() - t0 < std::chrono::milliseconds(2)) { /* the first of a pair spins until its partner arrives */ } }
static std::string run_one(const Args& a, long i) {
    Rng g(a.seed, (uint64_t)i, 0x08); Case c(i);
    const bool few = a.geti("few_face_types", 0) != 0;
    int iters = g.range((int)a.geti("min_iterations", 30), (int)a.geti("max_iterations", 60));
    tis::Scenario s = make_pop(g, iters, few);
    g_limit = tis::extent_limit(s);
    Mon mon; mon.cutoff = s.P.contact_cutoff_adhesion_; g_mon = &mon; g_rng_base = hash_combine(a.seed, (uint64_t)i); g_ctr.clear();
    auto& S = verif::get(); S.rng_seed = rng_seed; S.phase = on_phase;
    // several threads: the threads that complete a division in the same iteration meet just before they hand their daughters over (scheduling point 21): each waits
    // up to 2 ms for a second one to arrive, so that the hand-over (ids, list updates) of two mothers really happens at the same time
    S.sched_point = a.threads > 1 ? rendezvous : nullptr;
    std::string out = "pop_out_" + std::to_string(i) + "_" + std::to_string((long)getpid()); s.P.output_folder_path_ = out;
    long done = 0, cells0 = 0, cells1 = 0; std::string ended = "completed", what;
    try {
        std::vector<cell_ptr> cells = tis::build_cells(s); cells0 = (long)cells.size();
        tis::msolver sv(s.P, cells, a.threads, true, false);
        while (!sv.finished() && mon.key.empty()) { sv.run_iteration(); done++; }
        cells1 = (long)sv.cells().size();
    } catch (const std::exception& e) { ended = "exception"; what = e.what(); }
    catch (const StopRun&) { ended = "stopped_at_violation"; }
    catch (const tis::unstable_run&) { ended = "unstable"; }
    std::error_code ec; std::filesystem::remove_all(out, ec); g_mon = nullptr; S.phase = nullptr;
    if (!mon.key.empty()) c.viol(mon.key, mon.msg);
    c.nontrivial = (mon.divisions + mon.removals) > 0;
    c.sig = hash_combine(hash_combine((uint64_t)mon.divisions, (uint64_t)mon.removals * 7919), hash_combine((uint64_t)cells0 * 31 + (uint64_t)cells1, (uint64_t)mon.couplings_checked));
    c.obs.i("cells_start", cells0).i("cells_end", cells1).i("iterations", done).i("divisions", mon.divisions).i("removals", mon.removals).i("shrunk_to_one_cell", mon.shrunk_to_one).i("removal_first", mon.removal_first).i("removal_middle", mon.removal_middle).i("removal_last", mon.removal_last)
        .i("phase_checks", mon.checks).i("couplings_checked", mon.couplings_checked).i("faces_checked", mon.faces_checked).i("iterations_with_couplings", mon.iters_with_couplings).i("ids_seen", (long)mon.ever.size()).i("ids_retired", (long)mon.retired.size()).s("ended", ended).s("what", what.substr(0, 120)).i("threads", a.threads).b("few_face_types", few);
    return c.line();
}

static int cmd_population(const Args& a) {
    Agg agg; agg.max_samples = 6;
    for (long i = a.first; i < a.first + a.cases; i++) {
        if (!a.mine(i)) continue;
        IsoResult r = run_isolated([&]() { return run_one(a, i); }, a.getd("cpu_limit", 600), a.getd("cpu_limit", 600));
        agg.evaluations++;
        if (!r.completed) { emit(crash_line(i, r)); agg.bin(r.timeout ? "timeout" : "crash"); continue; }
        const std::string& L = r.line;
        auto num = [&](const std::string& k) -> long { size_t p = L.find("\"" + k + "\":"); if (p == std::string::npos) return 0; return atol(L.c_str() + p + k.size() + 3); };
        for (const char* k : {"iterations", "divisions", "removals", "shrunk_to_one_cell", "removal_first", "removal_middle", "removal_last", "phase_checks", "couplings_checked", "faces_checked", "iterations_with_couplings", "ids_retired"}) agg.bin(k, num(k));
        if (L.find("\"ended\":\"exception\"") != std::string::npos) agg.bin("ended_by_exception");
        if (L.find("\"ended\":\"unstable\"") != std::string::npos) agg.bin("ended_unstable");
        if (L.find("\"nt\":true") != std::string::npos) { agg.nontrivial++; size_t p = L.find("\"sig\":\""); if (p != std::string::npos) agg.sigs[strtoull(L.substr(p + 7, 16).c_str(), nullptr, 16)] = 1; }
        if (L.find("\"v\":\"viol\"") != std::string::npos) { agg.viol_total++; if (agg.viol_total <= (long)agg.max_viol) emit(L); }
        else if (agg.samples.size() < agg.max_samples && L.find("\"nt\":true") != std::string::npos) agg.samples.push_back(L);
    }
    agg.flush(a.shard_i);
    return 0;
}
static Reg r_pop("population", cmd_population);

}  // namespace
