// C18 — every XML parameter reaches the simulation with its value and meaning intact.
//   --part=reader  : random admissible parameter sets -> own XML emitter -> parameter_reader -> field-by-field comparison
//   --part=neg     : catalogue of single omissions / sign-constraint violations -> parameter_reader_exception expected
//   --part=meaning : paired tiny runs through `solver` from two XML files that differ in one value (params_meaning.hpp)
#include "vh.hpp"
#include "gen.hpp"
#include "oracle.hpp"
#include "params_util.hpp"
#include "parameter_reader.hpp"
#include "solver.hpp"
#include "simulation_initializer.hpp"
#include <sstream>
#include "verif_hooks.hpp"
#include <filesystem>
#include <typeinfo>
#include <unistd.h>

using namespace vh;
using namespace pu;

namespace c18 {

static std::string cwd_abs() { char b[4096]; if (!getcwd(b, sizeof b)) return "."; return b; }
static std::string unique_path(long i, const char* what, const char* ext) {
    static long counter = 0; char b[128]; snprintf(b, sizeof b, "/c18_%d_%ld_%ld_%s%s", (int)getpid(), i, counter++, what, ext); return cwd_abs() + b;
}
static bool write_file(const std::string& p, const std::string& s) { FILE* f = fopen(p.c_str(), "wb"); if (!f) return false; size_t n = fwrite(s.data(), 1, s.size(), f); fclose(f); return n == s.size(); }

struct ReadOut {
    bool threw = false, right_type = false; std::string what, stage = "open";
    global_simulation_parameters sp; std::vector<std::shared_ptr<cell_type_parameters>> ct;
};
// the product's sequence (simulation_initializer): construct, numerical parameters, biomechanical parameters
static ReadOut read_file(const std::string& path) {
    ReadOut r;
    try { parameter_reader pr(path); r.stage = "numerical"; r.sp = pr.read_numerical_parameters(); r.stage = "biomechanical"; r.ct = pr.read_biomechanical_parameters(); r.stage = "done"; }
    catch (const parameter_reader_exception& e) { r.threw = r.right_type = true; r.what = e.what(); }
    catch (const std::exception& e) { r.threw = true; r.what = std::string(typeid(e).name()) + ": " + e.what(); }
    catch (...) { r.threw = true; r.what = "non-std exception"; }
    return r;
}
static ReadOut emit_and_read(const Doc& d, uint64_t seed, long i, uint64_t layout_tag, std::string* xml_out = nullptr, EmitStats* st = nullptr) {
    Rng ge(seed, (uint64_t)i, layout_tag); Emitter em(ge); std::string xml = em.emit(d); if (st) *st = em.st; if (xml_out) *xml_out = xml;
    std::string p = unique_path(i, "p", ".xml");
    if (!write_file(p, xml)) { ReadOut r; r.threw = true; r.what = "harness: cannot write " + p; r.stage = "harness"; return r; }
    ReadOut r = read_file(p); unlink(p.c_str()); return r;
}

// ---- field-by-field comparison -----------------------------------------------------------------------------------------
struct Cmp {
    Case& c; Agg& agg; bool count_bins;
    void bad(const std::string& tag, const std::string& exp, const std::string& got) { c.viol("value_mismatch:" + tag, "tag <" + tag + "> written as " + exp + " arrived as " + got); }
    static std::string dstr(double v) { char b[48]; snprintf(b, sizeof b, "%.17g", v); return b; }
    void d(const Field& f, double got) {
        if (count_bins) { agg.bin("read:" + f.tag); agg.bin("fmt:" + f.style); if (std::isinf(f.dval)) agg.bin("inf_seen:" + f.tag + ":" + f.style.substr(0, f.style.find('+'))); if (f.dval == 0) agg.bin("zero_seen:" + f.tag);
            if (f.dval != 0 && std::isfinite(f.dval)) { int dec = (int)std::floor(std::log10(std::fabs(f.dval))); agg.bin(std::string("decade:") + (dec < -100 ? "<-100" : dec < -30 ? "-100..-31" : dec < -12 ? "-30..-13" : dec < 0 ? "-12..-1" : dec <= 12 ? "0..12" : dec <= 30 ? "13..30" : dec <= 100 ? "31..100" : ">100")); } }
        if (!same_bits(f.dval, got)) bad(f.tag, "'" + f.text + "' (= " + dstr(f.dval) + ")", dstr(got));
    }
    void s(const Field& f, const std::string& got) { if (count_bins) { agg.bin("read:" + f.tag); agg.bin("fmt:" + f.style); } if (f.sval != got) bad(f.tag, "'" + f.sval + "'", "'" + got + "'"); }
    void l(const Field& f, long got) { if (count_bins) { agg.bin("read:" + f.tag); agg.bin("fmt:" + f.style); } if (f.ival != got) bad(f.tag, "'" + f.text + "'", std::to_string(got)); }
};
static void compare(const Doc& d, const ReadOut& r, Case& c, Agg& agg, bool count_bins) {
    Cmp k{c, agg, count_bins};
    k.s(fld(d.num, "input_mesh_file_path"), r.sp.input_mesh_path_);
    k.s(fld(d.num, "output_mesh_folder_path"), r.sp.output_folder_path_);
    k.d(fld(d.num, "damping_coefficient"), r.sp.damping_coefficient_);
    k.l(fld(d.num, "perform_initial_triangulation"), r.sp.perform_initial_triangulation_ ? 1 : 0);
    k.d(fld(d.num, "simulation_duration"), r.sp.simulation_duration_);
    k.d(fld(d.num, "time_step"), r.sp.time_step_);
    k.d(fld(d.num, "sampling_period"), r.sp.sampling_period_);
    k.d(fld(d.num, "min_edge_length"), r.sp.min_edge_len_);
    k.d(fld(d.num, "contact_cutoff_adhesion"), r.sp.contact_cutoff_adhesion_);
    k.d(fld(d.num, "contact_cutoff_repulsion"), r.sp.contact_cutoff_repulsion_);
    k.l(fld(d.num, "enable_edge_swap_operation"), r.sp.enable_edge_swap_operation_ ? 1 : 0);
    if (r.ct.size() != d.cells.size()) { c.viol("order_or_count:cell_types", "file defines " + std::to_string(d.cells.size()) + " cell types, reader returned " + std::to_string(r.ct.size())); return; }
    for (size_t i = 0; i < d.cells.size(); i++) {
        const CellT& m = d.cells[i]; const auto& p = r.ct[i];
        if (!p) { c.viol("order_or_count:cell_types", "null cell type returned"); return; }
        // order is judged by the name and the id first, so that a permutation is reported as such
        if (fld(m.f, "cell_type_name").sval != p->name_) { bool elsewhere = false; for (auto& q : r.ct) if (q && q->name_ == fld(m.f, "cell_type_name").sval) elsewhere = true;
            if (elsewhere && d.cells.size() > 1) { c.viol("order_or_count:cell_types", "cell type #" + std::to_string(i) + " is not at its position in the returned list"); return; } }
        k.s(fld(m.f, "cell_type_name"), p->name_);
        k.l(fld(m.f, "global_cell_id"), p->global_type_id_);
        k.d(fld(m.f, "cell_mass_density"), p->mass_density_);
        k.d(fld(m.f, "cell_bulk_modulus"), p->bulk_modulus_);
        k.d(fld(m.f, "max_inner_pressure"), p->max_pressure_);
        k.d(fld(m.f, "area_elasticity_modulus"), p->area_elasticity_modulus_);
        k.d(fld(m.f, "avg_division_volume"), p->avg_division_vol_);
        k.d(fld(m.f, "std_division_volume"), p->std_division_vol_);
        k.d(fld(m.f, "avg_growth_rate"), p->avg_growth_rate_);
        k.d(fld(m.f, "std_growth_rate"), p->std_growth_rate_);
        k.d(fld(m.f, "target_isoperimetric_ratio"), p->target_isoperimetric_ratio_);
        k.d(fld(m.f, "angle_regularization_factor"), p->angle_regularization_factor_);
        k.d(fld(m.f, "min_vol"), p->min_vol_);
        k.d(fld(m.f, "surface_coupling_max_curvature"), p->surface_coupling_max_curvature_);
        if (!(p->initial_pressure_ == 0.0)) c.viol("value_leak:initial_pressure", "initial pressure (no tag) is not zero after reading");
        if (!p->additional_parameters_.empty()) c.viol("value_leak:additional_parameters", "unknown tags leaked into additional_parameters_");
        if (p->face_types_.size() != m.faces.size()) { c.viol("order_or_count:face_types", "cell type #" + std::to_string(i) + " defines " + std::to_string(m.faces.size()) + " face types, reader returned " + std::to_string(p->face_types_.size())); return; }
        for (size_t j = 0; j < m.faces.size(); j++) {
            const auto& mf = m.faces[j]; const face_type_parameters& q = p->face_types_[j];
            if (fld(mf, "face_type_name").sval != q.name_) { bool elsewhere = false; for (auto& qq : p->face_types_) if (qq.name_ == fld(mf, "face_type_name").sval) elsewhere = true;
                if (elsewhere && m.faces.size() > 1) { c.viol("order_or_count:face_types", "face type #" + std::to_string(j) + " of cell type #" + std::to_string(i) + " is not at its position"); return; } }
            k.s(fld(mf, "face_type_name"), q.name_);
            k.l(fld(mf, "global_face_id"), q.face_type_global_id_);
            k.d(fld(mf, "surface_tension"), q.surface_tension_);
            k.d(fld(mf, "adherence_strength"), q.adherence_strength_);
            k.d(fld(mf, "repulsion_strength"), q.repulsion_strength_);
            k.d(fld(mf, "bending_modulus"), q.bending_modulus_);
        }
    }
}

// sanity of the own oracle: from_chars and strtod must agree on every number of the document
static long oracle_disagreements(const Doc& d) {
    long n = 0; auto chk = [&](const Field& f) { if (f.kind != K_DBL || !f.present) return; char* e = nullptr; double s = strtod(f.text.c_str(), &e); if (!same_bits(s, f.dval)) n++; };
    for (auto& f : d.num) chk(f); for (auto& ct : d.cells) { for (auto& f : ct.f) chk(f); for (auto& ff : ct.faces) for (auto& f : ff) chk(f); }
    return n;
}

// ---- part A -------------------------------------------------------------------------------------------------------------
static void reader_case(const Args& a, long i, Agg& agg) {
    Rng g(a.seed, (uint64_t)i, 0x18A); Case c(i);
    Doc d = gen_doc(g);
    long dis = oracle_disagreements(d); if (dis) { agg.bin("oracle_self_disagreement", dis); c.v = "skip"; agg.add(c); return; }
    std::string xml; EmitStats st; ReadOut r = emit_and_read(d, a.seed, i, 0x18B, &xml, &st);
    c.nontrivial = true; c.sig = hash_str(xml);
    agg.bin("cell_types:" + std::to_string(d.cells.size())); for (auto& ct : d.cells) agg.bin("face_types:" + std::to_string(ct.faces.size()));
    agg.bin("layout:extras", st.extras); agg.bin("layout:decoy_tags", st.decoys); agg.bin("layout:comments", st.comments); agg.bin("layout:shuffled_sections", st.shuffled_sections); agg.bin("layout:attributes", st.attrs);
    if (st.crlf) agg.bin("layout:crlf"); if (st.decl) agg.bin("layout:xml_declaration"); if (st.sections_swapped) agg.bin("layout:cell_types_before_numerical");
    if (r.stage == "harness") { c.v = "inconclusive"; c.msg = r.what; emit(c.line()); agg.add(c); return; }
    if (r.threw) c.viol(r.right_type ? "admissible_file_rejected" : "admissible_file_other_exception", "reader threw at stage " + r.stage + ": " + r.what);
    else compare(d, r, c, agg, true);
    if (a.get("dump") == "1") { fputs(xml.c_str(), stderr); }
    if (c.v == "viol") c.obs.s("xml", xml.size() < 6000 ? xml : xml.substr(0, 6000));
    else if (agg.samples.size() < agg.max_samples) c.obs.i("cell_types", (long long)d.cells.size()).i("bytes", (long long)xml.size()).i("extras", st.extras).s("time_step_text", fld(d.num, "time_step").text).d("time_step_read", r.sp.time_step_);
    agg.add(c);
}

// ---- part startup: the file through the constructor main() uses -----------------------------------------------------------------------------
// simulation_initializer(parameter_file_path): the parameters it reports must be those of the file, and perform_initial_triangulation must govern
// what happens to the input geometry: with 0 the cells are the triangles of the input file (same node and face counts, same points), with 1 the
// surfaces are sampled and triangulated anew.
static void startup_case(const Args& a, long i, Agg& agg) {
    Rng g(a.seed, (uint64_t)i, 0x18D); Case c(i);
    Doc d = gen_doc(g, 1, 4, 1, 5);
    long dis = oracle_disagreements(d); if (dis) { c.v = "skip"; agg.add(c); return; }
    // classes the initializer can build: lumen (2) / static (4) for any number of face types, epithelial (0) with at least three
    for (auto& ct : d.cells) { const int cls = ct.faces.size() >= 3 && g.coin(0.4) ? 0 : g.coin() ? 2 : 4; set_int(fld(ct.f, "global_cell_id"), g, cls); }
    // input geometry: 1-3 triangulated spheres, the type of each an index into the list of cell types
    const int ncell = g.range(1, 3); const double r = g.logu(1e-6, 1e-4); std::vector<gen::TriMesh> ms; std::vector<int> tids; double me = 0;
    for (int k = 0; k < ncell; k++) { gen::TriMesh m = gen::icosphere(g.range(1, 2)); gen::jitter(m, g, 0.03); gen::rotate(m, gen::rot_random(g)); gen::scale(m, r, r, r); gen::translate(m, 3.0 * r * k, 0, 0); me += gen::mean_edge(m) / ncell; ms.push_back(m); tids.push_back(g.range(0, (int)d.cells.size() - 1)); }
    std::ostringstream o; size_t np = 0; for (auto& m : ms) np += m.P.size(); char b[128];
    o << "# vtk DataFile Version 4.2\nvtk output\nASCII\nDATASET UNSTRUCTURED_GRID\nPOINTS " << np << " double\n";
    for (auto& m : ms) for (auto& q : m.P) { snprintf(b, sizeof b, "%.17g %.17g %.17g \n", q[0], q[1], q[2]); o << b; }
    size_t total = 0; for (auto& m : ms) total += 2 + 4 * m.T.size(); o << "\nCELLS " << ms.size() << " " << total << "\n"; size_t off = 0;
    for (auto& m : ms) { o << (1 + 4 * m.T.size()) << " " << m.T.size() << " "; for (auto& t : m.T) o << "3 " << t[0] + off << " " << t[1] + off << " " << t[2] + off << " "; o << "\n"; off += m.P.size(); }
    o << "CELL_TYPES " << ms.size() << "\n"; for (size_t k = 0; k < ms.size(); k++) o << "42\n";
    o << "\nCELL_DATA " << ms.size() << "\nFIELD FieldData 1\ncell_type_id 1 " << ms.size() << " int\n"; for (int t : tids) o << t << " "; o << "\n";
    const std::string mp = unique_path(i, "m", ".vtk"), xp = unique_path(i, "s", ".xml");
    const bool tri = g.coin(0.5); set_str(fld(d.num, "input_mesh_file_path"), mp); set_int(fld(d.num, "perform_initial_triangulation"), g, tri ? 1 : 0);
    set_double(fld(d.num, "min_edge_length"), g, me * g.uni(0.6, 0.9)); set_double(fld(d.num, "contact_cutoff_adhesion"), g, me * g.uni(0.1, 0.4)); set_double(fld(d.num, "contact_cutoff_repulsion"), g, me * g.uni(0.1, 0.4));
    Rng ge(a.seed, (uint64_t)i, 0x18E); Emitter em(ge); const std::string xml = em.emit(d);
    if (!write_file(mp, o.str()) || !write_file(xp, xml)) { c.v = "inconclusive"; c.msg = "harness: cannot write the input files"; emit(c.line()); agg.add(c); return; }
    ReadOut ro = read_file(xp); std::vector<cell_ptr> cells; std::string err;
    try { simulation_initializer init(xp, false); ro.sp = init.get_simulation_parameters(); cells = init.get_cell_lst(); } catch (const std::exception& e) { err = std::string(typeid(e).name()) + ": " + e.what(); }
    unlink(mp.c_str()); unlink(xp.c_str());
    c.nontrivial = true; c.sig = hash_combine(hash_str(xml), (uint64_t)tri);
    agg.bin(tri ? "startup:triangulation_requested" : "startup:triangulation_declined");
    if (ro.threw) c.viol("admissible_file_rejected", "reader threw at stage " + ro.stage + ": " + ro.what);
    else if (!err.empty()) { if (!tri) c.viol("startup:admissible_input_rejected", "simulation_initializer(parameter file) threw for a triangulated input with perform_initial_triangulation = 0: " + err.substr(0, 300)); else agg.bin("startup:triangulation_failed_cleanly"); }
    else { compare(d, ro, c, agg, false);
        if (c.v != "viol" && cells.size() != (size_t)ncell) c.viol("startup:cell_count", "the input file holds " + std::to_string(ncell) + " cells, the initializer returned " + std::to_string(cells.size()));
        // the cell_type_id of the mesh file is the position of the cell type in the parameter file: every cell must carry the parameters of that entry
        for (size_t k = 0; k < cells.size() && c.v != "viol"; k++) { const std::string want = fld(d.cells[(size_t)tids[k]].f, "cell_type_name").sval, got = cells[k]->get_cell_type() ? cells[k]->get_cell_type()->name_ : std::string("(none)");
            if (got != want) c.viol("startup:cell_received_another_cell_type", "cell " + std::to_string(k) + " of the mesh file has cell_type_id " + std::to_string(tids[k]) + ", i.e. the cell type '" + want + "' at that position of the parameter file, but carries the parameters of '" + got + "'"); else agg.bin("startup:cell_types_checked"); }
        for (size_t k = 0; k < cells.size() && c.v != "viol"; k++) { const size_t nn = cells[k]->get_nb_of_nodes(), nf = cells[k]->get_nb_of_faces();
            if (!tri) { bool same = nn == ms[k].P.size() && nf == ms[k].T.size(); double dev = 0;
                if (same) { const auto& nl = cell_tester::nodes(*cells[k]); for (size_t q = 0; q < nl.size(); q++) dev = std::max({dev, std::fabs(nl[q].pos().dx() - ms[k].P[q][0]), std::fabs(nl[q].pos().dy() - ms[k].P[q][1]), std::fabs(nl[q].pos().dz() - ms[k].P[q][2])}); }
                if (!same || dev > 1e-12 * r) c.viol("meaning:perform_initial_triangulation:input_retriangulated_although_0", "perform_initial_triangulation is 0 in the parameter file, yet cell " + std::to_string(k) + " returned by simulation_initializer(parameter file) has " + std::to_string(nn) + " nodes / " + std::to_string(nf) + " faces while the input cell has " + std::to_string(ms[k].P.size()) + " / " + std::to_string(ms[k].T.size()));
                else agg.bin("startup:input_cells_kept_as_they_are"); }
            else { if (nn != ms[k].P.size() || nf != ms[k].T.size()) agg.bin("startup:cells_triangulated_anew"); else agg.bin("startup:triangulated_cell_with_input_counts"); } } }
    if (c.v == "viol") c.obs.s("xml", xml.size() < 6000 ? xml : xml.substr(0, 6000));
    agg.add(c);
}

// ---- part neg -------------------------------------------------------------------------------------------------------------
struct Neg { std::string type, level, tag; int variant; };   // type: omit | sign | struct ; level: num | cell | face
static std::vector<Neg> catalogue() {
    std::vector<Neg> v;
    for (auto& t : NUM_TAGS) v.push_back({"omit", "num", t.tag, 0});
    for (auto& t : CELL_TAGS) v.push_back({"omit", "cell", t.tag, 0});
    v.push_back({"omit", "cell", "face_types", 0});
    for (auto& t : FACE_TAGS) v.push_back({"omit", "face", t.tag, 0});
    for (const char* s : {"section:numerical_parameters", "section:cell_types", "no_cell_type", "no_face_type"}) v.push_back({"struct", "", s, 0});
    auto sign = [&](const char* level, const TagSpec& t) { if (t.cons == C_NONE) return; int nv = t.cons == C_POS ? 6 : 4; for (int k = 0; k < nv; k++) v.push_back({"sign", level, t.tag, k}); };
    for (auto& t : NUM_TAGS) sign("num", t); for (auto& t : CELL_TAGS) sign("cell", t); for (auto& t : FACE_TAGS) sign("face", t);
    for (int k = 0; k < 4; k++) v.push_back({"sign", "num", "sampling_period_lt_time_step", k});
    return v;
}
// variants: 0 small negative, 1 moderate negative, 2 huge negative, 3 "-1"-like, 4 zero, 5 minus zero (4,5 only for > 0 constraints)
static void violate(Field& f, int variant, Rng& g) {
    if (f.kind == K_INT) { long vals[] = {-1, -7, -32768, -1}; long v = vals[variant % 4]; char b[32]; snprintf(b, sizeof b, "%ld", v); f.text = b; f.ival = v; f.style = "neg_int"; return; }
    double v = variant == 0 ? -g.logu(1e-30, 1e-9) : variant == 1 ? -g.logu(1e-3, 1e3) : variant == 2 ? -g.logu(1e10, 1e30) : variant == 3 ? -1.0 : variant == 4 ? 0.0 : -0.0;
    set_double(f, g, v);
}
static void neg_case(const Args& a, long i, Agg& agg, const std::vector<Neg>& cat) {
    const Neg& n = cat[(size_t)(i % (long)cat.size())];
    Rng g(a.seed, (uint64_t)i, 0x18C); Case c(i);
    Doc d = gen_doc(g, 1, 4, 1, 3);
    size_t ci = g.u64() % d.cells.size(), fi = g.u64() % d.cells[ci].faces.size();
    if (i / (long)cat.size() % 3 == 1) { ci = d.cells.size() - 1; fi = d.cells[ci].faces.size() - 1; } else if (i / (long)cat.size() % 3 == 2) { ci = 0; fi = 0; }
    std::string name = n.type + ":" + n.tag;
    // control: the unmodified file must be accepted and read back correctly, with the same layout stream
    ReadOut r0 = emit_and_read(d, a.seed, i, 0x18D);
    if (r0.stage == "harness") { c.v = "inconclusive"; c.msg = r0.what; emit(c.line()); agg.add(c); return; }
    if (r0.threw) { c.viol("control_rejected:" + n.tag, "the file without the fault is rejected: " + r0.what); agg.add(c); return; }
    compare(d, r0, c, agg, false);
    if (c.v == "viol") { agg.add(c); return; }
    Doc m = d; std::string written;
    std::vector<Field>* lvl = n.level == "num" ? &m.num : n.level == "cell" ? &m.cells[ci].f : n.level == "face" ? &m.cells[ci].faces[fi] : nullptr;
    if (n.type == "omit") {
        if (n.tag == "face_types") m.cells[ci].face_types_present = false; else fld(*lvl, n.tag).present = false;
    } else if (n.type == "struct") {
        if (n.tag == "section:numerical_parameters") m.num_present = false; else if (n.tag == "section:cell_types") m.cells_present = false;
        else if (n.tag == "no_cell_type") m.cells.clear(); else m.cells[ci].faces.clear();
    } else if (n.tag == "sampling_period_lt_time_step") {
        Field& dt = fld(m.num, "time_step"); Field& S = fld(m.num, "sampling_period");
        double v = n.variant == 0 ? std::nextafter(dt.dval, 0.0) : n.variant == 1 ? dt.dval / 2 : n.variant == 2 ? dt.dval * 1e-6 : dt.dval * (1 - 1e-9);
        if (!(v > 1e-300)) { set_double(dt, g, 1e-3, true); v = n.variant == 0 ? std::nextafter(dt.dval, 0.0) : dt.dval / 2; }
        set_double(S, g, v, true); written = S.text + " < " + dt.text;
        if (!(S.dval > 0 && S.dval < dt.dval)) { c.v = "skip"; agg.add(c); return; }
    } else { Field& f = fld(*lvl, n.tag); violate(f, n.variant, g); written = f.text; }
    std::string xml; ReadOut r = emit_and_read(m, a.seed, i, 0x18D, &xml);
    c.nontrivial = true; c.sig = hash_combine(hash_str(xml), (uint64_t)i);
    agg.bin(name); if (n.type == "sign") agg.bin("sign_variant:" + std::to_string(n.variant)); agg.bin("fault_position:" + std::string(ci == 0 ? "first" : ci + 1 == d.cells.size() ? "last" : "middle") + "_cell_type");
    if (r.stage == "harness") { c.v = "inconclusive"; c.msg = r.what; emit(c.line()); agg.add(c); return; }
    if (!r.threw) c.viol((n.type == "sign" ? "sign_not_rejected:" : n.type == "omit" ? "omission_not_rejected:" : "structure_not_rejected:") + n.tag,
                        n.type == "sign" ? "value " + written + " violates the constraint the reader documents for <" + n.tag + "> but the file was accepted" : "file without <" + n.tag + "> was accepted");
    else if (!r.right_type) c.viol("wrong_exception_type:" + n.tag, "expected parameter_reader_exception, got " + r.what);
    else {
        agg.bin("rejected_at_stage:" + r.stage);
        // observation only (the property asks for the exception): does the diagnostic name the tag?
        std::string want = n.tag == "sampling_period_lt_time_step" ? "sampling_period" : n.tag;
        if (n.type != "struct" && r.what.find(want) == std::string::npos) agg.bin("diagnostic_does_not_name:" + n.tag);
    }
    if (c.v == "viol") c.obs.s("fault", name).i("variant", n.variant).s("written", written).i("cell_type_index", (long long)ci).i("face_type_index", (long long)fi).s("xml", xml.size() < 6000 ? xml : xml.substr(0, 6000));
    else if (agg.samples.size() < agg.max_samples) c.obs.s("fault", name).s("written", written).s("diagnostic", r.what.substr(0, 160));
    agg.add(c);
}

}  // namespace c18

#include "params_meaning.hpp"

static int cmd_params(const Args& a) {
    Agg agg; agg.max_samples = 8;
    std::string part = a.get("part", "reader");
    std::vector<c18::Neg> cat = c18::catalogue();
    if (part == "neg") agg.bin("catalogue_size", 0);
    for (long i = a.first; i < a.first + a.cases; i++) {
        if (!a.mine(i)) continue;
        if (part == "reader") c18::reader_case(a, i, agg);
        else if (part == "neg") c18::neg_case(a, i, agg, cat);
        else if (part == "meaning") c18::meaning_case(a, i, agg);
        else if (part == "startup") c18::startup_case(a, i, agg);
        else { fprintf(stderr, "params: unknown --part=%s\n", part.c_str()); return 2; }
    }
    if (part == "neg") agg.maxi("catalogue_size", (double)cat.size());
    agg.flush(a.shard_i);
    return 0;
}
static Reg r_params("params", cmd_params);
