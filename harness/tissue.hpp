// Tissue scenarios at the physical scale of the repository's sample inputs (micrometres in metres):
// generator, emitters of the input files (legacy-VTK polyhedra + XML, independent of the repository's writers),
// direct construction of the cell list, and a solver subclass exposing the protected state.
#pragma once
#include "gen.hpp"
#include "solver.hpp"
#include "simulation_initializer.hpp"
#include <fstream>
#include <filesystem>

namespace tis {

struct CellSpec { gen::TriMesh mesh; int type_index = 0; bool polygonal_quads = false; };   // type_index: position in Scenario::types

struct Scenario { int construction_ids = 0;
    std::vector<CellSpec> cells;
    std::vector<cell_type_parameters> types;       // order = order in the XML; global_type_id_ selects the class
    global_simulation_parameters P;
    std::string family;
    int iterations = 0;
};

inline face_type_parameters face_type(short gid, const std::string& name, double adh, double rep, double tension, double bend) {
    face_type_parameters f; f.name_ = name; f.face_type_global_id_ = gid; f.adherence_strength_ = adh; f.repulsion_strength_ = rep; f.surface_tension_ = tension; f.bending_modulus_ = bend; return f;
}

// cell types following /repo/parameters_default_dynamic.xml, with multipliers drawn by the caller
inline cell_type_parameters base_type(int cls, vh::Rng& g, double V0) {
    cell_type_parameters c; auto m = [&](double lo = 0.5, double hi = 2.0) { return g.logu(lo, hi); };
    c.global_type_id_ = (short)cls; c.mass_density_ = 1e3 * m(); c.surface_coupling_max_curvature_ = 2.5e6 * m(0.5, 4); c.min_vol_ = 3.7e-17;
    c.angle_regularization_factor_ = g.coin(0.3) ? 1e-14 * m() : 0.0;
    switch (cls) {
        case 0: c.name_ = "epithelial"; c.bulk_modulus_ = 2.5e3 * m(); c.max_pressure_ = g.coin(0.7) ? 2.5e3 * m() : INFINITY; c.area_elasticity_modulus_ = 1e-15 * m(); c.target_isoperimetric_ratio_ = 250 * m(0.7, 1.4);
            c.avg_growth_rate_ = 0; c.std_growth_rate_ = 0; c.avg_division_vol_ = INFINITY; c.std_division_vol_ = 0;
            c.add_face_type(face_type(0, "apical", 1e9 * m(), 1e9 * m(), 1e-3 * m(), g.coin(0.3) ? 1e-18 * m() : 0));
            c.add_face_type(face_type(1, "lateral", 1e9 * m(), 1e9 * m(), 8e-4 * m(), g.coin(0.3) ? 1e-18 * m() : 0));
            c.add_face_type(face_type(2, "basal", 0, 5e8 * m(), 1e-3 * m(), 0)); break;
        case 1: c.name_ = "ecm"; c.bulk_modulus_ = 0; c.max_pressure_ = INFINITY; c.target_isoperimetric_ratio_ = 1; c.min_vol_ = 1e-18; c.surface_coupling_max_curvature_ = 1e7;
            c.add_face_type(face_type(3, "ecm_face", 0, 2e9 * m(), 5e-4, 0)); break;
        case 2: c.name_ = "lumen"; c.bulk_modulus_ = 2.5e3 * m(); c.max_pressure_ = INFINITY; c.target_isoperimetric_ratio_ = 1; c.min_vol_ = 1e-18; c.surface_coupling_max_curvature_ = 1e7;
            c.add_face_type(face_type(4, "lumen_face", 0, 5e9 * m(), 4e-4 * m(), 0)); break;
        case 3: c.name_ = "nucleus"; c.bulk_modulus_ = 2500 * m(); c.max_pressure_ = INFINITY; c.target_isoperimetric_ratio_ = 1; c.min_vol_ = 1e-18; c.surface_coupling_max_curvature_ = 1e7;
            c.add_face_type(face_type(5, "nucleus_face", 0, 1e9 * m(), 0, 0)); break;
        default: c.name_ = "static_cell"; c.mass_density_ = 1.04; c.bulk_modulus_ = 2.5e-7; c.max_pressure_ = INFINITY; c.target_isoperimetric_ratio_ = 1; c.min_vol_ = 1e-18; c.surface_coupling_max_curvature_ = 1e7;
            c.add_face_type(face_type(6, "static_face", 0, 1e9 * m(), 0.2e-10, 0)); break;
    }
    (void)V0; return c;
}

inline global_simulation_parameters base_params(vh::Rng& g) {
    global_simulation_parameters P; P.perform_initial_triangulation_ = false; P.enable_edge_swap_operation_ = g.coin(0.5);
    P.damping_coefficient_ = 5e-10 * g.logu(0.5, 2); P.time_step_ = 1e-7 * g.logu(0.3, 1.0); P.min_edge_len_ = 7.5e-7;
    P.contact_cutoff_adhesion_ = 5e-7 * g.logu(0.6, 1.2); P.contact_cutoff_repulsion_ = 5e-7 * g.logu(0.6, 1.2);
    P.simulation_duration_ = 100 * P.time_step_; P.sampling_period_ = 10 * P.time_step_; return P;
}

// sphere whose edges lie inside [l_min, 3 l_min]: icosphere level 2 has edges ~0.28..0.33 r
inline gen::TriMesh sphere(double r, double cx, double cy, double cz, vh::Rng& g, int level = 2, double jitter = 0.03) {
    gen::TriMesh m = gen::icosphere(level); if (jitter > 0) gen::jitter(m, g, jitter); gen::rotate(m, gen::rot_random(g)); gen::scale(m, r, r, r); gen::translate(m, cx, cy, cz); return m;
}
inline gen::TriMesh cube(double side, double cx, double cy, double cz, int n) { gen::TriMesh m = gen::box(n, side / 2, side / 2, side / 2); gen::translate(m, cx, cy, cz); return m; }

// what: 0 single growing/dividing cell, 1 adhering row/grid of cells, 2 overlapping pair of different classes, 3 nucleus in cell,
//       4 cell in ECM box, 5 lumen among cells, 6 mixed population with removal, 7 polygonal cubes with initial triangulation
inline Scenario make_scenario(vh::Rng& g, int what, int iterations, bool allow_triangulation = true) {
    Scenario s; s.P = base_params(g); s.iterations = iterations; const double lmin = s.P.min_edge_len_;
    const double r = 4.2e-6 * g.uni(0.9, 1.15);                  // icosphere level 2: edges 1.2..1.5e-6 inside [0.75, 2.25]e-6
    const double V0 = 4.0 / 3.0 * M_PI * r * r * r * 0.93;
    auto add_type = [&](int cls) -> int { for (size_t k = 0; k < s.types.size(); k++) if (s.types[k].global_type_id_ == cls && s.types[k].name_.find("doomed") == std::string::npos && s.types[k].name_.find("fast") == std::string::npos) return (int)k; s.types.push_back(base_type(cls, g, V0)); return (int)s.types.size() - 1; };
    auto dividing = [&](cell_type_parameters& c, double steps) {   // reaches its division volume after about `steps` iterations
        c.avg_growth_rate_ = 0.35 * V0 / (steps * s.P.time_step_); c.std_growth_rate_ = g.coin(0.5) ? 0.1 * c.avg_growth_rate_ : 0; c.avg_division_vol_ = V0 * g.uni(1.03, 1.12); c.std_division_vol_ = g.coin(0.5) ? 0.01 * c.avg_division_vol_ : 0; };
    const double gap = 0.45e-6 * g.uni(0.6, 1.0);
    switch (what) {
        case 0: { s.family = "single_dividing"; int t = add_type(0); dividing(s.types[t], iterations * 0.4); s.cells.push_back({sphere(r, 0, 0, 0, g), t}); break; }
        case 1: { s.family = "adhering_grid"; int t = add_type(0); if (g.coin(0.6)) dividing(s.types[t], iterations * 0.5); int nx = g.range(2, 3), ny = g.range(1, 2);
            for (int i = 0; i < nx; i++) for (int j = 0; j < ny; j++) s.cells.push_back({sphere(r, i * (2 * r + gap), j * (2 * r + gap), 0, g), t}); break; }
        case 2: { s.family = "overlapping_pair"; int t0 = add_type(0), t1 = add_type(g.coin() ? 2 : 4); double ov = g.uni(0.0, 0.5e-6);
            s.cells.push_back({sphere(r, 0, 0, 0, g), t0}); s.cells.push_back({sphere(r, 2 * r - ov, 0.3e-6, 0, g), t1}); break; }
        case 3: { s.family = "nucleus_in_cell"; int t0 = add_type(0), t3 = add_type(3); double R = 2.0 * r; s.cells.push_back({sphere(R, 0, 0, 0, g, 3), t0}); s.cells.push_back({sphere(r, 0.5 * (R - r), 0, 0, g), t3}); break; }
        case 4: { s.family = "cell_in_ecm"; int t0 = add_type(0), t1 = add_type(1); double side = 2 * r + 1.0e-6; int n = (int)std::ceil(side / 1.6e-6);
            s.cells.push_back({sphere(r, 0, 0, 0, g), t0}); s.cells.push_back({cube(side, 0, 0, 0, n), t1}); break; }
        case 5: { s.family = "lumen_among_cells"; int t0 = add_type(0), t2 = add_type(2); s.cells.push_back({sphere(r, 0, 0, 0, g), t2});
            for (int k = 0; k < 3; k++) { double a = 2 * M_PI * k / 3; s.cells.push_back({sphere(r, (2 * r + gap) * std::cos(a), (2 * r + gap) * std::sin(a), 0, g), t0}); } break; }
        case 6: { s.family = "mixed_with_removal"; int t0 = add_type(0); dividing(s.types[t0], iterations * 0.5);
            cell_type_parameters doomed = base_type(0, g, V0); doomed.name_ = "doomed_epithelial"; doomed.min_vol_ = V0 * 0.97; doomed.avg_growth_rate_ = -0.5 * V0 / (iterations * s.P.time_step_); doomed.bulk_modulus_ *= 4; s.types.push_back(doomed); int td = (int)s.types.size() - 1;
            int n = g.range(3, 5); int doomed_pos = g.range(0, n - 1);
            for (int i = 0; i < n; i++) s.cells.push_back({sphere(r, i * (2 * r + 3e-6), 0, 0, g), i == doomed_pos ? td : t0}); break; }
        case 9: { s.family = "removal_among_coupled_cells";
            // an adhering row C - A - B (- C') of cells with very different mesh sizes; A (642 node slots) shrinks below its minimum volume and is
            // removed while its neighbours are coupled to it; B (42 node slots) then takes A's place in the list
            int t0 = add_type(0); cell_type_parameters doomed = base_type(0, g, V0); const double RA = 1.6 * r, VA = 4.0 / 3.0 * M_PI * RA * RA * RA * 0.98;
            doomed.name_ = "doomed_epithelial"; doomed.min_vol_ = VA * 0.90; doomed.avg_growth_rate_ = -g.uni(0.13, 0.25) * VA / (iterations * s.P.time_step_); doomed.bulk_modulus_ *= 4; doomed.avg_division_vol_ = 1e300; s.types.push_back(doomed); int td = (int)s.types.size() - 1;
            s.types[t0].avg_division_vol_ = 1e300;
            const double rb = 0.55 * r, g2 = 0.2e-6 * g.uni(0.5, 1.0); double x = 0;
            const bool lead = g.coin(0.6); if (lead) { s.cells.push_back({sphere(r, 0, 0, 0, g), t0}); x = r + g2 + RA; }
            s.cells.push_back({sphere(RA, x, 0, 0, g, 3), td}); x += RA + g2 + rb;
            cell_type_parameters small = s.types[t0]; small.name_ = "epithelial_small"; small.min_vol_ = 1e-18; s.types.push_back(small); int tsm = (int)s.types.size() - 1;
            s.cells.push_back({sphere(rb, x, 0, 0, g, 1), tsm}); x += rb + g2 + r;
            if (g.coin(0.5)) s.cells.push_back({sphere(r, x, 0, 0, g), t0});
            // the order of the list is independent of the arrangement in space
            for (size_t q = s.cells.size(); q > 1; q--) std::swap(s.cells[q - 1], s.cells[(size_t)(g.u64() % q)]);
            break; }
        case 8: { s.family = "degenerate_face_in_contact"; s.P.enable_edge_swap_operation_ = false;
            s.P.min_edge_len_ = 0.85e-6;   // band [0.85, 2.55] um holds every edge of the cubes (0.875, 1.75, 2.47 um): the meshes are not refined at first
            // three cubes in a row, gaps within the cut-offs; the first carries a used triangle of exactly zero area (a T-junction closed by a
            // needle whose apex is the exact midpoint of an edge), the middle one comes last in the list so that its last faces touch a neighbour
            int t = add_type(0); const double side = 7e-6; const int n = 4;
            auto tsplit = [&](gen::TriMesh m) { auto tr = m.T[7]; unsigned a = tr[0], b = tr[1], c = tr[2]; unsigned e = (unsigned)m.P.size(); m.P.push_back({0.5 * (m.P[a][0] + m.P[b][0]), 0.5 * (m.P[a][1] + m.P[b][1]), 0.5 * (m.P[a][2] + m.P[b][2])});
                // the neighbour across ab keeps the edge ab through the needle (a,b,e); (a,b,c) becomes (a,e,c) + (e,b,c)
                m.T[7] = {a, e, c}; m.T.push_back({e, b, c}); m.T.push_back({a, b, e}); return m; };
            s.cells.push_back({tsplit(cube(side, 0, 0, 0, n)), t}); s.cells.push_back({cube(side, 2 * (side + gap), 0, 0, n), t}); s.cells.push_back({cube(side, side + gap, 0, 0, n), t}); break; }
        default: { s.family = "polygonal_cubes_triangulated"; s.P.perform_initial_triangulation_ = allow_triangulation; int t = add_type(0); if (g.coin()) dividing(s.types[t], iterations * 0.5); double side = 7e-6; int n = g.range(1, 2);
            for (int i = 0; i < n; i++) { CellSpec c{cube(side, i * (side + gap), 0, 0, allow_triangulation ? 1 : 5), t}; c.polygonal_quads = allow_triangulation; s.cells.push_back(c); } break; }
    }
    s.P.simulation_duration_ = (iterations - 0.5) * s.P.time_step_; s.P.sampling_period_ = g.range(1, 12) * s.P.time_step_ * (g.coin(0.5) ? 1.0 : g.uni(1.0, 1.3));
    (void)lmin; return s;
}

// ---- emitters ----------------------------------------------------------------------------------------------
inline void write_vtk(const Scenario& s, const std::string& path) {
    std::ofstream o(path); o.precision(17);
    size_t np = 0; for (auto& c : s.cells) np += c.mesh.P.size();
    o << "# vtk DataFile Version 4.2\nvtk output\nASCII\nDATASET UNSTRUCTURED_GRID\nPOINTS " << np << " double\n";
    for (auto& c : s.cells) for (auto& p : c.mesh.P) o << p[0] << " " << p[1] << " " << p[2] << "\n";
    std::vector<std::string> lines; size_t total = 0, off = 0;
    for (auto& c : s.cells) {
        std::vector<std::vector<unsigned>> faces;
        if (c.polygonal_quads) { for (size_t k = 0; k + 1 < c.mesh.T.size(); k += 2) { auto& a = c.mesh.T[k]; auto& b = c.mesh.T[k + 1]; faces.push_back({a[0], a[1], a[2], b[2]}); } }   // gen::box emits (a,b,c),(a,c,d)
        else for (auto& t : c.mesh.T) faces.push_back({t[0], t[1], t[2]});
        std::ostringstream l; size_t cnt = 1; for (auto& f : faces) cnt += 1 + f.size();
        l << cnt << " " << faces.size(); for (auto& f : faces) { l << " " << f.size(); for (unsigned v : f) l << " " << (v + off); }
        lines.push_back(l.str()); total += cnt + 1; off += c.mesh.P.size();
    }
    o << "\nCELLS " << s.cells.size() << " " << total << "\n"; for (auto& l : lines) o << l << " \n";
    o << "\nCELL_TYPES " << s.cells.size() << "\n"; for (size_t k = 0; k < s.cells.size(); k++) o << "42\n";
    o << "\nCELL_DATA " << s.cells.size() << "\nFIELD FieldData 1\ncell_type_id 1 " << s.cells.size() << " int\n"; for (auto& c : s.cells) o << c.type_index << " "; o << "\n";
}
inline std::string num(double v) { if (std::isinf(v)) return v > 0 ? "INF" : "-INF"; char b[64]; snprintf(b, sizeof b, "%.17g", v); return b; }
inline void write_xml(const Scenario& s, const std::string& path, const std::string& mesh_path, const std::string& out_dir) {
    std::ofstream o(path); const auto& P = s.P;
    o << "<?xml version=\"1.0\"?>\n<numerical_parameters>\n<input_mesh_file_path>" << mesh_path << "</input_mesh_file_path>\n<output_mesh_folder_path>" << out_dir << "</output_mesh_folder_path>\n"
      << "<perform_initial_triangulation>" << (P.perform_initial_triangulation_ ? 1 : 0) << "</perform_initial_triangulation>\n<enable_edge_swap_operation>" << (P.enable_edge_swap_operation_ ? 1 : 0) << "</enable_edge_swap_operation>\n"
      << "<damping_coefficient>" << num(P.damping_coefficient_) << "</damping_coefficient>\n<simulation_duration>" << num(P.simulation_duration_) << "</simulation_duration>\n<sampling_period>" << num(P.sampling_period_) << "</sampling_period>\n"
      << "<time_step>" << num(P.time_step_) << "</time_step>\n<min_edge_length>" << num(P.min_edge_len_) << "</min_edge_length>\n<contact_cutoff_adhesion>" << num(P.contact_cutoff_adhesion_) << "</contact_cutoff_adhesion>\n"
      << "<contact_cutoff_repulsion>" << num(P.contact_cutoff_repulsion_) << "</contact_cutoff_repulsion>\n</numerical_parameters>\n<cell_types>\n";
    for (auto& c : s.types) {
        o << "<cell_type>\n<cell_type_name>" << c.name_ << "</cell_type_name>\n<global_cell_id>" << c.global_type_id_ << "</global_cell_id>\n<cell_mass_density>" << num(c.mass_density_) << "</cell_mass_density>\n<cell_bulk_modulus>" << num(c.bulk_modulus_) << "</cell_bulk_modulus>\n"
          << "<max_inner_pressure>" << num(c.max_pressure_) << "</max_inner_pressure>\n<avg_growth_rate>" << num(c.avg_growth_rate_) << "</avg_growth_rate>\n<std_growth_rate>" << num(c.std_growth_rate_) << "</std_growth_rate>\n"
          << "<target_isoperimetric_ratio>" << num(c.target_isoperimetric_ratio_) << "</target_isoperimetric_ratio>\n<area_elasticity_modulus>" << num(c.area_elasticity_modulus_) << "</area_elasticity_modulus>\n<angle_regularization_factor>" << num(c.angle_regularization_factor_) << "</angle_regularization_factor>\n"
          << "<avg_division_volume>" << num(c.avg_division_vol_) << "</avg_division_volume>\n<std_division_volume>" << num(c.std_division_vol_) << "</std_division_volume>\n<surface_coupling_max_curvature>" << num(c.surface_coupling_max_curvature_) << "</surface_coupling_max_curvature>\n<min_vol>" << num(c.min_vol_) << "</min_vol>\n<face_types>\n";
        for (auto& f : c.face_types_) o << "<face_type>\n<global_face_id>" << f.face_type_global_id_ << "</global_face_id>\n<face_type_name>" << f.name_ << "</face_type_name>\n<adherence_strength>" << num(f.adherence_strength_) << "</adherence_strength>\n<repulsion_strength>" << num(f.repulsion_strength_) << "</repulsion_strength>\n<surface_tension>" << num(f.surface_tension_) << "</surface_tension>\n<bending_modulus>" << num(f.bending_modulus_) << "</bending_modulus>\n</face_type>\n";
        o << "</face_types>\n</cell_type>\n";
    }
    o << "</cell_types>\n";
}

// direct construction (no files): cells of the right class, ready for the solver
inline std::vector<cell_ptr> build_cells(const Scenario& s, std::vector<cell_type_param_ptr>* types_out = nullptr) {
    std::vector<cell_type_param_ptr> tp; for (auto& t : s.types) tp.push_back(std::make_shared<cell_type_parameters>(t));
    // construction ids: 0,1,2,.. as the initialiser gives them, or (Scenario::construction_ids) all zero as hand-built cells have them / in reverse:
    // the solver numbers the cells it is given itself
    std::vector<cell_ptr> cells; unsigned id = 0; const unsigned n = (unsigned)s.cells.size();
    for (auto& c : s.cells) { const unsigned cid = s.construction_ids == 1 ? 0u : s.construction_ids == 2 ? n - 1 - id : id; cells.push_back(gen::make_cell_of_class(tp[c.type_index]->global_type_id_, c.mesh, cid, tp[c.type_index])); id++; }
    if (types_out) *types_out = tp; return cells;
}

// An unstable simulation (time step too large for the stiffness of a freshly divided or collapsing cell) makes coordinates explode; the
// refiner then needs (extent / l_max)^2 operations and practically never returns.  Monitored runs end at the first sign of it (checked by
// the phase hook right after the integration phase) and the case is counted as 'unstable', never as a verdict.
struct unstable_run {};
// An unstable simulation (time step too large for the stiffness drawn) lets coordinates explode; the refiner then needs ever more faces and
// practically never returns.  Such runs are no subject of any property: the phase hook ends them (tis::unstable_run) as soon as a coordinate
// leaves `limit` or a single cell spans more than 5 times the largest cell of the input (cells at most double their volume before dividing).
inline double& cell_extent_cap() { static double cap = 0; return cap; }
inline bool blown_up(const std::vector<cell_ptr>& L, double limit) {
    const double cap = cell_extent_cap();
    for (auto& c : L) { double lo[3] = {1e300, 1e300, 1e300}, hi[3] = {-1e300, -1e300, -1e300};
        for (const node& n : cell_tester::nodes(*c)) if (n.is_used()) { double x[3] = {n.pos().dx(), n.pos().dy(), n.pos().dz()}; for (int d = 0; d < 3; d++) { if (!(std::fabs(x[d]) < limit)) return true; lo[d] = std::min(lo[d], x[d]); hi[d] = std::max(hi[d], x[d]); } }
        if (cap > 0) for (int d = 0; d < 3; d++) if (hi[d] - lo[d] > cap) return true; }
    return false;
}
inline double extent_limit(const Scenario& s) { double m = 0, e = 0; for (auto& c : s.cells) { double lo[3] = {1e300, 1e300, 1e300}, hi[3] = {-1e300, -1e300, -1e300}; for (auto& p : c.mesh.P) for (int d = 0; d < 3; d++) { m = std::max(m, std::fabs(p[d])); lo[d] = std::min(lo[d], p[d]); hi[d] = std::max(hi[d], p[d]); } for (int d = 0; d < 3; d++) e = std::max(e, hi[d] - lo[d]); }
    cell_extent_cap() = 5.0 * e; return 100.0 * (m + 1e-4); }

// solver with its protected state exposed
class msolver : public solver {
public:
    using solver::solver;
    std::vector<cell_ptr>& cells() { return cell_lst_; }
    unsigned iteration() const { return iteration_; }
    unsigned file_number() const { return file_number_; }
    unsigned max_cell_id() const { return max_cell_id_; }
    double time() const { return time_integrator_ptr_->get_simulation_time(); }
    const global_simulation_parameters& params() const { return sim_parameters_; }
    local_mesh_refiner& lmr() { return *lmr_ptr_; }
    contact_model_abstract& contact_model() { return *contact_model_ptr_; }
    time_integration_scheme& integrator() { return *time_integrator_ptr_; }
    bool finished() const { return !(time_integrator_ptr_->get_simulation_time() < sim_parameters_.simulation_duration_ && cell_lst_.size() > 0); }
};

}  // namespace tis
