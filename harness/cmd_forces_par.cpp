// C02 (and C15) — internal forces evaluated for many cells concurrently, exactly as solver::run_iteration does
// (`#pragma omp parallel for` over the cells), must equal bit for bit the forces of the same cells evaluated one after another,
// and must still balance.  Catches state shared between cells by the force routines (static buffers, globals).
#include "vh.hpp"
#include "gen.hpp"
#include "oracle.hpp"
#include <omp.h>

using namespace vh;
using orc::V3; using orc::R;

static int cmd_forces_par(const Args& a) {
    Agg agg;
    for (long i = a.first; i < a.first + a.cases; i++) {
        if (!a.mine(i)) continue;
        Rng g(a.seed, (uint64_t)i, 0x22); Case c(i);
        int ncell = g.range(8, 24), rounds = g.range(3, 8);
        // cell types with every term enabled (pressure, tension, area elasticity, bending, angle regularisation)
        std::vector<gen::TriMesh> meshes; std::vector<cell_type_param_ptr> types; std::vector<int> cls;
        for (int k = 0; k < ncell; k++) { gen::TriMesh m = gen::random_shape(g, 400); gen::jitter(m, g, 0.03); gen::rotate(m, gen::rot_random(g)); gen::translate(m, 5.0 * k, g.uni(-1, 1), g.uni(-1, 1)); meshes.push_back(m);
            auto ct = gen::default_cell_type(g.range(2, 4), 0); ct->bulk_modulus_ = g.logu(0.1, 10); ct->area_elasticity_modulus_ = g.logu(0.1, 10); ct->target_isoperimetric_ratio_ = g.uni(100, 300); ct->angle_regularization_factor_ = g.logu(0.01, 1);
            for (auto& f : ct->face_types_) { f.surface_tension_ = g.logu(0.01, 1); f.bending_modulus_ = g.coin(0.7) ? g.logu(0.001, 0.1) : 0; }
            types.push_back(ct); int cl[3] = {0, 2, 3}; cls.push_back(cl[g.range(0, 2)]); types.back()->global_type_id_ = (short)cls.back(); }
        auto build = [&]() { std::vector<cell_ptr> L; for (int k = 0; k < ncell; k++) { cell_ptr p = gen::make_cell_of_class(cls[k], meshes[k], (unsigned)k, types[k]); cell_tester::target_volume(*p) = p->get_volume() * 1.3; L.push_back(p); } return L; };
        std::vector<cell_ptr> S, P;
        try { S = build(); P = build(); } catch (const std::exception& e) { c.v = "skip"; agg.add(c); continue; }
        long mism = 0, unbalanced = 0; double worst = 0; size_t nodes = 0;
        for (int r = 0; r < rounds && c.v != "viol"; r++) {
            for (auto& L : {S, P}) for (auto& p : L) for (node& n : cell_tester::nodes(*p)) if (n.is_used()) n.set_force(vec3(0, 0, 0));
            omp_set_num_threads(1); for (auto& p : S) p->apply_internal_forces(0.0);
            omp_set_num_threads(a.threads);
            #pragma omp parallel for schedule(dynamic, 1)
            for (size_t k = 0; k < P.size(); k++) P[k]->apply_internal_forces(0.0);
            for (int k = 0; k < ncell; k++) { const auto& ns = cell_tester::nodes(*S[k]); const auto& np = cell_tester::nodes(*P[k]); V3 sum; R sabs = 0;
                for (size_t j = 0; j < ns.size(); j++) if (ns[j].is_used()) { nodes++; const vec3 &fs = ns[j].force(), &fp = np[j].force(); if (std::memcmp(&fs, &fp, sizeof(vec3)) != 0) mism++; V3 f(fp.dx(), fp.dy(), fp.dz()); sum += f; sabs += f.norm(); }
                if (sabs > 0) { double q = (double)(sum.norm() / sabs); worst = std::max(worst, q); if (q > 1e-9) unbalanced++; } }
        }
        if (mism) c.viol("parallel_forces_differ_from_serial", std::to_string(mism) + " node forces of cells evaluated concurrently differ from the one-after-another evaluation of identical cells");
        else if (unbalanced) c.viol("net_force:parallel_evaluation", "internal forces of a cell evaluated concurrently with others do not balance");
        c.nontrivial = nodes > 0; c.sig = hash_combine(hash_combine((uint64_t)ncell, (uint64_t)rounds), (uint64_t)nodes);
        c.obs.i("cells", ncell).i("rounds", rounds).i("node_forces_compared", (long)nodes).i("threads", a.threads).d("worst_net_over_sumabs", worst);
        agg.bin("node_forces_compared", (long)nodes); agg.bin("cell_evaluations", (long)ncell * rounds); agg.maxi("worst_net_over_sumabs_parallel", worst);
        agg.add(c);
    }
    agg.flush(a.shard_i);
    return 0;
}
static Reg r_fp("forces_par", cmd_forces_par);
