// C02 — internal cell forces: zero net force / torque, pressure force = p dV/dx, tension + area-elasticity force
// = -sum tau_f dA_f/dx, rigid-motion equivariance, and superposition of the four terms.
//
// One mesh per case index; for each mesh six parameter configurations are run on FRESH cells (forces all zero, checked):
//   pressure | tension_elasticity | bending | angle_reg | all (same values as the four single runs) | mixed (independent
//   draw: random non-empty subset of the terms, growth != 0, capped pressure, mixed zero moduli).
// A term is switched off only through the cell-type / face-type parameters (modulus 0), the observation is always
// node::force() after the public cell::apply_internal_forces(dt).  Every (mesh, configuration) is one evaluation.
#include "vh.hpp"
#include "gen.hpp"
#include "oracle.hpp"

using namespace vh;
using orc::V3; using orc::R; using orc::Tri;

namespace {

const R EPS = 1.1102230246251565e-16L;   // unit roundoff of double
const R PI_L = 3.14159265358979323846264338327950288L;
enum { B_P = 1, B_TE = 2, B_B = 4, B_R = 8 };
enum { C_P = 0, C_TE, C_B, C_R, C_ALL, C_MIX, N_CFG };
const char* CFGNAME[N_CFG] = {"pressure", "tension_elasticity", "bending", "angle_reg", "all", "mixed"};

struct Params {
    int cls = 0, nft = 3;
    double K = 0, max_p = INFINITY, growth = 0, dt = 1e-4, vt_ratio = 1;   // vt_ratio = (target volume after growth) / volume
    double gamma[4] = {0, 0, 0, 0}, kb[4] = {0, 0, 0, 0}, ka = 0, rho = 100, reg = 0;
};

// ---- own geometry of the oriented triangle list the cell actually holds ------------------------------------
struct Info {
    std::vector<V3> P; std::vector<Tri> T; std::vector<unsigned> slot, live; std::vector<char> used;
    V3 ref; R V = 0, A = 0, size = 0, Dmax = 0, emin = INFINITY, emean = 0, minang = 10, maxang = 0, half_perim = 0; long nE = 0;
    std::vector<R> FA;                       // face areas
    std::vector<V3> dV;                      // dV/dx_i per node slot
    std::vector<std::array<V3, 3>> dA;       // dA_f/dx for the three nodes of each face
    std::vector<R> node_area_third;          // sum_{f ni i} A_f / 3
    long hinges_gt135 = 0, hinges_concave = 0, hinges_flat = 0, faces_reg_skipped = 0; bool near_hinge_thr = false, near_face_thr = false, topo_ok = true;
    // per hinge: the two faces, the four nodes (edge a-b, opposite c in f1, d in f2), angle between the normals and, per node, the
    // magnitudes |d(theta)/dx| * 3 l^2/(A1+A2) and |grad_ip| * 3 of the bending formula (Wardetzky et al.): used ONLY to bound how an
    // error of the hinge angle propagates into the bending force (see hinge_angle_allowance), never to predict the force.
    struct Hinge { int f1, f2; unsigned n[4]; R theta; R gth[4], gip[4]; };
    std::vector<Hinge> H;
};
static R vangle(const V3& a, const V3& b) { R c = a.dot(b) / (a.norm() * b.norm()); if (c > 1) c = 1; if (c < -1) c = -1; return std::acos(c); }
static R own_volume(const std::vector<V3>& P, const std::vector<Tri>& T, const V3& ref) { R v = 0; for (auto& f : T) v += (P[f.a] - ref).dot((P[f.b] - ref).cross(P[f.c] - ref)) / 6; return v; }
static R own_face_area(const std::vector<V3>& P, const Tri& f) { return (P[f.b] - P[f.a]).cross(P[f.c] - P[f.a]).norm() / 2; }

static void compute_info(Info& I) {
    const auto& P = I.P; const auto& T = I.T; size_t n = P.size();
    V3 m; for (unsigned v : I.live) m += P[v]; m = m / (R)I.live.size(); I.ref = m;
    for (unsigned v : I.live) { I.size = std::max(I.size, (P[v] - m).norm()); I.Dmax = std::max(I.Dmax, P[v].norm()); }
    I.dV.assign(n, V3()); I.node_area_third.assign(n, 0); I.FA.resize(T.size()); I.dA.resize(T.size());
    std::vector<V3> unitN(T.size()); std::map<uint64_t, std::pair<int, int>> he;   // directed edge -> (face, opposite vertex)
    R esum = 0; long ecount = 0;
    const R d10 = 10 * PI_L / 180, d170 = 170 * PI_L / 180, d135 = 135 * PI_L / 180;
    for (size_t k = 0; k < T.size(); k++) {
        const Tri& f = T[k]; V3 a = P[f.a] - m, b = P[f.b] - m, c = P[f.c] - m;
        I.V += a.dot(b.cross(c)) / 6;
        I.dV[f.a] += b.cross(c) / 6; I.dV[f.b] += c.cross(a) / 6; I.dV[f.c] += a.cross(b) / 6;
        V3 N = (b - a).cross(c - a); R nn = N.norm(); I.FA[k] = nn / 2; I.A += nn / 2; unitN[k] = N / nn;
        // A = |N|/2, dA/da = ((b - c) x N) / (2|N|) and cyclic
        I.dA[k][0] = (b - c).cross(N) / (2 * nn); I.dA[k][1] = (c - a).cross(N) / (2 * nn); I.dA[k][2] = (a - b).cross(N) / (2 * nn);
        I.node_area_third[f.a] += nn / 6; I.node_area_third[f.b] += nn / 6; I.node_area_third[f.c] += nn / 6;
        R l[3] = {(b - a).norm(), (c - b).norm(), (a - c).norm()};
        for (R x : l) { I.emin = std::min(I.emin, x); esum += x; ecount++; I.half_perim += x / 2; }
        R ang[3] = {vangle(b - a, c - a), vangle(a - b, c - b), vangle(a - c, b - c)}; bool skipped = false;
        for (R x : ang) { I.minang = std::min(I.minang, x); I.maxang = std::max(I.maxang, x); if (x < d10 || x > d170) skipped = true;
            if (std::fabs(x - d10) < 1e-6L || std::fabs(x - d170) < 1e-6L) I.near_face_thr = true; }
        if (skipped) I.faces_reg_skipped++;
        he[orc::ekey(f.a, f.b)] = {(int)k, (int)f.c}; he[orc::ekey(f.b, f.c)] = {(int)k, (int)f.a}; he[orc::ekey(f.c, f.a)] = {(int)k, (int)f.b};
    }
    I.emean = esum / ecount;
    for (auto& kv : he) {
        unsigned a = (unsigned)(kv.first >> 32), b = (unsigned)(kv.first & 0xffffffffu); if (a > b) continue;
        auto it = he.find(orc::ekey(b, a)); if (it == he.end()) { I.topo_ok = false; continue; }
        I.nE++;
        int f1 = kv.second.first, f2 = it->second.first; R th = vangle(unitN[f1], unitN[f2]);
        if (th > d135) I.hinges_gt135++;
        if (std::fabs(th - d135) < 1e-6L) I.near_hinge_thr = true;
        if ((P[it->second.second] - P[a]).dot(unitN[f1]) > 0) I.hinges_concave++;
        if (th < 1e-6L) I.hinges_flat++;
        Info::Hinge h; h.f1 = f1; h.f2 = f2; h.n[0] = a; h.n[1] = b; h.n[2] = (unsigned)kv.second.second; h.n[3] = (unsigned)it->second.second; h.theta = th;
        const V3 &xa = P[a], &xb = P[b], &xc = P[h.n[2]], &xd = P[h.n[3]]; R l = (xb - xa).norm(), A1 = I.FA[f1], A2 = I.FA[f2], SA = A1 + A2;
        auto acot = [&](const V3& u, const V3& v) -> R { return std::fabs(u.dot(v)) / u.cross(v).norm(); };
        R ca1 = acot(xb - xa, xc - xa), ca2 = acot(xb - xa, xd - xa), cb1 = acot(xa - xb, xc - xb), cb2 = acot(xa - xb, xd - xb);
        R w = 3 * l * l / SA, pf3 = l * l / (2 * SA * SA);
        h.gth[0] = w * (cb1 + cb2) / l; h.gth[1] = w * (ca1 + ca2) / l; h.gth[2] = w * l / (2 * A1); h.gth[3] = w * l / (2 * A2);
        h.gip[0] = 3 * (2 * l / SA + pf3 * ((xc - xb).norm() + (xd - xb).norm())); h.gip[1] = 3 * (2 * l / SA + pf3 * ((xc - xa).norm() + (xd - xa).norm())); h.gip[2] = 3 * pf3 * l; h.gip[3] = 3 * pf3 * l;
        I.H.push_back(h);
    }
}

// ---- one run of the repository code -----------------------------------------------------------------------
struct RunOut { bool ok = false; std::string why; std::vector<V3> F; double p = 0, V = 0, A = 0, Vt = 0; cell_ptr c; };

static RunOut run_cfg(const gen::TriMesh& m, const Params& q, int mask, const std::vector<unsigned short>& ftype_by_slot) {
    RunOut o;
    auto ct = gen::default_cell_type(q.nft);
    ct->bulk_modulus_ = (mask & B_P) ? q.K : 0.0; ct->max_pressure_ = q.max_p;
    ct->area_elasticity_modulus_ = (mask & B_TE) ? q.ka : 0.0; ct->target_isoperimetric_ratio_ = q.rho;
    ct->angle_regularization_factor_ = (mask & B_R) ? q.reg : 0.0;
    ct->avg_growth_rate_ = q.growth; ct->std_growth_rate_ = 0;
    for (int k = 0; k < q.nft; k++) { ct->face_types_[k].surface_tension_ = (mask & B_TE) ? q.gamma[k] : 0.0; ct->face_types_[k].bending_modulus_ = (mask & B_B) ? q.kb[k] : 0.0; }
    try { o.c = gen::make_cell_of_class(q.cls, m, 7, ct); } catch (const std::exception& e) { o.why = std::string("construction threw: ") + e.what(); return o; }
    cell& c = *o.c;
    auto& fl = cell_tester::faces(c);
    for (size_t s = 0; s < fl.size(); s++) if (fl[s].is_used()) fl[s].set_face_type_id(ftype_by_slot[s]);
    for (const node& nd : c.get_node_lst()) if (nd.is_used() && (nd.force().dx() != 0 || nd.force().dy() != 0 || nd.force().dz() != 0)) { o.why = "fresh cell has a non-zero node force"; return o; }
    // apply_internal_forces first adds growth_rate*dt to the target volume: choose the start value so that the target
    // volume in effect is vt_ratio * (volume of the fresh cell)
    c.set_target_volume(c.get_volume() * q.vt_ratio - q.dt * q.growth);
    c.apply_internal_forces(q.dt);
    const auto& nl = c.get_node_lst(); o.F.resize(nl.size());
    for (size_t i = 0; i < nl.size(); i++) o.F[i] = V3(nl[i].force().dx(), nl[i].force().dy(), nl[i].force().dz());
    o.p = c.get_pressure(); o.V = c.get_volume(); o.A = c.get_area(); o.Vt = c.get_target_volume(); o.ok = true;
    return o;
}

struct Cons { R nf = 0, sa = 0, nt = 0, ta = 0, maxF = 0; bool finite = true; };
static Cons conservation(const Info& I, const std::vector<V3>& F) {
    Cons c; V3 s, t;
    for (unsigned i : I.live) { const V3& f = F[i]; R n = f.norm(); if (!std::isfinite((double)n)) c.finite = false; V3 r = I.P[i] - I.ref;
        s += f; c.sa += n; t += r.cross(f); c.ta += r.norm() * n; c.maxF = std::max(c.maxF, n); }
    c.nf = s.norm(); c.nt = t.norm(); return c;
}
static R max_diff(const Info& I, const std::vector<V3>& a, const std::vector<V3>& b) { R m = 0; for (unsigned i : I.live) { R d = (a[i] - b[i]).norm(); if (!(d <= m)) m = d; } return m; }
// Forward error of the repository's hinge angle theta = acos(n1.n2): the dot product of two computed unit normals carries an absolute
// error e_dot of a few eps / sin(face angle) (cancellation in the cross products behind each normal; we take 512 eps / sin(min face angle)), and acos turns it into
// min(e_dot / sin(theta), sqrt(2 e_dot)) - i.e. ~1e-7 rad for an exactly flat hinge, where additionally the sign of sin(theta) is
// decided by the sign of a rounding-level quantity (factor 2).  dn is the true change of a unit normal when the coordinates of the moved
// copy are rounded.  The bending force of hinge h on its node k is  3 kbar [ (l^2/SA) sin(theta) grad_k theta - (1 - cos theta) grad_k ip ],
// so an angle error dth changes it by at most dth * kbar * (gth[k] + sin(theta) gip[k]).  Returns that allowance per node.
static std::vector<R> hinge_angle_allowance(const Info& I, const std::vector<unsigned short>& ftype, const double* kb, R dn) {
    std::vector<R> W(I.P.size(), 0); const R edot = 512 * EPS * std::sqrt(1 / (std::sin(I.minang) * std::sin(I.minang)));
    for (auto& h : I.H) { R kbar = ((R)kb[ftype[I.slot[h.f1]]] + (R)kb[ftype[I.slot[h.f2]]]) / 2; if (kbar == 0) continue;
        R st = std::sin(h.theta); R dth = 2 * std::min(st > 0 ? edot / st : (R)INFINITY, std::sqrt(2 * edot)) + 2 * dn;
        for (int k = 0; k < 4; k++) W[h.n[k]] += dth * kbar * (h.gth[k] + st * h.gip[k]); }
    return W;
}
// max over the live nodes of |a_i - b_i| / (base + W_i)
static R worst_ratio(const Info& I, const std::vector<V3>& a, const std::vector<V3>& b, R base, const std::vector<R>* W, R wfac) {
    R m = 0; for (unsigned i : I.live) { R d = (a[i] - b[i]).norm(), t = base + (W ? wfac * (*W)[i] : 0); R q = d == 0 ? 0 : d / t; if (!(q <= m)) m = q; } return m; }
static R max_norm(const Info& I, const std::vector<V3>& a) { R m = 0; for (unsigned i : I.live) m = std::max(m, a[i].norm()); return m; }

// ---- mesh generator: the shared families plus two of our own (sharp rims -> hinges beyond 135 deg, a waist -> concave hinges)
static gen::TriMesh make_mesh(Rng& g, std::string& family) {
    gen::TriMesh m; int kind = g.range(0, 9);
    if (kind <= 5) { m = gen::random_shape(g, 1300); }
    else if (kind == 9) {
        // sliver: a closed mesh with 1-3 needle triangles whose small angles lie between 0.6 and 1.9 degrees (a 'T-split' of a triangle
        // (a,b,c): new node e just inside the edge ab, faces (a,e,c), (e,b,c) and the needle (a,b,e)).  Net force and torque must vanish
        // on such meshes too; seeded change C02_1 (cotangents of hinge angles clamped at 2 degrees) is only visible here.
        m = gen::random_shape(g, 600); int ns = g.range(1, 3);
        for (int k = 0; k < ns; k++) { size_t ti = (size_t)(g.u64() % m.T.size()); auto t = m.T[ti]; int r = g.range(0, 2); unsigned a = t[r], b = t[(r + 1) % 3], c = t[(r + 2) % 3];
            double mid[3], h[3], hl = 0, el = 0; for (int d = 0; d < 3; d++) { mid[d] = 0.5 * (m.P[a][d] + m.P[b][d]); h[d] = m.P[c][d] - mid[d]; hl += h[d] * h[d]; el += (m.P[b][d] - m.P[a][d]) * (m.P[b][d] - m.P[a][d]); } hl = std::sqrt(hl); el = std::sqrt(el);
            double ang = g.uni(0.6, 1.9) * M_PI / 180.0; double off = std::tan(ang) * 0.5 * el; if (!(off < 0.2 * hl)) continue;
            unsigned e = (unsigned)m.P.size(); m.P.push_back({mid[0] + h[0] / hl * off, mid[1] + h[1] / hl * off, mid[2] + h[2] / hl * off});
            m.T[ti] = {a, e, c}; m.T.push_back({e, b, c}); m.T.push_back({a, b, e}); }
        m.name = "sliver_" + m.name; }
    else if (kind == 8) { m = gen::uvsphere(g.range(4, 12), 2); gen::scale(m, 1, g.uni(0.6, 1), g.logu(0.05, 1.0)); m.name = "lens"; }
    else if (kind == 6) { m = g.coin() ? gen::icosphere(g.range(0, 2)) : gen::uvsphere(g.range(6, 16), g.range(4, 10)); gen::scale(m, 1, g.uni(0.6, 1), g.uni(0.08, 0.3)); m.name = "flat_" + m.name; }
    else { m = gen::icosphere(g.range(2, 3)); double w = g.uni(0.3, 0.6);
        for (auto& p : m.P) { double f = 1 - w * std::exp(-(p[2] / 0.35) * (p[2] / 0.35)); p[0] *= f; p[1] *= f; p[2] *= 1.5; } m.name = "waist_" + m.name; }
    family.clear(); for (char ch : m.name) if (!(ch >= '0' && ch <= '9')) family += ch;
    return m;
}

}  // namespace

static int cmd_forces(const Args& a) {
    Agg agg; agg.max_viol = 40;
    for (long i = a.first; i < a.first + a.cases; i++) {
        if (!a.mine(i)) continue;
        Rng g(a.seed, (uint64_t)i, 0x02);
        // ------------------------------------------------------------------ mesh
        std::string family; gen::TriMesh m = make_mesh(g, family);
        bool jit = g.coin(0.7) && family.rfind("sliver", 0) != 0; if (jit) gen::jitter(m, g, g.uni(0.005, 0.05));   // jitter would fold the needles of the sliver family
        gen::rotate(m, gen::rot_random(g));
        const double scale = g.coin(0.15) ? g.logu(1e-10, 1e-6) : g.logu(1e-6, 1e1); gen::scale(m, scale, scale, scale);
        double brad = 0; for (auto& p : m.P) brad = std::max(brad, std::sqrt(p[0] * p[0] + p[1] * p[1] + p[2] * p[2]));
        const double off_rel = g.coin(0.25) ? 0.0 : g.logu(1e-2, 30);
        { double d[3] = {g.normal(), g.normal(), g.normal()}; double n = std::sqrt(d[0] * d[0] + d[1] * d[1] + d[2] * d[2]); gen::translate(m, d[0] / n * off_rel * brad, d[1] / n * off_rel * brad, d[2] / n * off_rel * brad); }
        if (g.coin(0.5)) gen::permute(m, g);
        int flips = g.coin(0.3) ? gen::flip_random_windings(m, g, 0.3) : 0;
        // ------------------------------------------------------------------ reference geometry from a parameter-free cell
        Params q; { const int classes[3] = {0, 2, 3}; q.cls = classes[g.range(0, 2)]; } q.nft = g.range(2, 4);
        const char* clsname = q.cls == 0 ? "epithelial" : q.cls == 2 ? "lumen" : "nucleus";
        Info I;
        {
            std::vector<unsigned short> zero(m.T.size(), 0); RunOut r0 = run_cfg(m, q, 0, zero);
            if (!r0.ok) { Case c(i); c.v = "inconclusive"; c.msg = "reference cell: " + r0.why; emit(c.line()); agg.add(c); continue; }
            gen::extract(*r0.c, I.P, I.T, &I.used, &I.live, &I.slot); compute_info(I);
            // with every modulus zero the forces must be exactly zero
            if (max_norm(I, r0.F) != 0) { Case c(i); c.viol("force_with_all_moduli_zero", "non-zero node force although every modulus is zero"); agg.add(c); continue; }
        }
        if (!I.topo_ok || !(I.V > 0) || !(I.minang > 0.5L * PI_L / 180)) { Case c(i); c.v = "skip"; agg.add(c); agg.bin("skip:degenerate_or_open"); continue; }
        const size_t nN = I.live.size(), nF = I.T.size();
        // ------------------------------------------------------------------ face types: patches along a random direction, or random per face
        std::vector<unsigned short> ftype(m.T.size(), 0);   // face slot k of the cell is face k of the mesh
        const bool patches = g.coin();
        { double d[3] = {g.normal(), g.normal(), g.normal()}; double n = std::sqrt(d[0] * d[0] + d[1] * d[1] + d[2] * d[2]); V3 dir(d[0] / n, d[1] / n, d[2] / n);
          for (size_t k = 0; k < nF; k++) { const Tri& f = I.T[k]; unsigned short t;
              if (patches) { R h = (((I.P[f.a] + I.P[f.b] + I.P[f.c]) / 3) - I.ref).dot(dir) / I.size; int b = (int)std::floor((double)(h + 1) / 2 * q.nft); t = (unsigned short)std::min(std::max(b, 0), q.nft - 1); }
              else t = (unsigned short)g.range(0, q.nft - 1);
              ftype[I.slot[k]] = t; } }
        // ------------------------------------------------------------------ parameters: the four terms get comparable force scales
        auto draw = [&](Params& p, bool mixed) {
            const double f0 = g.logu(1e-9, 1e3), em = (double)I.emean, V = (double)I.V, A = (double)I.A;
            double u = g.uni(0.05, 1.2) * (g.coin() ? 1 : -1); p.vt_ratio = std::exp(u);     // ln(V/Vt) = -u, |.| >= 0.05
            p.K = f0 * nN / (A * std::fabs(u)) * g.logu(0.03, 30);
            double pexp = p.K * u;                                                          // expected pressure before the cap
            int pm = g.range(0, 3); p.max_p = pm <= 1 ? INFINITY : pm == 2 ? std::fabs(pexp) * g.uni(1.5, 10) : std::fabs(pexp) * g.uni(0.1, 0.9);
            p.dt = g.logu(1e-6, 1e-2); p.growth = mixed ? V * g.uni(-0.2, 0.2) / p.dt : 0.0;
            int zero_t = g.range(0, p.nft - 1);
            for (int k = 0; k < p.nft; k++) p.gamma[k] = k == zero_t ? 0.0 : f0 / em * g.logu(0.03, 30);
            double ar = g.coin() ? g.uni(0.5, 0.95) : g.uni(1.05, 2.0);                     // A/A0, |A/A0 - 1| >= 0.05
            p.rho = (A / ar) * (A / ar) * (A / ar) / (V * V); double A0 = A / ar;
            p.ka = f0 / em * A0 / std::fabs(ar - 1) * g.logu(0.03, 30);
            int zero_b = g.coin() ? g.range(0, p.nft - 1) : -1;
            for (int k = 0; k < p.nft; k++) p.kb[k] = k == zero_b ? 0.0 : f0 * em * g.logu(0.03, 30);
            p.reg = f0 * em * g.logu(0.03, 30);
            if (mixed) { if (g.coin(0.3)) p.ka = 0; if (g.coin(0.2)) for (int k = 0; k < p.nft; k++) p.gamma[k] = 0; }
        };
        draw(q, false);
        Params qm = q; draw(qm, true); const int mixmask = g.range(1, 15);
        // rigid motion for the equivariance oracle
        gen::Rot rot = gen::rot_random(g); const bool about_origin = g.coin(0.3);
        const double t_rel = g.coin(0.25) ? 0.0 : g.logu(1e-2, 30);
        double tv[3]; { double d[3] = {g.normal(), g.normal(), g.normal()}; double n = std::sqrt(d[0] * d[0] + d[1] * d[1] + d[2] * d[2]); for (int k = 0; k < 3; k++) tv[k] = d[k] / n * t_rel * (double)I.size; }
        gen::TriMesh m2 = m; { double cc[3] = {about_origin ? 0.0 : (double)I.ref.x, about_origin ? 0.0 : (double)I.ref.y, about_origin ? 0.0 : (double)I.ref.z};
            for (auto& p : m2.P) { auto r = gen::rapply(rot, {p[0] - cc[0], p[1] - cc[1], p[2] - cc[2]}); for (int k = 0; k < 3; k++) p[k] = r[k] + cc[k] + tv[k]; } }
        auto rotv = [&](const V3& v) -> V3 { return V3(rot.m[0][0] * v.x + rot.m[0][1] * v.y + rot.m[0][2] * v.z, rot.m[1][0] * v.x + rot.m[1][1] * v.y + rot.m[1][2] * v.z, rot.m[2][0] * v.x + rot.m[2][1] * v.y + rot.m[2][2] * v.z); };
        const bool fd_check = g.coin(0.06);
        Rng gfd(a.seed, (uint64_t)i, 0x2fd);

        // ------------------------------------------------------------------ error model shared by the oracles
        // kappa: relative perturbation of an edge vector caused by rounding a moved coordinate (|x| <= Dmax) to double
        // cond : amplification of such a perturbation by unit normals, cotangents and 1/area  (1/sin^2 of the smallest face angle)
        // dVrel: worst-case relative error of the repository's origin-based volume sum: per face 6 triple products (2 roundings
        //        each, |product| <= D^3) and 5 additions -> <= 8 F eps D^3 (absolute, after the division by 6 with margin).
        const R cond = 1 / (std::sin(I.minang) * std::sin(I.minang));
        auto dVrel = [&](R D) -> R { return 8 * (R)nF * EPS * D * D * D / I.V; };

        std::vector<V3> Fsingle[4]; R Ssingle[4] = {0, 0, 0, 0}; bool single_ok = true;
        // ------------------------------------------------------------------ the six configurations
        for (int cfg = 0; cfg < N_CFG; cfg++) {
            const Params& p = cfg == C_MIX ? qm : q;
            const int mask = cfg == C_P ? B_P : cfg == C_TE ? B_TE : cfg == C_B ? B_B : cfg == C_R ? B_R : cfg == C_ALL ? 15 : mixmask;
            bool bend_on = false; for (int k = 0; k < p.nft; k++) if ((mask & B_B) && p.kb[k] != 0) bend_on = true;
            std::string cname = CFGNAME[cfg]; if (cfg == C_MIX && bend_on) cname += "+bending";
            Case c(i);
            RunOut r = run_cfg(m, p, mask, ftype);
            if (!r.ok) { c.v = "inconclusive"; c.msg = cname + ": " + r.why; emit(c.line()); agg.add(c); single_ok = false; continue; }
            { std::vector<V3> P2; std::vector<Tri> T2; gen::extract(*r.c, P2, T2); bool same = T2.size() == I.T.size(); for (size_t k = 0; same && k < T2.size(); k++) same = T2[k].a == I.T[k].a && T2[k].b == I.T[k].b && T2[k].c == I.T[k].c;
              if (!same) { c.v = "inconclusive"; c.msg = cname + ": triangle list differs between two constructions of the same mesh"; emit(c.line()); agg.add(c); single_ok = false; continue; } }
            Cons k = conservation(I, r.F);
            // natural force scale of the configuration (sum over the mesh): used only as a floor, so that a term whose forces
            // cancel to rounding noise (flat hinges, equilateral faces) is not judged relative to that noise.  Rounding noise
            // of one contribution is eps * (its magnitude); 1e-12 * NS is ~1e4 eps per contribution.
            R el = p.ka != 0 && (mask & B_TE) ? (R)p.ka / std::cbrt((R)p.rho * I.V * I.V) * (I.A / std::cbrt((R)p.rho * I.V * I.V) - 1) : 0;   // (k_a/A0)(A/A0-1)
            R gmax = 0, kbmax = 0; for (int t = 0; t < p.nft; t++) { gmax = std::max(gmax, (R)std::fabs(p.gamma[t])); kbmax = std::max(kbmax, (R)std::fabs(p.kb[t])); }
            R NS = 0;
            if (mask & B_P) NS += std::fabs((R)r.p) * I.A;
            if (mask & B_TE) NS += (gmax + std::fabs(el)) * I.half_perim;
            if (mask & B_B) NS += kbmax * (R)I.nE / I.emean;
            if (mask & B_R) NS += (R)std::fabs(p.reg) * 3 * (R)nF / I.emean;
            const R NSn = NS / (R)nN;
            c.nontrivial = k.finite && k.maxF > 1e-9L * NSn && k.maxF > 0;
            c.sig = hash_combine(hash_combine(hash_double((double)k.sa), hash_double((double)r.F[I.live[0]].x)), (uint64_t)cfg);
            agg.bin("cfg:" + cname); if (c.nontrivial) agg.bin("nonzero_forces:" + std::string(CFGNAME[cfg]));
            if (!k.finite) c.viol("non_finite_force:" + cname, "a node force is not finite");
            // (1) momentum conservation.  tolerance 1e-10 (design) + 64 eps Dmax/emin: get_angle_gradient evaluates 2i-j-k from
            // absolute coordinates, so the three gradients of one angle sum to eps*|x| instead of 0, i.e. eps*Dmax/edge relative.
            const R tolc = 1e-10L + 64 * EPS * I.Dmax / I.emin;
            { R bf = tolc * k.sa + 1e-12L * NS, bt = tolc * k.ta + 1e-12L * NS * I.size;
              agg.maxi("net_force_over_tol:" + cname, (double)(k.nf / bf)); agg.maxi("net_torque_over_tol:" + cname, (double)(k.nt / bt));
              if (k.sa > 0) agg.maxi("net_force_over_sumabs:" + cname, (double)(k.nf / k.sa)); if (k.ta > 0) agg.maxi("net_torque_over_sumabs:" + cname, (double)(k.nt / k.ta));
              if (!(k.nf <= bf)) c.viol("net_force:" + cname, "sum of the internal forces is not zero: |sum F| = " + std::to_string((double)(k.nf / k.sa)) + " x sum |F|");
              else if (!(k.nt <= bt)) c.viol("net_torque:" + cname, "net torque of the internal forces is not zero: |sum r x F| = " + std::to_string((double)(k.nt / k.ta)) + " x sum |r||F|"); }
            // own pressure / tension oracles
            std::vector<V3> FP(I.P.size()), FTE(I.P.size()); R SP = 0, STE = 0, SEL = 0;
            if (mask & B_P) for (unsigned n : I.live) { FP[n] = I.dV[n] * (R)r.p; SP = std::max(SP, std::fabs((R)r.p) * I.node_area_third[n]); }
            if (mask & B_TE) { std::vector<R> sc(I.P.size(), 0), se(I.P.size(), 0);
                for (size_t f = 0; f < nF; f++) { R tau = (R)p.gamma[ftype[I.slot[f]]] + el; const unsigned id[3] = {I.T[f].a, I.T[f].b, I.T[f].c};
                    for (int w = 0; w < 3; w++) { FTE[id[w]] += I.dA[f][w] * (-tau); R gn = I.dA[f][w].norm(); sc[id[w]] += (std::fabs((R)p.gamma[ftype[I.slot[f]]]) + std::fabs(el)) * gn; se[id[w]] += std::fabs(el) * gn; } }
                for (unsigned n : I.live) { STE = std::max(STE, sc[n]); SEL = std::max(SEL, se[n]); } }
            // relative error of the elasticity factor el = (k_a/A0)(A/A0-1), A0 = cbrt(rho V^2), caused by a relative volume error dv and
            // a relative area error da: d(A0)/A0 = 2dv/3, so d(el)/el <= (2dv/3 + da) * (1 + (A/A0)/|A/A0-1|).  dv = dVrel(D) is the cancellation
            // of the repository's origin-based volume sum; 8 kappa covers the true change of V and A when moved coordinates are rounded.
            const R A0own = std::cbrt((R)p.rho * I.V * I.V);
            auto kap = [&](R D) -> R { return EPS * D / I.emin; };
            auto el_relerr = [&](R D, bool moved) -> R { if (el == 0) return 0; return (dVrel(D) * (2.0L / 3) + (moved ? 8 * kap(D) : 0)) * (1 + (I.A / A0own) / std::fabs(I.A / A0own - 1)); };
            // relative error of p = -K ln(V/Vt) for a relative volume error dv: dv / |ln(V/Vt)|
            auto p_relerr = [&](R D) -> R { return (dVrel(D) + 8 * kap(D)) / std::fabs(std::log((R)p.vt_ratio)); };
            if (cfg == C_P) {
                // (2) F_i = p dV/dx_i.  Both sides are sums of <= ~10 area vectors per node; 1e-9 of the pre-cancellation magnitude.
                R d = max_diff(I, r.F, FP), tol = 1e-9L * cond * SP + 1e-12L * NSn;
                agg.maxi("pressure_gradient_err_over_tol", (double)(d / tol)); agg.bin(r.p > 0 ? "pressure:positive" : r.p < 0 ? "pressure:negative" : "pressure:zero");
                agg.bin(std::isinf(p.max_p) ? "max_pressure:inf" : (p.K * std::log(p.vt_ratio) > p.max_p ? "max_pressure:capping" : "max_pressure:finite_inactive"));
                if (!(d <= tol)) c.viol("pressure_gradient:pressure", "pressure force differs from p * dV/dx_i: max node error " + std::to_string((double)(d / SP)) + " x force scale");
            }
            if (cfg == C_TE) {
                // (3) F_i = - sum tau_f dA_f/dx_i with own V and A in A0; the volume cancellation of the repository enters through el
                R d = max_diff(I, r.F, FTE), tol = 1e-9L * cond * STE + el_relerr(I.Dmax, false) * SEL + 1e-12L * NSn;
                agg.maxi("area_gradient_err_over_tol", (double)(d / tol)); agg.bin(el > 0 ? "elasticity:stretched" : el < 0 ? "elasticity:compressed" : "elasticity:off");
                agg.bin("face_types:" + std::to_string(p.nft)); agg.bin(patches ? "face_type_layout:patches" : "face_type_layout:random");
                if (!(d <= tol)) c.viol("area_gradient:tension_elasticity", "tension/elasticity force differs from -sum tau_f dA_f/dx_i: max node error " + std::to_string((double)(d / STE)) + " x force scale");
            }
            if (cfg == C_MIX && !(mask & (B_B | B_R)) && c.v != "viol") {
                std::vector<V3> sum(I.P.size()); for (unsigned n : I.live) sum[n] = FP[n] + FTE[n];
                R d = max_diff(I, r.F, sum), tol = 1e-9L * cond * (SP + STE) + el_relerr(I.Dmax, false) * SEL + 1e-12L * NSn;
                agg.maxi("energy_gradient_mixed_err_over_tol", (double)(d / tol)); agg.bin("mixed:pressure_tension_only_checked_against_gradients");
                if (!(d <= tol)) c.viol("energy_gradient:mixed", "pressure+tension force (growth, capped pressure) differs from p dV/dx - sum tau dA/dx");
            }
            if (cfg <= C_R) { Fsingle[cfg] = r.F; Ssingle[cfg] = cfg == C_P ? SP : cfg == C_TE ? STE : k.maxF; }
            if (cfg == C_ALL && single_ok && Fsingle[0].size() && Fsingle[1].size() && Fsingle[2].size() && Fsingle[3].size()) {
                // (5) superposition: same parameter values, the four single-term runs add up to the all-together run.  Only the order
                // of the additions differs: error <= (#contributions per node ~30) * eps * pre-cancellation magnitude; bending and
                // regularisation magnitudes are known after cancellation only, hence 1e-9.
                std::vector<V3> sum(I.P.size()); for (unsigned n : I.live) sum[n] = Fsingle[0][n] + Fsingle[1][n] + Fsingle[2][n] + Fsingle[3][n];
                R d = max_diff(I, r.F, sum), tol = 1e-9L * (Ssingle[0] + Ssingle[1] + Ssingle[2] + Ssingle[3]) + 1e-12L * NSn;
                agg.maxi("superposition_err_over_tol", (double)(d / tol)); agg.bin("superposition_checked");
                if (!(d <= tol)) c.viol("superposition:all", "forces with all terms enabled differ from the sum of the four single-term runs");
            }
            // (4) equivariance under the rigid motion
            {
                RunOut r2 = run_cfg(m2, p, mask, ftype);
                std::vector<V3> P2; std::vector<Tri> T2; bool same = r2.ok;
                if (same) { gen::extract(*r2.c, P2, T2); same = T2.size() == I.T.size(); for (size_t t = 0; same && t < T2.size(); t++) same = T2[t].a == I.T[t].a && T2[t].b == I.T[t].b && T2[t].c == I.T[t].c; }
                const bool thr = ((mask & B_B) && bend_on && I.near_hinge_thr) || ((mask & B_R) && I.near_face_thr);
                if (!same) agg.bin("equivariance_skipped:orientation_or_construction_differs");
                else if (thr) agg.bin("equivariance_skipped:angle_within_1e-6_of_threshold");
                else {
                    R D2 = I.Dmax; for (unsigned n : I.live) D2 = std::max(D2, P2[n].norm());
                    std::vector<V3> RF(I.P.size()); for (unsigned n : I.live) RF[n] = rotv(r.F[n]);
                    R d = max_diff(I, r2.F, RF);
                    // relative tolerance: 1e-8 (design) + 64 kappa cond (moved coordinates are rounded to double; sensitivity of unit normals,
                    // cotangents and 1/area to that perturbation) + the pressure / elasticity factors of BOTH copies, which inherit the
                    // cancellation of the origin-based volume sum (a capped pressure is exact)
                    R rel = 1e-8L + 64 * kap(D2) * cond;
                    R S = k.maxF, extra = 0;
                    if ((mask & B_P) && p.K != 0) { extra += 2 * p_relerr(D2) * SP; S = std::max(S, SP); }
                    if (mask & B_TE) { extra += 2 * el_relerr(D2, true) * SEL; S = std::max(S, STE); }
                    R tol = rel * S + extra + 1e-10L * NSn;
                    std::vector<R> W; if (bend_on) W = hinge_angle_allowance(I, ftype, p.kb, 8 * kap(D2) * std::sqrt(cond));
                    R ratio = worst_ratio(I, r2.F, RF, tol, bend_on ? &W : nullptr, 2);   // both copies carry their own hinge-angle error
                    agg.maxi("equivariance_err_over_tol:" + cname, (double)ratio); if (cfg == C_B) agg.maxi(std::string("equivariance_err_over_tol:bending@") + (I.hinges_flat ? "mesh_with_flat_hinge" : "no_flat_hinge"), (double)ratio); if (S > 0) agg.maxi("equivariance_err_over_scale:" + cname, (double)(d / S));
                    agg.bin("equivariance_checked:" + std::string(CFGNAME[cfg])); agg.maxi("moved_distance_over_size", (double)(D2 / I.size));
                    if (!(ratio <= 1)) c.viol("equivariance:" + cname, "forces of the rigidly moved cell differ from the rotated forces: max node error " + std::to_string((double)(d / S)) + " x force scale");
                }
            }
            // evidence bins shared by all configurations
            if (cfg == C_P) {
                agg.bin("family:" + family); agg.bin(std::string("class:") + clsname); agg.bin("scale_decade:" + std::to_string((int)std::floor(std::log10(scale))));
                agg.bin(off_rel == 0 ? std::string("offset:0") : "offset_over_size_decade:" + std::to_string((int)std::floor(std::log10(off_rel))));
                agg.bin(jit ? "jitter:yes" : "jitter:no"); agg.bin(flips ? "windings_flipped:yes" : "windings_flipped:no");
                agg.bin("faces_decade:" + std::to_string((int)std::floor(std::log10((double)nF)))); agg.bin(about_origin ? "motion:rotation_about_origin" : "motion:rotation_about_cell");
                if (I.hinges_gt135) agg.bin("meshes_with_hinge_beyond_135deg"); if (I.hinges_concave) agg.bin("meshes_with_concave_hinge"); if (I.hinges_flat) agg.bin("meshes_with_flat_hinge"); agg.bin("hinges_flat", I.hinges_flat); if (I.faces_reg_skipped) agg.bin("meshes_with_face_angle_outside_10_170deg");
                agg.bin("hinges_beyond_135deg", I.hinges_gt135); agg.bin("hinges_concave", I.hinges_concave); agg.bin("hinges", I.nE); agg.bin("faces_outside_10_170deg", I.faces_reg_skipped); agg.bin("faces", (long)nF);
                agg.maxi("min_face_angle_deg_smallest_seen_neg", -(double)(I.minang * 180 / PI_L)); agg.maxi("faces_max", (double)nF);
            }
            if (cfg == C_B) { int nz = 0; for (int t = 0; t < p.nft; t++) nz += p.kb[t] == 0; agg.bin(nz ? "bending_moduli:mixed_zero_nonzero" : "bending_moduli:all_nonzero"); }
            if (cfg == C_MIX) { agg.bin("mixed_mask:" + std::to_string(mask)); }
            // (6) self-check of the analytic gradients against central differences of the own V and A_f
            if (cfg == C_P && fd_check) {
                bool bad = false; R worst = 0; const R h = 1e-6L * I.size;
                for (int rep = 0; rep < 4; rep++) {
                    unsigned n = I.live[gfd.u64() % I.live.size()]; std::vector<V3> Pp = I.P; V3 gV, gA;   // gA: gradient of the total area
                    for (int ax = 0; ax < 3; ax++) { V3 e(ax == 0, ax == 1, ax == 2);
                        Pp[n] = I.P[n] + e * h; R vp = own_volume(Pp, I.T, I.ref), ap = 0; for (auto& f : I.T) if (f.a == n || f.b == n || f.c == n) ap += own_face_area(Pp, f);
                        Pp[n] = I.P[n] - e * h; R vm = own_volume(Pp, I.T, I.ref), am = 0; for (auto& f : I.T) if (f.a == n || f.b == n || f.c == n) am += own_face_area(Pp, f);
                        Pp[n] = I.P[n]; R dv = (vp - vm) / (2 * h), da = (ap - am) / (2 * h);
                        if (ax == 0) { gV.x = dv; gA.x = da; } else if (ax == 1) { gV.y = dv; gA.y = da; } else { gV.z = dv; gA.z = da; } }
                    V3 aA; R sA = 0; for (size_t f = 0; f < nF; f++) { const unsigned id[3] = {I.T[f].a, I.T[f].b, I.T[f].c}; for (int w = 0; w < 3; w++) if (id[w] == n) { aA += I.dA[f][w]; sA += I.dA[f][w].norm(); } }
                    R e1 = (gV - I.dV[n]).norm() / I.node_area_third[n], e2 = (gA - aA).norm() / sA; worst = std::max({worst, e1, e2});
                    if (!(e1 <= 1e-5L) || !(e2 <= 1e-5L)) bad = true;
                }
                agg.bin("fd_selfcheck_meshes"); agg.maxi("fd_selfcheck_rel_err", (double)worst);
                if (bad) { Case s(i); s.v = "inconclusive"; s.msg = "own analytic dV/dx or dA/dx disagrees with central differences (harness defect)"; emit(s.line()); }
            }
            if (c.v == "viol" || agg.samples.size() < agg.max_samples) {
                c.obs.s("cfg", cname).s("family", family).s("class", clsname).i("faces", (long long)nF).i("nodes", (long long)nN).d("scale", scale).d("offset_over_size", off_rel)
                    .i("nft", p.nft).d("pressure", r.p).d("volume", r.V).d("area", r.A).d("target_volume", r.Vt).d("own_volume", (double)I.V).d("own_area", (double)I.A)
                    .d("net_force_over_sumabs", (double)(k.sa > 0 ? k.nf / k.sa : 0)).d("net_torque_over_sumabs", (double)(k.ta > 0 ? k.nt / k.ta : 0)).d("max_node_force", (double)k.maxF)
                    .d("K", (mask & B_P) ? p.K : 0.0).d("ka", (mask & B_TE) ? p.ka : 0.0).d("rho", p.rho).d("reg", (mask & B_R) ? p.reg : 0.0)
                    .raw("gamma", jarr(std::vector<double>(p.gamma, p.gamma + p.nft))).raw("kb", jarr(std::vector<double>(p.kb, p.kb + p.nft))).i("mask", mask)
                    .i("hinges_beyond_135deg", I.hinges_gt135).i("hinges_concave", I.hinges_concave).d("min_face_angle_deg", (double)(I.minang * 180 / PI_L));
            }
            agg.add(c);
        }
    }
    agg.flush(a.shard_i);
    return 0;
}
static Reg r_forces("forces", cmd_forces);
