// Generators of closed genus-0 triangle meshes, rigid motions, and conversions to repository objects.
#pragma once
#include "vh.hpp"
#include "testers.hpp"
#include "oracle.hpp"
#include <memory>
#include <numeric>

namespace gen {

struct TriMesh {
    std::vector<std::array<double, 3>> P;
    std::vector<std::array<unsigned, 3>> T;
    std::string name;
};

struct Rot { double m[3][3]; };
inline Rot rot_identity() { Rot r{}; for (int i = 0; i < 3; i++) for (int j = 0; j < 3; j++) r.m[i][j] = i == j; return r; }
inline Rot rot_random(vh::Rng& g) {  // uniform random rotation from a random unit quaternion
    double q[4]; double n = 0; for (int i = 0; i < 4; i++) { q[i] = g.normal(); n += q[i] * q[i]; } n = std::sqrt(n); for (int i = 0; i < 4; i++) q[i] /= n;
    double w = q[0], x = q[1], y = q[2], z = q[3]; Rot r;
    r.m[0][0] = 1 - 2 * (y * y + z * z); r.m[0][1] = 2 * (x * y - z * w); r.m[0][2] = 2 * (x * z + y * w);
    r.m[1][0] = 2 * (x * y + z * w); r.m[1][1] = 1 - 2 * (x * x + z * z); r.m[1][2] = 2 * (y * z - x * w);
    r.m[2][0] = 2 * (x * z - y * w); r.m[2][1] = 2 * (y * z + x * w); r.m[2][2] = 1 - 2 * (x * x + y * y);
    return r;
}
inline std::array<double, 3> rapply(const Rot& r, const std::array<double, 3>& p) {
    return {r.m[0][0] * p[0] + r.m[0][1] * p[1] + r.m[0][2] * p[2], r.m[1][0] * p[0] + r.m[1][1] * p[1] + r.m[1][2] * p[2], r.m[2][0] * p[0] + r.m[2][1] * p[1] + r.m[2][2] * p[2]};
}

inline TriMesh icosahedron() {
    TriMesh m; m.name = "ico0"; const double t = (1.0 + std::sqrt(5.0)) / 2.0;
    double v[12][3] = {{-1, t, 0}, {1, t, 0}, {-1, -t, 0}, {1, -t, 0}, {0, -1, t}, {0, 1, t}, {0, -1, -t}, {0, 1, -t}, {t, 0, -1}, {t, 0, 1}, {-t, 0, -1}, {-t, 0, 1}};
    for (auto& p : v) { double n = std::sqrt(p[0] * p[0] + p[1] * p[1] + p[2] * p[2]); m.P.push_back({p[0] / n, p[1] / n, p[2] / n}); }
    unsigned f[20][3] = {{0, 11, 5}, {0, 5, 1}, {0, 1, 7}, {0, 7, 10}, {0, 10, 11}, {1, 5, 9}, {5, 11, 4}, {11, 10, 2}, {10, 7, 6}, {7, 1, 8}, {3, 9, 4}, {3, 4, 2}, {3, 2, 6}, {3, 6, 8}, {3, 8, 9}, {4, 9, 5}, {2, 4, 11}, {6, 2, 10}, {8, 6, 7}, {9, 8, 1}};
    for (auto& t3 : f) m.T.push_back({t3[0], t3[1], t3[2]});
    return m;
}
inline TriMesh subdivide(const TriMesh& in, bool project_to_sphere) {
    TriMesh m; m.P = in.P; std::map<uint64_t, unsigned> mid;
    auto midpoint = [&](unsigned a, unsigned b) -> unsigned {
        uint64_t k = a < b ? orc::ekey(a, b) : orc::ekey(b, a); auto it = mid.find(k); if (it != mid.end()) return it->second;
        std::array<double, 3> p = {(m.P[a][0] + m.P[b][0]) / 2, (m.P[a][1] + m.P[b][1]) / 2, (m.P[a][2] + m.P[b][2]) / 2};
        if (project_to_sphere) { double n = std::sqrt(p[0] * p[0] + p[1] * p[1] + p[2] * p[2]); for (auto& c : p) c /= n; }
        m.P.push_back(p); return mid[k] = (unsigned)m.P.size() - 1; };
    for (auto& t : in.T) { unsigned ab = midpoint(t[0], t[1]), bc = midpoint(t[1], t[2]), ca = midpoint(t[2], t[0]);
        m.T.push_back({t[0], ab, ca}); m.T.push_back({t[1], bc, ab}); m.T.push_back({t[2], ca, bc}); m.T.push_back({ab, bc, ca}); }
    return m;
}
inline TriMesh icosphere(int level) { TriMesh m = icosahedron(); for (int i = 0; i < level; i++) m = subdivide(m, true); m.name = "ico" + std::to_string(level); return m; }

// closed box [-hx,hx]x[-hy,hy]x[-hz,hz] with n subdivisions per side
inline TriMesh box(int n, double hx = 1, double hy = 1, double hz = 1) {
    TriMesh m; m.name = "box" + std::to_string(n); std::map<std::array<long, 3>, unsigned> idx;
    auto vid = [&](long i, long j, long k) -> unsigned { std::array<long, 3> key = {i, j, k}; auto it = idx.find(key); if (it != idx.end()) return it->second;
        m.P.push_back({hx * (2.0 * i / n - 1), hy * (2.0 * j / n - 1), hz * (2.0 * k / n - 1)}); return idx[key] = (unsigned)m.P.size() - 1; };
    auto quad = [&](unsigned a, unsigned b, unsigned c, unsigned d) { m.T.push_back({a, b, c}); m.T.push_back({a, c, d}); };
    for (long u = 0; u < n; u++) for (long v = 0; v < n; v++) {
        quad(vid(u, v, 0), vid(u, v + 1, 0), vid(u + 1, v + 1, 0), vid(u + 1, v, 0));      // z=-: outward -z
        quad(vid(u, v, n), vid(u + 1, v, n), vid(u + 1, v + 1, n), vid(u, v + 1, n));      // z=+
        quad(vid(u, 0, v), vid(u + 1, 0, v), vid(u + 1, 0, v + 1), vid(u, 0, v + 1));      // y=-
        quad(vid(u, n, v), vid(u, n, v + 1), vid(u + 1, n, v + 1), vid(u + 1, n, v));      // y=+
        quad(vid(0, u, v), vid(0, u, v + 1), vid(0, u + 1, v + 1), vid(0, u + 1, v));      // x=-
        quad(vid(n, u, v), vid(n, u + 1, v), vid(n, u + 1, v + 1), vid(n, u, v + 1));      // x=+
    }
    return m;
}
// UV sphere with nu meridians, nv parallels (nv>=2 interior rings count = nv-1)
inline TriMesh uvsphere(int nu, int nv) {
    TriMesh m; m.name = "uv" + std::to_string(nu) + "x" + std::to_string(nv);
    m.P.push_back({0, 0, 1});
    for (int j = 1; j < nv; j++) { double th = M_PI * j / nv; for (int i = 0; i < nu; i++) { double ph = 2 * M_PI * i / nu; m.P.push_back({std::sin(th) * std::cos(ph), std::sin(th) * std::sin(ph), std::cos(th)}); } }
    m.P.push_back({0, 0, -1}); unsigned south = (unsigned)m.P.size() - 1;
    auto ring = [&](int j, int i) -> unsigned { return 1 + (unsigned)((j - 1) * nu + ((i % nu + nu) % nu)); };
    for (int i = 0; i < nu; i++) m.T.push_back({0, ring(1, i), ring(1, i + 1)});
    for (int j = 1; j < nv - 1; j++) for (int i = 0; i < nu; i++) { m.T.push_back({ring(j, i), ring(j + 1, i), ring(j + 1, i + 1)}); m.T.push_back({ring(j, i), ring(j + 1, i + 1), ring(j, i + 1)}); }
    for (int i = 0; i < nu; i++) m.T.push_back({south, ring(nv - 1, i + 1), ring(nv - 1, i)});
    return m;
}
// n-gon prism (regular polygon of n sides, height 2h), caps fanned from a centre vertex, sides split in ns layers
inline TriMesh prism(int n, int ns = 1, double h = 1) {
    TriMesh m; m.name = "prism" + std::to_string(n);
    auto ringv = [&](int layer, int i) -> unsigned { return (unsigned)(layer * n + ((i % n + n) % n)); };
    for (int l = 0; l <= ns; l++) for (int i = 0; i < n; i++) { double ph = 2 * M_PI * i / n; m.P.push_back({std::cos(ph), std::sin(ph), -h + 2 * h * l / ns}); }
    unsigned cb = (unsigned)m.P.size(); m.P.push_back({0, 0, -h}); unsigned ct = (unsigned)m.P.size(); m.P.push_back({0, 0, h});
    for (int i = 0; i < n; i++) { m.T.push_back({cb, ringv(0, i + 1), ringv(0, i)}); m.T.push_back({ct, ringv(ns, i), ringv(ns, i + 1)}); }
    for (int l = 0; l < ns; l++) for (int i = 0; i < n; i++) { m.T.push_back({ringv(l, i), ringv(l, i + 1), ringv(l + 1, i + 1)}); m.T.push_back({ringv(l, i), ringv(l + 1, i + 1), ringv(l + 1, i)}); }
    return m;
}

inline void scale(TriMesh& m, double sx, double sy, double sz) { for (auto& p : m.P) { p[0] *= sx; p[1] *= sy; p[2] *= sz; } }
inline void translate(TriMesh& m, double tx, double ty, double tz) { for (auto& p : m.P) { p[0] += tx; p[1] += ty; p[2] += tz; } }
inline void rotate(TriMesh& m, const Rot& r) { for (auto& p : m.P) p = rapply(r, p); }
// star-shaped radial deformation r -> r*(1 + sum a_k f_k(dir)) applied to a mesh centred at origin
inline void star_deform(TriMesh& m, vh::Rng& g, double amp) {
    double a[6]; for (auto& x : a) x = g.uni(-1, 1) * amp; Rot r = rot_random(g);
    for (auto& p : m.P) { double n = std::sqrt(p[0] * p[0] + p[1] * p[1] + p[2] * p[2]); if (n == 0) continue; auto d = rapply(r, std::array<double, 3>{p[0] / n, p[1] / n, p[2] / n});
        double f = 1 + a[0] * d[0] * d[1] + a[1] * d[1] * d[2] + a[2] * (3 * d[2] * d[2] - 1) / 2 + a[3] * d[0] * d[2] + a[4] * (d[0] * d[0] - d[1] * d[1]) + a[5] * d[0] * d[1] * d[2] * 3;
        for (auto& c : p) c *= f; }
}
inline double min_incident_edge(const TriMesh& m, std::vector<double>& minlen) {
    minlen.assign(m.P.size(), INFINITY); double gmin = INFINITY;
    for (auto& t : m.T) for (int k = 0; k < 3; k++) { unsigned a = t[k], b = t[(k + 1) % 3]; double d = std::sqrt(std::pow(m.P[a][0] - m.P[b][0], 2) + std::pow(m.P[a][1] - m.P[b][1], 2) + std::pow(m.P[a][2] - m.P[b][2], 2)); minlen[a] = std::min(minlen[a], d); minlen[b] = std::min(minlen[b], d); gmin = std::min(gmin, d); }
    return gmin;
}
inline void jitter(TriMesh& m, vh::Rng& g, double frac) {
    std::vector<double> ml; min_incident_edge(m, ml);
    for (size_t i = 0; i < m.P.size(); i++) { if (!std::isfinite(ml[i])) continue; for (auto& c : m.P[i]) c += g.uni(-1, 1) * frac * ml[i]; }
}
inline void permute(TriMesh& m, vh::Rng& g) {
    std::vector<unsigned> perm(m.P.size()); std::iota(perm.begin(), perm.end(), 0u);
    for (size_t i = perm.size(); i > 1; i--) std::swap(perm[i - 1], perm[g.u64() % i]);
    std::vector<std::array<double, 3>> P2(m.P.size()); for (size_t i = 0; i < m.P.size(); i++) P2[perm[i]] = m.P[i]; m.P = P2;
    for (auto& t : m.T) { for (auto& v : t) v = perm[v]; unsigned r = (unsigned)(g.u64() % 3); std::rotate(t.begin(), t.begin() + r, t.end()); }
    for (size_t i = m.T.size(); i > 1; i--) std::swap(m.T[i - 1], m.T[g.u64() % i]);
}
inline int flip_random_windings(TriMesh& m, vh::Rng& g, double p) { int n = 0; for (auto& t : m.T) if (g.coin(p)) { std::swap(t[1], t[2]); n++; } return n; }
inline double mean_edge(const TriMesh& m) { double s = 0; long n = 0; for (auto& t : m.T) for (int k = 0; k < 3; k++) { unsigned a = t[k], b = t[(k + 1) % 3]; s += std::sqrt(std::pow(m.P[a][0] - m.P[b][0], 2) + std::pow(m.P[a][1] - m.P[b][1], 2) + std::pow(m.P[a][2] - m.P[b][2], 2)); n++; } return n ? s / n : 0; }

// A random base shape of bounded size (number of triangles <= max_faces), unit scale, centred at origin
inline TriMesh random_shape(vh::Rng& g, int max_faces) {
    for (;;) {
        int kind = g.range(0, 6); TriMesh m;
        if (kind == 0) { int lv = g.range(0, 3); m = icosphere(lv); }
        else if (kind == 1) { int n = g.range(1, 6); m = box(n, 1, g.uni(0.5, 2), g.uni(0.5, 2)); }
        else if (kind == 2) { m = uvsphere(g.range(4, 16), g.range(3, 10)); }
        else if (kind == 3) { m = prism(g.range(3, 12), g.range(1, 5), g.uni(0.4, 2)); }
        else if (kind == 4) { m = icosphere(g.range(1, 3)); scale(m, 1, g.uni(0.4, 1), g.uni(0.4, 1)); m.name += "ell"; }
        else if (kind == 5) { m = icosphere(g.range(1, 3)); star_deform(m, g, 0.25); m.name += "star"; }
        else {   // cup: a sphere with a dent that reaches beyond its centre (non-convex, not star-shaped about the node mean)
            m = icosphere(g.range(2, 3)); Rot r = rot_random(g); const double th0 = g.uni(0.6, 1.0), depth = g.uni(1.1, 1.6);
            for (auto& p : m.P) { auto q = rapply(r, p); double th = std::acos(std::max(-1.0, std::min(1.0, q[2]))); if (th < th0) { double f = 1 - depth * (1 + std::cos(M_PI * th / th0)) / 2; for (auto& c : p) c *= f; } }
            m.name += "cup"; }
        if ((int)m.T.size() <= max_faces) return m;
    }
}

// ---- conversions ------------------------------------------------------------------------------
inline mesh to_repo_mesh(const TriMesh& m) { mesh r; for (auto& p : m.P) { r.node_pos_lst.push_back(p[0]); r.node_pos_lst.push_back(p[1]); r.node_pos_lst.push_back(p[2]); } for (auto& t : m.T) r.face_point_ids.push_back({t[0], t[1], t[2]}); return r; }

inline std::shared_ptr<cell_type_parameters> default_cell_type(int nb_face_types = 3, short global_type_id = 0) {
    auto ct = std::make_shared<cell_type_parameters>();
    ct->name_ = "t"; ct->global_type_id_ = global_type_id; ct->mass_density_ = 1000; ct->bulk_modulus_ = 1000; ct->max_pressure_ = INFINITY;
    ct->avg_division_vol_ = INFINITY; ct->min_vol_ = 0; ct->target_isoperimetric_ratio_ = 150; ct->surface_coupling_max_curvature_ = 1e300;
    for (int i = 0; i < nb_face_types; i++) { face_type_parameters ft; ft.name_ = "f" + std::to_string(i); ft.face_type_global_id_ = (short)i; ft.surface_tension_ = 0; ft.adherence_strength_ = 0; ft.repulsion_strength_ = 0; ft.bending_modulus_ = 0; ct->add_face_type(ft); }
    return ct;
}

template <class C = epithelial_cell>
inline std::shared_ptr<C> make_cell(const TriMesh& m, unsigned id, cell_type_param_ptr ct, bool check_integrity = true) {
    auto c = std::make_shared<C>(to_repo_mesh(m), id, ct);
    c->initialize_cell_properties(check_integrity);
    return c;
}
inline cell_ptr make_cell_of_class(int cls, const TriMesh& m, unsigned id, cell_type_param_ptr ct) {
    switch (cls) {
        case 0: return make_cell<epithelial_cell>(m, id, ct);
        case 1: return make_cell<ecm_cell>(m, id, ct);
        case 2: return make_cell<lumen_cell>(m, id, ct);
        case 3: return make_cell<nucleus_cell>(m, id, ct);
        default: return make_cell<static_cell>(m, id, ct);
    }
}

// Live triangle list + positions of a repository cell, through the friend tester
inline void extract(const cell& c, std::vector<orc::V3>& P, std::vector<orc::Tri>& T, std::vector<char>* used = nullptr, std::vector<unsigned>* live = nullptr, std::vector<unsigned>* face_slot = nullptr) {
    const auto& nl = cell_tester::nodes(c); const auto& fl = cell_tester::faces(c);
    P.resize(nl.size()); if (used) used->assign(nl.size(), 0); if (live) live->clear();
    for (size_t i = 0; i < nl.size(); i++) { P[i] = orc::V3(nl[i].pos().dx(), nl[i].pos().dy(), nl[i].pos().dz()); if (nl[i].is_used()) { if (used) (*used)[i] = 1; if (live) live->push_back((unsigned)i); } }
    T.clear(); if (face_slot) face_slot->clear();
    for (size_t i = 0; i < fl.size(); i++) if (fl[i].is_used()) { T.push_back({cell_tester::n1(fl[i]), cell_tester::n2(fl[i]), cell_tester::n3(fl[i])}); if (face_slot) face_slot->push_back((unsigned)i); }
}

}  // namespace gen
