// C15 — results independent of thread count / schedule; parallel errors become exceptions.
//   mode=identity  : non-interacting tissues run with 1..16 threads and several schedule seeds (hook H3 injects delays /
//                    yields inside every parallel region); final state must be bit-identical to the single-threaded run
//   mode=division  : k ready cells divided by cell_divider::run in parallel vs one after another
//   mode=exception : one or two failing items at every list position of refine_meshes / parallel_exception_handler /
//                    mesh_writer::write; the thrown type must arrive once, after all other items were processed
// The same modes run in the tsan flavour (TSan + libgomp shim); reports are collected from the TSan log by checks/C15.py.
#include "vh.hpp"
#include <sstream>
#include "tissue.hpp"
#include "remesh_util.hpp"
#include "verif_hooks.hpp"
#include "mesh_writer.hpp"
#include "initial_triangulation.hpp"
#include <atomic>
#include <mutex>
#include <thread>
#include <unistd.h>
#include <omp.h>

using namespace vh;

namespace {

// ---- deterministic RNG seeding (H2): function of (base, site, context=cell id, per-context counter) -----------------
static uint64_t g_rng_base = 0; static std::mutex g_mu; static std::map<std::pair<int, uint64_t>, uint64_t> g_ctr;
static uint64_t rng_seed(int site, uint64_t ctx) { std::lock_guard<std::mutex> lk(g_mu); uint64_t k = g_ctr[{site, ctx}]++; return hash_combine(hash_combine(g_rng_base, (uint64_t)site), hash_combine(ctx, k)); }
static void rng_reset(uint64_t base) { std::lock_guard<std::mutex> lk(g_mu); g_rng_base = base; g_ctr.clear(); }

// ---- schedule perturbation (H3) ----------------------------------------------------------------------------------------
struct Ev { uint64_t seq; int tag; long item; int thr; };
static std::atomic<uint64_t> g_seq{0}; static uint64_t g_sched_seed = 0; static bool g_sched_on = false;
static std::vector<std::vector<Ev>> g_logs(64);
static void sched_point(int tag, long item) {
    int t = omp_get_thread_num(); uint64_t s = g_seq.fetch_add(1, std::memory_order_relaxed);
    if (t >= 0 && t < 64 && g_logs[t].size() < 200000) g_logs[t].push_back({s, tag, item, t});
    if (!g_sched_on) return;
    uint64_t h = hash_combine(hash_combine(g_sched_seed, (uint64_t)tag * 1000003ULL + (uint64_t)item), (uint64_t)t * 7919ULL + s % 5);
    unsigned r = (unsigned)(h % 16);
    if (r < 5) return; if (r < 9) { std::this_thread::yield(); return; }
    usleep((useconds_t)(h >> 20) % 200);
}
static uint64_t interleaving_hash() {   // order in which (tag,item) were reached by which thread
    std::vector<Ev> all; for (auto& l : g_logs) all.insert(all.end(), l.begin(), l.end());
    std::sort(all.begin(), all.end(), [](const Ev& a, const Ev& b) { return a.seq < b.seq; });
    uint64_t h = 0x77; for (auto& e : all) h = hash_combine(h, hash_combine((uint64_t)e.tag * 1000003ULL + (uint64_t)e.item, (uint64_t)e.thr)); return h;
}
static void sched_reset(uint64_t seed, bool on) { for (auto& l : g_logs) l.clear(); g_seq = 0; g_sched_seed = seed; g_sched_on = on; }

// ---- state hash: positions, momenta, connectivity, labels; cells sorted by geometry (ids ignored) ----------------------
static uint64_t state_hash(const std::vector<cell_ptr>& L) {
    std::vector<uint64_t> hs; for (auto& c : L) { uint64_t h = rmu::fingerprint(*c, true); h = hash_combine(h, hash_combine(hash_double(c->get_target_volume()), (uint64_t)c->get_nb_of_nodes() * 1000003ULL + (uint64_t)c->get_nb_of_faces())); hs.push_back(h); }
    std::sort(hs.begin(), hs.end()); uint64_t h = 0x5151; for (auto x : hs) h = hash_combine(h, x); return hash_combine(h, (uint64_t)L.size());
}

// non-interacting tissue: cells on a line, gaps of several cell sizes; growth, division and removal enabled
static tis::Scenario make_far(Rng& g, int iterations, bool very_large_cell = false) {
    tis::Scenario s; s.P = tis::base_params(g); s.iterations = iterations; s.family = "non_interacting";
    const double r = 4.2e-6 * g.uni(0.9, 1.1), V0 = 4.0 / 3.0 * M_PI * r * r * r * 0.93; int n = g.range(2, 8);
    // no division here: the two daughters of a division touch each other, i.e. they interact, which the statement excludes from
    // the bit-identity clause (division rounds are compared in mode=division instead). Growth makes the meshes refine.
    cell_type_parameters grow = tis::base_type(0, g, V0); grow.name_ = "epi_fast"; grow.avg_growth_rate_ = g.uni(0.3, 1.5) * V0 / (iterations * s.P.time_step_); grow.std_growth_rate_ = 0.1 * grow.avg_growth_rate_; s.types.push_back(grow);
    cell_type_parameters calm = tis::base_type(0, g, V0); calm.name_ = "epi_calm"; s.types.push_back(calm);
    cell_type_parameters doomed = tis::base_type(0, g, V0); doomed.name_ = "doomed"; doomed.min_vol_ = V0 * 0.97; doomed.avg_growth_rate_ = -1.0 * V0 / (iterations * s.P.time_step_); doomed.bulk_modulus_ *= 4; s.types.push_back(doomed);
    s.types.push_back(tis::base_type(2, g, V0)); s.types.push_back(tis::base_type(3, g, V0)); s.types.push_back(tis::base_type(4, g, V0));
    for (int i = 0; i < n; i++) { double u = g.uni(); int t = u < 0.45 ? 0 : u < 0.65 ? 1 : u < 0.8 ? 2 : u < 0.87 ? 3 : u < 0.94 ? 4 : 5; s.cells.push_back({tis::sphere(r, i * 6.0 * r, 0, 0, g), t}); }
    // one identity run in three: a very large cell as well (20480 faces, same edge length as the others): loops over the faces or nodes of ONE cell that are themselves
    // parallel above a size threshold (and sum in another order with another team) only show on such a cell
    if (very_large_cell) { s.cells.push_back({tis::sphere(8 * r, -14.0 * r, 0, 0, g, 5), 1}); s.family = "non_interacting_with_a_very_large_cell"; }
    s.P.simulation_duration_ = (iterations - 0.5) * s.P.time_step_; s.P.sampling_period_ = g.range(3, 15) * s.P.time_step_;
    return s;
}

static double g_limit = 1e300;
static void on_phase(int tag, const std::vector<cell_ptr>* lp) { if (tag == 8 && tis::blown_up(*lp, g_limit)) throw tis::unstable_run(); }
struct RunOut { uint64_t hash = 0, inter = 0; long iters = 0, cells = 0; std::string exc; };
static RunOut run_tissue(const tis::Scenario& s0, int threads, uint64_t sched_seed, bool sched_on, uint64_t rng_base, const std::string& out) {
    tis::Scenario s = s0; s.P.output_folder_path_ = out; RunOut r; rng_reset(rng_base); sched_reset(sched_seed, sched_on);
    try {
        verif::rng_context() = 0;        // the thread-local context left over by a previous run must not leak into this one
        // the whole run, construction of the cells included, happens in a process whose OpenMP thread count is the one under test (OMP_NUM_THREADS = threads)
        omp_set_num_threads(threads);
        std::vector<cell_ptr> cells = tis::build_cells(s);
        tis::msolver sv(s.P, cells, threads, true, false);
        while (!sv.finished()) { sv.run_iteration(); r.iters++; }
        r.hash = state_hash(sv.cells()); r.cells = (long)sv.cells().size();
    } catch (const std::exception& e) { r.exc = e.what(); r.hash = hash_str(std::string("exception:") + e.what()); }
    catch (const tis::unstable_run&) { r.exc = "unstable"; r.hash = hash_str("unstable") ^ (uint64_t)r.iters; }
    r.inter = interleaving_hash(); std::error_code ec; std::filesystem::remove_all(out, ec); return r;
}

// every run in a process of its own: state that survives inside the process (function-local statics, caches keyed by ids) would otherwise be
// initialised by the single-threaded reference run and hide a dependence on which thread / cell gets there first
static RunOut run_fresh(const tis::Scenario& s0, int threads, uint64_t sched_seed, bool sched_on, uint64_t rng_base, const std::string& out) {
    IsoResult ir = run_isolated([&]() { RunOut r = run_tissue(s0, threads, sched_seed, sched_on, rng_base, out + "_t" + std::to_string(threads)); std::ostringstream o; o << r.hash << " " << r.inter << " " << r.iters << " " << r.cells << " " << r.exc; return o.str(); }, 600, 1800);
    RunOut r; if (!ir.completed) { r.exc = "run ended abnormally: signal " + std::to_string(ir.signal) + " exit " + std::to_string(ir.exit_code) + (ir.timeout ? " (time-out)" : "") + " " + ir.err.substr(0, 200); r.hash = hash_str(r.exc); return r; }
    std::istringstream in(ir.line); in >> r.hash >> r.inter >> r.iters >> r.cells; std::getline(in, r.exc); if (!r.exc.empty() && r.exc[0] == ' ') r.exc.erase(0, 1); return r;
}

static std::string identity_case(const Args& a, long i) {
    Rng g(a.seed, (uint64_t)i, 0x15); Case c(i);
    int iters = g.range((int)a.geti("min_iterations", 25), (int)a.geti("max_iterations", 50));
    tis::Scenario s = make_far(g, iters, i % a.geti("large_every", 3) == 0);
    auto& S = verif::get(); S.rng_seed = rng_seed; S.sched_point = sched_point; S.phase = on_phase; g_limit = tis::extent_limit(s);
    std::string out = "thr_out_" + std::to_string(i) + "_" + std::to_string((long)getpid()); uint64_t base = hash_combine(a.seed, (uint64_t)i);
    const bool fresh = a.geti("fresh_process", 1) != 0; auto RUN = [&](int t, uint64_t ss, bool on) { return fresh ? run_fresh(s, t, ss, on, base, out) : run_tissue(s, t, ss, on, base, out); };
    RunOut ref = RUN(1, 0, false);
    std::set<uint64_t> inter; long runs = 0; std::vector<long> tc;
    RunOut again = RUN(1, 0, false); runs++;
    if (again.hash != ref.hash) c.viol("repeat_run_differs", "two single-threaded runs with the same inputs end in different states");
    std::vector<int> threads = {2, 3, 4, 8, 16}; int nsched = (int)a.geti("schedules", 2);
    for (int t : threads) for (int k = 0; k < nsched && c.v != "viol"; k++) {
        RunOut r = RUN(t, hash_combine(base, (uint64_t)t * 131 + (uint64_t)k), true); runs++; inter.insert(r.inter);
        if (r.hash != ref.hash) c.viol("state_differs_from_single_thread:threads" + std::to_string(t), "final state (positions, momenta, connectivity, labels) with " + std::to_string(t) + " threads differs from the single-threaded run (ref cells=" + std::to_string(ref.cells) + " iters=" + std::to_string(ref.iters) + ", got cells=" + std::to_string(r.cells) + " iters=" + std::to_string(r.iters) + " exc=" + r.exc + ")");
    }
    c.nontrivial = ref.exc.empty() && ref.iters >= 10; c.sig = hash_combine(ref.hash, (uint64_t)inter.size());
    c.obs.s("family", s.family).i("cells_start", (long)s.cells.size()).i("cells_end", ref.cells).i("iterations", ref.iters).i("runs", runs).i("distinct_interleavings", (long)inter.size()).s("ref_exception", ref.exc.substr(0, 100)).hex("state", ref.hash);
    return c.line();
}

// ---- division: parallel vs one after another -----------------------------------------------------------------------------
class ready_cell : public epithelial_cell { public: using epithelial_cell::epithelial_cell; bool is_ready_to_divide() const noexcept override { return true; } };
static std::string division_case(const Args& a, long i) {
    Rng g(a.seed, (uint64_t)i, 0x16); Case c(i);
    auto& S = verif::get(); S.rng_seed = rng_seed; S.sched_point = sched_point;
    const double lmin = 7.5e-7; local_mesh_refiner lmr(lmin, 3 * lmin, g.coin()); int n = g.range(2, 12); int nready = g.range(1, n);
    auto ct = std::make_shared<cell_type_parameters>(tis::base_type(0, g, 1e-16));
    // the daughters draw a growth rate and a division volume: none, one or both of the two distributions have a spread
    { const int sp = g.range(0, 3); ct->avg_growth_rate_ = 1e-12 * g.uni(0.5, 2); ct->std_growth_rate_ = (sp & 1) ? 0.2 * ct->avg_growth_rate_ : 0.0; ct->avg_division_vol_ = 6e-16 * g.uni(0.8, 1.2); ct->std_division_vol_ = (sp & 2) ? 0.1 * ct->avg_division_vol_ : 0.0; }
    std::vector<gen::TriMesh> meshes; std::vector<char> ready(n, 0); for (int k = 0; k < nready; k++) ready[k] = 1; for (int k = n - 1; k > 0; k--) std::swap(ready[k], ready[g.u64() % (k + 1)]);
    for (int k = 0; k < n; k++) { double r = 4.2e-6 * g.uni(0.9, 1.3); gen::TriMesh m = tis::sphere(r, k * 5 * r, 0, 0, g); if (g.coin(0.4)) gen::scale(m, 1, g.uni(0.7, 1), 1); meshes.push_back(m); }
    auto build = [&]() { std::vector<cell_ptr> L; for (int k = 0; k < n; k++) { cell_ptr p; if (ready[k]) p = gen::make_cell<ready_cell>(meshes[k], (unsigned)k, ct); else p = gen::make_cell<epithelial_cell>(meshes[k], (unsigned)k, ct); p->set_local_id((unsigned)k); L.push_back(p); } return L; };
    auto fps = [&](const std::vector<cell_ptr>& L) { std::vector<uint64_t> v; for (auto& p : L) v.push_back(hash_combine(rmu::fingerprint(*p, false), hash_combine(hash_double(p->get_growth_rate()), hash_double(p->get_division_volume())))); std::sort(v.begin(), v.end()); return v; };
    uint64_t base = hash_combine(a.seed, (uint64_t)i);
    // reference: one after another (single thread)
    omp_set_num_threads(1); rng_reset(base); sched_reset(0, false); verif::rng_context() = 0; std::vector<cell_ptr> Ls = build(); unsigned ids = (unsigned)n; cell_divider::run(Ls, lmin, lmr, ids, false);
    std::vector<uint64_t> ref = fps(Ls); long succ = (long)Ls.size() - n;
    std::set<uint64_t> inter; int T = (int)a.geti("par_threads", 0); std::vector<int> tl = T ? std::vector<int>{T} : std::vector<int>{2, 4, 8, 16};
    for (int t : tl) { if (c.v == "viol") break;
        omp_set_num_threads(t); rng_reset(base); sched_reset(hash_combine(base, (uint64_t)t), true); verif::rng_context() = 0; std::vector<cell_ptr> Lp = build(); unsigned idp = (unsigned)n; cell_divider::run(Lp, lmin, lmr, idp, false); inter.insert(interleaving_hash());
        std::set<unsigned> idset; bool dup = false; for (auto& p : Lp) if (!idset.insert(p->get_id()).second) dup = true;
        if (dup) c.viol("division_duplicate_id", "two cells share an id after a parallel division round");
        else if (Lp.size() != Ls.size()) c.viol("division_population_size", "parallel division produced " + std::to_string(Lp.size()) + " cells, one-after-another " + std::to_string(Ls.size()));
        else if (fps(Lp) != ref) c.viol("division_population_differs", "the multiset of cells after a parallel division round differs from dividing the same cells one after another");
        else if (idp != ids) c.viol("division_id_counter", "id counter after the parallel round differs from the sequential one");
        else for (size_t k = 0; k < Lp.size(); k++) if (Lp[k]->get_local_id() != k) { c.viol("division_list_index", "list index not renumbered after a parallel division round"); break; }
    }
    omp_set_num_threads(a.threads);
    c.nontrivial = succ > 0; c.sig = hash_combine(ref.empty() ? 0 : ref[0], (uint64_t)succ * 31 + (uint64_t)n);
    c.obs.i("cells", n).i("ready", nready).i("successful_divisions", succ / 1).i("distinct_interleavings", (long)inter.size());
    return c.line();
}

// ---- exception propagation --------------------------------------------------------------------------------------------------
struct probe_error : public std::runtime_error { int item; probe_error(int i) : std::runtime_error("probe"), item(i) {} };
static std::atomic<long> g_pass_post{0};
static void on_remesh(int kind, int stage, cell*, unsigned, unsigned, unsigned) { if (kind == VERIF_REMESH_PASS && stage == VERIF_STAGE_POST) g_pass_post++; }
static std::string exception_case(const Args& a, long i) {
    Rng g(a.seed, (uint64_t)i, 0x17); Case c(i);
    auto& S = verif::get(); S.rng_seed = rng_seed; S.sched_point = sched_point; S.remesh_event = on_remesh;
    int threads = std::vector<int>{1, 2, 4, 8, 16}[g.range(0, 4)]; omp_set_num_threads(threads); sched_reset(hash_combine(a.seed, (uint64_t)i), true);
    int n = g.range(1, 12); int nfail = (n >= 2 && g.coin(0.3)) ? 2 : 1; std::set<int> failing; failing.insert((int)(i % n)); while ((int)failing.size() < nfail) failing.insert(g.range(0, n - 1));
    int kind = (int)(i % 4); std::string kname = kind == 0 ? "parallel_exception_handler" : kind == 1 ? "refine_meshes" : kind == 2 ? "mesh_writer" : "run_with_a_vanishing_cell";
    if (kind == 3) {
        // a whole run in which something goes wrong inside a parallel phase of run_iteration: one or two cells shrink until their target volume is zero (negative
        // growth, no minimum volume), the pressure law has no finite value any more and the run cannot go on.  Whatever reports it must reach the caller of
        // run_iteration as an exception (or the run completes): the process must not be terminated from inside a parallel loop
        const int iters = g.range(12, 30); tis::Scenario s; s.P = tis::base_params(g); s.iterations = iters; s.family = "vanishing_cell";
        const double r = 4.2e-6 * g.uni(0.9, 1.1), V0 = 4.0 / 3.0 * M_PI * r * r * r * 0.93;
        cell_type_parameters calm = tis::base_type(0, g, V0); calm.name_ = "calm"; s.types.push_back(calm);
        cell_type_parameters van = tis::base_type(g.coin(0.7) ? 0 : 2, g, V0); van.name_ = "vanishing"; van.min_vol_ = 0; van.std_growth_rate_ = 0; van.avg_growth_rate_ = -V0 * g.uni(1.5, 6) / (iters * s.P.time_step_); s.types.push_back(van);
        for (int k = 0; k < n; k++) s.cells.push_back({tis::sphere(r, k * 6.0 * r, 0, 0, g), failing.count(k) ? 1 : 0});
        s.P.simulation_duration_ = (iters - 0.5) * s.P.time_step_; s.P.sampling_period_ = s.P.time_step_ * (g.coin(0.7) ? 1 : 3);
        S.phase = nullptr; std::string out = "thr_exc_" + std::to_string(i) + "_" + std::to_string((long)getpid());
        RunOut ro = run_tissue(s, threads, hash_combine(a.seed, (uint64_t)i), true, hash_combine(a.seed, (uint64_t)i), out);
        c.obs.i("iterations_done", ro.iters).s("ended_by", ro.exc.empty() ? "completion" : ro.exc.substr(0, 100));
    } else
    if (kind == 0) {
        std::vector<int> items(n); for (int k = 0; k < n; k++) items[k] = k; std::vector<std::atomic<int>> done(n); for (auto& d : done) d = 0;
        std::function<void(int)> f = [&](int k) { if (failing.count(k)) throw probe_error(k); usleep(50); done[k]++; };
        int got = -1; long caught = 0; bool other = false;
        try { parallel_exception_handler(items, f); } catch (const probe_error& e) { got = e.item; caught++; } catch (...) { other = true; }
        long finished = 0; for (int k = 0; k < n; k++) finished += done[k];
        if (other) c.viol("exception_type_changed:" + kname, "an exception of another type than the one thrown reached the caller");
        else if (caught != 1 || !failing.count(got)) c.viol("exception_lost:" + kname, "the exception thrown inside the parallel loop did not reach the caller");
        else if (finished != n - (long)failing.size()) c.viol("rethrow_before_loop_end:" + kname, "the exception reached the caller before all other items were processed");
    } else if (kind == 1) {
        const double lmin = 8e-6; local_mesh_refiner lmr(lmin, 3 * lmin, false); auto ct = std::make_shared<cell_type_parameters>(tis::base_type(0, g, 1e-14));
        std::vector<cell_ptr> L; for (int k = 0; k < n; k++) { gen::TriMesh m = failing.count(k) ? tis::sphere(2e-5, k * 2e-4, 0, 0, g, 3, 0.0) : tis::sphere(4.5e-5, k * 2e-4, 0, 0, g, 2, 0.02); L.push_back(gen::make_cell<epithelial_cell>(m, (unsigned)k, ct)); }
        g_pass_post = 0; bool got = false, other = false; std::string what;
        try { lmr.refine_meshes(L); } catch (const mesh_integrity_exception& e) { got = true; what = e.what(); } catch (...) { other = true; }
        long post = g_pass_post.load();
        if (other) c.viol("exception_type_changed:" + kname, "an exception of another type than mesh_integrity_exception reached the caller");
        else if (!got) { c.v = "skip"; c.msg = "the over-refined cell did not make refine_mesh throw"; }
        else if (post != n - (long)failing.size()) c.viol("rethrow_before_loop_end:" + kname, "refine_meshes rethrew before all other cells were refined (" + std::to_string(post) + " of " + std::to_string(n - (long)failing.size()) + " passes completed)");
    } else {
        auto ct = std::make_shared<cell_type_parameters>(tis::base_type(0, g, 1e-16)); std::vector<cell_ptr> L; for (int k = 0; k < n; k++) L.push_back(gen::make_cell<epithelial_cell>(tis::sphere(4e-6, k * 2e-5, 0, 0, g), (unsigned)k, ct));
        std::string dir = "thr_w_" + std::to_string(i) + "_" + std::to_string((long)getpid()); std::filesystem::create_directories(dir);
        bool bad_cell = (i / 3) % 2 == 0; std::string cp = bad_cell ? dir + "/missing_dir/c.vtk" : dir + "/c.vtk", fp = bad_cell ? dir + "/f.vtk" : dir + "/missing_dir/f.vtk";
        if (nfail == 2) { cp = dir + "/missing_dir/c.vtk"; fp = dir + "/missing_dir/f.vtk"; }
        bool got = false, other = false; try { mesh_writer::write(cp, fp, L); } catch (const mesh_writer_exception&) { got = true; } catch (...) { other = true; }
        bool other_written = nfail == 2 ? true : std::filesystem::exists(bad_cell ? fp : cp) && std::filesystem::file_size(bad_cell ? fp : cp) > 100;
        std::error_code ec; std::filesystem::remove_all(dir, ec);
        if (other) c.viol("exception_type_changed:" + kname, "an exception of another type than mesh_writer_exception reached the caller");
        else if (!got) c.viol("exception_lost:" + kname, "writing to a path that cannot be opened did not raise mesh_writer_exception");
        else if (!other_written) c.viol("rethrow_before_loop_end:" + kname, "the other output file was not completed before the exception was rethrown");
    }
    omp_set_num_threads(a.threads); S.remesh_event = nullptr;
    c.nontrivial = c.v != "skip"; c.sig = hash_combine(hash_str(kname), hash_combine((uint64_t)n * 131 + (uint64_t)*failing.begin(), (uint64_t)threads * 7 + (uint64_t)nfail));
    c.obs.s("kind", kname).i("items", n).i("failing_first", *failing.begin()).i("failing_count", (long)failing.size()).i("threads", threads);
    return c.line();
}

// direct multi-threaded call of the initial triangulation (its sampling loop is a parallel region of its own)
static std::string triangulation_case(const Args& a, long i) {
    Rng g(a.seed, (uint64_t)i, 0x18); Case c(i); auto& S = verif::get(); S.rng_seed = rng_seed; S.sched_point = sched_point; rng_reset(hash_combine(a.seed, (uint64_t)i)); sched_reset(i, true);
    omp_set_num_threads(std::max(2, a.threads)); gen::TriMesh m = gen::box(1, 3.5e-6, 3.5e-6, 3.5e-6); mesh in = gen::to_repo_mesh(m); std::string out = "ok";
    try { mesh r = initial_triangulation::triangulate_surface(7.5e-7, 2.25e-6, in, 0); c.obs.i("faces", (long)r.face_point_ids.size()); } catch (const std::exception& e) { out = std::string("exception: ") + e.what(); }
    c.nontrivial = true; c.sig = hash_combine(0x18, (uint64_t)i); c.obs.s("outcome", out.substr(0, 100)); return c.line();
}

static int cmd_threads(const Args& a) {
    Agg agg; agg.max_samples = 6; const std::string mode = a.get("mode", "identity"); const bool isolate = a.geti("isolate", 1) != 0;
    for (long i = a.first; i < a.first + a.cases; i++) {
        if (!a.mine(i)) continue;
        auto body = [&]() { return mode == "identity" ? identity_case(a, i) : mode == "division" ? division_case(a, i) : mode == "exception" ? exception_case(a, i) : triangulation_case(a, i); };
        std::string L; agg.evaluations++;
        if (isolate) { IsoResult r = run_isolated(body, a.getd("cpu_limit", 1800), a.getd("cpu_limit", 1800)); if (!r.completed) { emit(crash_line(i, r)); agg.bin(r.timeout ? "timeout" : "crash"); continue; } L = r.line; }
        else L = body();
        auto num = [&](const std::string& k) -> long { size_t p = L.find("\"" + k + "\":"); if (p == std::string::npos) return 0; return atol(L.c_str() + p + k.size() + 3); };
        agg.bin("mode:" + mode); for (const char* k : {"runs", "distinct_interleavings", "successful_divisions", "iterations"}) agg.bin(k, num(k));
        if (L.find("non_interacting_with_a_very_large_cell") != std::string::npos) agg.bin("identity_runs_with_a_very_large_cell");
        { size_t p = L.find("\"kind\":\""); if (p != std::string::npos) { size_t s0 = p + 8; agg.bin("exception_kind:" + L.substr(s0, L.find('"', s0) - s0)); } }
        { size_t p = L.find("\"threads\":"); if (p != std::string::npos && mode == "exception") agg.bin("exception_threads:" + std::to_string(num("threads"))); }
        if (L.find("\"v\":\"skip\"") != std::string::npos) agg.skipped++;
        if (L.find("\"nt\":true") != std::string::npos) { agg.nontrivial++; size_t p = L.find("\"sig\":\""); if (p != std::string::npos) agg.sigs[strtoull(L.substr(p + 7, 16).c_str(), nullptr, 16)] = 1; }
        if (L.find("\"v\":\"viol\"") != std::string::npos) { agg.viol_total++; if (agg.viol_total <= (long)agg.max_viol) emit(L); }
        else if (agg.samples.size() < agg.max_samples) agg.samples.push_back(L);
    }
    agg.flush(a.shard_i);
    return 0;
}
static Reg r_thr("threads", cmd_threads);

}  // namespace
