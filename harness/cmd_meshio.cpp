// C16 — mesh files written by the simulator are read back as the same tissue.
//
// One case = one population of cells.  The population is written with the repository's writer
// (mesh_writer::write = what solver::save_mesh calls, mesh_writer::write_cell_data_file for cells, or the
// overload for mesh structures), the bytes are parsed by an own strict legacy-VTK parser (declared counts
// against contents), compared with what was written (triangles, coordinates at the written precision), then
// read back with mesh_reader and compared with the file; finally a file of the solver's writer is fed to
// simulation_initializer with the initial triangulation switched off.
//
// Every case runs in a forked child (run_isolated): the local mesh refiner (one of the routes that produce
// free node/face slots) and a reader fed with a broken file may crash; a crash is not owned by C16.
#include "vh.hpp"
#include "gen.hpp"
#include "oracle.hpp"
#include "mesh_writer.hpp"
#include "mesh_reader.hpp"
#include "simulation_initializer.hpp"
#include "local_mesh_refiner.hpp"
#include <unistd.h>
#include <fstream>
#include <typeinfo>
#include <cfloat>

using namespace vh;

namespace {

// ===================================================================================================
// Own strict parser of the legacy-VTK ASCII files the writer produces
// ===================================================================================================
struct VtkArray { std::string name, type; long ncomp = 0, ntuples = 0; std::vector<std::string> tok; };
struct Vtk {
    bool ok = true; std::string key, msg;              // first failure (stable key, human message)
    bool safe_to_read = true;                          // node ids in range, records consistent
    long npoints = -1; std::string ptype; std::vector<std::string> ptok;   // 3 * npoints tokens
    long ncells = -1, nints = -1;
    std::vector<std::vector<long>> rec;                // per CELLS record: the integers after the leading count
    std::vector<long> ctypes;
    long cell_data_n = -1, point_data_n = -1;
    std::vector<VtkArray> cell_arrays, point_arrays;
    long nvectors = 0;
    void fail(const std::string& k, const std::string& m) { if (ok) { ok = false; key = k; msg = m; } }
    const VtkArray* cell_array(const std::string& n) const { for (auto& a : cell_arrays) if (a.name == n) return &a; return nullptr; }
};

static bool is_int_tok(const std::string& s) { size_t i = 0; if (i < s.size() && (s[i] == '-' || s[i] == '+')) i++; if (i >= s.size()) return false; for (; i < s.size(); i++) if (s[i] < '0' || s[i] > '9') return false; return true; }
static bool is_real_tok(const std::string& s, double* out = nullptr) {
    if (s.empty()) return false; char c0 = s[0];
    if (!((c0 >= '0' && c0 <= '9') || c0 == '-' || c0 == '+' || c0 == '.')) { // words such as "nan"/"inf" are accepted only exactly
        if (s != "nan" && s != "inf") return false; }
    char* e = nullptr; double v = strtod(s.c_str(), &e); if (e != s.c_str() + s.size()) return false; if (out) *out = v; return true;
}
// C "%.<p>e" format: [-]d.ddddde[+-]dd[d]; returns p or -1
static int sci_precision(const std::string& s) {
    size_t i = 0; if (i < s.size() && s[i] == '-') i++;
    if (i >= s.size() || !isdigit((unsigned char)s[i])) return -1; i++;
    int p = 0; if (i < s.size() && s[i] == '.') { i++; while (i < s.size() && isdigit((unsigned char)s[i])) { i++; p++; } if (p == 0) return -1; }
    if (i >= s.size() || s[i] != 'e') return -1; i++;
    if (i >= s.size() || (s[i] != '+' && s[i] != '-')) return -1; i++;
    size_t d = 0; while (i < s.size() && isdigit((unsigned char)s[i])) { i++; d++; }
    if (d < 2 || d > 3 || i != s.size()) return -1; return p;
}

// kind: 0 = cell-data file (polyhedra, type 42), 1 = face-data file (polygons, type 7)
static Vtk parse_vtk(const std::string& content, int kind) {
    Vtk v; const std::string K = kind == 0 ? ":cell_file" : ":face_file";
    // four header lines
    size_t pos = 0; std::string hl[4];
    for (int i = 0; i < 4; i++) { size_t e = content.find('\n', pos); if (e == std::string::npos) { v.fail("vtk_header:truncated" + K, "file has fewer than four header lines"); v.safe_to_read = false; return v; } hl[i] = content.substr(pos, e - pos); pos = e + 1; }
    if (hl[0].rfind("# vtk DataFile Version ", 0) != 0) v.fail("vtk_header:version_line" + K, "first line is not '# vtk DataFile Version x.y': " + hl[0]);
    if (hl[1].size() > 256) v.fail("vtk_header:title_too_long" + K, "title line longer than 256 characters");
    if (hl[2] != "ASCII") v.fail("vtk_header:not_ascii" + K, "third line is not ASCII: " + hl[2]);
    if (hl[3] != "DATASET UNSTRUCTURED_GRID") v.fail("vtk_header:dataset" + K, "fourth line is not DATASET UNSTRUCTURED_GRID: " + hl[3]);
    // tokens
    std::vector<std::string> t; { size_t i = pos, n = content.size(); while (i < n) { while (i < n && isspace((unsigned char)content[i])) i++; size_t b = i; while (i < n && !isspace((unsigned char)content[i])) i++; if (i > b) t.push_back(content.substr(b, i - b)); } }
    size_t k = 0; auto have = [&](size_t n) { return k + n <= t.size(); };
    auto count_tok = [&](const std::string& s, long& out) -> bool { if (!is_int_tok(s) || s[0] == '-') return false; out = atol(s.c_str()); return true; };
    // POINTS
    if (!have(3) || t[k] != "POINTS" || !count_tok(t[k + 1], v.npoints)) { v.fail("vtk_points:header" + K, "POINTS <n> <type> expected after the header"); v.safe_to_read = false; return v; }
    v.ptype = t[k + 2]; if (v.ptype != "float" && v.ptype != "double") v.fail("vtk_points:type" + K, "POINTS data type is neither float nor double: " + v.ptype);
    k += 3;
    for (long i = 0; i < 3 * v.npoints; i++) {
        double d; if (!have(1) || !is_real_tok(t[k], &d)) { v.fail("vtk_counts:points_fewer_numbers_than_declared" + K, "POINTS " + std::to_string(v.npoints) + " declared but only " + std::to_string(i) + " coordinates follow (next token: " + (have(1) ? t[k] : std::string("<eof>")) + ")"); v.safe_to_read = false; return v; }
        if (!std::isfinite(d)) v.fail("vtk_points:non_finite_coordinate" + K, "coordinate token " + t[k] + " is not a finite double");
        v.ptok.push_back(t[k]); k++;
    }
    if (have(1) && is_real_tok(t[k])) { v.fail("vtk_counts:points_more_numbers_than_declared" + K, "more than 3*" + std::to_string(v.npoints) + " coordinates follow POINTS"); v.safe_to_read = false; return v; }
    // CELLS
    if (!have(3) || t[k] != "CELLS" || !count_tok(t[k + 1], v.ncells) || !count_tok(t[k + 2], v.nints)) { v.fail("vtk_cells:header" + K, "CELLS <k> <m> expected after the points (found: " + (have(1) ? t[k] : std::string("<eof>")) + ")"); v.safe_to_read = false; return v; }
    k += 3;
    std::vector<long> ints;
    while (have(1) && is_int_tok(t[k])) { ints.push_back(atol(t[k].c_str())); k++; }
    if ((long)ints.size() != v.nints) { v.fail("vtk_counts:cells_int_total" + K, "CELLS declares " + std::to_string(v.nints) + " integers but " + std::to_string(ints.size()) + " follow"); }
    { // k records, each: leading count c, then c integers
        size_t p = 0; bool bad = false;
        for (long r = 0; r < v.ncells; r++) {
            if (p >= ints.size()) { v.fail("vtk_counts:cells_fewer_records_than_declared" + K, "CELLS declares " + std::to_string(v.ncells) + " records but only " + std::to_string(r) + " are present"); bad = true; break; }
            long c = ints[p]; if (c < 0 || p + 1 + (size_t)c > ints.size()) { v.fail("vtk_counts:cells_record_overruns" + K, "record " + std::to_string(r) + " announces " + std::to_string(c) + " integers but the section ends before"); bad = true; break; }
            v.rec.emplace_back(ints.begin() + p + 1, ints.begin() + p + 1 + c); p += 1 + (size_t)c;
        }
        if (!bad && p != ints.size()) { v.fail("vtk_counts:cells_integers_left_over" + K, "after " + std::to_string(v.ncells) + " records " + std::to_string(ints.size() - p) + " integers are left in the CELLS section"); bad = true; }
        if (bad) v.safe_to_read = false;
    }
    // record contents
    for (size_t r = 0; r < v.rec.size(); r++) {
        const auto& R = v.rec[r];
        if (kind == 0) {
            if (R.empty()) { v.fail("vtk_cells:empty_record" + K, "polyhedron record without a face count"); v.safe_to_read = false; break; }
            long nf = R[0]; size_t p = 1; bool bad = false;
            for (long f = 0; f < nf; f++) { if (p >= R.size()) { bad = true; break; } long np = R[p]; if (np < 0 || p + 1 + (size_t)np > R.size()) { bad = true; break; } for (long q = 0; q < np; q++) { long id = R[p + 1 + q]; if (id < 0 || id >= v.npoints) { v.fail("vtk_cells:node_id_out_of_range" + K, "cell " + std::to_string(r) + " refers to point " + std::to_string(id) + " but POINTS declares " + std::to_string(v.npoints)); v.safe_to_read = false; } } p += 1 + (size_t)np; }
            if (bad || p != R.size()) { v.fail("vtk_counts:polyhedron_face_stream" + K, "face stream of cell " + std::to_string(r) + " does not consume exactly the announced number of integers"); v.safe_to_read = false; }
        } else {
            for (long id : R) if (id < 0 || id >= v.npoints) { v.fail("vtk_cells:node_id_out_of_range" + K, "face " + std::to_string(r) + " refers to point " + std::to_string(id) + " but POINTS declares " + std::to_string(v.npoints)); v.safe_to_read = false; }
        }
    }
    // CELL_TYPES
    long nct = -1;
    if (!have(2) || t[k] != "CELL_TYPES" || !count_tok(t[k + 1], nct)) { v.fail("vtk_cell_types:header" + K, "CELL_TYPES <k> expected after the CELLS section (found: " + (have(1) ? t[k] : std::string("<eof>")) + ")"); v.safe_to_read = false; return v; }
    k += 2;
    if (nct != v.ncells) v.fail("vtk_counts:cell_types_vs_cells" + K, "CELL_TYPES " + std::to_string(nct) + " but CELLS " + std::to_string(v.ncells));
    while (have(1) && is_int_tok(t[k])) { v.ctypes.push_back(atol(t[k].c_str())); k++; }
    if ((long)v.ctypes.size() != nct) v.fail("vtk_counts:cell_types_entries" + K, "CELL_TYPES declares " + std::to_string(nct) + " entries but " + std::to_string(v.ctypes.size()) + " follow");
    for (long ct : v.ctypes) if (ct != (kind == 0 ? 42 : 7)) { v.fail("vtk_cell_types:value" + K, "unexpected VTK cell type " + std::to_string(ct)); break; }
    // attribute sections
    long cur_n = -1; std::vector<VtkArray>* cur = nullptr; std::string cur_name;
    while (have(1)) {
        const std::string& w = t[k];
        if (w == "CELL_DATA" || w == "POINT_DATA") {
            long n; if (!have(2) || !count_tok(t[k + 1], n)) { v.fail("vtk_attr:header" + K, w + " without a count"); return v; }
            k += 2; cur_n = n; cur_name = w;
            if (w == "CELL_DATA") { v.cell_data_n = n; cur = &v.cell_arrays; if (n != v.ncells) v.fail("vtk_counts:cell_data_vs_cells" + K, "CELL_DATA " + std::to_string(n) + " but CELLS " + std::to_string(v.ncells)); }
            else { v.point_data_n = n; cur = &v.point_arrays; if (n != v.npoints) v.fail("vtk_counts:point_data_vs_points" + K, "POINT_DATA " + std::to_string(n) + " but POINTS " + std::to_string(v.npoints)); }
        } else if (w == "FIELD") {
            long na; if (!cur || !have(3) || !count_tok(t[k + 2], na)) { v.fail("vtk_attr:field_header" + K, "FIELD <name> <n> expected inside CELL_DATA/POINT_DATA"); return v; }
            k += 3;
            for (long a = 0; a < na; a++) {
                VtkArray A;
                if (!have(4) || is_real_tok(t[k]) || !count_tok(t[k + 1], A.ncomp) || !count_tok(t[k + 2], A.ntuples)) { v.fail("vtk_counts:field_array_header" + K, "FIELD declares " + std::to_string(na) + " arrays; array " + std::to_string(a) + " has no '<name> <ncomp> <ntuples> <type>' header (found: " + (have(1) ? t[k] : std::string("<eof>")) + ") - the previous array has more values than declared or an array is missing"); return v; }
                A.name = t[k]; A.type = t[k + 3]; k += 4;
                if (A.ntuples != cur_n) v.fail("vtk_counts:field_array_tuples" + K, "array " + A.name + " declares " + std::to_string(A.ntuples) + " tuples inside " + cur_name + " " + std::to_string(cur_n));
                bool isint = A.type == "int" || A.type == "long" || A.type == "short" || A.type == "vtkIdType" || A.type == "unsigned_int";
                for (long q = 0; q < A.ncomp * A.ntuples; q++) {
                    if (!have(1) || !is_real_tok(t[k])) { v.fail("vtk_counts:field_array_fewer_values" + K, "array " + A.name + " declares " + std::to_string(A.ncomp * A.ntuples) + " values but " + std::to_string(q) + " follow"); return v; }
                    if (isint && !is_int_tok(t[k])) v.fail("vtk_attr:int_array_value" + K, "array " + A.name + " of type " + A.type + " holds the token " + t[k]);
                    A.tok.push_back(t[k]); k++;
                }
                cur->push_back(A);
            }
            if (have(1) && is_real_tok(t[k])) { v.fail("vtk_counts:field_array_more_values" + K, "the last array of the FIELD has more values than declared"); return v; }
        } else if (w == "VECTORS" || w == "NORMALS") {
            if (!cur || !have(3)) { v.fail("vtk_attr:vectors_header" + K, "VECTORS <name> <type> expected inside CELL_DATA/POINT_DATA"); return v; }
            k += 3; long q = 0; while (have(1) && is_real_tok(t[k])) { k++; q++; }
            if (q != 3 * cur_n) { v.fail("vtk_counts:vectors_values" + K, "VECTORS inside " + cur_name + " " + std::to_string(cur_n) + " has " + std::to_string(q) + " values"); return v; }
            v.nvectors++;
        } else { v.fail("vtk_attr:unexpected_token" + K, "unexpected token '" + w + "' after the CELL_TYPES section"); return v; }
    }
    return v;
}

// ===================================================================================================
// Populations
// ===================================================================================================
static gen::TriMesh tetra() { gen::TriMesh m; m.name = "tetra"; m.P = {{1, 1, 1}, {1, -1, -1}, {-1, 1, -1}, {-1, -1, 1}}; m.T = {{0, 1, 2}, {0, 3, 1}, {0, 2, 3}, {1, 3, 2}}; for (auto& p : m.P) for (auto& c : p) c /= std::sqrt(3.0); return m; }
static gen::TriMesh octa() { gen::TriMesh m; m.name = "octa"; m.P = {{1, 0, 0}, {-1, 0, 0}, {0, 1, 0}, {0, -1, 0}, {0, 0, 1}, {0, 0, -1}}; m.T = {{0, 2, 4}, {2, 1, 4}, {1, 3, 4}, {3, 0, 4}, {2, 0, 5}, {1, 2, 5}, {3, 1, 5}, {0, 3, 5}}; return m; }

static gen::TriMesh draw_shape(Rng& g, int size_class) {
    gen::TriMesh m;
    if (size_class == 0) { int k = g.range(0, 4); m = k == 0 ? tetra() : k == 1 ? octa() : k == 2 ? gen::icosahedron() : k == 3 ? gen::box(1) : gen::prism(3, 1, 1); }
    else if (size_class == 1) m = gen::random_shape(g, 400);
    else if (size_class == 2) { int k = g.range(0, 2); m = k == 0 ? gen::icosphere(3) : k == 1 ? gen::uvsphere(g.range(20, 30), g.range(10, 20)) : gen::box(g.range(6, 10), 1, g.uni(0.6, 1.5), g.uni(0.6, 1.5)); }
    else { int k = g.range(0, 1); m = k == 0 ? gen::uvsphere(g.range(40, 50), g.range(30, 50)) : gen::box(g.range(15, 20), 1, g.uni(0.8, 1.2), g.uni(0.8, 1.2)); }
    // normalise to the unit ball
    double r = 0; for (auto& p : m.P) r = std::max(r, std::sqrt(p[0] * p[0] + p[1] * p[1] + p[2] * p[2])); if (r > 0) gen::scale(m, 1 / r, 1 / r, 1 / r);
    gen::rotate(m, gen::rot_random(g));
    if (g.coin(0.7)) gen::jitter(m, g, 0.03);
    if (g.coin(0.6)) gen::permute(m, g);
    return m;
}

static const char* CLS[] = {"epithelial", "ecm", "lumen", "nucleus", "static"};
static const char* REGIME[] = {"ordinary", "far_offset", "extreme_uniform", "extreme_mixed", "subnormal"};
static const char* ROUTE[] = {"solver_writer", "cell_data_file", "mesh_overload"};

static int class_of(const cell_ptr& c) {
    if (std::dynamic_pointer_cast<epithelial_cell>(c)) return 0; if (std::dynamic_pointer_cast<ecm_cell>(c)) return 1;
    if (std::dynamic_pointer_cast<lumen_cell>(c)) return 2; if (std::dynamic_pointer_cast<nucleus_cell>(c)) return 3;
    if (std::dynamic_pointer_cast<static_cell>(c)) return 4; return -1;
}

// ---- free slots through the public cell API: remove a vertex (its faces and node are deleted, the hole is
// re-triangulated by a fan) and split a face in three around a new node.  The surface stays a closed manifold.
struct SlotOps { int removed = 0, split = 0; };
static SlotOps manual_slot_ops(cell& c, Rng& g, int nops) {
    SlotOps so;
    for (int op = 0; op < nops; op++) {
        std::vector<orc::V3> P; std::vector<orc::Tri> T; std::vector<unsigned> slot; gen::extract(c, P, T, nullptr, nullptr, &slot);
        bool do_remove = g.coin(0.65);
        if (do_remove && T.size() > 8) {
            std::set<uint64_t> und; std::set<std::array<unsigned, 3>> tris;
            for (auto& f : T) { unsigned q[3] = {f.a, f.b, f.c}; for (int e = 0; e < 3; e++) { unsigned a = q[e], b = q[(e + 1) % 3]; und.insert(a < b ? orc::ekey(a, b) : orc::ekey(b, a)); } std::array<unsigned, 3> s = {f.a, f.b, f.c}; std::sort(s.begin(), s.end()); tris.insert(s); }
            bool done = false;
            for (int attempt = 0; attempt < 12 && !done; attempt++) {
                const orc::Tri& seed = T[g.u64() % T.size()]; unsigned v = (g.u64() % 3 == 0) ? seed.a : (g.u64() % 2 ? seed.b : seed.c);
                std::map<unsigned, unsigned> nxt; std::vector<unsigned> inc;
                for (size_t i = 0; i < T.size(); i++) { const auto& f = T[i]; if (f.a == v) { nxt[f.b] = f.c; inc.push_back(slot[i]); } else if (f.b == v) { nxt[f.c] = f.a; inc.push_back(slot[i]); } else if (f.c == v) { nxt[f.a] = f.b; inc.push_back(slot[i]); } }
                size_t d = inc.size(); if (d < 3 || d > 9 || nxt.size() != d) continue;
                std::vector<unsigned> ring; unsigned start = nxt.begin()->first, cur = start; bool okr = true;
                do { ring.push_back(cur); auto it = nxt.find(cur); if (it == nxt.end()) { okr = false; break; } cur = it->second; } while (cur != start && ring.size() <= d);
                if (!okr || ring.size() != d || cur != start) continue;
                // choose the fan apex so that no fan diagonal duplicates an existing edge, and (d == 3) the new face does not exist yet
                int rot0 = g.range(0, (int)d - 1); bool valid = false;
                for (size_t r = 0; r < d && !valid; r++) {
                    std::vector<unsigned> rr(d); for (size_t q = 0; q < d; q++) rr[q] = ring[(q + rot0 + r) % d];
                    bool ok2 = true; for (size_t j = 2; j + 1 < d && ok2; j++) { unsigned a = rr[0], b = rr[j]; if (und.count(a < b ? orc::ekey(a, b) : orc::ekey(b, a))) ok2 = false; }
                    if (d == 3) { std::array<unsigned, 3> s = {rr[0], rr[1], rr[2]}; std::sort(s.begin(), s.end()); if (tris.count(s)) ok2 = false; }
                    if (ok2) { ring = rr; valid = true; }
                }
                if (!valid) continue;
                for (unsigned s : inc) c.delete_face(s);
                c.delete_node(v);
                for (size_t j = 1; j + 1 < d; j++) c.add_face(face(ring[0], ring[j], ring[j + 1], 0));
                so.removed++; done = true;
            }
        } else {
            size_t i = g.u64() % T.size(); const auto f = T[i];
            orc::V3 ctr = (P[f.a] + P[f.b] + P[f.c]) / 3;
            unsigned n = c.create_node((double)ctr.x, (double)ctr.y, (double)ctr.z);
            c.delete_face(slot[i]);
            c.add_face(face(f.a, f.b, n, 0)); c.add_face(face(f.b, f.c, n, 0)); c.add_face(face(f.c, f.a, n, 0));
            so.split++;
        }
    }
    return so;
}

// ---- coordinate regimes -----------------------------------------------------------------------------------
static double clamp_mag(double v) {   // keep |v| inside [1e-300, 1e300] (or exactly zero)
    if (v == 0 || !std::isfinite(v)) return std::isfinite(v) ? v : 0.0; double a = std::fabs(v);
    if (a < 1e-300) return std::copysign(1e-300, v); if (a > 1e300) return std::copysign(1e300, v); return v;
}
static double special_value(Rng& g) {
    static const double base[] = {1.0, 9.99995, 9.999949999999, 9.99996, 1.00005, 1.000049999999, 1.00015, 2.5, 4.99995, 1.23455, 1.23445, 9.9999, 5.0, 3.14159265358979, 1.99995};
    int k = g.range(0, 19); double s = g.coin() ? 1.0 : -1.0;
    if (k == 0) return 0.0; if (k == 1) return -0.0; if (k == 2) return s * 1e-300; if (k == 3) return s * 1e300; if (k == 4) return s * 9.99994e299;
    if (k == 5) return s * DBL_MIN; if (k == 6) return s * 1.00005e-300;
    double b = base[g.u64() % (sizeof base / sizeof base[0])]; int e = g.coin(0.3) ? g.range(-12, 12) : g.range(-299, 298);
    return clamp_mag(s * b * std::pow(10.0, e));
}
static double subnormal_value(Rng& g) {
    int k = g.range(0, 5); double s = g.coin() ? 1.0 : -1.0;
    if (k == 0) return s * 4.9406564584124654e-324; if (k == 1) return s * 1e-310; if (k == 2) return s * 2.2250738585072009e-308; if (k == 3) return s * 1e-315;
    return s * g.uni(0.05, 0.999) * DBL_MIN * std::pow(10.0, -g.range(0, 14));
}

struct Expected {               // what was written, captured before the writer runs
    int cls = 0; unsigned id = 0;
    std::vector<std::array<double, 3>> P;       // live nodes in slot order
    std::vector<std::array<unsigned, 3>> T;     // live faces in slot order, indices = rank among live nodes
    long free_nodes = 0, free_faces = 0;
    std::vector<long> widx;                     // position of live node q inside the block of points the writer emits for this cell
    long nwritten = 0;                          // size of that block
};

typedef std::array<double, 9> TriKey;
static TriKey tri_key(const std::array<double, 3>& a, const std::array<double, 3>& b, const std::array<double, 3>& c) {
    TriKey k[3] = {{a[0], a[1], a[2], b[0], b[1], b[2], c[0], c[1], c[2]}, {b[0], b[1], b[2], c[0], c[1], c[2], a[0], a[1], a[2]}, {c[0], c[1], c[2], a[0], a[1], a[2], b[0], b[1], b[2]}};
    for (auto& kk : k) for (auto& x : kk) if (x == 0) x = 0.0;   // -0 and +0 are the same coordinate
    return std::min(k[0], std::min(k[1], k[2]));
}
static std::array<unsigned, 3> rot_min(std::array<unsigned, 3> t) { std::array<unsigned, 3> r1 = {t[1], t[2], t[0]}, r2 = {t[2], t[0], t[1]}; return std::min(t, std::min(r1, r2)); }

static std::string read_file(const std::string& p) { std::ifstream f(p, std::ios::binary); std::stringstream ss; ss << f.rdbuf(); return ss.str(); }
static int dec_exp(double x) { char b[40]; snprintf(b, sizeof b, "%.17e", x); const char* e = strchr(b, 'e'); return e ? atoi(e + 1) : 0; }
static std::string band(int e10) { int lo = (int)std::floor(e10 / 100.0) * 100; return std::to_string(lo) + ".." + std::to_string(lo + 100); }

struct Out { Case c; std::map<std::string, long> bins; std::map<std::string, double> maxima; explicit Out(long i) : c(i) {} void bin(const std::string& b, long n = 1) { bins[b] += n; } void maxi(const std::string& k, double v) { auto it = maxima.find(k); if (it == maxima.end() || v > it->second) maxima[k] = v; } };

// ===================================================================================================
// One case
// ===================================================================================================
static void run_case(const Args& a, long i, const std::string& dir, Out& o) {
    Rng g(a.seed, (uint64_t)i, 0x16);
    Case& c = o.c;
    const long face_budget = a.geti("face_budget", 15000);
    // ---- population parameters
    int ncells; { double u = g.uni(); ncells = u < 0.2 ? 1 : u < 0.4 ? g.range(2, 3) : u < 0.8 ? g.range(4, 12) : g.range(13, 30); }
    int regime; { double u = g.uni(); regime = u < 0.45 ? 0 : u < 0.55 ? 1 : u < 0.75 ? 2 : u < 0.95 ? 3 : 4; }
    int route; { double u = g.uni(); route = u < 0.6 ? 0 : u < 0.85 ? 1 : 2; }
    if (a.kv.count("regime")) regime = (int)a.geti("regime", regime);
    if (a.kv.count("route")) route = (int)a.geti("route", route);
    const double s = g.logu(1e-7, 1e2);                               // cell radius
    const double far = regime == 1 ? g.logu(1e2, 1e8) * s : 0.0;      // translation of the whole tissue
    double far_dir[3] = {g.normal(), g.normal(), g.normal()}; { double n = std::sqrt(far_dir[0] * far_dir[0] + far_dir[1] * far_dir[1] + far_dir[2] * far_dir[2]); for (auto& x : far_dir) x = n > 0 ? x / n : 0; }
    int lat = 1; while (lat * lat * lat < ncells) lat++;
    std::vector<cell_type_param_ptr> types; for (int k = 0; k < 5; k++) { auto ct = gen::default_cell_type(3, (short)k); ct->name_ = CLS[k]; types.push_back(ct); }

    std::vector<cell_ptr> cells; std::vector<mesh> meshes; std::vector<Expected> ex(ncells);
    long gen_faces = 0, faces_total = 0, max_faces_cell = 0, min_faces_cell = 1 << 30; long pop_free_nodes = 0, pop_free_faces = 0, cells_with_free = 0; std::set<int> classes_seen;
    std::map<std::string, long> slot_routes;
    // persistent ids: equal to the list position (start of a run), or what divisions and removals leave behind (increasing with gaps: a mother leaves, her daughters
    // are appended with fresh ids; a removed cell leaves a hole), or in no particular order
    const int id_mode = route == 2 ? 0 : (g.coin(0.45) ? 0 : g.coin(0.8) ? 1 : 2); std::vector<unsigned> ids((size_t)ncells); { unsigned nxt = 0; for (int k = 0; k < ncells; k++) { if (id_mode != 0 && g.coin(0.4)) nxt += (unsigned)g.range(1, 5); ids[(size_t)k] = nxt++; }
        if (id_mode == 2) for (int k = ncells - 1; k > 0; k--) std::swap(ids[(size_t)k], ids[(size_t)g.range(0, k)]); }
    slot_routes[id_mode == 0 ? "ids_equal_list_positions" : id_mode == 1 ? "ids_increasing_with_gaps" : "ids_in_no_particular_order"]++;
    for (int k = 0; k < ncells; k++) {
        int sc; { double u = g.uni(); sc = u < 0.15 ? 0 : u < 0.75 ? 1 : u < 0.95 ? 2 : 3; }
        if (gen_faces > face_budget && sc > 1) sc = 1;
        gen::TriMesh m = draw_shape(g, sc); gen_faces += (long)m.T.size();
        // ordinary placement: radius s on a lattice with spacing 3 s (cells do not touch); regime 1 adds a far translation
        int ix = k % lat, iy = (k / lat) % lat, iz = k / (lat * lat); double off0 = g.coin(0.5) ? -1.5 * (lat - 1) : 0.0;
        gen::scale(m, s, s, s); gen::translate(m, s * 3 * (ix + off0) + far * far_dir[0], s * 3 * (iy + off0) + far * far_dir[1], s * 3 * (iz + off0) + far * far_dir[2]);
        int cls = g.range(0, 4); ex[k].cls = cls; ex[k].id = ids[(size_t)k]; classes_seen.insert(cls);
        int extra_nodes = 0;
        if ((route == 2 && g.coin(0.3)) || (route != 2 && g.coin(0.12))) {   // nodes no face refers to: interleaved with the used ones
            extra_nodes = g.range(1, 5); for (int q = 0; q < extra_nodes; q++) { size_t at = g.u64() % (m.P.size() + 1); std::array<double, 3> p = {s * g.uni(-1, 1), s * g.uni(-1, 1), s * g.uni(-1, 1)}; m.P.insert(m.P.begin() + at, p); for (auto& t : m.T) for (auto& v : t) if (v >= at) v++; }
        }
        if (route == 2) { meshes.push_back(gen::to_repo_mesh(m)); if (extra_nodes) slot_routes["mesh_with_unreferenced_nodes"]++; continue; }
        cell_ptr cp = gen::make_cell_of_class(cls, m, ids[(size_t)k], types[cls]);
        if (extra_nodes) slot_routes["unreferenced_nodes_at_construction"]++;
        double u = g.uni();
        if (u < 0.35) { SlotOps so = manual_slot_ops(*cp, g, g.range(1, 8)); slot_routes["manual_vertex_removal"] += so.removed; slot_routes["manual_face_split"] += so.split; }
        else if (u < 0.50 && a.geti("refiner", 1) && m.T.size() >= 20) {
            // merge-only refinement pass: l_max is out of reach (no split), swaps are disabled; edges shorter than l_min are merged
            { std::vector<orc::V3> P; std::vector<orc::Tri> T; gen::extract(*cp, P, T); double mn = INFINITY, sum = 0; long n = 0; for (auto& f : T) { unsigned q[3] = {f.a, f.b, f.c}; for (int e = 0; e < 3; e++) { double d = (double)(P[q[e]] - P[q[(e + 1) % 3]]).norm(); mn = std::min(mn, d); sum += d; n++; } }
                double l_min = g.coin() ? mn * g.uni(1.05, 1.6) : (sum / n) * g.uni(0.5, 0.9);
                try { local_mesh_refiner lmr(l_min, 1e100 * s, false); size_t f0 = cp->get_nb_of_faces(); lmr.refine_mesh(cp); slot_routes["refiner_merge_pass"]++; slot_routes["refiner_faces_removed"] += (long)(f0 - cp->get_nb_of_faces());
                      if (cp->get_nb_of_faces() < 4) { slot_routes["refiner_collapsed_cell_rebuilt"]++; cp = gen::make_cell_of_class(cls, m, ids[(size_t)k], types[cls]); } }   // a closed surface has at least 4 triangles
                catch (const std::exception&) { slot_routes["refiner_threw_cell_rebuilt"]++; cp = gen::make_cell_of_class(cls, m, ids[(size_t)k], types[cls]); } }   // a pass that throws may leave the cell half-edited: start again from the mesh
        }
        // the manual vertex removals can flatten a small cell (a closed surface that encloses no volume is not a cell and the initializer rejects it): start again from the mesh
        { std::vector<orc::V3> P; std::vector<orc::Tri> T; gen::extract(*cp, P, T); orc::Geo ge = orc::geometry(P, T);
          if (!(ge.volume > 1e-3L * ge.area * std::sqrt(ge.area))) { slot_routes["flat_after_slot_operations_cell_rebuilt"]++; cp = gen::make_cell_of_class(cls, m, ids[(size_t)k], types[cls]); } }
        cp->set_local_id((unsigned)cells.size()); cells.push_back(cp);
    }
    // ---- coordinate regimes 2..4: overwrite the stored positions (the cached areas/volumes keep their ordinary values)
    auto for_each_coord = [&](const std::function<void(int cell, size_t node, int axis, double& x)>& fn) {
        if (route == 2) { for (int k = 0; k < ncells; k++) for (size_t q = 0; q < meshes[k].node_pos_lst.size(); q++) fn(k, q / 3, (int)(q % 3), meshes[k].node_pos_lst[q]); }
        else { for (int k = 0; k < ncells; k++) { auto& nl = cell_tester::nodes(*cells[k]); for (size_t q = 0; q < nl.size(); q++) { vec3& p = cell_tester::pos(nl[q]); double xyz[3] = {p.dx(), p.dy(), p.dz()}; for (int ax = 0; ax < 3; ax++) fn(k, q, ax, xyz[ax]); p.reset(xyz[0], xyz[1], xyz[2]); } } }
    };
    long n_subnormal = 0;
    if (regime == 2) {
        std::vector<double> M(ncells); std::vector<std::array<double, 3>> sg(ncells); for (int k = 0; k < ncells; k++) { M[k] = std::pow(10.0, g.uni(-300, 299.3)) / s; for (auto& x : sg[k]) x = g.coin() ? 1 : -1; }
        std::vector<std::array<double, 3>> ctr(ncells, {0, 0, 0});   // remove the lattice offset so that the magnitude is the drawn one
        if (route == 2) { for (int k = 0; k < ncells; k++) { auto& v = meshes[k].node_pos_lst; size_t n = v.size() / 3; for (size_t q = 0; q < v.size(); q++) ctr[k][q % 3] += v[q] / (double)n; } }
        else for (int k = 0; k < ncells; k++) { auto& nl = cell_tester::nodes(*cells[k]); for (auto& nd : nl) { ctr[k][0] += nd.pos().dx() / nl.size(); ctr[k][1] += nd.pos().dy() / nl.size(); ctr[k][2] += nd.pos().dz() / nl.size(); } }
        for_each_coord([&](int k, size_t, int ax, double& x) { x = clamp_mag(sg[k][ax] * M[k] * (x - ctr[k][ax])); });
    } else if (regime == 3) {
        for_each_coord([&](int, size_t, int, double& x) { double u = g.uni(); if (u < 0.5) x = special_value(g); else if (u < 0.8) x = clamp_mag((g.coin() ? 1 : -1) * g.uni(1, 10) * std::pow(10.0, g.range(-300, 298))); else x = clamp_mag(x); });
    } else {
        for_each_coord([&](int, size_t, int, double& x) { x = clamp_mag(x); });
        if (regime == 4) { long total = 0; for_each_coord([&](int, size_t, int, double&) { total++; }); long want = g.range(1, 6); std::set<long> pick; for (long q = 0; q < want; q++) pick.insert((long)(g.u64() % (uint64_t)total)); long idx = 0; for_each_coord([&](int, size_t, int, double& x) { if (pick.count(idx++)) { x = subnormal_value(g); } }); }
    }
    // ---- capture what is about to be written
    std::map<std::string, long> magbins; double amin = INFINITY, amax = 0; bool has_neg = false, has_pos = false, has_zero = false;
    for (int k = 0; k < ncells; k++) {
        Expected& E = ex[k];
        if (route == 2) {
            const mesh& m = meshes[k]; size_t n = m.node_pos_lst.size() / 3; std::vector<char> used(n, 0); for (auto& f : m.face_point_ids) for (unsigned v : f) used[v] = 1;
            std::vector<unsigned> rank(n, 0); unsigned r = 0; for (size_t q = 0; q < n; q++) { if (used[q]) { rank[q] = r++; E.widx.push_back((long)q); E.P.push_back({m.node_pos_lst[3 * q], m.node_pos_lst[3 * q + 1], m.node_pos_lst[3 * q + 2]}); } }
            E.nwritten = (long)n;
            for (auto& f : m.face_point_ids) E.T.push_back({rank[f[0]], rank[f[1]], rank[f[2]]});
            E.free_nodes = (long)n - (long)r;   // "unreferenced", written as points but not part of any cell
        } else {
            std::vector<orc::V3> P; std::vector<orc::Tri> T; std::vector<char> used; gen::extract(*cells[k], P, T, &used);
            std::vector<unsigned> rank(P.size(), 0); unsigned r = 0; for (size_t q = 0; q < P.size(); q++) if (used[q]) { E.widx.push_back((long)r); rank[q] = r++; E.P.push_back({(double)P[q].x, (double)P[q].y, (double)P[q].z}); }
            E.nwritten = (long)r;   // the writer compacts the cell first
            for (auto& f : T) E.T.push_back({rank[f.a], rank[f.b], rank[f.c]});
            E.free_nodes = (long)cell_tester::free_nodes(*cells[k]).size(); E.free_faces = (long)cell_tester::free_faces(*cells[k]).size();
        }
        if (E.free_nodes || E.free_faces) cells_with_free++; pop_free_nodes += E.free_nodes; pop_free_faces += E.free_faces;
        faces_total += (long)E.T.size(); max_faces_cell = std::max(max_faces_cell, (long)E.T.size()); min_faces_cell = std::min(min_faces_cell, (long)E.T.size());
        for (auto& p : E.P) for (double x : p) { if (x == 0) { has_zero = true; continue; } double ax = std::fabs(x); amin = std::min(amin, ax); amax = std::max(amax, ax); (x < 0 ? has_neg : has_pos) = true; if (ax < DBL_MIN) n_subnormal++; magbins[std::string("coord_decades:") + band(dec_exp(x)) + (x < 0 ? ":neg" : ":pos")]++; }
    }
    // ---- write
    char nm[128]; snprintf(nm, sizeof nm, "c16_s%llu_i%ld", (unsigned long long)a.seed, i);
    const std::string cell_path = dir + "/" + nm + "_cell.vtk", face_path = dir + "/" + nm + "_face.vtk";
    unlink(cell_path.c_str()); unlink(face_path.c_str());
    std::string werr;
    try {
        if (route == 0) mesh_writer::write(cell_path, face_path, cells);
        else if (route == 1) mesh_writer::write_cell_data_file(cell_path, cells);
        else mesh_writer::write_cell_data_file(cell_path, meshes);
    } catch (const std::exception& e) { werr = std::string(typeid(e).name()) + ": " + e.what(); }
    const std::string content = werr.empty() ? read_file(cell_path) : std::string();
    const std::string fcontent = (werr.empty() && route == 0) ? read_file(face_path) : std::string();
    auto cleanup = [&]() { if (!a.geti("keep", 0)) { unlink(cell_path.c_str()); unlink(face_path.c_str()); } };

    // ---- evidence common to every outcome
    o.bin(std::string("regime:") + REGIME[regime]); o.bin(std::string("route:") + ROUTE[route]);
    o.bin("ncells:" + std::string(ncells == 1 ? "1" : ncells <= 3 ? "2-3" : ncells <= 12 ? "4-12" : ncells <= 20 ? "13-20" : "21-30"));
    for (int k : classes_seen) o.bin(std::string("class_in_population:") + CLS[k]);
    for (auto& E : ex) { long f = (long)E.T.size(); o.bin(std::string("cell_faces:") + (f < 4 ? "below_4" : f == 4 ? "4" : f <= 20 ? "5-20" : f <= 100 ? "21-100" : f <= 400 ? "101-400" : f <= 2000 ? "401-2000" : "2001-5000")); }
    for (auto& kv : slot_routes) o.bin("slot_route:" + kv.first, kv.second);
    if (route != 2) { if (pop_free_nodes || pop_free_faces) o.bin("population_with_free_slots"); if (pop_free_nodes) o.bin("population_with_free_node_slots"); if (pop_free_faces) o.bin("population_with_free_face_slots"); o.bin("cells_with_free_slots", cells_with_free); o.bin("free_node_slots", pop_free_nodes); o.bin("free_face_slots", pop_free_faces); }
    else if (pop_free_nodes) o.bin("mesh_population_with_unreferenced_nodes");
    for (auto& kv : magbins) o.bin(kv.first, kv.second);
    if (amax >= 1e250) o.bin(std::string("population_with_coord_above_1e250"));
    if (amin <= 1e-250) o.bin(std::string("population_with_coord_below_1e-250"));
    if (amax >= 1e250 && has_neg && has_pos) o.bin("population_extreme_large_both_signs");
    if (amin <= 1e-250 && has_neg && has_pos) o.bin("population_extreme_small_both_signs");
    if (has_zero) o.bin("population_with_zero_coordinate"); if (n_subnormal) o.bin("population_with_subnormal_coordinate");
    o.maxi("max_faces_in_a_cell", (double)max_faces_cell); o.maxi("max_cells_in_a_population", ncells); o.maxi("max_faces_in_a_population", (double)faces_total); o.maxi("max_abs_coordinate_log10", amax > 0 ? std::log10(amax) : -400); o.maxi("min_abs_coordinate_neg_log10", amin < INFINITY ? -std::log10(amin) : -400);
    c.obs.s("regime", REGIME[regime]).s("route", ROUTE[route]).i("ncells", ncells).i("faces", faces_total).i("min_faces_cell", min_faces_cell).i("max_faces_cell", max_faces_cell).i("free_node_slots", pop_free_nodes).i("free_face_slots", pop_free_faces).d("radius", s).d("abs_min", amin).d("abs_max", amax).i("subnormal_coords", n_subnormal);
    const std::string RG = std::string(":") + (n_subnormal ? "subnormal" : regime >= 2 ? "extreme" : "ordinary");

    if (!werr.empty()) { c.viol("writer:throws" + RG, "the writer threw on a finite population: " + werr); cleanup(); return; }
    c.nontrivial = true; c.sig = hash_str(content);
    o.maxi("max_file_bytes", (double)content.size());

    // ---- (a) declared counts against contents
    Vtk v = parse_vtk(content, 0);
    if (!v.ok) { c.viol(v.key, v.msg); c.obs.s("file_head", content.substr(0, 400)); }
    o.bin("oracle_counts_cell_file");
    if (route == 0) { Vtk fv = parse_vtk(fcontent, 1); o.bin("oracle_counts_face_file"); if (!fv.ok) c.viol(fv.key, fv.msg);
        long lf = 0, ln = 0; for (auto& E : ex) { lf += (long)E.T.size(); ln += (long)E.P.size(); }
        if (fv.ok && (fv.ncells != lf || fv.npoints != ln)) c.viol("writer:face_file_sizes", "face-data file has " + std::to_string(fv.ncells) + " faces / " + std::to_string(fv.npoints) + " points, the population has " + std::to_string(lf) + " / " + std::to_string(ln));
        o.bin("face_file_arrays", (long)fv.cell_arrays.size()); }
    o.bin("cell_file_arrays", (long)v.cell_arrays.size());
    // ---- file against what was written (layout of the writer: the nodes of cell i are a contiguous block, slot order after compaction)
    std::vector<long> off(ncells + 1, 0);
    bool file_ok_for_compare = v.safe_to_read && (long)v.rec.size() == v.ncells;
    if (file_ok_for_compare) {
        long written_nodes = 0; for (int k = 0; k < ncells; k++) { off[k] = written_nodes; written_nodes += ex[k].nwritten; } off[ncells] = written_nodes;
        if (v.npoints != written_nodes) c.viol("writer:points_vs_live_nodes", "POINTS " + std::to_string(v.npoints) + " but the population has " + std::to_string(written_nodes) + " nodes");
        if (v.ncells != ncells) c.viol("writer:cell_count", "CELLS " + std::to_string(v.ncells) + " but the population has " + std::to_string(ncells) + " cells");
    }
    std::vector<double> fval(v.ptok.size()); for (size_t q = 0; q < v.ptok.size(); q++) fval[q] = strtod(v.ptok[q].c_str(), nullptr);
    int prec = -2; for (auto& tk : v.ptok) { int p = sci_precision(tk); if (prec == -2) prec = p; else if (p != prec) { prec = -1; break; } }
    o.bin("coordinate_format:" + (prec >= 0 ? "%." + std::to_string(prec) + "e" : std::string("not_uniform_scientific")));
    if (file_ok_for_compare && v.npoints == off[ncells] && v.ncells == ncells) {
        // coordinates: the token is x correctly rounded to at least 5 significant digits:
        //   |strtod(token) - x| <= 0.5 * 10^(e-4) + ulp(token)/2, e = decimal exponent of x   (printf("%.4e") rounds exactly; strtod rounds to nearest)
        double worst = 0; long bad_prec = 0, bad_round = 0; std::string ex_prec, ex_round;
        for (int k = 0; k < ncells; k++) for (size_t q = 0; q < ex[k].P.size(); q++) for (int ax = 0; ax < 3; ax++) {
            double x = ex[k].P[q][ax]; size_t gi = (size_t)(off[k] + ex[k].widx[q]) * 3 + ax; double tv = fval[gi];
            if (x == 0) { if (tv != 0) { bad_prec++; if (ex_prec.empty()) ex_prec = "0 written as " + v.ptok[gi]; } continue; }
            // bound = half a unit of the 5th significant digit of x (exact decimal rounding done by printf) + half an ulp of the
            // parsed token (strtod rounds the decimal to the double grid; this term matters only for subnormal values)
            long double half_ulp = 0.5L * ((long double)std::nextafter(std::fabs(tv), INFINITY) - (long double)std::fabs(tv));
            long double tol = 0.5L * powl(10.0L, (long double)(dec_exp(x) - 4)) * (1 + 1e-15L) + half_ulp; long double err = fabsl((long double)tv - (long double)x); double ratio = (double)(err / tol); worst = std::max(worst, ratio);
            if (!(ratio <= 1)) { bad_prec++; if (ex_prec.empty()) { char b[200]; snprintf(b, sizeof b, "x=%.17e written as %s (error %.3g units of the 5th significant digit)", x, v.ptok[gi].c_str(), ratio / 2); ex_prec = b; } }
            if (prec >= 0) { char b[64]; snprintf(b, sizeof b, "%.*e", prec, x); if (strtod(b, nullptr) != tv) { bad_round++; if (ex_round.empty()) { char bb[200]; snprintf(bb, sizeof bb, "x=%.17e written as %s, printf gives %s", x, v.ptok[gi].c_str(), b); ex_round = bb; } } }
        }
        o.maxi("coordinate_error_over_bound", worst); o.bin("oracle_written_precision");
        if (bad_prec) c.viol("writer:coordinate_precision" + RG, std::to_string(bad_prec) + " coordinates are not written to 5 significant digits, e.g. " + ex_prec);
        else if (bad_round) c.viol("writer:coordinate_rounding" + RG, std::to_string(bad_round) + " coordinates differ from printf at the file's own precision, e.g. " + ex_round);
        // triangles of the file against the live triangles
        for (int k = 0; k < ncells && c.v != "viol"; k++) {
            const auto& R = v.rec[k]; std::vector<std::array<unsigned, 3>> ft; bool tri = true;
            for (size_t p = 1; p < R.size();) { long np = R[p]; if (np != 3) { tri = false; break; } long ids[3] = {R[p + 1] - off[k], R[p + 2] - off[k], R[p + 3] - off[k]}; for (long id : ids) if (id < 0 || id >= ex[k].nwritten) tri = false; if (!tri) break; ft.push_back(rot_min({(unsigned)ids[0], (unsigned)ids[1], (unsigned)ids[2]})); p += 4; }
            std::vector<std::array<unsigned, 3>> et; for (auto& t : ex[k].T) et.push_back(rot_min({(unsigned)ex[k].widx[t[0]], (unsigned)ex[k].widx[t[1]], (unsigned)ex[k].widx[t[2]]}));
            bool in_order = tri && ft == et; std::sort(ft.begin(), ft.end()); std::sort(et.begin(), et.end());
            if (!tri || ft != et) c.viol("writer:triangles", "cell " + std::to_string(k) + ": the faces in the file are not the live triangles of the cell over its own block of points (" + std::to_string(ft.size()) + " read, " + std::to_string(et.size()) + " live)");
            else o.bin(in_order ? "file_faces_in_slot_order" : "file_faces_reordered");
        }
        o.bin("oracle_file_triangles");
    }
    if (route == 0 && v.ok) {   // arrays of the solver's cell file
        const VtkArray* ta = v.cell_array("cell_type_id");
        if (!ta) c.viol("writer:cell_type_array_missing", "no cell_type_id array in the cell-data file");
        else { bool same = (long)ta->tok.size() == ncells; for (int k = 0; same && k < ncells; k++) same = atol(ta->tok[k].c_str()) == ex[k].cls; if (!same) c.viol("writer:cell_type_array", "cell_type_id array differs from the cell types of the population"); }
        const VtkArray* ia = v.cell_array("cell_id");
        if (ia) { bool same = (long)ia->tok.size() == ncells; for (int k = 0; same && k < ncells; k++) same = atol(ia->tok[k].c_str()) == (long)ex[k].id; if (!same) c.viol("writer:cell_id_array", "cell_id array differs from the ids of the population"); }
    }
    if (!v.safe_to_read) { o.bin("reader_not_run_on_inconsistent_file"); cleanup(); return; }

    // ---- (b) repository reader against the file
    std::vector<mesh> rm; std::vector<short> rt; std::string rerr, rerr_type;
    try { mesh_reader rd(cell_path, false); rm = rd.read(); if (route == 0) rt = rd.get_cell_types(); }
    catch (const mesh_reader_exception& e) { rerr_type = "mesh_reader_exception"; rerr = e.what(); }
    catch (const std::out_of_range& e) { rerr_type = "std::out_of_range"; rerr = e.what(); }
    catch (const std::invalid_argument& e) { rerr_type = "std::invalid_argument"; rerr = e.what(); }
    catch (const std::exception& e) { rerr_type = "std::exception"; rerr = e.what(); }
    o.bin("oracle_reader");
    if (!rerr_type.empty()) {
        std::string tokinfo; if (n_subnormal) for (auto& tk : v.ptok) { double d = strtod(tk.c_str(), nullptr); if (d != 0 && std::fabs(d) < DBL_MIN) { tokinfo = " (file holds the token " + tk + ")"; break; } }
        c.viol("reader:exception:" + rerr_type + RG, "mesh_reader rejects a file the writer produced: " + rerr.substr(0, 200) + tokinfo);
        cleanup(); return;
    }
    if ((long)rm.size() != ncells) c.viol("reader:cell_count", "reader returns " + std::to_string(rm.size()) + " cells, " + std::to_string(ncells) + " were written");
    else {
        long order_kept = 0;
        for (int k = 0; k < ncells && c.v != "viol"; k++) {
            const mesh& m = rm[k]; const Expected& E = ex[k]; size_t n = m.node_pos_lst.size() / 3;
            if (m.node_pos_lst.size() % 3 || n != E.P.size()) { c.viol("reader:node_count", "cell " + std::to_string(k) + ": reader returns " + std::to_string(n) + " nodes, " + std::to_string(E.P.size()) + " were written"); break; }
            if (m.face_point_ids.size() != E.T.size()) { c.viol("reader:face_count", "cell " + std::to_string(k) + ": reader returns " + std::to_string(m.face_point_ids.size()) + " faces, " + std::to_string(E.T.size()) + " were written"); break; }
            // expected coordinates as they stand in the file (own parse); nodes compared as multisets, triangles through coordinates
            std::vector<std::array<double, 3>> fe(E.P.size()), rp(n);
            for (size_t q = 0; q < E.P.size(); q++) { size_t gi = (size_t)(off[k] + E.widx[q]) * 3; fe[q] = {fval[gi], fval[gi + 1], fval[gi + 2]}; }
            for (size_t q = 0; q < n; q++) rp[q] = {m.node_pos_lst[3 * q], m.node_pos_lst[3 * q + 1], m.node_pos_lst[3 * q + 2]};
            bool ordered = true; for (size_t q = 0; q < n && ordered; q++) for (int ax = 0; ax < 3; ax++) if (rp[q][ax] != fe[q][ax]) ordered = false;
            if (!ordered) { auto sa = fe, sb = rp; for (auto* S : {&sa, &sb}) { for (auto& p : *S) for (auto& x : p) if (x == 0) x = 0.0; std::sort(S->begin(), S->end()); }
                if (sa != sb) { size_t q = 0; while (q < sa.size() && sa[q] == sb[q]) q++; char b[300]; snprintf(b, sizeof b, "cell %d: node coordinates returned by the reader differ from the numbers in the file, e.g. file (%.17g, %.17g, %.17g) reader (%.17g, %.17g, %.17g)", k, sa[q][0], sa[q][1], sa[q][2], sb[q][0], sb[q][1], sb[q][2]); c.viol("reader:coordinates" + RG, b); break; } }
            bool idx_ok = true; for (auto& f : m.face_point_ids) { if (f.size() != 3) { idx_ok = false; break; } for (unsigned id : f) if (id >= n) idx_ok = false; }
            if (!idx_ok) { c.viol("reader:face_indices", "cell " + std::to_string(k) + ": reader returns a face that is not a triangle over the nodes of the cell"); break; }
            std::vector<TriKey> ek, rk; bool same_order = ordered;
            for (size_t f = 0; f < E.T.size(); f++) { auto& t = E.T[f]; ek.push_back(tri_key(fe[t[0]], fe[t[1]], fe[t[2]])); auto& r = m.face_point_ids[f]; rk.push_back(tri_key(rp[r[0]], rp[r[1]], rp[r[2]])); if (same_order && rot_min({r[0], r[1], r[2]}) != rot_min(t)) same_order = false; }
            std::sort(ek.begin(), ek.end()); std::sort(rk.begin(), rk.end());
            if (ek != rk) { c.viol("reader:triangles", "cell " + std::to_string(k) + ": the triangles returned by the reader (through their coordinates) are not the written ones"); break; }
            if (same_order) order_kept++;
        }
        o.bin("reader_cells_compared", ncells); o.bin("reader_cells_same_node_and_face_order", order_kept);
    }
    if (route == 0 && c.v != "viol") {
        bool same = (long)rt.size() == ncells; for (int k = 0; same && k < ncells; k++) same = rt[k] == ex[k].cls;
        if (!same) { std::string gotl; for (size_t q = 0; q < rt.size() && q < 40; q++) gotl += std::to_string(rt[q]) + " "; c.viol("reader:cell_types", "get_cell_types returns " + std::to_string(rt.size()) + " entries [" + gotl + "] for " + std::to_string(ncells) + " cells"); }
        o.bin("oracle_reader_cell_types");
    }
    // ---- (b2) another tissue written to the SAME path (same counts, every x coordinate moved beyond the old range) and read in the same process:
    //      the reader must return what the file holds now
    if (c.v != "viol" && a.geti("rewrite", 1) != 0) {
        std::string text; { FILE* f = fopen(cell_path.c_str(), "rb"); if (f) { char buf[65536]; size_t r; while ((r = fread(buf, 1, sizeof buf, f)) > 0) text.append(buf, r); fclose(f); } }
        size_t p0 = text.find("POINTS "); long npts = p0 == std::string::npos ? 0 : atol(text.c_str() + p0 + 7); size_t q0 = p0 == std::string::npos ? std::string::npos : text.find('\n', p0);
        if (npts > 0 && q0 != std::string::npos) {
            double xmin = 1e300, xmax = -1e300; std::vector<std::pair<size_t, size_t>> span; std::vector<double> val; const char* base = text.c_str(); const char* cur = base + q0 + 1;
            for (long k = 0; k < 3 * npts; k++) { char* end = nullptr; while (*cur == ' ' || *cur == '\n' || *cur == '\t' || *cur == '\r') cur++; double d = strtod(cur, &end); if (end == cur) break; span.push_back({(size_t)(cur - base), (size_t)(end - base)}); val.push_back(d); if (k % 3 == 0 && std::isfinite(d)) { xmin = std::min(xmin, d); xmax = std::max(xmax, d); } cur = end; }
            if ((long)val.size() == 3 * npts && xmax >= xmin && std::isfinite(xmax - xmin) && std::fabs(xmax) < 1e290) {
                const double shift = 2 * (xmax - xmin) + std::max(std::fabs(xmax), std::fabs(xmin)) * 1e-3 + 1e-300; std::string nt; size_t last = 0;
                for (size_t k = 0; k < val.size(); k++) { nt.append(text, last, span[k].first - last); if (k % 3 == 0) { char b[40]; snprintf(b, sizeof b, "%.17g", val[k] + shift); nt += b; } else nt.append(text, span[k].first, span[k].second - span[k].first); last = span[k].second; }
                nt.append(text, last, std::string::npos);
                { FILE* f = fopen(cell_path.c_str(), "wb"); if (f) { fwrite(nt.data(), 1, nt.size(), f); fclose(f); } }
                std::vector<mesh> rm2; bool ok2 = true; try { mesh_reader rd2(cell_path, false); rm2 = rd2.read(); } catch (const std::exception&) { ok2 = false; }
                o.bin("oracle_same_path_rewritten");
                if (!ok2) c.viol("reader:rewritten_file_rejected", "the same file with every x coordinate shifted is rejected by the reader");
                else { long stale = 0, total = 0; for (auto& m : rm2) for (size_t q = 0; q + 2 < m.node_pos_lst.size(); q += 3) { total++; if (m.node_pos_lst[q] <= xmax + 0.25 * shift) stale++; }
                    if (stale) c.viol("reader:stale_coordinates_after_rewrite", std::to_string(stale) + " of " + std::to_string(total) + " nodes returned by the reader carry an x coordinate of the file that was at this path before (the file now holds x + " + std::to_string(shift) + ")"); }
            }
        }
    }
    // ---- (c) solver output as input of another run
    if (route == 0 && regime == 0 && c.v != "viol") {
        global_simulation_parameters sp; sp.output_folder_path_ = dir; sp.input_mesh_path_ = cell_path; sp.perform_initial_triangulation_ = false; sp.enable_edge_swap_operation_ = true;
        sp.damping_coefficient_ = 1; sp.simulation_duration_ = 1; sp.sampling_period_ = 1; sp.time_step_ = 1e-3; sp.min_edge_len_ = 0.1 * s; sp.contact_cutoff_adhesion_ = 0.1 * s; sp.contact_cutoff_repulsion_ = 0.1 * s;
        std::string ierr; std::vector<cell_ptr> loaded;
        try { simulation_initializer init(sp, types, false); loaded = init.get_cell_lst(); } catch (const std::exception& e) { ierr = std::string(typeid(e).name()) + ": " + e.what(); }
        o.bin("oracle_initializer");
        if (!ierr.empty()) c.viol("initializer:throws", "simulation_initializer (triangulation off) rejects the solver's own output: " + ierr.substr(0, 300));
        else if ((long)loaded.size() != ncells) c.viol("initializer:cell_count", "simulation_initializer loads " + std::to_string(loaded.size()) + " cells, " + std::to_string(ncells) + " were written");
        else for (int k = 0; k < ncells; k++) {
            if (!loaded[k]) { c.viol("initializer:null_cell", "cell " + std::to_string(k) + " was not created"); break; }
            if (class_of(loaded[k]) != ex[k].cls) { c.viol("initializer:cell_class", "cell " + std::to_string(k) + " was written as " + CLS[ex[k].cls] + " and loaded as class " + std::to_string(class_of(loaded[k]))); break; }
            if ((long)loaded[k]->get_nb_of_nodes() != (long)ex[k].P.size() || (long)loaded[k]->get_nb_of_faces() != (long)ex[k].T.size()) { c.viol("initializer:mesh_size", "cell " + std::to_string(k) + " loaded with " + std::to_string(loaded[k]->get_nb_of_nodes()) + " nodes / " + std::to_string(loaded[k]->get_nb_of_faces()) + " faces instead of " + std::to_string(ex[k].P.size()) + " / " + std::to_string(ex[k].T.size())); break; }
            o.bin(std::string("initializer_loaded_class:") + CLS[ex[k].cls]);
        }
        if (c.v != "viol") o.bin("initializer_populations_loaded");
    }
    if (c.v == "viol") c.obs.s("file_head", content.substr(0, 300));
    cleanup();
}

static int cmd_meshio(const Args& a) {
    Agg agg;
    char cwd[4096]; if (!getcwd(cwd, sizeof cwd)) { perror("getcwd"); return 2; }
    const std::string dir = cwd;
    for (long i = a.first; i < a.first + a.cases; i++) {
        if (!a.mine(i)) continue;
        IsoResult res = run_isolated([&]() -> std::string {
            Out o(i); run_case(a, i, dir, o);
            std::ostringstream os; os << std::setprecision(17);
            char sg[24]; snprintf(sg, sizeof sg, "%016llx", (unsigned long long)o.c.sig);
            os << "H\t" << o.c.v << "\t" << (o.c.nontrivial ? 1 : 0) << "\t" << sg << "\n" << o.c.line() << "\n";
            for (auto& kv : o.bins) os << "B\t" << kv.first << "\t" << kv.second << "\n";
            for (auto& kv : o.maxima) os << "M\t" << kv.first << "\t" << kv.second << "\n";
            return os.str();
        }, a.getd("cpu_limit", 300), a.getd("wall_limit", 600));
        char nm[128]; snprintf(nm, sizeof nm, "c16_s%llu_i%ld", (unsigned long long)a.seed, i);
        if (!res.completed || res.line.compare(0, 2, "H\t") != 0) {
            if (!a.geti("keep", 0)) { unlink((dir + "/" + nm + "_cell.vtk").c_str()); unlink((dir + "/" + nm + "_face.vtk").c_str()); }
            emit(crash_line(i, res)); agg.bin("crashed_or_timed_out"); continue;
        }
        std::istringstream is(res.line); std::string line; std::getline(is, line);
        std::string v; int nt = 0; unsigned long long sig = 0; { std::istringstream h(line); std::string tag, sgs; std::getline(h, tag, '\t'); std::getline(h, v, '\t'); std::string nts; std::getline(h, nts, '\t'); nt = atoi(nts.c_str()); std::getline(h, sgs, '\t'); sig = strtoull(sgs.c_str(), nullptr, 16); }
        std::string caseline; std::getline(is, caseline);
        agg.evaluations++; if (v == "skip") agg.skipped++;
        if (nt) { agg.nontrivial++; agg.sigs[sig] = 1; }
        if (v == "viol") { agg.viol_total++; if (agg.viol_total <= (long)agg.max_viol) emit(caseline); }
        else if (agg.samples.size() < agg.max_samples && nt) agg.samples.push_back(caseline);
        while (std::getline(is, line)) {
            if (line.size() < 3) continue; size_t t1 = line.find('\t', 2); if (t1 == std::string::npos) continue;
            std::string name = line.substr(2, t1 - 2), val = line.substr(t1 + 1);
            if (line[0] == 'B') agg.bin(name, atol(val.c_str())); else if (line[0] == 'M') agg.maxi(name, atof(val.c_str()));
        }
    }
    agg.flush(a.shard_i);
    return 0;
}
static Reg r_meshio("meshio", cmd_meshio);

}  // namespace
