#include "vh.hpp"
#include <unistd.h>
#include <fcntl.h>
#include <signal.h>
#include <sys/wait.h>
#include <sys/resource.h>
#include <sys/time.h>
#include <omp.h>

namespace vh {

static FILE* g_out = nullptr;
void open_out(const std::string& path) {
    if (path.empty()) { g_out = stdout; return; }
    g_out = fopen(path.c_str(), "a");
    if (!g_out) { perror("open out"); exit(2); }
}
void emit(const std::string& line) {
    if (!g_out) g_out = stdout;
    fputs(line.c_str(), g_out); fputc('\n', g_out); fflush(g_out);
}

std::map<std::string, CmdFn>& registry() { static std::map<std::string, CmdFn> r; return r; }
Reg::Reg(const char* name, CmdFn f) { registry()[name] = f; }

static std::string read_file_tail(const char* path, size_t maxb) {
    FILE* f = fopen(path, "rb"); if (!f) return "";
    fseek(f, 0, SEEK_END); long sz = ftell(f); long off = sz > (long)maxb ? sz - (long)maxb : 0;
    fseek(f, off, SEEK_SET); std::string s; s.resize(sz - off); size_t n = fread(&s[0], 1, s.size(), f); s.resize(n); fclose(f); return s;
}
static std::string read_file_head(const char* path, size_t maxb) {
    FILE* f = fopen(path, "rb"); if (!f) return "";
    std::string s; s.resize(maxb); size_t n = fread(&s[0], 1, maxb, f); s.resize(n); fclose(f); return s;
}

IsoResult run_isolated(const std::function<std::string()>& body, double cpu_limit_s, double wall_limit_s, size_t as_limit_mb) {
    IsoResult R;
    int pfd[2]; if (pipe(pfd) != 0) { perror("pipe"); exit(2); }
    char errpath[64]; snprintf(errpath, sizeof errpath, "/tmp/vh_err_%d_XXXXXX", (int)getpid());
    int efd = mkstemp(errpath); if (efd < 0) { perror("mkstemp"); exit(2); }
    fflush(nullptr);
    pid_t pid = fork();
    if (pid < 0) { perror("fork"); exit(2); }
    if (pid == 0) {
        close(pfd[0]);
        dup2(efd, 2); close(efd);
        int devnull = open("/dev/null", O_WRONLY); if (devnull >= 0) { dup2(devnull, 1); }
        struct rlimit rl; rl.rlim_cur = (rlim_t)cpu_limit_s; rl.rlim_max = (rlim_t)cpu_limit_s + 5; setrlimit(RLIMIT_CPU, &rl);
        if (as_limit_mb) { rl.rlim_cur = rl.rlim_max = (rlim_t)as_limit_mb << 20; setrlimit(RLIMIT_AS, &rl); }
        rl.rlim_cur = rl.rlim_max = 0; setrlimit(RLIMIT_CORE, &rl);
        std::string out;
        out = body();
        size_t off = 0; while (off < out.size()) { ssize_t w = write(pfd[1], out.data() + off, out.size() - off); if (w <= 0) break; off += (size_t)w; }
        close(pfd[1]);
        fflush(nullptr);
        _exit(0);
    }
    close(pfd[1]); close(efd);
    // read with wall-clock timeout
    fcntl(pfd[0], F_SETFL, O_NONBLOCK);
    std::string buf; char tmp[65536];
    struct timeval t0; gettimeofday(&t0, nullptr);
    int status = 0; bool reaped = false;
    struct rusage ru; memset(&ru, 0, sizeof ru);
    for (;;) {
        ssize_t n = read(pfd[0], tmp, sizeof tmp);
        if (n > 0) { buf.append(tmp, (size_t)n); continue; }
        if (n == 0) break;
        // EAGAIN
        pid_t w = wait4(pid, &status, WNOHANG, &ru);
        if (w == pid) { reaped = true; // drain
            while ((n = read(pfd[0], tmp, sizeof tmp)) > 0) buf.append(tmp, (size_t)n);
            break; }
        struct timeval t1; gettimeofday(&t1, nullptr);
        double el = (t1.tv_sec - t0.tv_sec) + 1e-6 * (t1.tv_usec - t0.tv_usec);
        if (el > wall_limit_s) { kill(pid, SIGKILL); R.timeout = true; break; }
        usleep(2000);
    }
    close(pfd[0]);
    if (!reaped) { wait4(pid, &status, 0, &ru); }
    R.cpu_s = ru.ru_utime.tv_sec + ru.ru_stime.tv_sec + 1e-6 * (ru.ru_utime.tv_usec + ru.ru_stime.tv_usec);
    R.maxrss_kb = ru.ru_maxrss;
    if (WIFEXITED(status)) R.exit_code = WEXITSTATUS(status);
    if (WIFSIGNALED(status)) { R.signal = WTERMSIG(status); if (R.signal == SIGXCPU || (R.signal == SIGKILL && !R.timeout && R.cpu_s >= cpu_limit_s)) R.timeout = true; }
    R.line = buf;
    R.completed = (R.exit_code == 0 && !buf.empty());
    // keep head and tail of stderr: the head holds the first sanitizer report
    std::string head = read_file_head(errpath, 6000), tail = read_file_tail(errpath, 2000);
    R.err = head.size() < 6000 ? head : head + "\n...\n" + tail;
    unlink(errpath);
    return R;
}

std::string crash_line(long idx, const IsoResult& r, const std::string& extra_obs_json) {
    J j; j.i("i", idx).s("v", r.timeout ? "timeout" : "crash");
    j.i("signal", r.signal).i("exit", r.exit_code).d("cpu_s", r.cpu_s).i("maxrss_kb", r.maxrss_kb);
    j.s("err", r.err).raw("obs", extra_obs_json).hex("sig", 0).b("nt", false);
    return j.str();
}

}  // namespace vh

static void usage() {
    fprintf(stderr, "usage: vh <command> [--seed S] [--cases N] [--first F] [--shard i/n] [--only i] [--out file] [--threads T] [--tier quick|thorough] [--key=value ...]\ncommands:");
    for (auto& kv : vh::registry()) fprintf(stderr, " %s", kv.first.c_str());
    fprintf(stderr, "\n");
}

int main(int argc, char** argv) {
    if (argc < 2) { usage(); return 2; }
    vh::Args a; a.cmd = argv[1];
    for (int i = 2; i < argc; i++) {
        std::string s = argv[i];
        auto next = [&]() -> std::string { if (i + 1 >= argc) { usage(); exit(2); } return argv[++i]; };
        if (s == "--seed") a.seed = strtoull(next().c_str(), nullptr, 10);
        else if (s == "--cases") a.cases = atol(next().c_str());
        else if (s == "--first") a.first = atol(next().c_str());
        else if (s == "--only") a.only = atol(next().c_str());
        else if (s == "--out") a.out = next();
        else if (s == "--threads") a.threads = atoi(next().c_str());
        else if (s == "--tier") a.tier = next();
        else if (s == "--shard") { std::string v = next(); sscanf(v.c_str(), "%d/%d", &a.shard_i, &a.shard_n); }
        else if (s.rfind("--", 0) == 0 && s.find('=') != std::string::npos) { size_t e = s.find('='); a.kv[s.substr(2, e - 2)] = s.substr(e + 1); }
        else { fprintf(stderr, "bad arg %s\n", s.c_str()); usage(); return 2; }
    }
    auto it = vh::registry().find(a.cmd);
    if (it == vh::registry().end()) { usage(); return 2; }
    vh::open_out(a.out);
    omp_set_num_threads(a.threads > 0 ? a.threads : 1);
    int rc = it->second(a);
    fflush(nullptr);
    return rc;
}
