// C02 — internal forces of a cell WITH A HISTORY.  The `forces` command judges freshly built cells against the energy gradients.  In a run,
// forces are evaluated on cells whose node / face lists carry unused slots (edge collapses since the last compaction) and whose nodes
// moved since the cached face geometry was last refreshed.  forces_hist drives such a history through the repository's own refiner,
// moves the nodes, evaluates the forces, and compares them node by node with the forces of a FRESH cell built from the live mesh of
// the first (same coordinates bit for bit, same face types, same parameters, same target volume).  Any dependence of the force routines
// on the slot layout or on cached geometry shows up as a difference; net force and torque are checked too.
#include "vh.hpp"
#include "gen.hpp"
#include "oracle.hpp"
#include "remesh_util.hpp"
#include "local_mesh_refiner.hpp"

using namespace vh;
using orc::V3; using orc::R;

static int cmd_forces_hist(const Args& a) {
    Agg agg;
    for (long i = a.first; i < a.first + a.cases; i++) {
        if (!a.mine(i)) continue;
        Rng g(a.seed, (uint64_t)i, 0x2b); Case c(i);
        gen::TriMesh m = gen::random_shape(g, 500); gen::jitter(m, g, g.uni(0.02, 0.06)); gen::rotate(m, gen::rot_random(g));
        const double scale = g.coin(0.5) ? 1.0 : g.logu(1e-6, 1e1); gen::scale(m, scale, scale, scale);
        gen::translate(m, scale * g.uni(-3, 3), scale * g.uni(-3, 3), scale * g.uni(-3, 3));
        const int classes[4] = {0, 2, 3, 4}; const int cls = classes[g.range(0, 3)]; const int nft = g.range(2, 4);
        auto mk_type = [&](Rng& r) { auto ct = gen::default_cell_type(nft, (short)cls); ct->bulk_modulus_ = r.logu(0.1, 10); ct->area_elasticity_modulus_ = r.logu(0.1, 10); ct->target_isoperimetric_ratio_ = r.uni(100, 300);
            ct->angle_regularization_factor_ = r.coin(0.7) ? r.logu(0.01, 1) : 0; for (auto& f : ct->face_types_) { f.surface_tension_ = r.logu(0.01, 1); f.bending_modulus_ = r.coin(0.7) ? r.logu(0.001, 0.1) : 0; }
            const long tm = a.geti("terms", 15); if (!(tm & 1)) ct->bulk_modulus_ = 0; if (!(tm & 2)) { ct->area_elasticity_modulus_ = 0; for (auto& f : ct->face_types_) f.surface_tension_ = 0; } if (!(tm & 4)) for (auto& f : ct->face_types_) f.bending_modulus_ = 0; if (!(tm & 8)) ct->angle_regularization_factor_ = 0;
            return ct; };
        Rng gt(a.seed, (uint64_t)i, 0x2c); auto ct = mk_type(gt);
        cell_ptr A;
        try { A = gen::make_cell_of_class(cls, m, 3, ct); } catch (const std::exception& e) { c.v = "skip"; agg.add(c); continue; }
        for (face& f : cell_tester::faces(*A)) if (f.is_used()) f.set_face_type_id((unsigned short)g.range(0, nft - 1));
        // ---- history: one or two refinement passes whose band collapses the shortest and splits the longest edges, no compaction
        std::vector<double> el; { std::vector<V3> P; std::vector<orc::Tri> T; gen::extract(*A, P, T); for (auto& t : T) { unsigned v[3] = {t.a, t.b, t.c}; for (int k = 0; k < 3; k++) el.push_back((double)(P[v[k]] - P[v[(k + 1) % 3]]).norm()); } }
        std::sort(el.begin(), el.end());
        const double lmin = el[(size_t)(el.size() * g.uni(0.03, 0.25))] * 1.0001, lmax = std::max(el[(size_t)(el.size() * g.uni(0.85, 0.999))], 2.2 * lmin);
        bool threw = false; const int passes = g.range(1, 2);
        try { local_mesh_refiner lmr(lmin, lmax, g.coin(0.5)); for (int p = 0; p < passes; p++) { lmr.refine_mesh(A); A->update_all_face_normals_and_areas(); } } catch (const std::exception&) { threw = true; }
        if (threw) { c.v = "skip"; agg.add(c); agg.bin("skip:refiner_threw"); continue; }
        // (the force phase of the iteration in which the refinement ran: geometry caches are fresh at this point)
        A->apply_internal_forces(0.0); for (node& n : cell_tester::nodes(*A)) if (n.is_used()) n.set_force(vec3(0, 0, 0));
        // ---- the nodes move (integration step): affine stretch + rotation about the centroid + noise below a tenth of the local edge length
        std::vector<V3> P; std::vector<orc::Tri> T; std::vector<char> used; std::vector<unsigned> live, fslot; gen::extract(*A, P, T, &used, &live, &fslot);
        long free_nodes_mid = 0, free_faces_mid = 0; { const auto& nl = cell_tester::nodes(*A); const auto& fl = cell_tester::faces(*A); size_t lastn = 0, lastf = 0; for (size_t k = 0; k < nl.size(); k++) if (nl[k].is_used()) lastn = k; for (size_t k = 0; k < fl.size(); k++) if (fl[k].is_used()) lastf = k;
            for (size_t k = 0; k < lastn; k++) if (!nl[k].is_used()) free_nodes_mid++; for (size_t k = 0; k < lastf; k++) if (!fl[k].is_used()) free_faces_mid++; }
        std::vector<double> minl(P.size(), 1e300); for (auto& t : T) { unsigned v[3] = {t.a, t.b, t.c}; for (int k = 0; k < 3; k++) { double l = (double)(P[v[k]] - P[v[(k + 1) % 3]]).norm(); minl[v[k]] = std::min(minl[v[k]], l); minl[v[(k + 1) % 3]] = std::min(minl[v[(k + 1) % 3]], l); } }
        V3 ctr; for (unsigned k : live) ctr += P[k]; ctr = ctr / (R)live.size();
        gen::Rot rot = g.coin(0.5) ? gen::rot_random(g) : gen::rot_identity(); const double st[3] = {g.uni(0.8, 1.25), g.uni(0.8, 1.25), g.uni(0.8, 1.25)}; const double nz = g.uni(0, 0.1);
        { auto& nl = cell_tester::nodes(*A); for (unsigned k : live) { V3 x = P[k] - ctr; auto w = gen::rapply(rot, {(double)x.x * st[0], (double)x.y * st[1], (double)x.z * st[2]});
                cell_tester::pos(nl[k]).reset((double)ctr.x + w[0] + nz * minl[k] * g.uni(-1, 1), (double)ctr.y + w[1] + nz * minl[k] * g.uni(-1, 1), (double)ctr.z + w[2] + nz * minl[k] * g.uni(-1, 1)); } }
        // the same admissibility as for fresh cells (forces command): no face angle below half a degree - the refiner can leave needle triangles of
        // (almost) zero area behind, on which the hinge formulas divide by the area and the forces are rounding noise of size 1/area
        { std::vector<V3> Pq; std::vector<orc::Tri> Tq; gen::extract(*A, Pq, Tq); R minang = 10; for (auto& t : Tq) { V3 q[3] = {Pq[t.a], Pq[t.b], Pq[t.c]}; for (int k = 0; k < 3; k++) { V3 u = q[(k + 1) % 3] - q[k], w = q[(k + 2) % 3] - q[k]; R cr = u.cross(w).norm(), dt = u.dot(w); minang = std::min(minang, (R)std::atan2((double)cr, (double)dt)); } }
          if (!(minang > 0.5L * 3.14159265358979323846L / 180)) { c.v = "skip"; agg.add(c); agg.bin("skip:needle_triangle_after_history"); continue; } }
        // ---- forces on the cell with history: (1) all terms -> net force / torque; (2) pressure + tension + area elasticity only (the terms
        //      whose value the property fixes as a function of the mesh) -> compared with a fresh cell over the same live mesh
        const double Vt = A->get_volume() * g.uni(0.8, 1.3); cell_tester::target_volume(*A) = Vt;
        A->apply_internal_forces(0.0);
        gen::extract(*A, P, T, &used, &live, &fslot);
        V3 sum, tq; R sabs = 0, tabs = 0; bool finite = true;
        { const auto& na = cell_tester::nodes(*A); for (unsigned k : live) { V3 fa(na[k].force().dx(), na[k].force().dy(), na[k].force().dz()); if (!std::isfinite((double)fa.norm())) finite = false; sum += fa; sabs += fa.norm(); V3 r = P[k] - ctr; tq += r.cross(fa); tabs += r.norm() * fa.norm(); } }
        if (getenv("VH_TRACE")) { const auto& na = cell_tester::nodes(*A); for (unsigned k : live) { const vec3& f = na[k].force(); if (f.dx() != 0 || f.dy() != 0 || f.dz() != 0) fprintf(stderr, "node %u f %.6e %.6e %.6e\n", k, f.dx(), f.dy(), f.dz()); }
            rmu::Inv inv = rmu::check_cell(*A, true, nullptr); fprintf(stderr, "check_cell: %s %s\n", inv.ok ? "ok" : inv.key.c_str(), inv.msg.c_str());
            const auto& fl = cell_tester::faces(*A); for (const face& f : fl) if (f.is_used() && f.get_area() < 1e-12) fprintf(stderr, "face %u area %.3e nodes %u %u %u\n", f.get_local_id(), f.get_area(), cell_tester::n1(f), cell_tester::n2(f), cell_tester::n3(f)); }
        for (node& n : cell_tester::nodes(*A)) if (n.is_used()) n.set_force(vec3(0, 0, 0));
        auto strip = [](cell_type_param_ptr t) { t->angle_regularization_factor_ = 0; for (auto& f : t->face_types_) f.bending_modulus_ = 0; };
        strip(ct); A->apply_internal_forces(0.0);
        // ---- fresh cell from the live mesh
        std::vector<unsigned> newid(P.size(), 0); gen::TriMesh m2; for (unsigned k : live) { newid[k] = (unsigned)m2.P.size(); m2.P.push_back({(double)P[k].x, (double)P[k].y, (double)P[k].z}); }
        for (auto& t : T) m2.T.push_back({newid[t.a], newid[t.b], newid[t.c]});
        Rng gt2(a.seed, (uint64_t)i, 0x2c); auto ct2 = mk_type(gt2); strip(ct2);
        cell_ptr B;
        try { B = gen::make_cell_of_class(cls, m2, 3, ct2); } catch (const std::exception& e) { c.v = "skip"; agg.add(c); agg.bin("skip:moved_mesh_rejected"); continue; }
        { auto& flb = cell_tester::faces(*B); const auto& fla = cell_tester::faces(*A); for (size_t k = 0; k < T.size(); k++) flb[k].set_face_type_id(fla[fslot[k]].get_local_face_type_id()); }
        cell_tester::target_volume(*B) = Vt; B->apply_internal_forces(0.0);
        // ---- compare
        const auto& na = cell_tester::nodes(*A); const auto& nb = cell_tester::nodes(*B);
        R fmax = 0, dmax = 0; unsigned worst = 0;
        for (unsigned k : live) { V3 fa(na[k].force().dx(), na[k].force().dy(), na[k].force().dz()), fb(nb[newid[k]].force().dx(), nb[newid[k]].force().dy(), nb[newid[k]].force().dz());
            fmax = std::max({fmax, fa.norm(), fb.norm()}); R d = (fa - fb).norm(); if (d > dmax) { dmax = d; worst = k; } }
        finite = finite && std::isfinite((double)fmax) && std::isfinite((double)dmax);
        c.nontrivial = fmax > 0 && (free_nodes_mid > 0 || free_faces_mid > 0);
        if (!finite) c.viol("history:non_finite_force", "a force of the cell with history is not finite");
        else if (fmax > 0 && !(dmax <= 1e-8L * fmax)) c.viol("history:forces_differ_from_fresh_cell", "pressure + tension + area-elasticity forces of a cell that was remeshed and then moved (unused slots, no compaction) differ from those of a fresh cell built from the same live mesh: node " + std::to_string(worst) + ", difference " + std::to_string((double)(dmax / fmax)) + " x largest force");
        else if (cls != 4 && sabs > 0 && !(sum.norm() <= 1e-9L * sabs)) c.viol("history:net_force", "internal forces of a remeshed and moved cell do not add up to zero: " + std::to_string((double)(sum.norm() / sabs)) + " x sum |F|");
        else if (cls != 4 && tabs > 0 && !(tq.norm() <= 1e-8L * tabs)) c.viol("history:net_torque", "internal forces of a remeshed and moved cell exert a net torque: " + std::to_string((double)(tq.norm() / tabs)) + " x sum |r||F|");
        { R va = A->get_volume(), vb = B->get_volume(), aa = A->get_area(), ab = B->get_area(), pa = A->get_pressure(), pb = B->get_pressure();
          if (c.v != "viol" && (!(std::fabs(va - vb) <= 1e-10L * std::fabs(vb)) || !(std::fabs(aa - ab) <= 1e-10L * ab))) c.viol("history:volume_or_area_differs_from_fresh_cell", "volume / area reported after the force evaluation differ from those of a fresh cell over the same live mesh");
          if (c.v != "viol" && !(std::fabs(pa - pb) <= 1e-8L * std::max<R>(std::fabs(pb), ct->bulk_modulus_ * 1e-6))) c.viol("history:pressure_differs_from_fresh_cell", "pressure after the force evaluation differs from that of a fresh cell over the same live mesh with the same target volume"); }
        c.sig = hash_combine(hash_combine((uint64_t)live.size(), (uint64_t)T.size()), hash_double((double)fmax));
        c.obs.s("shape", m.name).i("class", cls).i("live_nodes", (long)live.size()).i("faces", (long)T.size()).i("unused_node_slots_before_last", free_nodes_mid).i("unused_face_slots_before_last", free_faces_mid).d("max_diff_over_fmax", fmax > 0 ? (double)(dmax / fmax) : 0.0).d("scale", scale);
        agg.bin("history_cells"); if (free_faces_mid > 0) agg.bin("history_cells_with_unused_face_slots_in_the_middle"); if (free_nodes_mid > 0) agg.bin("history_cells_with_unused_node_slots_in_the_middle");
        agg.bin("history_class:" + std::to_string(cls)); agg.bin("history_node_forces_compared", (long)live.size()); agg.maxi("history_max_diff_over_fmax", fmax > 0 ? (double)(dmax / fmax) : 0.0);
        agg.add(c);
    }
    agg.flush(a.shard_i);
    return 0;
}
static Reg r_fh("forces_hist", cmd_forces_hist);
