// Friend "tester" classes: the repository declares these names as friends of its classes for its
// own unit tests; the harness defines them to read and perturb private state without any hook.
#pragma once
#include "cell.hpp"
#include "epithelial_cell.hpp"
#include "ecm_cell.hpp"
#include "lumen_cell.hpp"
#include "nucleus_cell.hpp"
#include "static_cell.hpp"
#include "local_mesh_refiner.hpp"
#include "contact_model_abstract.hpp"
#include "uspg_4d.hpp"
#include "uspg_3d.hpp"

class cell_tester {
public:
    static std::vector<node>& nodes(cell& c) { return c.node_lst_; }
    static std::vector<face>& faces(cell& c) { return c.face_lst_; }
    static const std::vector<node>& nodes(const cell& c) { return c.node_lst_; }
    static const std::vector<face>& faces(const cell& c) { return c.face_lst_; }
    static edge_set& edges(cell& c) { return c.edge_set_; }
    static const edge_set& edges(const cell& c) { return c.edge_set_; }
    static std::vector<unsigned>& free_nodes(cell& c) { return c.free_node_queue_; }
    static std::vector<unsigned>& free_faces(cell& c) { return c.free_face_queue_; }
    static const std::vector<unsigned>& free_nodes(const cell& c) { return c.free_node_queue_; }
    static const std::vector<unsigned>& free_faces(const cell& c) { return c.free_face_queue_; }
    static double& volume(cell& c) { return c.volume_; }
    static double& area(cell& c) { return c.area_; }
    static double& target_volume(cell& c) { return c.target_volume_; }
    static double& target_area(cell& c) { return c.target_area_; }
    static double& pressure(cell& c) { return c.pressure_; }
    static double& growth_rate(cell& c) { return c.growth_rate_; }
    static double& division_volume(cell& c) { return c.division_volume_; }
    static unsigned& local_id(cell& c) { return c.local_id_; }
    static unsigned& cell_id(cell& c) { return c.cell_id_; }
    static bool& is_static(cell& c) { return c.is_static_; }
    static vec3& centroid(cell& c) { return c.centroid_; }
    static cell_type_param_ptr& cell_type(cell& c) { return c.cell_type_; }
    static void translate(cell& c, const vec3& t) { c.translate(t); }
    static void update_target_volume(cell& c, double dt) { c.update_target_volume(dt); }
    static void apply_pressure_on_surface(cell& c) { c.apply_pressure_on_surface(); }
    static void apply_surface_tension_and_membrane_elasticity(cell& c) { c.apply_surface_tension_and_membrane_elasticity(); }
    static void apply_bending_forces(cell& c) { c.apply_bending_forces(); }
    // node
    static vec3& pos(node& n) { return n.pos_; }
    static vec3& force(node& n) { return n.force_; }
#if DYNAMIC_MODEL_INDEX == 0
    static vec3& momentum(node& n) { return n.momentum_; }
#endif
    static unsigned& node_id(node& n) { return n.node_id_; }
    static bool& node_used(node& n) { return n.is_used_; }
#if CONTACT_MODEL_INDEX == 1 || CONTACT_MODEL_INDEX == 2
    static double& curvature(node& n) { return n.curvature_; }
    static vec3& normal(node& n) { return n.normal_; }
#endif
#if CONTACT_MODEL_INDEX == 1
    static std::optional<std::pair<unsigned, unsigned>>& coupled(node& n) { return n.coupled_node_; }
    static const std::optional<std::pair<unsigned, unsigned>>& coupled(const node& n) { return n.coupled_node_; }
    static double& coupled_dist(node& n) { return n.squared_distance_to_closest_node_; }
#elif CONTACT_MODEL_INDEX == 2
    static std::map<unsigned, std::pair<unsigned, double>>& coupled_map(node& n) { return n.coupled_nodes_map_; }
    static const std::map<unsigned, std::pair<unsigned, double>>& coupled_map(const node& n) { return n.coupled_nodes_map_; }
#endif
    // face
    static unsigned& n1(face& f) { return f.n1_id_; }
    static unsigned& n2(face& f) { return f.n2_id_; }
    static unsigned& n3(face& f) { return f.n3_id_; }
    static unsigned n1(const face& f) { return f.n1_id_; }
    static unsigned n2(const face& f) { return f.n2_id_; }
    static unsigned n3(const face& f) { return f.n3_id_; }
    static unsigned short& type_id(face& f) { return f.type_id_; }
    static unsigned short type_id(const face& f) { return f.type_id_; }
    static cell_ptr& owner(face& f) { return f.owner_cell_; }
    static const cell_ptr& owner(const face& f) { return f.owner_cell_; }
    static unsigned& face_id(face& f) { return f.local_face_id_; }
    static unsigned face_id(const face& f) { return f.local_face_id_; }
    static bool face_used(const face& f) { return f.is_used_; }
    static const vec3& face_normal(const face& f) { return f.normal_; }
    static double face_area(const face& f) { return f.area_; }
};

class local_mesh_refiner_tester {
public:
    static double score_min() { return local_mesh_refiner::triangle_score_min_; }
    static double q_min() { return local_mesh_refiner::q_min_; }
    static bool swap_enabled(const local_mesh_refiner& l) { return l.enable_edge_swap_operation_; }
};
