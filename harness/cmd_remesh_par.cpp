// C11 / C01 (and C15) — the refinement of many cells at once.  solver::run_iteration refines all cells with local_mesh_refiner::refine_meshes,
// an OpenMP loop over the cells.  remesh_par builds a population twice, refines one copy cell after cell (refine_mesh, one thread) and the other
// with refine_meshes on a.threads threads, and demands: the same multiset of cells bit for bit (fingerprint of positions, momenta, labels,
// connectivity, slot layout), total node momentum of every cell conserved, every cell still a valid closed surface.  State shared between
// the cells by the refiner (static scratch objects, caches) shows up as a difference or as a momentum / validity violation.
#include "vh.hpp"
#include "gen.hpp"
#include "oracle.hpp"
#include "remesh_util.hpp"
#include "local_mesh_refiner.hpp"
#include <omp.h>

using namespace vh;
using orc::V3; using orc::R;

static int cmd_remesh_par(const Args& a) {
    Agg agg;
    for (long i = a.first; i < a.first + a.cases; i++) {
        if (!a.mine(i)) continue;
        Rng g(a.seed, (uint64_t)i, 0x1b); Case c(i);
        const int ncell = g.range(12, 40), rounds = g.range(2, 4);
        std::vector<gen::TriMesh> meshes; std::vector<double> lmins;
        auto ct = gen::default_cell_type(4, 0);
        for (int k = 0; k < ncell; k++) { gen::TriMesh m = gen::icosphere(g.range(2, 3)); if (g.coin(0.4)) gen::scale(m, 1, g.uni(0.7, 1), g.uni(0.7, 1)); gen::jitter(m, g, g.uni(0.02, 0.08)); gen::rotate(m, gen::rot_random(g)); gen::translate(m, 4.0 * k, g.uni(-1, 1), g.uni(-1, 1)); meshes.push_back(m); }
        // one band for all cells (the refiner is one object): collapses and splits happen in most cells
        double me = 0; for (auto& m : meshes) me += gen::mean_edge(m) / ncell; const double lmin = me * g.uni(0.45, 0.8), lmax = 3 * lmin; const bool swaps = g.coin(0.6);
        auto build = [&]() { std::vector<cell_ptr> L; Rng gm(a.seed, (uint64_t)i, 0x1d); for (int k = 0; k < ncell; k++) { cell_ptr p = gen::make_cell<epithelial_cell>(meshes[k], (unsigned)k, ct); p->set_local_id((unsigned)k);
#if DYNAMIC_MODEL_INDEX == 0
                for (node& n : cell_tester::nodes(*p)) if (n.is_used()) n.set_momentum(vec3(gm.normal(), gm.normal(), gm.normal()) * gm.logu(1e-6, 1e2));
#endif
                for (face& f : cell_tester::faces(*p)) if (f.is_used()) f.set_face_type_id((unsigned short)gm.range(0, 3)); L.push_back(p); } return L; };
        std::vector<cell_ptr> S, P;
        try { S = build(); P = build(); } catch (const std::exception&) { c.v = "skip"; agg.add(c); continue; }
        auto momentum = [&](const cell& x) { V3 s; R sc = 0;
#if DYNAMIC_MODEL_INDEX == 0
            for (const node& n : cell_tester::nodes(x)) if (n.is_used()) { V3 q(n.momentum().dx(), n.momentum().dy(), n.momentum().dz()); s += q; sc += q.norm(); }
#endif
            return std::make_pair(s, sc); };
        local_mesh_refiner lmr(lmin, lmax, swaps); long differ = 0, mom_bad = 0, invalid = 0, ops = 0; bool threwS = false, threwP = false; std::string first_bad;
        for (int r = 0; r < rounds && c.v != "viol" && !threwS && !threwP; r++) {
            // both copies receive the same deformation before each round
            Rng gd(a.seed, (uint64_t)i, 0x1e + (uint64_t)r); const double st[3] = {gd.uni(0.8, 1.3), gd.uni(0.8, 1.3), gd.uni(0.8, 1.3)};
            for (auto* L : {&S, &P}) for (size_t k = 0; k < L->size(); k++) { auto& nl = cell_tester::nodes(*(*L)[k]); for (node& n : nl) if (n.is_used()) cell_tester::pos(n).reset(4.0 * k + (n.pos().dx() - 4.0 * k) * st[0], n.pos().dy() * st[1], n.pos().dz() * st[2]); (*L)[k]->update_all_face_normals_and_areas(); }
            std::vector<std::pair<V3, R>> mom0; for (auto& p : P) mom0.push_back(momentum(*p));
            const size_t f0 = [&]() { size_t s2 = 0; for (auto& p : S) s2 += p->get_nb_of_faces(); return s2; }();
            omp_set_num_threads(1); try { for (auto& p : S) lmr.refine_mesh(p); } catch (const std::exception& e) { threwS = true; if (getenv("VH_TRACE")) fprintf(stderr, "seq threw: %s\n", e.what()); }
            omp_set_num_threads(a.threads); try { lmr.refine_meshes(P); } catch (const std::exception&) { threwP = true; }
            if (threwS != threwP) { c.viol("parallel_refinement:exception_only_in_one_mode", std::string("refining the cells ") + (threwP ? "concurrently" : "one after another") + " ended with an exception, the other mode did not"); break; }
            if (threwS) break;
            { size_t s2 = 0; for (auto& p : S) s2 += p->get_nb_of_faces(); ops += (long)(s2 > f0 ? s2 - f0 : f0 - s2); }
            for (int k = 0; k < ncell; k++) {
                if (rmu::fingerprint(*S[k], true) != rmu::fingerprint(*P[k], true)) { differ++; if (first_bad.empty()) first_bad = "cell " + std::to_string(k) + " in round " + std::to_string(r); }
                auto m1 = momentum(*P[k]); if (!((m1.first - mom0[k].first).norm() <= 1e-10L * (mom0[k].second + 1e-300L))) mom_bad++;
                rmu::Inv inv = rmu::check_cell(*P[k], true, nullptr); if (!inv.ok) { invalid++; if (first_bad.empty()) first_bad = "cell " + std::to_string(k) + ": " + inv.key; }
            }
            if (invalid) c.viol("parallel_refinement:invalid_cell", std::to_string(invalid) + " cells are no valid closed surfaces after refine_meshes with " + std::to_string(a.threads) + " threads (" + first_bad + ")");
            else if (mom_bad) c.viol("parallel_refinement:momentum_not_conserved", std::to_string(mom_bad) + " cells changed their total node momentum in refine_meshes with " + std::to_string(a.threads) + " threads");
            else if (differ) c.viol("parallel_refinement:differs_from_one_after_another", std::to_string(differ) + " cells refined concurrently (" + std::to_string(a.threads) + " threads) differ from the same cells refined one after another (" + first_bad + ")");
        }
        c.nontrivial = ops > 0; c.sig = hash_combine(hash_combine((uint64_t)ncell, (uint64_t)ops), (uint64_t)rounds);
        c.obs.i("cells", ncell).i("rounds", rounds).i("faces_changed", ops).i("threads", a.threads).b("ended_by_exception", threwS);
        agg.bin("parallel_refinement_cells", (long)ncell * rounds); agg.bin("parallel_refinement_populations"); if (threwS) agg.bin("parallel_refinement_ended_by_exception");
        agg.add(c);
    }
    agg.flush(a.shard_i);
    return 0;
}
static Reg r_rp("remesh_par", cmd_remesh_par);
