// C17 - malformed input files are rejected with an exception, never a crash.
//
// Command "startup": every case is one mutant of a small valid (mesh file, parameter file) pair.  The mutant is
// written into the working directory and a forked child (vh::run_isolated) runs exactly what main() does at
// start-up: simulation_initializer(param_path, verbose=false) inside try{}catch(const std::exception&).
// The parent classifies: completed / std::exception caught (both fine) / non-std exception / signal /
// sanitizer report / terminate / CPU budget exceeded twice / resident memory disproportionate to the input.
// For the enumerated single faults that make the input inconsistent in a way the property names (see
// must_reject_class) "completed" is a violation too (key accepted_malformed:<class>).
//
// Flavours: the ASan+UBSan build decides crashes.  What ASan cannot decide (its operator new aborts instead of throwing,
// its stack frames are larger, it touches the shadow of untouched allocations) is emitted as {"v":"defer"} and re-run by
// checks/C17.py with the uninstrumented build (`--judge_plain=1`: RLIMIT_AS 4 GB, budgets enforced, two attempts).
//
// Case index space (identical in every shard and flavour, a pure function of --bases, --wd, --seed):
//   [0, N_enum)            single-fault enumeration, complete over its finite space (see build_catalogue)
//   [N_enum, ...)          random multi-mutations, regenerated from Rng(seed, i)
// `--mode=count` prints N_enum (and writes the base pairs into --wd); `--listfile=path` runs exactly the indices listed in that
// file; `--only i` replays one index; `--mode=files --what=mesh|param|startup --filelist=path` judges given files with the same
// rules (artefacts of the libFuzzer campaigns of tools/c17_fuzz.py: mesh_reader / parameter_reader alone).
// Mutant files are m<i>.vtk / m<i>.xml in --wd; they are deleted unless they violate.
#include "vh.hpp"
#include <omp.h>
#include "simulation_initializer.hpp"
#include "verif_hooks.hpp"
#include <cxxabi.h>
#include <typeinfo>
#include <exception>
#include <fstream>
#include <set>
#include <unistd.h>
#include <sys/stat.h>

extern "C" void __sanitizer_print_stack_trace() __attribute__((weak));

namespace {
using namespace vh;

// ------------------------------------------------------------------------------------------------
// base files
struct Base { std::string name, vtk, xml_head, xml_tail; };   // xml = xml_head + <mesh path> + xml_tail

std::string num(double v) { char b[40]; snprintf(b, sizeof b, "%.6g", v); return b; }

// legacy VTK (format written by ParaView / the repository's writer): polyhedron cells (type 42)
std::string vtk_text(const std::vector<std::array<double, 3>>& P, const std::vector<std::vector<std::vector<unsigned>>>& cells,
                     const std::vector<int>& type_ids, bool paraview_metadata, const char* coord_type) {
    std::ostringstream o;
    o << "# vtk DataFile Version 4.2\nvtk output\nASCII\nDATASET UNSTRUCTURED_GRID\nPOINTS " << P.size() << " " << coord_type << "\n";
    for (size_t i = 0; i < P.size(); i++) { o << num(P[i][0]) << " " << num(P[i][1]) << " " << num(P[i][2]) << " "; if (i % 3 == 2 || i + 1 == P.size()) o << "\n"; }
    if (paraview_metadata) o << "METADATA\nINFORMATION 2\nNAME L2_NORM_RANGE LOCATION vtkDataArray\nDATA 2 0 1.21244e-05 \nNAME L2_NORM_FINITE_RANGE LOCATION vtkDataArray\nDATA 2 0 1.21244e-05 \n";
    size_t total = 0; for (auto& c : cells) { total += 2; for (auto& f : c) total += 1 + f.size(); }
    o << "\nCELLS " << cells.size() << " " << total << "\n";
    for (auto& c : cells) { size_t n = 1; for (auto& f : c) n += 1 + f.size(); o << n << " " << c.size() << " "; for (auto& f : c) { o << f.size() << " "; for (unsigned v : f) o << v << " "; } o << "\n"; }
    o << "\nCELL_TYPES " << cells.size() << "\n"; for (size_t i = 0; i < cells.size(); i++) o << "42\n";
    o << "\nCELL_DATA " << cells.size() << "\nFIELD FieldData 1\ncell_type_id 1 " << cells.size() << " int\n";
    for (int t : type_ids) o << t << " "; o << "\n";
    if (paraview_metadata) o << "METADATA\nINFORMATION 0\n\n";
    return o.str();
}

std::string xml_face_type(int gid, const char* name, const char* tension) {
    std::ostringstream o;
    o << "            <face_type>\n                <global_face_id>" << gid << "</global_face_id>\n                <face_type_name>" << name << "</face_type_name>\n"
      << "                <adherence_strength>0</adherence_strength>\n                <repulsion_strength>1e8</repulsion_strength>\n"
      << "                <surface_tension>" << tension << "</surface_tension>\n                <bending_modulus>0</bending_modulus>\n            </face_type>\n";
    return o.str();
}
std::string xml_cell_type(int gid, const char* name, const std::string& faces, bool growing) {
    std::ostringstream o;
    o << "    <cell_type>\n        <cell_type_name>" << name << "</cell_type_name>\n        <global_cell_id>" << gid << "</global_cell_id>\n"
      << "        <cell_mass_density>1.0e3</cell_mass_density>\n        <cell_bulk_modulus>2.5e3</cell_bulk_modulus>\n        <max_inner_pressure>INF</max_inner_pressure>\n"
      << "        <avg_growth_rate>" << (growing ? "1e-11" : "0.0") << "</avg_growth_rate>\n        <std_growth_rate>" << (growing ? "1e-12" : "0.0") << "</std_growth_rate>\n"
      << "        <target_isoperimetric_ratio>" << (growing ? "250" : "1") << "</target_isoperimetric_ratio>\n        <area_elasticity_modulus>0</area_elasticity_modulus>\n"
      << "        <angle_regularization_factor>0</angle_regularization_factor>\n        <avg_division_volume>" << (growing ? "1.4e-14" : "0.0") << "</avg_division_volume>\n"
      << "        <std_division_volume>" << (growing ? "1.4e-15" : "0.0") << "</std_division_volume>\n        <surface_coupling_max_curvature>5e6</surface_coupling_max_curvature>\n"
      << "        <min_vol>3.7e-17</min_vol>\n        <face_types>\n" << faces << "        </face_types>\n    </cell_type>\n";
    return o.str();
}
void xml_text(Base& b, const std::string& cell_types) {
    b.xml_head = "<?xml version=\"1.0\"?>\n<!-- start-up check input -->\n<numerical_parameters>\n    <input_mesh_file_path>";
    b.xml_tail = "</input_mesh_file_path>\n    <output_mesh_folder_path>./simulation_results/c17</output_mesh_folder_path>\n"
                 "    <perform_initial_triangulation>0</perform_initial_triangulation>\n    <enable_edge_swap_operation>0</enable_edge_swap_operation>\n"
                 "    <damping_coefficient>3e-9</damping_coefficient>\n    <simulation_duration>1e-2</simulation_duration>\n    <sampling_period>5e-6</sampling_period>\n"
                 "    <time_step>1e-7</time_step>\n    <min_edge_length>2e-6</min_edge_length>\n    <contact_cutoff_adhesion>5e-7</contact_cutoff_adhesion>\n"
                 "    <contact_cutoff_repulsion>5e-7</contact_cutoff_repulsion>\n</numerical_parameters>\n\n<cell_types>\n" + cell_types + "</cell_types>\n";
}

const unsigned CUBE_TRI[12][3] = {{0, 1, 3}, {2, 3, 1}, {0, 4, 1}, {5, 1, 4}, {0, 3, 4}, {6, 4, 3}, {1, 5, 2}, {7, 2, 5}, {5, 4, 7}, {6, 7, 4}, {3, 2, 6}, {7, 6, 2}};
const unsigned CUBE_QUAD[6][4] = {{0, 1, 2, 3}, {0, 4, 5, 1}, {0, 3, 6, 4}, {1, 5, 7, 2}, {4, 6, 7, 5}, {3, 2, 7, 6}};
void cube_points(std::vector<std::array<double, 3>>& P, double x0, double a) {
    const double c[8][3] = {{0, 0, 0}, {1, 0, 0}, {1, 0, 1}, {0, 0, 1}, {0, 1, 0}, {1, 1, 0}, {0, 1, 1}, {1, 1, 1}};
    for (auto& p : c) P.push_back({x0 + a * p[0], a * p[1], a * p[2]});
}

std::vector<Base> make_bases() {
    std::vector<Base> out;
    const std::string epi = xml_cell_type(0, "epithelial", xml_face_type(0, "apical", "1e-3") + xml_face_type(1, "lateral", "8e-4") + xml_face_type(2, "basal", "1e-3"), true);
    const std::string ecm = xml_cell_type(1, "ecm", xml_face_type(3, "ecm_face", "5.0e-4"), false);
    {   // base 0: one triangulated cube (the layout of data/input_meshes/cube.vtk), cell type 0 of {epithelial, ecm}
        Base b; b.name = "cube";
        std::vector<std::array<double, 3>> P; cube_points(P, 0, 7e-6);
        std::vector<std::vector<unsigned>> c; for (auto& t : CUBE_TRI) c.push_back({t[0], t[1], t[2]});
        b.vtk = vtk_text(P, {c}, {0}, true, "double"); xml_text(b, epi + ecm); out.push_back(b);
    }
    {   // base 1: two cubes with quadrilateral faces, cell types 0 and 1
        Base b; b.name = "two_cubes_polygonal";
        std::vector<std::array<double, 3>> P; cube_points(P, 5e-7, 7e-6); cube_points(P, 8e-6, 7e-6);
        std::vector<std::vector<std::vector<unsigned>>> cells(2);
        for (int k = 0; k < 2; k++) for (auto& q : CUBE_QUAD) cells[k].push_back({q[0] + 8 * k, q[1] + 8 * k, q[2] + 8 * k, q[3] + 8 * k});
        b.vtk = vtk_text(P, cells, {0, 1}, false, "float"); xml_text(b, epi + ecm); out.push_back(b);
    }
    {   // base 2: two icosahedral "spheres", cell types 0 and 2 of {lumen, nucleus, static}
        Base b; b.name = "two_spheres";
        const double t = (1.0 + std::sqrt(5.0)) / 2.0, r = 4e-6 / std::sqrt(1 + t * t);
        const double v[12][3] = {{-1, t, 0}, {1, t, 0}, {-1, -t, 0}, {1, -t, 0}, {0, -1, t}, {0, 1, t}, {0, -1, -t}, {0, 1, -t}, {t, 0, -1}, {t, 0, 1}, {-t, 0, -1}, {-t, 0, 1}};
        const unsigned f[20][3] = {{0, 11, 5}, {0, 5, 1}, {0, 1, 7}, {0, 7, 10}, {0, 10, 11}, {1, 5, 9}, {5, 11, 4}, {11, 10, 2}, {10, 7, 6}, {7, 1, 8}, {3, 9, 4}, {3, 4, 2}, {3, 2, 6}, {3, 6, 8}, {3, 8, 9}, {4, 9, 5}, {2, 4, 11}, {6, 2, 10}, {8, 6, 7}, {9, 8, 1}};
        std::vector<std::array<double, 3>> P; std::vector<std::vector<std::vector<unsigned>>> cells(2);
        for (int k = 0; k < 2; k++) { for (auto& p : v) P.push_back({r * p[0] + 1e-5 * k, r * p[1], r * p[2]}); for (auto& q : f) cells[k].push_back({q[0] + 12 * k, q[1] + 12 * k, q[2] + 12 * k}); }
        b.vtk = vtk_text(P, cells, {0, 2}, false, "float");
        xml_text(b, xml_cell_type(2, "lumen", xml_face_type(4, "lumen_face", "4e-4"), false) + xml_cell_type(3, "nucleus", xml_face_type(5, "nucleus_face", "0"), false) +
                        xml_cell_type(4, "static_cell", xml_face_type(6, "static_face", "0.2e-10"), false));
        out.push_back(b);
    }
    return out;
}

// ------------------------------------------------------------------------------------------------
// structure of the two file kinds, found by scanners that share nothing with the repository's readers
struct Span { size_t b, e; };
std::vector<Span> vtk_tokens(const std::string& s) {
    std::vector<Span> t; size_t i = 0, n = s.size();
    while (i < n) { while (i < n && isspace((unsigned char)s[i])) i++; size_t b = i; while (i < n && !isspace((unsigned char)s[i])) i++; if (i > b) t.push_back({b, i}); }
    return t;
}
std::vector<Span> lines_of(const std::string& s) {    // each span includes its '\n'
    std::vector<Span> t; size_t b = 0;
    for (size_t i = 0; i < s.size(); i++) if (s[i] == '\n') { t.push_back({b, i + 1}); b = i + 1; }
    if (b < s.size()) t.push_back({b, s.size()});
    return t;
}
// VTK section = a keyword line (first character a letter or '#') and the data lines that follow it
std::vector<Span> vtk_sections(const std::string& s) {
    std::vector<Span> L = lines_of(s), t;
    for (auto& l : L) { unsigned char c = (unsigned char)s[l.b]; bool head = isalpha(c) || c == '#'; if (head || t.empty()) t.push_back(l); else t.back().e = l.e; }
    return t;
}
struct Elem { std::string name; size_t ob, oe, cb, ce; int parent; bool leaf; };   // <name>=[ob,oe) text/children=[oe,cb) </name>=[cb,ce)
// Tolerant scanner: elements whose tags do not nest properly are dropped (needed when a file is mutated more than once).
std::vector<Elem> xml_elems(const std::string& s) {
    std::vector<Elem> el; std::vector<int> stack; size_t i = 0, n = s.size();
    while (i < n) {
        if (s[i] != '<') { i++; continue; }
        if (s.compare(i, 4, "<!--") == 0) { size_t e = s.find("-->", i + 4); if (e == std::string::npos) break; i = e + 3; continue; }
        if (s.compare(i, 2, "<?") == 0) { size_t e = s.find("?>", i + 2); if (e == std::string::npos) break; i = e + 2; continue; }
        size_t e = s.find('>', i); if (e == std::string::npos) break;
        if (i + 1 < n && s[i + 1] == '/') {
            std::string nm = s.substr(i + 2, e - i - 2);
            while (!stack.empty() && el[stack.back()].name != nm) { el[stack.back()].cb = std::string::npos; stack.pop_back(); }
            if (!stack.empty()) { Elem& x = el[stack.back()]; x.cb = i; x.ce = e + 1; stack.pop_back(); }
        } else if (e > i + 1 && s[e - 1] != '/') {
            Elem x; x.name = s.substr(i + 1, e - i - 1); size_t sp = x.name.find_first_of(" \t\n"); if (sp != std::string::npos) x.name.resize(sp);
            x.ob = i; x.oe = e + 1; x.cb = x.ce = std::string::npos; x.parent = stack.empty() ? -1 : stack.back(); x.leaf = true;
            if (!stack.empty()) el[stack.back()].leaf = false;
            el.push_back(x); stack.push_back((int)el.size() - 1);
        }
        i = e + 1;
    }
    std::vector<Elem> ok; std::vector<int> remap(el.size(), -1);
    for (size_t k = 0; k < el.size(); k++) if (el[k].cb != std::string::npos && el[k].ce != std::string::npos) { remap[k] = (int)ok.size(); ok.push_back(el[k]); }
    for (auto& x : ok) x.parent = x.parent >= 0 ? remap[x.parent] : -1;
    return ok;
}

// ------------------------------------------------------------------------------------------------
// mutation operators
// the nine replacement texts of the design + two integers that std::stoi accepts: one just beyond every count / index of the
// small base meshes, and INT_MAX (arithmetic on it overflows)
// ... two integers that wrap to a small value when multiplied by 3 in 32 bits (1431655765 * 3 = 2^32 - 1, 1431655766 * 3 = 2^32 + 2), and white space
// that reaches the reader as a text node (character reference, CDATA section) instead of being dropped by the XML parser
const char* const VALUE_NAMES[] = {"-1", "0", "4294967296", "20digit", "1e999", "nan", "inf", "abc", "99", "2147483647", "1431655765", "1431655766", "charref_space", "cdata_space", "followed_by_3e5_blanks", "1e5digits"};
const int N_VALUES = 16;
std::string value_text(int k) {
    switch (k) { case 0: return "-1"; case 1: return "0"; case 2: return "4294967296"; case 3: return "18446744073709551616"; case 4: return "1e999";
                 case 5: return "nan"; case 6: return "inf"; case 7: return "abc"; case 8: return "99"; case 9: return "2147483647"; case 10: return "1431655765"; case 11: return "1431655766"; case 12: return "&#32;"; case 13: return "<![CDATA[ ]]>"; case 14: return "\x01PAD"; default: return std::string(100000, '9'); }
}
// extra replacement texts used by the random multi-mutations only (boundary values of int / short / the point count ...)
const std::vector<std::string> EXTRA_VALUES = {"2147483647", "2147483648", "715827883", "1000000000", "65536", "32768", "32767", "-0", "1e-999", "0x10", "+5", "3.5",
    "1e5", "1e308", " ", "\t", "1", "2", "3", "4", "5", "7", "8", "11", "12", "13", "15", "16", "23", "24", "42", "49", "50", "-", ".", "e", "1e", "..", "INF", "NaN", "<", ">", "&", "</", "<a>", "\"", "\r"};

enum { TOK_DELETE = 0, TOK_DUP = 1, TOK_EMPTY = 2, TOK_VALUE0 = 3 };      // token / element operators: 3 + N_VALUES = 19
enum { BLK_REMOVE = 0, BLK_DUP = 1, BLK_SWAP = 2 };
std::string tokop_name(int op) { return op == TOK_DELETE ? "delete" : op == TOK_DUP ? "duplicate" : op == TOK_EMPTY ? "empty" : std::string("val:") + VALUE_NAMES[op - TOK_VALUE0]; }
std::string blkop_name(int op) { return op == BLK_REMOVE ? "remove" : op == BLK_DUP ? "duplicate" : "swap"; }

std::string vtk_token_op(const std::string& s, Span t, int op, const std::string& val) {
    std::string r = s;
    if (op == TOK_DELETE) { size_t e = t.e < s.size() ? t.e + 1 : t.e; r.erase(t.b, e - t.b); }
    else if (op == TOK_DUP) r.insert(t.e, " " + s.substr(t.b, t.e - t.b));
    else if (op == TOK_EMPTY) r.erase(t.b, t.e - t.b);
    else if (val == "\x01PAD") r.insert(t.e, std::string(300000, ' '));   // the token stays, 3e5 blanks follow it (a header field separated by a very long run of white space)
    else r.replace(t.b, t.e - t.b, val);
    return r;
}
std::string xml_elem_op(const std::string& s, const Elem& x, int op, const std::string& val) {
    std::string r = s;
    if (op == TOK_DELETE) r.erase(x.ob, x.ce - x.ob);
    else if (op == TOK_DUP) r.insert(x.ce, "\n" + s.substr(x.ob, x.ce - x.ob));
    else if (op == TOK_EMPTY) r.erase(x.oe, x.cb - x.oe);
    else if (val == "\x01PAD") r.insert(x.cb, std::string(300000, ' '));
    else r.replace(x.oe, x.cb - x.oe, val);
    return r;
}
// block operators on consecutive spans (lines, VTK sections) or on an element and its next sibling
std::string block_op(const std::string& s, Span a, bool has_next, Span nx, int op) {
    std::string r = s;
    if (op == BLK_REMOVE) r.erase(a.b, a.e - a.b);
    else if (op == BLK_DUP) { std::string blk = s.substr(a.b, a.e - a.b); if (!blk.empty() && blk.back() != '\n') blk = "\n" + blk; r.insert(a.e, blk); }
    else if (has_next) { std::string A = s.substr(a.b, a.e - a.b), mid = s.substr(a.e, nx.b - a.e), B = s.substr(nx.b, nx.e - nx.b);
        if (!A.empty() && A.back() != '\n' && mid.empty()) A += "\n";       // last line without newline swapped upwards
        r.replace(a.b, nx.e - a.b, B + mid + A); }
    return r;
}
int next_sibling(const std::vector<Elem>& el, int k) { for (size_t j = k + 1; j < el.size(); j++) if (el[j].parent == el[k].parent && el[j].ob >= el[k].ce) return (int)j; return -1; }

// ------------------------------------------------------------------------------------------------
// the single-fault catalogue
struct Fault { int base; int file; int cls; int op; long target; };   // file 0 = mesh, 1 = parameters; cls 0 token/element, 1 line, 2 section, 3 truncation, 4 empty record
const char* FILE_NAMES[2] = {"vtk", "xml"};
// consistent-empty records of the mesh file (class 4): a count set to zero together with the data it announces
const char* const EMPTY_RECORD_NAMES[] = {"cell_line_0", "cell_line_0_padded", "cell_without_faces", "faces_without_points", "no_points", "two_faces_sharing_no_point"};
const int N_EMPTY_RECORD = 5;
std::string fault_opname(const Fault& f) {
    std::string k = FILE_NAMES[f.file];
    if (f.cls == 4) return k + ".empty_record." + EMPTY_RECORD_NAMES[f.op];
    if (f.cls == 5) return k + ".long_last_word_at_eof";
    if (f.cls == 0) return k + (f.file == 0 ? ".token." : ".elem.") + tokop_name(f.op);
    if (f.cls == 1) return k + ".line." + blkop_name(f.op);
    if (f.cls == 2) return k + ".section." + blkop_name(f.op);
    return k + ".trunc";
}

// role of every token of a well-formed mesh file of this harness (empty = keyword or unchecked header field)
std::vector<std::string> vtk_roles(const std::string& s) {
    std::vector<Span> t = vtk_tokens(s); std::vector<std::string> role(t.size()); auto tok = [&](size_t k) { return s.substr(t[k].b, t[k].e - t[k].b); };
    long ncells = 0;
    for (size_t k = 0; k < t.size(); k++) {
        std::string w = tok(k);
        if (w == "POINTS" && k + 2 < t.size()) { role[k + 1] = "points_count"; long n = atol(tok(k + 1).c_str()); for (long j = 0; j < 3 * n && k + 3 + j < t.size(); j++) role[k + 3 + j] = "coord"; }
        else if (w == "CELLS" && k + 2 < t.size()) { ncells = atol(tok(k + 1).c_str()); size_t q = k + 3;
            for (long c = 0; c < ncells && q < t.size(); c++) { long L = atol(tok(q).c_str()); role[q] = "cell_len"; size_t end = q + 1 + L; if (q + 1 < t.size()) role[q + 1] = "face_count"; size_t f = q + 2;
                while (f < end && f < t.size()) { long kf = atol(tok(f).c_str()); role[f] = "face_len"; for (long j = 1; j <= kf && f + j < t.size(); j++) role[f + j] = "face_index"; f += 1 + kf; } q = end; } }
        else if (w == "CELL_TYPES" && k + 1 < t.size()) { role[k + 1] = "celltypes_count"; for (long c = 0; c < ncells && k + 2 + c < t.size(); c++) role[k + 2 + c] = "celltype"; }
        else if (w == "cell_type_id" && k + 3 < t.size()) { for (long c = 0; c < ncells && k + 4 + c < t.size(); c++) role[k + 4 + c] = "type_id"; }
    }
    return role;
}

struct World {
    std::string wd; std::vector<Base> bases; int nbases = 1;
    std::vector<std::string> xml;   // base parameter files pointing at the base mesh files
    std::vector<Fault> cat; std::vector<long> per_base;
    std::string base_mesh_path(int b) const { return wd + "/base" + std::to_string(b) + ".vtk"; }
};

void build_catalogue(World& w) {
    for (int b = 0; b < w.nbases; b++) {
        size_t before = w.cat.size();
        const std::string& v = w.bases[b].vtk; const std::string& x = w.xml[b];
        for (int file = 0; file < 2; file++) {
            const std::string& s = file == 0 ? v : x;
            if (file == 0) { long n = (long)vtk_tokens(s).size(); for (long t = 0; t < n; t++) for (int op = 0; op < 3 + N_VALUES; op++) w.cat.push_back({b, 0, 0, op, t}); }
            else { std::vector<Elem> el = xml_elems(s); for (size_t t = 0; t < el.size(); t++) if (el[t].leaf) for (int op = 0; op < 3 + N_VALUES; op++) w.cat.push_back({b, 1, 0, op, (long)t}); }
            { long n = (long)lines_of(s).size(); for (long t = 0; t < n; t++) for (int op = 0; op < 3; op++) { if (op == BLK_SWAP && t + 1 >= n) continue; w.cat.push_back({b, file, 1, op, t}); } }
            if (file == 0) { long n = (long)vtk_sections(s).size(); for (long t = 0; t < n; t++) for (int op = 0; op < 3; op++) { if (op == BLK_SWAP && t + 1 >= n) continue; w.cat.push_back({b, 0, 2, op, t}); } }
            else { std::vector<Elem> el = xml_elems(s); for (size_t t = 0; t < el.size(); t++) if (!el[t].leaf) for (int op = 0; op < 3; op++) { if (op == BLK_SWAP && next_sibling(el, (int)t) < 0) continue; w.cat.push_back({b, 1, 2, op, (long)t}); } }
            for (long t = 0; t < (long)s.size(); t++) w.cat.push_back({b, file, 3, 0, t});
            if (file == 0) { long ncells = 0; for (auto& r : vtk_roles(s)) if (r == "cell_len") ncells++;
                for (long c = 0; c < ncells; c++) for (int op = 0; op < 4; op++) w.cat.push_back({b, 0, 4, op, c});
                for (long c = 0; c < ncells; c++) w.cat.push_back({b, 0, 4, 5, c});
                w.cat.push_back({b, 0, 4, 4, 0});
                { long n = (long)vtk_tokens(s).size(); for (long t = 0; t < n; t++) w.cat.push_back({b, 0, 5, 0, t}); } }
        }
        w.per_base.push_back((long)(w.cat.size() - before));
    }
}

// ------------------------------------------------------------------------------------------------
// Second oracle, for the enumeration only: single faults that make the file *inconsistent* in a way the statement names (face lists
// that reference non-existent points, inconsistent counts, empty / non-numeric / missing XML elements, truncated files) must be
// diagnosed, i.e. start-up must not complete.  The classes below are derived from the layout of the base files (written by this
// harness, so the role of every token is known) and each is restricted to the operators for which acceptance cannot be legitimate.
bool op_in(int op, std::initializer_list<const char*> names) { std::string n = tokop_name(op); for (auto x : names) if (n == x) return true; return false; }
std::string must_reject_class(const World& w, const Fault& f) {
    const std::string& s = f.file == 0 ? w.bases[f.base].vtk : w.xml[f.base];
    if (f.cls == 0 && f.op >= TOK_VALUE0 && op_in(f.op, {"val:followed_by_3e5_blanks"})) return "";   // the value itself is unchanged: the file stays valid
    if (f.file == 0 && f.cls == 0) {
        const std::string role = vtk_roles(s)[f.target];
        const bool count_changing = op_in(f.op, {"delete", "duplicate", "empty", "val:abc", "val:nan", "val:inf", "val:1e999"});   // 1e999 reads as the two integers 1 and 999
        if (role == "points_count") return "inconsistent_point_count";
        if (role == "coord" && count_changing) return f.op == TOK_DELETE || f.op == TOK_DUP || f.op == TOK_EMPTY ? "inconsistent_point_count" : "non_numeric_or_non_finite_coordinate";
        if (role == "face_index" && op_in(f.op, {"val:99", "val:2147483647", "val:1431655765", "val:1431655766"})) return "face_refers_to_nonexistent_point";
        if (role == "cell_len") return "inconsistent_cell_size";
        if (role == "face_count") return "inconsistent_face_count";
        if ((role == "face_len" || role == "face_index") && count_changing) return "inconsistent_cell_size";
        if (role == "celltypes_count" || role == "celltype") return "inconsistent_cell_types_section";
        if (role == "type_id" && !op_in(f.op, {"val:-1", "val:0", "val:1e999"})) return "inconsistent_cell_type_ids";        // -1 and 1e999 read as 1; 0 and 1 are existing types
        return "";
    }
    if (f.file == 0 && f.cls == 3) { std::vector<std::string> role = vtk_roles(s); std::vector<Span> t = vtk_tokens(s); size_t end = 0; for (size_t k = 0; k < t.size(); k++) if (role[k] == "type_id") end = t[k].e; return (size_t)f.target < end ? "truncated_mesh_file" : ""; }
    if (f.file == 1 && f.cls == 0) {
        const Elem x = xml_elems(s)[f.target]; const bool text_elem = x.name == "input_mesh_file_path" || x.name == "output_mesh_folder_path" || x.name == "cell_type_name" || x.name == "face_type_name";
        if (f.op == TOK_EMPTY) return "empty_xml_element";
        if (f.op == TOK_DELETE) return "missing_xml_element";
        if (op_in(f.op, {"val:abc", "val:charref_space", "val:cdata_space"}) && !text_elem) return "non_numeric_xml_element";
        return "";
    }
    if (f.file == 1 && f.cls == 2 && f.op == BLK_REMOVE) { const Elem x = xml_elems(s)[f.target]; return x.name == "numerical_parameters" || x.name == "cell_types" || x.name == "face_types" ? "missing_xml_section" : ""; }
    if (f.file == 1 && f.cls == 3) { size_t p = s.rfind("</cell_types>"); return p != std::string::npos && (size_t)f.target < p + 13 ? "truncated_parameter_file" : ""; }
    return "";
}

struct Mutant { int base = 0; std::string vtk, xml; bool vtk_mutated = false, xml_mutated = false; std::string opname, target; std::vector<std::string> ops; };

std::string apply_fault(const std::string& s, const Fault& f, std::string& target) {
    if (f.cls == 0 && f.file == 0) { auto t = vtk_tokens(s); Span sp = t[f.target]; target = "token#" + std::to_string(f.target) + "='" + s.substr(sp.b, std::min<size_t>(sp.e - sp.b, 24)) + "'"; return vtk_token_op(s, sp, f.op, f.op >= TOK_VALUE0 ? value_text(f.op - TOK_VALUE0) : ""); }
    if (f.cls == 0) { auto el = xml_elems(s); const Elem& x = el[f.target]; target = "<" + x.name + ">#" + std::to_string(f.target); return xml_elem_op(s, x, f.op, f.op >= TOK_VALUE0 ? value_text(f.op - TOK_VALUE0) : ""); }
    if (f.cls == 1) { auto L = lines_of(s); bool hn = f.target + 1 < (long)L.size(); target = "line#" + std::to_string(f.target); return block_op(s, L[f.target], hn, hn ? L[f.target + 1] : Span{0, 0}, f.op); }
    if (f.cls == 2 && f.file == 0) { auto L = vtk_sections(s); bool hn = f.target + 1 < (long)L.size(); target = "section#" + std::to_string(f.target) + "='" + s.substr(L[f.target].b, std::min<size_t>(12, L[f.target].e - L[f.target].b - 1)) + "'"; return block_op(s, L[f.target], hn, hn ? L[f.target + 1] : Span{0, 0}, f.op); }
    if (f.cls == 2) { auto el = xml_elems(s); const Elem& x = el[f.target]; int nx = next_sibling(el, (int)f.target); target = "<" + x.name + ">#" + std::to_string(f.target);
        return block_op(s, {x.ob, x.ce}, nx >= 0, nx >= 0 ? Span{el[nx].ob, el[nx].ce} : Span{0, 0}, f.op); }
    if (f.cls == 5) {   // the file ends inside a very long word: nothing, not even a newline, follows it
        auto t = vtk_tokens(s); Span sp = t[f.target]; target = "token#" + std::to_string(f.target) + " (file ends after it)"; return s.substr(0, sp.b) + value_text(N_VALUES - 1); }
    if (f.cls == 4) {
        std::vector<Span> t = vtk_tokens(s); std::vector<std::string> role = vtk_roles(s); std::string r = s;
        if (f.op == 4) { size_t a = std::string::npos, b2 = 0; for (size_t k = 0; k < t.size(); k++) { if (role[k] == "points_count") r.replace(t[k].b, t[k].e - t[k].b, std::string(t[k].e - t[k].b, '0')); if (role[k] == "coord") { if (a == std::string::npos) a = t[k].b; b2 = t[k].e; } }
            target = "all points"; if (a != std::string::npos) r.erase(a, b2 - a); return r; }
        long c = -1; size_t first = 0, last = 0, nfaces = 0;
        for (size_t k = 0; k < t.size(); k++) { if (role[k] == "cell_len") { c++; if (c == f.target) first = k; } if (c == f.target && (role[k] == "cell_len" || role[k] == "face_count" || role[k] == "face_len" || role[k] == "face_index")) { last = k; if (role[k] == "face_len") nfaces++; } }
        if (f.op == 5) {   // the record keeps two of its faces that share no point: two open patches (every edge has one face) with V - E + F = 2, the value of a closed surface
            std::vector<std::vector<std::string>> F; for (size_t k = first; k <= last; k++) { if (role[k] == "face_len") F.emplace_back(); else if (role[k] == "face_index" && !F.empty()) F.back().push_back(s.substr(t[k].b, t[k].e - t[k].b)); }
            size_t B = 0; for (size_t j = 1; j < F.size() && !B; j++) { bool common = false; for (auto& x : F[j]) for (auto& y : F[0]) if (x == y) common = true; if (!common) B = j; }
            target = "cell#" + std::to_string(f.target); if (!B) return r;
            std::string rec; size_t len = 1; for (size_t j : {(size_t)0, B}) { rec += " " + std::to_string(F[j].size()); for (auto& x : F[j]) rec += " " + x; len += 1 + F[j].size(); }
            const long len_old = atol(s.substr(t[first].b, t[first].e - t[first].b).c_str());
            r.replace(t[first].b, t[last].e - t[first].b, std::to_string(len) + " 2" + rec);
            // the declared number of integers of the CELLS section follows the record (the token lies before the record: positions up to it are unchanged)
            for (size_t k = 0; k + 2 < t.size() && k < first; k++) if (s.substr(t[k].b, t[k].e - t[k].b) == "CELLS") { const long tot = atol(s.substr(t[k + 2].b, t[k + 2].e - t[k + 2].b).c_str()); r.replace(t[k + 2].b, t[k + 2].e - t[k + 2].b, std::to_string(tot - len_old + (long)len)); break; }
            return r; }
        std::string repl = f.op == 0 ? "0" : f.op == 1 ? "0     " : f.op == 2 ? "1 0" : std::to_string(1 + nfaces) + " " + std::to_string(nfaces);
        if (f.op == 3) for (size_t j = 0; j < nfaces; j++) repl += " 0";
        target = "cell#" + std::to_string(f.target); r.replace(t[first].b, t[last].e - t[first].b, repl); return r;
    }
    target = "offset=" + std::to_string(f.target); return s.substr(0, (size_t)f.target);
}

// one random edit of a (possibly already mutated) file
std::string random_edit(const std::string& s, int file, Rng& g, std::string& opname) {
    std::string k = FILE_NAMES[file]; double u = g.uni();
    auto rnd_value = [&](const std::string& neighbour) -> std::string {
        double q = g.uni();
        if (q < 0.45) { int v = g.range(0, N_VALUES - 1); if (v == N_VALUES - 1 && !g.coin(0.1)) v = 3; return value_text(v); }
        if (q < 0.9) return g.pick(EXTRA_VALUES);
        return neighbour; };
    if (s.empty()) { opname = k + ".bytes.insert"; return std::string(1, (char)g.range(0, 255)); }
    if (u < 0.5) {
        int op = g.range(0, 3); if (op == 3) op = TOK_VALUE0;
        if (file == 0) { auto t = vtk_tokens(s); if (!t.empty()) { size_t a = g.u64() % t.size(), nb = g.u64() % t.size(); opname = k + ".token." + (op >= TOK_VALUE0 ? "value" : tokop_name(op)); return vtk_token_op(s, t[a], op, rnd_value(s.substr(t[nb].b, t[nb].e - t[nb].b))); } }
        else { auto el = xml_elems(s); std::vector<int> lv; for (size_t j = 0; j < el.size(); j++) if (el[j].leaf) lv.push_back((int)j);
            if (!lv.empty()) { const Elem& x = el[g.pick(lv)]; const Elem& y = el[g.pick(lv)]; opname = k + ".elem." + (op >= TOK_VALUE0 ? "value" : tokop_name(op)); return xml_elem_op(s, x, op, rnd_value(s.substr(y.oe, y.cb - y.oe))); } }
    }
    if (u < 0.6) { auto L = lines_of(s); size_t a = g.u64() % L.size(); int op = g.range(0, 2); bool hn = a + 1 < L.size(); opname = k + ".line." + blkop_name(op); return block_op(s, L[a], hn, hn ? L[a + 1] : Span{0, 0}, op); }
    if (u < 0.7) {
        int op = g.range(0, 2);
        if (file == 0) { auto L = vtk_sections(s); size_t a = g.u64() % L.size(); bool hn = a + 1 < L.size(); opname = k + ".section." + blkop_name(op); return block_op(s, L[a], hn, hn ? L[a + 1] : Span{0, 0}, op); }
        auto el = xml_elems(s); std::vector<int> nl; for (size_t j = 0; j < el.size(); j++) if (!el[j].leaf) nl.push_back((int)j);
        if (!nl.empty()) { int a = g.pick(nl); int nx = next_sibling(el, a); opname = k + ".section." + blkop_name(op); return block_op(s, {el[a].ob, el[a].ce}, nx >= 0, nx >= 0 ? Span{el[nx].ob, el[nx].ce} : Span{0, 0}, op); }
    }
    if (u < 0.75) { opname = k + ".trunc"; return s.substr(0, g.u64() % s.size()); }
    std::string r = s; size_t p = g.u64() % s.size(); double q = g.uni();
    if (q < 0.35) { opname = k + ".bytes.flip"; r[p] = g.coin(0.7) ? (char)g.range(32, 126) : (char)g.range(0, 255); }
    else if (q < 0.6) { opname = k + ".bytes.insert"; int n = g.range(1, 8); std::string ins; for (int j = 0; j < n; j++) ins += g.coin(0.8) ? "0123456789 .-+eE<>/\n"[g.range(0, 19)] : (char)g.range(0, 255); r.insert(p, ins); }
    else if (q < 0.85) { opname = k + ".bytes.delete"; r.erase(p, (size_t)g.range(1, 20)); }
    else { opname = k + ".bytes.copy"; size_t n = 1 + g.u64() % std::min<size_t>(64, s.size() - p); r.insert(g.u64() % s.size(), s.substr(p, n)); }
    return r;
}

Mutant make_mutant(const World& w, long i, uint64_t seed, const std::string& mesh_path_for_vtk_mutant) {
    Mutant m;
    if (i < (long)w.cat.size()) {
        const Fault& f = w.cat[i]; m.base = f.base; m.opname = fault_opname(f);
        if (f.file == 0) { m.vtk = apply_fault(w.bases[f.base].vtk, f, m.target); m.vtk_mutated = true; m.xml = w.bases[f.base].xml_head + mesh_path_for_vtk_mutant + w.bases[f.base].xml_tail; }
        else { m.xml = apply_fault(w.xml[f.base], f, m.target); m.xml_mutated = true; }
        m.ops.push_back(m.opname);
        return m;
    }
    Rng g(seed, (uint64_t)i, 0x17);
    m.base = g.range(0, w.nbases - 1); m.opname = "random"; m.vtk = w.bases[m.base].vtk;
    m.xml = w.bases[m.base].xml_head + mesh_path_for_vtk_mutant + w.bases[m.base].xml_tail; m.vtk_mutated = true;   // the mesh file is always written for random mutants
    int k = g.range(2, 5); int which = g.range(0, 2);   // 0: mesh only, 1: parameters only, 2: both
    for (int j = 0; j < k; j++) {
        int file = which == 2 ? (int)g.coin() : which; std::string opn;
        if (file == 0) m.vtk = random_edit(m.vtk, 0, g, opn); else { m.xml = random_edit(m.xml, 1, g, opn); m.xml_mutated = true; }
        m.ops.push_back(opn);
    }
    m.target = std::to_string(k) + " edits";
    return m;
}

// ------------------------------------------------------------------------------------------------
bool write_file(const std::string& path, const std::string& content) {
    std::string tmp = path + ".tmp" + std::to_string((long)getpid());
    FILE* f = fopen(tmp.c_str(), "wb"); if (!f) return false;
    bool ok = fwrite(content.data(), 1, content.size(), f) == content.size(); ok = (fclose(f) == 0) && ok;
    if (!ok || rename(tmp.c_str(), path.c_str()) != 0) { unlink(tmp.c_str()); return false; }
    return true;
}

uint64_t g_child_seed = 0;
uint64_t child_rng_seed(int site, uint64_t ctx) { return hash_combine(hash_combine(g_child_seed, (uint64_t)site), ctx); }

void child_terminate_handler() {
    // same first line as libstdc++'s verbose handler (tools/runner.py derives the key from it) + where it happened
    std::type_info* t = abi::__cxa_current_exception_type();
    if (t) { int st = 0; char* dn = abi::__cxa_demangle(t->name(), nullptr, nullptr, &st); fprintf(stderr, "terminate called after throwing an instance of '%s'\n", st == 0 && dn ? dn : t->name());
        try { throw; } catch (const std::exception& e) { fprintf(stderr, "  what():  %s\n", e.what()); } catch (...) {} }
    else fprintf(stderr, "terminate called without an active exception\n");
    if (__sanitizer_print_stack_trace) __sanitizer_print_stack_trace();
    fflush(stderr);
    abort();
}

// try{ work }catch(const std::exception&) as in main().  main() has no catch(...): a non-std exception would reach
// std::terminate there; here it is reported as such.
std::string guarded(const std::function<std::string()>& work) {
    std::set_terminate(child_terminate_handler);
    verif::get().rng_seed = child_rng_seed;
    try {
        return work();
    } catch (const std::exception& e) {
        int st = 0; char* dn = abi::__cxa_demangle(typeid(e).name(), nullptr, nullptr, &st);
        std::string what = e.what(); if (what.size() > 160) what.resize(160);
        return std::string("exception type=") + (st == 0 && dn ? dn : typeid(e).name()) + " what=" + what;
    } catch (...) {
        return "nonstd";
    }
}
// What main() does at start-up
std::string startup_body(const std::string& param_path) {
    return guarded([&]() { simulation_initializer sim_init(param_path, /*verbose=*/false); return "completed cells=" + std::to_string(sim_init.get_cell_lst().size()); });
}

// ASan reports that say nothing about the product: its operator new aborts instead of throwing bad_alloc / length_error, and its
// stack frames are several times larger than the product's.  Such mutants are judged by the uninstrumented build (RLIMIT_AS 4 GB).
bool is_allocator_artefact(const std::string& err) {
    static const char* pats[] = {"AddressSanitizer: stack-overflow", "allocation-size-too-big", "out-of-memory", "out of memory", "requested allocation size", "failed to allocate", "hard rss limit exhausted",
                                 "calloc-overflow", "rss-limit-exceeded", "soft rss limit", "exceeds maximum supported size"};
    for (auto p : pats) if (err.find(p) != std::string::npos) return true;
    return false;
}
// own reading of <perform_initial_triangulation>: with surface reconstruction on, run time and memory depend on
// geometry / min_edge_length (semantic mis-specification, DESIGN C17 "Limits"), so the budget rules do not apply.
bool triangulation_on(const std::string& xml) {
    size_t p = xml.find("<perform_initial_triangulation>"); if (p == std::string::npos) return false;
    return strtol(xml.c_str() + p + 31, nullptr, 10) != 0;
}
std::string local_key(const IsoResult& r) {
    size_t p = r.err.find("ERROR: AddressSanitizer: "); if (p != std::string::npos) { size_t e = r.err.find_first_of(" \n", p + 25); return "asan:" + r.err.substr(p + 25, e - p - 25); }
    p = r.err.find("runtime error: "); if (p != std::string::npos) return "ubsan:" + r.err.substr(p + 15, 30);
    p = r.err.find("terminate called"); if (p != std::string::npos) { size_t e = r.err.find('\n', p); return r.err.substr(p, std::min<size_t>(e - p, 90)); }
    return r.timeout ? "timeout" : "signal:" + std::to_string(r.signal) + "/exit:" + std::to_string(r.exit_code);
}

int cmd_startup(const Args& a) {
    World w; w.bases = make_bases(); w.nbases = (int)std::min<long>(std::max<long>(a.geti("bases", 1), 1), (long)w.bases.size());
    char cwd[4096]; w.wd = a.get("wd", getcwd(cwd, sizeof cwd) ? cwd : ".");
    for (int b = 0; b < w.nbases; b++) w.xml.push_back(w.bases[b].xml_head + w.base_mesh_path(b) + w.bases[b].xml_tail);
    build_catalogue(w);
    const long n_enum = (long)w.cat.size();
    if (a.get("mode") == "count") { std::vector<long> vs, xs; for (int b = 0; b < w.nbases; b++) { vs.push_back((long)w.bases[b].vtk.size()); xs.push_back((long)w.xml[b].size()); }
        // the base pairs are also written out (seeds of the libFuzzer campaigns, and for the reader of the evidence)
        mkdir(w.wd.c_str(), 0777); for (int b = 0; b < w.nbases; b++) { write_file(w.base_mesh_path(b), w.bases[b].vtk); write_file(w.wd + "/base" + std::to_string(b) + ".xml", w.xml[b]); }
        J j; j.i("count", n_enum).raw("per_base", jarrl(w.per_base)).raw("vtk_bytes", jarrl(vs)).raw("xml_bytes", jarrl(xs)); printf("%s\n", j.str().c_str()); return 0; }

    mkdir(w.wd.c_str(), 0777);
    for (int b = 0; b < w.nbases; b++) if (!write_file(w.base_mesh_path(b), w.bases[b].vtk)) { fprintf(stderr, "cannot write into %s\n", w.wd.c_str()); return 2; }
    const bool plain_rerun = a.geti("judge_plain", 0) != 0;            // uninstrumented re-run of allocator artefacts: RLIMIT_AS 4 GB
    const size_t as_limit_mb = (size_t)a.geti("as_limit_mb", plain_rerun ? 4096 : 0);
    const double rss_limit_kb = a.getd("rss_limit_mb", 2048) * 1024.0;
    Agg agg; agg.max_viol = 100000; agg.max_samples = 3;

    // the slowest legitimate case of the tier defines the CPU budget (x100)
    double legit_max = 0; long legit_rss = 0;
    for (int b = 0; b < w.nbases; b++) {
        std::string px = w.wd + "/base" + std::to_string(b) + ".s" + std::to_string(a.shard_i) + ".xml"; write_file(px, w.xml[b]);
        for (int rep = 0; rep < 3; rep++) {
            g_child_seed = hash_combine(a.seed, 0xba5e + b);
            IsoResult r = run_isolated([&]() { return startup_body(px); }, 60, 180, as_limit_mb);
            legit_max = std::max(legit_max, r.cpu_s); legit_rss = std::max(legit_rss, r.maxrss_kb);
            if (rep == 0) { agg.bin("base:" + w.bases[b].name + ":" + (r.completed ? r.line.substr(0, r.line.find(' ')) : "crashed"));
                if (r.completed && r.line.rfind("completed", 0) == 0) agg.bin("bases_completed");
                if (!r.completed) { Case c(-1 - b); c.v = "inconclusive"; c.msg = "unmutated base pair '" + w.bases[b].name + "' did not run: " + r.err.substr(0, 600); emit(c.line()); } }
        }
        unlink(px.c_str());
    }
    // CPU budget of a mutant = 100 x slowest legitimate case x max(1, mutant bytes / base bytes): "does not return" must not be
    // confused with the linear cost of reading a 100 kB token (the 10^5-digit operator makes the input ~20x larger than the base)
    const double budget0 = a.getd("cpu_budget", std::max(100.0 * legit_max, 1.0));   // never below the 1 s resolution of RLIMIT_CPU
    agg.maxi("legit_cpu_s_max", legit_max); agg.maxi("cpu_budget_s_base_size", budget0); agg.maxi("legit_maxrss_kb", (double)legit_rss);

    std::vector<long> todo;
    if (a.only >= 0) todo.push_back(a.only);
    else if (!a.get("listfile").empty()) { std::ifstream lf(a.get("listfile")); long v, pos = 0; while (lf >> v) { if ((pos++ % a.shard_n) == a.shard_i) todo.push_back(v); } }
    else for (long i = a.first; i < a.first + a.cases; i++) if (a.mine(i)) todo.push_back(i);

    // run one input in a forked child and classify what happened; returns the outcome name and whether the input must be kept
    struct Verdict { std::string outcome, lk; bool keep = false; IsoResult r; double budget = 0; };
    auto judge = [&](long i, const std::function<std::string()>& body, size_t input_size, size_t base_size, bool tri_on, Case& c, const std::string& grp, const std::string& label) -> Verdict {
        Verdict V; V.budget = budget0 * std::max(1.0, (double)input_size / (double)base_size);
        g_child_seed = hash_combine(a.seed, (uint64_t)i);
        IsoResult& r = V.r; bool over_budget = false; int attempts = 0;
        for (;;) {
            attempts++;
            r = run_isolated(body, std::ceil(V.budget) + 1, 3 * V.budget + 30, as_limit_mb);
            over_budget = r.timeout || r.cpu_s > V.budget;
            if (!over_budget || attempts == 2 || tri_on || !plain_rerun) break;
            agg.bin("budget_exceeded_once_rerun");       // the statement is about termination: decided by a second run
        }
        // Budgets are decided on the uninstrumented build: ASan poisons the shadow of every (even untouched) allocation, so a large
        // reserve() costs seconds and gigabytes there and nothing in the product.  In the ASan build an overrun only defers the input.
        const bool rss_excess = r.maxrss_kb > rss_limit_kb && input_size < (1u << 20);
        if (!plain_rerun && !tri_on && (over_budget || (rss_excess && r.completed))) {
            V.outcome = "deferred_to_plain"; V.lk = over_budget ? "asan_build:cpu_budget" : "asan_build:resident_memory";
            c.obs.d("cpu_s", r.cpu_s).i("maxrss_kb", r.maxrss_kb).s("result", V.lk);
            J j; j.i("i", i).s("v", "defer").s("why", V.lk).raw("obs", c.obs.str()); emit(j.str());
            agg.bin("outcome:" + grp + ":" + V.outcome); agg.add(c); return V;
        }
        c.obs.d("cpu_s", r.cpu_s).i("maxrss_kb", r.maxrss_kb).s("result", r.completed ? r.line.substr(0, 200) : local_key(r));
        agg.maxi(tri_on ? "cpu_over_budget_ratio_with_triangulation_on_not_judged" : r.completed ? "cpu_over_budget_ratio" : "cpu_over_budget_ratio_incl_sanitizer_report_printing", r.cpu_s / V.budget); agg.maxi("maxrss_over_limit_ratio", r.maxrss_kb / rss_limit_kb); agg.maxi("mutant_cpu_s_max", r.cpu_s);
        std::string& outcome = V.outcome;
        if (over_budget && tri_on) { outcome = "excluded_budget_with_triangulation_on"; c.v = "skip"; }
        else if (over_budget) { outcome = "does_not_return"; V.keep = true; V.lk = "timeout"; r.timeout = true; emit(crash_line(i, r, c.obs.str())); }
        else if (!r.completed) {
            V.lk = local_key(r);
            if (!plain_rerun && is_allocator_artefact(r.err)) { outcome = "deferred_to_plain"; J j; j.i("i", i).s("v", "defer").s("why", V.lk).raw("obs", c.obs.str()); emit(j.str()); }
            else if (tri_on && is_allocator_artefact(r.err)) { outcome = "excluded_budget_with_triangulation_on"; c.v = "skip"; }
            else { outcome = "crash"; V.keep = true; emit(crash_line(i, r, c.obs.str())); }
        }
        else if (r.line.rfind("nonstd", 0) == 0) { outcome = "nonstd_exception"; V.keep = true; V.lk = "nonstd"; c.viol("nonstd_exception", "an exception that is not derived from std::exception escaped (main would terminate): " + label); }
        else if (rss_excess && !tri_on) { outcome = "memory_disproportionate"; V.keep = true; V.lk = "rss";
            c.viol("memory_disproportionate", std::to_string(r.maxrss_kb / 1024) + " MB resident for an input of " + std::to_string(input_size) + " bytes: " + label); }
        else if (r.line.rfind("completed", 0) == 0) outcome = "accepted";
        else { outcome = "rejected"; size_t p = r.line.find("type="), e = r.line.find(' ', p); agg.bin("exception:" + r.line.substr(p + 5, e - p - 5)); }
        agg.bin("outcome:" + grp + ":" + outcome);
        if (outcome == "crash" || outcome == "does_not_return") { agg.evaluations++; if (c.nontrivial) { agg.nontrivial++; agg.sigs[c.sig] = 1; } }   // crash lines were emitted directly
        else agg.add(c);
        return V;
    };

    // --mode=files: judge given files (artefacts of the libFuzzer campaigns, kept replay inputs) with the same rules.
    //   --what=mesh: mesh_reader alone; --what=param: parameter_reader alone; --what=startup: the file is a parameter file for start-up
    if (a.get("mode") == "files") {
        std::vector<std::string> paths; { std::ifstream lf(a.get("filelist")); std::string l; while (std::getline(lf, l)) if (!l.empty()) paths.push_back(l); }
        const std::string what = a.get("what", "startup");
        const bool have_list = !a.get("listfile").empty(); std::set<long> sel(todo.begin(), todo.end());      // --listfile: positions in the file list (this shard's share)
        for (long i = 0; i < (long)paths.size(); i++) {
            if (a.only >= 0 ? i != a.only : have_list ? !sel.count(i) : (i % a.shard_n) != a.shard_i) continue;
            const std::string path = paths[i]; std::string content; { std::ifstream f(path, std::ios::binary); std::stringstream ss; ss << f.rdbuf(); content = ss.str(); }
            std::function<std::string()> body;
            if (what == "mesh") body = [path]() { return guarded([&]() { mesh_reader mr(path, false); std::vector<mesh> ml = mr.read(); std::vector<short> t = mr.get_cell_types(); return "completed cells=" + std::to_string(ml.size()) + " types=" + std::to_string(t.size()); }); };
            else if (what == "param") body = [path]() { return guarded([&]() { parameter_reader pr(path); global_simulation_parameters g = pr.read_numerical_parameters(); auto ct = pr.read_biomechanical_parameters(); return "completed cell_types=" + std::to_string(ct.size()); }); };
            else body = [path]() { return startup_body(path); };
            Case c(i); c.sig = hash_str(content); c.nontrivial = true;
            c.obs.s("what", what).s("files", path).i("vtk_bytes", what == "mesh" ? (long long)content.size() : 0).i("xml_bytes", what == "mesh" ? 0 : (long long)content.size()).s("op", "file:" + what).s("target", path.substr(path.rfind('/') + 1)).s("base", "-");
            size_t base_size = what == "mesh" ? w.bases[0].vtk.size() : w.xml[0].size();
            judge(i, body, content.size(), base_size, what == "startup" && triangulation_on(content), c, "files:" + what, what + " " + path);
        }
        agg.flush(a.shard_i);
        return 0;
    }

    std::map<std::string, std::pair<long, size_t>> kept;   // local key -> (count, smallest size kept)
    for (long i : todo) {
        const std::string pv = w.wd + "/m" + std::to_string(i) + ".vtk", px = w.wd + "/m" + std::to_string(i) + ".xml";
        Mutant m = make_mutant(w, i, a.seed, pv);
        const bool is_enum = i < n_enum; const std::string grp = is_enum ? "enum" : "random";
        if (m.vtk_mutated && !write_file(pv, m.vtk)) { fprintf(stderr, "cannot write %s\n", pv.c_str()); return 2; }
        if (!write_file(px, m.xml)) { fprintf(stderr, "cannot write %s\n", px.c_str()); return 2; }
        const size_t input_size = (m.vtk_mutated ? m.vtk.size() : w.bases[m.base].vtk.size()) + m.xml.size();
        Case c(i);
        c.sig = hash_combine(hash_str(m.vtk_mutated ? m.vtk : std::string("base")), hash_str(m.xml));
        c.nontrivial = (m.vtk_mutated && m.vtk != w.bases[m.base].vtk) || (m.xml_mutated && m.xml != w.xml[m.base]);
        c.obs.s("base", w.bases[m.base].name).s("op", m.opname).s("target", m.target).i("vtk_bytes", (long long)(m.vtk_mutated ? m.vtk.size() : 0)).i("xml_bytes", (long long)m.xml.size())
             .s("files", m.vtk_mutated ? pv + " " + px : px);
        if (!is_enum) c.obs.raw("ops", jarrs(m.ops));
        for (auto& o : m.ops) agg.bin("op:" + grp + ":" + o);
        if (is_enum && w.cat[i].cls == 3) agg.bin(std::string("trunc_offsets:") + FILE_NAMES[w.cat[i].file] + ":base" + std::to_string(m.base));
        if (!c.nontrivial) agg.bin("mutant_identical_to_base");
        agg.bin(std::string("file_kind:") + (m.vtk_mutated && m.vtk != w.bases[m.base].vtk ? "vtk" : "") + (m.xml_mutated ? "xml" : ""));
        Verdict V = judge(i, [&]() { return startup_body(px); }, input_size, w.bases[m.base].vtk.size() + w.xml[m.base].size(), triangulation_on(m.xml), c, grp, m.opname + " " + m.target);
        if (is_enum) agg.bin("enum:" + m.opname + "=>" + V.outcome);
        if (is_enum) { const std::string cls = must_reject_class(w, w.cat[i]);
            if (!cls.empty()) { agg.bin("must_reject:" + cls + (V.outcome == "accepted" ? "=>ACCEPTED" : "=>" + V.outcome));
                if (V.outcome == "accepted") { Case c2(i); c2.sig = c.sig; c2.obs.s("base", w.bases[m.base].name).s("op", m.opname).s("target", m.target).i("vtk_bytes", (long long)(m.vtk_mutated ? m.vtk.size() : 0)).i("xml_bytes", (long long)m.xml.size()).s("files", m.vtk_mutated ? pv + " " + px : px).s("result", V.r.line.substr(0, 100));
                    c2.viol("accepted_malformed:" + cls, "start-up completed on an input that must be diagnosed (" + cls + "): " + m.opname + " " + m.target); emit(c2.line()); V.keep = true; V.lk = "accepted:" + cls; } } }
        // keep only the inputs that violate (a few per kind, and every new smallest one), as replay artefacts
        bool keep = V.keep;
        if (keep) { auto& kc = kept[V.lk]; size_t sz = input_size; if (kc.first >= 4 && sz >= kc.second) keep = false; if (keep) { kc.first++; kc.second = kc.first == 1 ? sz : std::min(kc.second, sz); } }
        if (!keep) { if (m.vtk_mutated) unlink(pv.c_str()); unlink(px.c_str()); }
    }
    agg.flush(a.shard_i);
    return 0;
}
Reg r_startup("startup", cmd_startup);

// ---- many cells that are all refused, several threads --------------------------------------------------------------------------------------
// A mesh file of 300 .. 4000 cubes whose cell_type_id has no cell type in the parameter file (or, one file in three, that all lack a face): every
// cell of the parallel initialisation loop fails, most threads hold an exception at the same time.  Start-up must still end with ONE exception
// that main reports - no abort, no corrupted heap.  Each file is started several times (the outcome of a race differs from run to run).
int cmd_startup_many(const Args& a) {
    Agg agg; char cwd[4096]; if (!getcwd(cwd, sizeof cwd)) { perror("getcwd"); return 2; }
    const std::string epi = xml_cell_type(0, "epithelial", xml_face_type(0, "apical", "1e-3") + xml_face_type(1, "lateral", "8e-4") + xml_face_type(2, "basal", "1e-3"), false);
    for (long i = a.first; i < a.first + a.cases; i++) {
        if (!a.mine(i)) continue;
        Rng g(a.seed, (uint64_t)i, 0x17b); Case c(i);
        const int ncell = (int)g.logu(300, 4000), kind = g.range(0, 2), repeats = (int)a.geti("repeats", 6);
        std::vector<std::array<double, 3>> P; std::vector<std::vector<std::vector<unsigned>>> cells; std::vector<int> tids;
        for (int k = 0; k < ncell; k++) { cube_points(P, 3e-5 * k, 1e-5); std::vector<std::vector<unsigned>> cf; const int nf = kind == 2 ? 11 : 12; for (int f = 0; f < nf; f++) cf.push_back({CUBE_TRI[f][0] + 8u * k, CUBE_TRI[f][1] + 8u * k, CUBE_TRI[f][2] + 8u * k}); cells.push_back(cf); tids.push_back(kind == 2 ? 0 : g.range(1, 9)); }
        const std::string vtk = vtk_text(P, cells, tids, false, "double"); Base b; xml_text(b, epi);
        const std::string mp = std::string(cwd) + "/c17m_" + std::to_string((long)getpid()) + "_" + std::to_string(i) + ".vtk", xp = std::string(cwd) + "/c17m_" + std::to_string((long)getpid()) + "_" + std::to_string(i) + ".xml";
        { FILE* f = fopen(mp.c_str(), "w"); if (f) { fputs(vtk.c_str(), f); fclose(f); } f = fopen(xp.c_str(), "w"); if (f) { fputs((b.xml_head + mp + b.xml_tail).c_str(), f); fclose(f); } }
        long rejected = 0, completed = 0;
        for (int r = 0; r < repeats && c.v != "viol"; r++) {
            IsoResult ir = run_isolated([&]() { omp_set_num_threads(a.threads); return startup_body(xp); }, a.getd("cpu_limit", 300), a.getd("cpu_limit", 300) * 3); agg.bin("many_refused_cells_startups");
            if (!ir.completed) { if (ir.timeout) { c.v = "inconclusive"; c.msg = "time-out"; break; }
                c.viol("many_refused_cells:" + local_key(ir), "start-up on a file of " + std::to_string(ncell) + " cells that are all refused (" + (kind == 2 ? "a face missing" : "cell_type_id without a cell type") + "), " + std::to_string(a.threads) + " threads, run " + std::to_string(r + 1) + " of " + std::to_string(repeats) + ": the process died (signal " + std::to_string(ir.signal) + ") " + ir.err.substr(0, 300)); break; }
            if (ir.line.rfind("exception type=", 0) == 0) rejected++; else if (ir.line.rfind("completed", 0) == 0) completed++; else c.viol("many_refused_cells:non_std_exception", ir.line.substr(0, 200));
        }
        unlink(mp.c_str()); unlink(xp.c_str());
        if (c.v != "viol" && completed > 0) c.viol("many_refused_cells:accepted", "start-up completed on a file whose cells must all be refused");
        c.nontrivial = rejected > 0; c.sig = hash_combine((uint64_t)ncell, (uint64_t)kind * 31 + (uint64_t)i);
        c.obs.i("cells", ncell).s("kind", kind == 2 ? "face_missing" : "unknown_cell_type").i("threads", a.threads).i("startups_rejected", rejected);
        agg.bin("many_refused_cells_files"); agg.bin("many_refused_cells_total", ncell);
        if (c.v == "inconclusive") emit(c.line());
        agg.add(c);
    }
    agg.flush(a.shard_i);
    return 0;
}
Reg r_startup_many("startup_many", cmd_startup_many);

}  // namespace
