// C09 — cell division yields two valid daughters or leaves the mother untouched.
//
// Workloads (every case in a forked child: an exception escaping the noexcept functions divide_cell / run
// terminates the child and is observed as such by the parent):
//   (a) "direct": cell_divider::divide_cell(mother, l_min, lmr) on one generated mother;
//   (b) "run":    cell_divider::run(cell_lst, l_min, lmr, max_cell_id, false) on a population of 1-16 cells of
//                 which k are ready to divide, with 1 OpenMP thread and in a few cases 4.
// The mother is a subclass of epithelial_cell that overrides the two virtual functions the divider consults
// (get_cell_division_axis, is_ready_to_divide).  Observation: return value / population afterwards, the
// division_event sink (H7: daughters right after the cut, before refinement), deterministic seeding of the
// Poisson sampling through the rng_seed sink (H2).  All judgements use the harness' own geometry and topology.
#include "vh.hpp"
#include "gen.hpp"
#include "oracle.hpp"
#include "remesh_util.hpp"
#include "verif_hooks.hpp"
#include "cell_divider.hpp"
#include <omp.h>
#include <mutex>
#include <atomic>
#include <typeinfo>

using namespace vh;
using orc::V3; using orc::R;

namespace {

// ---- the dividing mother --------------------------------------------------------------------------------------
class axis_cell : public epithelial_cell {
public:
    vec3 axis_{0., 0., 1.}; bool use_default_axis_ = false; bool ready_ = false;
    mutable vec3 last_axis_{0., 0., 0.}; mutable int axis_calls_ = 0;
    axis_cell(const mesh& m, unsigned id, cell_type_param_ptr ct) : epithelial_cell(m, id, ct) {}
    vec3 get_cell_division_axis() const noexcept override {
        last_axis_ = use_default_axis_ ? epithelial_cell::get_cell_division_axis() : axis_; axis_calls_++; return last_axis_; }
    bool is_ready_to_divide() const noexcept override { return ready_; }
};

// ---- sinks ------------------------------------------------------------------------------------------------------
static uint64_t g_case_seed = 0;
static uint64_t rng_sink(int site, uint64_t ctx) { return hash_combine(hash_combine(g_case_seed, (uint64_t)site + 17), ctx); }   // stateless: thread safe

static std::atomic<unsigned> g_thread_mask{0};
static void sched_sink(int tag, long) { if (tag == 20) g_thread_mask.fetch_or(1u << (omp_get_thread_num() & 31)); }   // which threads executed iterations of run()'s loop
struct Ev { const cell* m; const cell* d1; const cell* d2; R V1, V2, Vm; R pre_excess = 0; R L = 0; bool sides_ok = true; };   // pre_excess: how far a node of a daughter lies beyond the plane right after the cut
static std::mutex g_mu; static std::vector<Ev> g_events;

static std::string fmt(double v) { char b[40]; snprintf(b, sizeof b, "%.6g", v); return b; }
static orc::Geo geo_of(const cell& c) { std::vector<V3> P; std::vector<orc::Tri> T; gen::extract(c, P, T); return orc::geometry(P, T); }

static void div_sink(int stage, const cell* m, const cell* d1, const cell* d2) {
    if (stage != 0 || !m || !d1 || !d2) return;
    Ev e; e.m = m; e.d1 = d1; e.d2 = d2;
    orc::Geo g1 = geo_of(*d1), g2 = geo_of(*d2), gm = geo_of(*m); e.V1 = g1.volume; e.V2 = g2.volume; e.Vm = gm.volume;
    if (const axis_cell* ac = dynamic_cast<const axis_cell*>(m)) {   // the axis the mother has just returned; the plane passes through her own centroid
        V3 n(ac->last_axis_.dx(), ac->last_axis_.dy(), ac->last_axis_.dz()); R nn = n.norm();
        if (nn > 0) { n = n / nn; for (int k = 0; k < 3; k++) e.L = std::max(e.L, gm.hi[k] - gm.lo[k]);
            const cell* d[2] = {d1, d2}; const orc::Geo* gd[2] = {&g1, &g2}; R sg[2];
            for (int k = 0; k < 2; k++) sg[k] = (gd[k]->centroid - gm.centroid).dot(n);
            e.sides_ok = sg[0] * sg[1] < 0;
            for (int k = 0; k < 2; k++) for (const node& nd : cell_tester::nodes(*d[k])) if (nd.is_used()) e.pre_excess = std::max(e.pre_excess, -(V3(nd.pos().dx(), nd.pos().dy(), nd.pos().dz()) - gm.centroid).dot(n) * (sg[k] > 0 ? 1 : -1)); }
    }
    std::lock_guard<std::mutex> lk(g_mu); g_events.push_back(e);
}

// ---- state snapshot of a cell, independent of slot numbering ------------------------------------------------------
struct Snap { uint64_t fp_geo = 0, fp_state = 0, mom = 0, labels = 0; double vol = 0, area = 0, tvol = 0; long nn = 0, nf = 0; unsigned id = 0; const void* ct = nullptr; };
static Snap snap(const cell& c) {
    Snap s; s.fp_geo = rmu::fingerprint(c, false); s.fp_state = rmu::fingerprint(c, true);
    s.vol = c.get_volume(); s.area = c.get_area(); s.tvol = c.get_target_volume(); s.nn = (long)c.get_nb_of_nodes(); s.nf = (long)c.get_nb_of_faces(); s.id = c.get_id(); s.ct = c.get_cell_type().get();
    std::vector<uint64_t> hm;
#if DYNAMIC_MODEL_INDEX == 0
    for (const node& n : cell_tester::nodes(c)) if (n.is_used()) hm.push_back(hash_combine(hash_double(n.momentum().dx()), hash_combine(hash_double(n.momentum().dy()), hash_double(n.momentum().dz()))));
#endif
    std::sort(hm.begin(), hm.end()); uint64_t h = 0x77; for (uint64_t x : hm) h = hash_combine(h, x); s.mom = h;
    std::map<unsigned, long> lc; for (const face& f : cell_tester::faces(c)) if (f.is_used()) lc[cell_tester::type_id(f)]++;
    h = 0x99; for (auto& kv : lc) h = hash_combine(h, hash_combine(kv.first, (uint64_t)kv.second)); s.labels = h;
    return s;
}
static std::string snap_diff(const Snap& a, const Snap& b) {
    if (a.nn != b.nn) return "node_count"; if (a.nf != b.nf) return "face_count";
    if (a.fp_geo != b.fp_geo) return "surface";
    if (a.labels != b.labels) return "face_type_labels"; if (a.mom != b.mom) return "momenta";
    if (a.fp_state != b.fp_state) return "labels_or_momenta_placement";
    if (std::memcmp(&a.vol, &b.vol, 8)) return "volume"; if (std::memcmp(&a.area, &b.area, 8)) return "area"; if (std::memcmp(&a.tvol, &b.tvol, 8)) return "target_volume";
    if (a.id != b.id) return "cell_id"; if (a.ct != b.ct) return "cell_type";
    return "";
}

// ---- what a child reports ---------------------------------------------------------------------------------------
struct Out {
    Case cs; std::map<std::string, long> bins; std::map<std::string, double> maxima; std::vector<std::string> divs;
    explicit Out(long i) : cs(i) {}
    void bin(const std::string& b, long n = 1) { bins[b] += n; }
    void maxi(const std::string& k, double v) { auto it = maxima.find(k); if (it == maxima.end() || v > it->second) maxima[k] = v; }
    std::string str() { if (!divs.empty()) { std::string d = "["; for (size_t k = 0; k < divs.size(); k++) d += (k ? "," : "") + divs[k]; cs.obs.raw("divs", d + "]"); }
        std::ostringstream o; o << cs.line() << "\n"; o << std::setprecision(17); for (auto& kv : bins) o << "B\t" << kv.first << "\t" << kv.second << "\n"; for (auto& kv : maxima) o << "M\t" << kv.first << "\t" << kv.second << "\n"; return o.str(); }
};

// ---- generators ---------------------------------------------------------------------------------------------------
static const char* AXIS_FAM[] = {"random", "longest", "px", "mx", "py", "my", "pz", "mz", "vertex_plane", "near_vertex", "across_both_arms"};
enum { AX_RANDOM = 0, AX_LONGEST, AX_PX, AX_MX, AX_PY, AX_MY, AX_PZ, AX_MZ, AX_VPLANE, AX_NEARV, AX_ACROSS, AX_N };
static const char* REGIME[] = {"product", "raw_match", "raw_coarse", "raw_fine"};
enum { RG_PRODUCT = 0, RG_RAW_MATCH, RG_RAW_COARSE, RG_RAW_FINE };

static vec3 coord_axis(int fam) { switch (fam) { case AX_PX: return vec3(1, 0, 0); case AX_MX: return vec3(-1, 0, 0); case AX_PY: return vec3(0, 1, 0); case AX_MY: return vec3(0, -1, 0); case AX_PZ: return vec3(0, 0, 1); default: return vec3(0, 0, -1); } }

// unit-size shape centred at the origin; `fine`: many short edges (for the regime in which l_min exceeds the edges)
static gen::TriMesh generic_shape(Rng& g, bool fine, std::string& fam) {
    static const int W[] = {0, 0, 0, 3, 3, 3, 7, 7, 7, 1, 2, 4, 5, 6}, WF[] = {0, 0, 3, 3, 1, 2};   // smooth bodies divide more often than flat-faced ones
    gen::TriMesh m; int k = W[g.range(0, 13)];
    if (fine) k = WF[g.range(0, 5)];
    switch (k) {
        case 0: m = gen::icosphere(fine ? g.range(3, 4) : g.range(1, 3)); fam = "icosphere"; break;
        case 1: { int n = fine ? g.range(7, 10) : g.range(2, 5); m = gen::box(n, 1, g.uni(0.6, 1.2), g.uni(0.6, 1.2)); fam = "box"; break; }
        case 2: m = fine ? gen::uvsphere(g.range(24, 36), g.range(12, 18)) : gen::uvsphere(g.range(6, 16), g.range(4, 10)); fam = "uvsphere"; break;
        case 3: { m = gen::icosphere(fine ? g.range(3, 4) : g.range(1, 3)); gen::scale(m, 1, g.uni(0.55, 1), g.uni(0.55, 1)); fam = "ellipsoid"; break; }
        case 4: m = gen::prism(g.range(5, 12), g.range(2, 5), g.uni(0.6, 1.5)); fam = "prism"; break;
        case 5: { m = g.coin() ? gen::icosphere(g.range(2, 3)) : gen::uvsphere(g.range(8, 14), g.range(8, 14)); double a = g.uni(0.25, 0.5); gen::scale(m, a, a, 1); fam = "elongated"; break; }
        case 6: { m = g.coin() ? gen::icosphere(g.range(2, 3)) : gen::uvsphere(g.range(10, 16), g.range(6, 10)); gen::scale(m, 1, 1, g.uni(0.2, 0.4)); fam = "near_flat"; break; }
        default: m = gen::icosphere(g.range(2, 3)); gen::star_deform(m, g, 0.25); fam = "star"; break;
    }
    return m;
}
// symmetric bodies whose coordinate planes through the centre contain mesh vertices
static gen::TriMesh symmetric_shape(Rng& g, std::string& fam) {
    gen::TriMesh m; int k = g.range(0, 3);
    switch (k) {
        case 0: m = gen::icosphere(g.range(0, 3)); fam = "sym_icosphere"; break;
        case 1: m = gen::box(2 * g.range(1, 3), 1, g.coin() ? 1.0 : 0.75, g.coin() ? 1.0 : 0.5); fam = "sym_box"; break;
        case 2: m = gen::uvsphere(4 * g.range(1, 4), 2 * g.range(2, 5)); fam = "sym_uvsphere"; break;
        default: m = gen::prism(2 * g.range(2, 6), 2 * g.range(1, 2), 1); fam = "sym_prism"; break;
    }
    return m;
}

// C-shaped body: a thin elongated spheroid bent in its x-z plane.  The plane through the centroid with normal x crosses both arms, i.e. the
// section consists of two closed contours (the division code follows one contour only).
static gen::TriMesh bent_shape(Rng& g, std::string& fam) {
    gen::TriMesh m = gen::uvsphere(g.range(8, 12), g.range(26, 38)); const double a = g.uni(0.12, 0.18); gen::scale(m, a, a, 1);
    const double total = g.uni(4.0, 5.0), Rb = 2.0 / total;   // bending angle over the length 2 and radius of the centre line: the centroid lies
                                                              // at about -0.7 Rb, beyond the inner side (-a) of the bend, between the two arms
    for (auto& p : m.P) { double ang = p[2] / Rb, r = Rb + p[0]; p[0] = r * std::cos(ang) - Rb; p[2] = r * std::sin(ang); }
    m.name = "bent_spheroid"; fam = "bent"; return m;
}

struct Mother {
    std::shared_ptr<axis_cell> c; std::string shape, axis, regime; double lmin = 0; int axis_fam = 0, regime_id = 0;
    // captured right before the division
    Snap snap0; orc::Geo geo; double L = 0; double tvol = 0; double vplane_min = -1;
    bool tilted = false;
    int section_loops = -1;   // number of closed contours along which the plane (own centroid, configured axis) crosses the surface; -1 unknown
};

static void decorate(cell& c, Rng& g) {   // random face-type labels and node momenta, so that "unchanged" means something
    for (face& f : cell_tester::faces(c)) if (f.is_used()) f.set_face_type_id((unsigned short)g.range(0, 2));
#if DYNAMIC_MODEL_INDEX == 0
    double mag = g.coin(0.2) ? 0.0 : g.logu(1e-12, 1e3);
    for (node& n : cell_tester::nodes(c)) if (n.is_used()) n.set_momentum(vec3(g.normal(), g.normal(), g.normal()) * mag);
#endif
}
// bring the cached quantities to the state they have in the product loop when run() is called
static void refresh(cell& c, Rng& g) {
    c.update_all_face_normals_and_areas(); cell_tester::area(c) = c.compute_area(); cell_tester::volume(c) = c.compute_volume();
    cell_tester::target_area(c) = cell_tester::area(c); cell_tester::target_volume(c) = cell_tester::volume(c) * g.uni(0.8, 1.5);
}

// Builds the mother from an embedded mesh.  Returns "" or the reason why the generator input was rejected.
static std::string build_mother(Mother& M, const gen::TriMesh& mesh, unsigned id, cell_type_param_ptr ct, Rng& g, const local_mesh_refiner& lmr, bool pre_refine) {
    try { M.c = gen::make_cell<axis_cell>(mesh, id, ct); } catch (const std::exception& e) { return std::string("mesh rejected: ") + e.what(); }
    decorate(*M.c, g);
    if (pre_refine) {
        try { lmr.refine_mesh(M.c); } catch (const std::exception& e) { return std::string("pre-refinement threw: ") + e.what(); }
        if (g.coin(0.5)) { try { M.c->rebase(); } catch (const std::exception& e) { return std::string("rebase threw: ") + e.what(); } }
    }
    refresh(*M.c, g);
    rmu::Inv r = rmu::check_cell(*M.c, true);
    if (!r.ok) return "mother does not pass the manifold oracle: " + r.key;
    return "";
}

static void set_axis(Mother& M, Rng& g) {
    axis_cell& c = *M.c; orc::Geo g0 = geo_of(c);
    if (M.axis_fam == AX_LONGEST) { c.use_default_axis_ = true; return; }
    if (M.axis_fam == AX_ACROSS) return;   // set by the caller together with the rotation of the bent body
    if (M.axis_fam >= AX_PX && M.axis_fam <= AX_MZ) { c.axis_ = coord_axis(M.axis_fam);
        // a third of these: almost, but not exactly, along the coordinate axis (tilted by 1e-9 .. 1e-2 rad): no shortcut for aligned axes may apply
        if (g.coin(0.35)) { const double th = g.logu(1e-9, 1e-2), ph = g.uni(0, 2 * M_PI); vec3 a0 = c.axis_; vec3 e1 = std::fabs(a0.dx()) > 0.5 ? vec3(0, 1, 0) : vec3(1, 0, 0); vec3 e2 = a0.cross(e1);
            c.axis_ = (a0 * std::cos(th) + (e1 * std::cos(ph) + e2 * std::sin(ph)) * std::sin(th)).normalize(); M.tilted = true; }
        return; }
    if (M.axis_fam == AX_VPLANE) { c.axis_ = coord_axis(AX_PX + g.range(0, 5)); return; }
    V3 u; do { u = V3(g.normal(), g.normal(), g.normal()); } while (u.norm() < 1e-3L); u = u / u.norm();
    if (M.axis_fam == AX_NEARV) {   // plane through the centroid and (up to rounding) through one mesh vertex
        std::vector<unsigned> live; const auto& nl = cell_tester::nodes(c); for (size_t i = 0; i < nl.size(); i++) if (nl[i].is_used()) live.push_back((unsigned)i);
        const node& v = nl[live[g.u64() % live.size()]]; vec3 cr = c.compute_centroid();
        V3 d = V3(v.pos().dx(), v.pos().dy(), v.pos().dz()) - V3(cr.dx(), cr.dy(), cr.dz());
        if (d.norm() > 0) { V3 w = u - d * (u.dot(d) / d.n2()); if (w.norm() > 1e-3L) u = w / w.norm(); }
    }
    c.axis_ = vec3((double)u.x, (double)u.y, (double)u.z).normalize();
}

static void capture(Mother& M) {
    const cell& c = *M.c; M.snap0 = snap(c); M.geo = geo_of(c); M.tvol = c.get_target_volume();
    M.L = 0; for (int k = 0; k < 3; k++) M.L = std::max(M.L, (double)(M.geo.hi[k] - M.geo.lo[k]));
}

static std::string section_feature(const Mother& M) { return M.section_loops > 1 ? ":plane_crosses_surface_in_several_contours" : ""; }

// ---- oracle for one division that succeeded -------------------------------------------------------------------------
// Volume bound after refinement: see calibration note in checks/C09.py.
static double g_vol_c = 5.0, g_vol_c_fine = 9.0;
static double vol_bound(double lmin, const orc::Geo& gm, int regime) { double reff = 3.0 * (double)(gm.volume / gm.area); double x = lmin / reff; return (regime == RG_RAW_FINE ? g_vol_c_fine : g_vol_c) * x * x; }

static void judge_success(Out& o, const Mother& M, const cell_ptr& d1, const cell_ptr& d2, const Ev* ev, const vec3& axis_used, const std::string& sfx) {
    Case& cs = o.cs; const std::string ctx = " [shape=" + M.shape + " axis=" + M.axis + " regime=" + M.regime + "]";
    const cell_ptr d[2] = {d1, d2}; orc::Geo gd[2]; bool manifold_ok = true;
    for (int k = 0; k < 2; k++) {
        if (!d[k]) { cs.viol("success:null_daughter" + sfx, "a daughter pointer is null" + ctx); return; }
        if (typeid(*d[k]) != typeid(epithelial_cell)) cs.viol("success:daughter_class" + sfx, std::string("daughter is not of the mother's class (epithelial_cell): ") + typeid(*d[k]).name() + ctx);
        if (d[k]->get_cell_type().get() != M.snap0.ct) cs.viol("success:daughter_cell_type" + sfx, "daughter does not share the mother's cell type parameters" + ctx);
        rmu::Inv r = rmu::check_cell(*d[k], true, nullptr, true, &gd[k]);
        if (!r.ok) { manifold_ok = false; cs.viol("success:daughter_invalid:" + r.key + sfx, "daughter " + std::to_string(k + 1) + " after division: " + r.msg + ctx); }
        // bit-exact: the code assigns mother's target volume / 2
        double half = M.tvol / 2; double tv = d[k]->get_target_volume();
        if (std::memcmp(&half, &tv, 8)) cs.viol("success:target_volume" + sfx, "daughter " + std::to_string(k + 1) + " target volume " + fmt(tv) + " != half of the mother's " + fmt(half) + ctx);
    }
    if (!manifold_ok) return;
    // state right after the cut (division_event hook): exact volume identity and exact half spaces
    const R Vm = M.geo.volume;
    if (ev) {
        // exact cut: the interface triangles are shared with opposite winding, the rim points lie on the mother's edges up to rounding
        R err = std::fabs(ev->V1 + ev->V2 - ev->Vm) / ev->Vm, err2 = std::fabs(ev->Vm - Vm) / Vm;
        o.maxi("cut_volume_err_over_tol", (double)(err / 1e-9L));
        if (!(err <= 1e-9L)) cs.viol("success:cut_volume" + sfx, "before refinement V1+V2 differs from the mother's volume by " + fmt((double)err) + " relative" + ctx);
        // an axis closer than sqrt(2 eps) = 1.5e-8 rad to +-z has cos = 1 in double: the rotation to the z axis cannot see the tilt and the cut is
        // off by (tilt x size); the allowance is 1e-9 L plus that much for axes within 3e-8 rad of +-z.  Beyond that the rotation angle is acos(n.z) with
        // n.z one rounding (1.1e-16) away from +-1: the angle, hence the normal of the plane actually used, is off by ~1.1e-16 / tilt rad (3e-9 rad at a
        // tilt of 3.5e-8: observed excess 2.0e-9 L in the thorough tier).  The statement asks for A plane through the centroid: 2.3e-16 / tilt x L more
        R hs_tol = 1e-9L * ev->L; if (const axis_cell* ac = dynamic_cast<const axis_cell*>(M.c.get())) { R sx = ac->last_axis_.dx(), sy = ac->last_axis_.dy(); R tilt = std::sqrt(sx * sx + sy * sy); hs_tol += (tilt < 3e-8L ? tilt : 2.3e-16L / tilt) * ev->L; }
        if (ev->L > 0) { o.maxi("cut_halfspace_excess_over_tol", (double)(ev->pre_excess / hs_tol));
            if (!ev->sides_ok || ev->pre_excess > hs_tol) cs.viol("success:cut_halfspace" + section_feature(M) + sfx, "right after the cut (before refinement) a daughter has a node " + fmt((double)(ev->pre_excess / ev->L)) + " L beyond the division plane" + ctx); }
        if (!(err2 <= 1e-9L)) cs.viol("success:mother_volume_changed_before_cut" + sfx, "the mother's own volume at the division event differs from the one before the call" + ctx);
    }
    // half spaces.  Plane: own area-weighted centroid of the mother (definition the repository documents), normal = axis the mother returned.
    // Forward error: intersection points e1+(e2-e1)t and the back-rotated interface points are on the plane up to a few ulp of the
    // coordinates (<= 1e-14 L for offsets <= 10 L); collapses and splits of the refiner create midpoints only, which stay in a half space.
    V3 n(axis_used.dx(), axis_used.dy(), axis_used.dz()); R nn = n.norm(); if (!(nn > 0)) { cs.viol("success:axis_zero", "axis has zero length" + ctx); return; } n = n / nn;
    R tol = 1e-9L * M.L; V3 ctr = M.geo.centroid;
    { R tilt = std::sqrt(n.x * n.x + n.y * n.y); tol += (tilt < 3e-8L ? tilt : 2.3e-16L / tilt) * M.L; }   // same allowance as right after the cut: the tilt of an axis within sqrt(2 eps) of +-z is not resolved
    R s[2]; for (int k = 0; k < 2; k++) s[k] = (gd[k].centroid - ctr).dot(n);
    if (!(s[0] * s[1] < 0)) cs.viol("success:daughters_same_side" + section_feature(M) + sfx, "the centroids of the two daughters are not on opposite sides of the division plane" + ctx);
    else for (int k = 0; k < 2; k++) {
        R sign = s[k] > 0 ? 1 : -1, worst = 0;
        for (const node& nd : cell_tester::nodes(*d[k])) if (nd.is_used()) { R dist = (V3(nd.pos().dx(), nd.pos().dy(), nd.pos().dz()) - ctr).dot(n) * sign; worst = std::max(worst, -dist); }
        o.maxi("halfspace_excess_over_tol", (double)(worst / tol));
        if (worst > tol) cs.viol("success:halfspace" + section_feature(M) + sfx, "daughter " + std::to_string(k + 1) + " has a node " + fmt((double)(worst / M.L)) + " L beyond the division plane through the mother's centroid" + ctx);
    }
    R defect = std::fabs(gd[0].volume + gd[1].volume - Vm) / Vm; double bound = vol_bound(M.lmin, M.geo, M.regime_id);
    double reff = 3.0 * (double)(M.geo.volume / M.geo.area), x = M.lmin / reff, rs = std::cbrt(3.0 * (double)M.geo.volume / (4 * M_PI));
    o.maxi("refined_volume_defect_rel", (double)defect); o.maxi("refined_volume_defect_over_bound", (double)defect / bound);
    o.maxi("refined_volume_defect_over_x2", (double)defect / (x * x)); o.maxi("refined_volume_defect_over_x3", (double)defect / (x * x * x));
    o.maxi("refined_volume_defect_over_x2|" + M.regime, (double)defect / (x * x));
    { J dj; dj.s("shape", M.shape).s("axis", M.axis).s("regime", M.regime).d("defect", (double)defect).d("x", x).d("xs", M.lmin / rs).i("faces", (long)(d1->get_nb_of_faces() + d2->get_nb_of_faces())); o.divs.push_back(dj.str()); }
    if (!((double)defect <= bound)) cs.viol("success:refined_volume" + sfx, "after refinement |V1+V2-Vm|/Vm = " + fmt((double)defect) + " exceeds " + fmt(bound) + " (l_min/r_eff = " + fmt(x) + ")" + ctx);
    o.bin("daughter_faces", (long)(d1->get_nb_of_faces() + d2->get_nb_of_faces()));
}

static void judge_failure(Out& o, const Mother& M, const std::string& sfx) {
    std::string w = snap_diff(M.snap0, snap(*M.c));
    if (!w.empty()) o.cs.viol("failure:mother_changed:" + w + sfx, "the division did not complete but the mother's " + w + " changed [shape=" + M.shape + " axis=" + M.axis + " regime=" + M.regime + "]");
    rmu::Inv r = rmu::check_cell(*M.c, true);
    if (!r.ok) o.cs.viol("failure:mother_invalid:" + r.key + sfx, "the division did not complete and the mother is no longer a valid surface: " + r.msg);
}

static void bins_for(Out& o, const Mother& M, bool success, bool cut_done) {
    const std::string oc = success ? "success" : "clean_failure";
    o.bin("divisions"); o.bin(oc); o.bin(oc + "|shape:" + M.shape); o.bin(oc + "|axis:" + M.axis); o.bin(oc + "|regime:" + M.regime);
    if (!success) o.bin(cut_done ? "clean_failure:after_cut" : "clean_failure:before_cut");
    if (M.section_loops > 1) o.bin(oc + "|section_with_several_contours"); else if (M.section_loops == 1) o.bin(oc + "|section_with_one_contour");
    if (M.axis_fam == AX_VPLANE || M.axis_fam == AX_NEARV) o.bin(std::string(M.vplane_min == 0 ? "plane_exactly_through_vertex" : M.vplane_min < 1e-12 ? "plane_within_1e-12L_of_vertex" : "plane_not_at_vertex") + "|" + M.axis);
}

static void measure_vplane(Mother& M) {
    const axis_cell& c = *M.c; vec3 cr = c.compute_centroid(); vec3 ax = c.use_default_axis_ ? vec3(0, 0, 0) : c.axis_; double best = 1e300;
    for (const node& n : cell_tester::nodes(c)) if (n.is_used()) best = std::min(best, std::fabs((n.pos() - cr).dot(ax)));
    M.vplane_min = M.L > 0 ? best / M.L : -1;
}

// Number of closed contours of (plane through the own centroid with the configured axis) x (mother's surface): connected components of
// the triangles that have an edge whose end points lie strictly on opposite sides.  A body that is not convex towards the plane
// (a dimple or a spike through it) gives more than one.
static void measure_section(Mother& M) {
    const axis_cell& c = *M.c; M.section_loops = -1; if (c.use_default_axis_) return;
    std::vector<V3> P; std::vector<orc::Tri> T; gen::extract(c, P, T); V3 n(c.axis_.dx(), c.axis_.dy(), c.axis_.dz()); if (!(n.norm() > 0)) return; n = n / n.norm();
    std::vector<int> side(P.size(), 0); for (size_t i = 0; i < P.size(); i++) { R h = (P[i] - M.geo.centroid).dot(n); side[i] = h > 0 ? 1 : h < 0 ? -1 : 0; }
    std::map<uint64_t, std::vector<int>> crossing;   // crossing edge -> triangles
    for (size_t t = 0; t < T.size(); t++) { unsigned v[3] = {T[t].a, T[t].b, T[t].c}; for (int k = 0; k < 3; k++) { unsigned a = v[k], b = v[(k + 1) % 3]; if (side[a] * side[b] < 0) crossing[orc::ekey(std::min(a, b), std::max(a, b))].push_back((int)t); } }
    std::vector<int> parent(T.size()); std::iota(parent.begin(), parent.end(), 0);
    std::function<int(int)> find = [&](int x) { while (parent[x] != x) { parent[x] = parent[parent[x]]; x = parent[x]; } return x; };
    std::set<int> faces; for (auto& kv : crossing) { for (int t : kv.second) faces.insert(t); if (kv.second.size() == 2) parent[find(kv.second[0])] = find(kv.second[1]); }
    std::set<int> roots; for (int t : faces) roots.insert(find(t)); M.section_loops = (int)roots.size();
}

// embeds a unit shape: jitter, rotation, scale, offset.  Symmetric shapes keep their exact coordinates.
static void embed(gen::TriMesh& m, Rng& g, bool symmetric, double& scale) {
    if (symmetric) { scale = g.coin(0.5) ? 1.0 : std::ldexp(1.0, g.range(-20, 3)); gen::scale(m, scale, scale, scale);
        if (g.coin(0.3)) { double t = scale * g.range(-4, 4); gen::translate(m, t, g.coin() ? t : 0.0, 0.0); }   // exact: multiples of a power of two
        return; }
    if (g.coin(0.6)) gen::jitter(m, g, 0.05);
    gen::rotate(m, gen::rot_random(g));
    scale = g.coin(0.4) ? 1.0 : g.logu(1e-6, 1e1); gen::scale(m, scale, scale, scale);
    double off = g.coin(0.5) ? 0.0 : g.uni(0, 10) * scale; gen::translate(m, off * g.uni(-1, 1), off * g.uni(-1, 1), off * g.uni(-1, 1));
    if (g.coin(0.3)) gen::permute(m, g);
}

static int pick_axis_family(Rng& g) {
    double u = g.uni();
    if (u < 0.42) return AX_RANDOM; if (u < 0.52) return AX_LONGEST; if (u < 0.82) return AX_PX + g.range(0, 5); if (u < 0.90) return AX_VPLANE; if (u < 0.96) return AX_NEARV; return AX_ACROSS;
}
static int pick_regime(Rng& g) { double u = g.uni(); return u < 0.55 ? RG_PRODUCT : u < 0.70 ? RG_RAW_MATCH : u < 0.85 ? RG_RAW_COARSE : RG_RAW_FINE; }
static double reff_of(const gen::TriMesh& m) {   // 3V/A: the radius for a sphere, ~1.5 x thickness for a slab
    std::vector<V3> P; std::vector<orc::Tri> T; for (auto& p : m.P) P.push_back(V3(p[0], p[1], p[2])); for (auto& t : m.T) T.push_back({t[0], t[1], t[2]});
    orc::Geo g = orc::geometry(P, T); return (double)(3 * std::fabs(g.volume) / g.area);
}
// The minimum edge length is tied to the body size: x = l_min / r_eff in [x_min, 0.28], i.e. the body stays thicker than the
// refiner's band (l_max = 3 l_min <= 0.84 r_eff); a body smaller than the band is legitimately collapsed by the refiner and the
// statement's "remeshing tolerance" is void there.  Raw meshes are subdivided in place (flat 1:4 split) until the regime's
// ratio between l_min and the mesh's edge length fits under that cap.
static const double X_MAX = 0.28, X_MAX_FINE = 0.15;   // raw_fine: the whole surface is coarsened, keep the body well above the band
static bool choose_lmin(gen::TriMesh& m, int regime, Rng& g, double xmin, double& lmin) {
    const double reff = reff_of(m); double f;
    switch (regime) { case RG_PRODUCT: f = 0; break; case RG_RAW_MATCH: f = g.uni(0.4, 0.6); break; case RG_RAW_COARSE: f = g.uni(0.1, 0.3); break; default: f = g.uni(1.2, 2.2); break; }
    if (regime == RG_PRODUCT) { lmin = std::min(reff * g.logu(std::max(xmin, 0.06), X_MAX), 0.8 * gen::mean_edge(m)); return true; }   // the pre-refinement must not have to coarsen the whole mesh
    for (int it = 0; it < 6; it++) {
        lmin = f * gen::mean_edge(m);
        if (lmin <= (regime == RG_RAW_FINE ? X_MAX_FINE : X_MAX) * reff) { if (lmin < xmin * reff) lmin = xmin * reff; return true; }
        if (m.T.size() * 4 > 12000) return false;
        std::string nm = m.name; m = gen::subdivide(m, false); m.name = nm;
    }
    return false;
}

// ---- workload (a): one direct call of divide_cell ---------------------------------------------------------------------
static std::string run_direct(const Args& a, long i) {
    Rng g(a.seed, (uint64_t)i, 0x09); Out o(i); Case& cs = o.cs;
    g_case_seed = hash_combine(a.seed, (uint64_t)i); verif::get().rng_seed = rng_sink; verif::get().division_event = div_sink;
    omp_set_num_threads(1);
    Mother M; M.axis_fam = a.geti("axis", -1) >= 0 ? (int)a.geti("axis", 0) : pick_axis_family(g); M.regime_id = a.geti("regime", -1) >= 0 ? (int)a.geti("regime", 0) : pick_regime(g);
    M.axis = AXIS_FAM[M.axis_fam]; M.regime = REGIME[M.regime_id];
    const bool symmetric = M.axis_fam == AX_VPLANE;
    gen::TriMesh m; double scale = 1; vec3 arms_axis(1, 0, 0);
    if (M.axis_fam == AX_ACROSS) {
        if (M.regime_id == RG_RAW_FINE) { M.regime_id = RG_PRODUCT; M.regime = REGIME[RG_PRODUCT]; }
        m = bent_shape(g, M.shape); if (g.coin(0.6)) gen::jitter(m, g, 0.05);
        gen::Rot rot = gen::rot_random(g); gen::rotate(m, rot); auto ra = gen::rapply(rot, {g.coin() ? 1.0 : -1.0, 0.0, 0.0}); arms_axis = vec3(ra[0], ra[1], ra[2]).normalize();
        scale = g.coin(0.4) ? 1.0 : g.logu(1e-6, 1e1); gen::scale(m, scale, scale, scale); double off = g.coin(0.5) ? 0.0 : g.uni(0, 10) * scale; gen::translate(m, off * g.uni(-1, 1), off * g.uni(-1, 1), off * g.uni(-1, 1));
    } else { m = symmetric ? symmetric_shape(g, M.shape) : generic_shape(g, M.regime_id == RG_RAW_FINE, M.shape); embed(m, g, symmetric, scale); }
    if (!choose_lmin(m, M.regime_id, g, a.getd("xmin", 0.04), M.lmin)) { cs.v = "skip"; cs.msg = "no admissible l_min within the face budget"; o.bin("skipped_generator_reject"); return o.str(); }
    local_mesh_refiner lmr(M.lmin, 3 * M.lmin);
    auto ct = gen::default_cell_type(3, 0);
    std::string why = build_mother(M, m, (unsigned)g.range(0, 50), ct, g, lmr, M.regime_id == RG_PRODUCT);
    cs.obs.s("workload", "direct").s("shape", M.shape).s("axis", M.axis).s("regime", M.regime).i("faces0", (long)m.T.size()).d("scale", scale).d("lmin_over_mean_edge", M.lmin / gen::mean_edge(m)).d("x", M.lmin / reff_of(m));
    if (!why.empty()) { cs.v = "skip"; cs.msg = why; o.bin("skipped_generator_reject"); return o.str(); }
    if (M.axis_fam == AX_ACROSS) M.c->axis_ = arms_axis;
    set_axis(M, g); capture(M); measure_vplane(M); measure_section(M);
    if (M.tilted) o.bin("axis_tilted_off_a_coordinate_axis");
    cs.obs.i("section_contours", M.section_loops).i("mother_faces", M.snap0.nf).d("vertex_plane_dist_over_L", M.vplane_min);
    { vec3 a0 = M.c->use_default_axis_ ? vec3(0, 0, 0) : M.c->axis_;   // preamble on stderr: a crash / hang line carries the exact input description
      fprintf(stderr, "C09CASE workload=direct shape=%s(%s) axis=%s(%.17g,%.17g,%.17g) regime=%s lmin=%.17g x=%.4g faces=%ld scale=%.6g vertex_plane_dist_over_L=%.3g\n", M.shape.c_str(), m.name.c_str(), M.axis.c_str(), a0.dx(), a0.dy(), a0.dz(), M.regime.c_str(), M.lmin, M.lmin / reff_of(m), M.snap0.nf, scale, M.vplane_min); fflush(stderr); }
    // 6 % of the direct calls: a minimum edge length that is tiny with respect to the cell (1e-9 .. 3e-8 r_eff).  The interface sampling refuses the number of
    // points this asks for; the division cannot be completed and must be abandoned like any other (no exception may escape, the mother stays as she is)
    const bool tiny_lmin = a.geti("tiny_lmin", 1) != 0 && g.coin(0.06); const double lmin_call = tiny_lmin ? reff_of(m) * g.logu(1e-9, 3e-8) : M.lmin;
    if (tiny_lmin) { o.bin("tiny_lmin_at_the_call"); cs.obs.d("lmin_at_the_call_over_reff", lmin_call / reff_of(m)); }
    auto res = cell_divider::divide_cell(M.c, lmin_call, lmr);
    if (tiny_lmin && res.has_value()) { o.bin("tiny_lmin_division_completed"); cs.nontrivial = true; cs.sig = hash_combine(hash_str(M.shape + M.axis + "tiny"), (uint64_t)M.snap0.nf); return o.str(); }
    const Ev* ev = nullptr; for (const Ev& e : g_events) if (e.m == M.c.get()) ev = &e;
    vec3 ax = M.c->last_axis_;
    cs.obs.b("success", res.has_value()).b("cut_done", ev != nullptr).raw("axis_used", jv3(ax.dx(), ax.dy(), ax.dz()));
    bins_for(o, M, res.has_value(), ev != nullptr); if (ev) o.bin("division_events");
    if (res.has_value()) {
        if (!ev) { cs.v = "inconclusive"; cs.msg = "division succeeded but the division_event sink did not fire"; return o.str(); }
        if (res->first.get() != ev->d1 || res->second.get() != ev->d2) cs.viol("success:daughters_replaced_after_cut", "the returned daughters are not the objects presented at the division event");
        judge_success(o, M, res->first, res->second, ev, ax, "");
        // the mother is still the caller's: it must not have been emptied or altered by a successful call either
        std::string w = snap_diff(M.snap0, snap(*M.c)); if (!w.empty()) cs.viol("success:mother_changed_by_divide_cell:" + w, "divide_cell succeeded and altered the mother's " + w + " (the caller replaces her afterwards)");
        cs.obs.i("d1_faces", (long)res->first->get_nb_of_faces()).i("d2_faces", (long)res->second->get_nb_of_faces());
        cs.sig = hash_combine(hash_str(M.shape + M.axis + M.regime), hash_combine(rmu::fingerprint(*res->first, false), rmu::fingerprint(*res->second, false)));   // the daughters' exact surfaces
    } else {
        judge_failure(o, M, "");
        cs.sig = hash_combine(hash_str(M.shape + M.axis + M.regime + "F"), (uint64_t)M.snap0.nf);
    }
    cs.nontrivial = true;
    return o.str();
}

// ---- workload (b): a population through cell_divider::run ---------------------------------------------------------------
static std::string run_population(const Args& a, long i, bool force_single_thread) {
    Rng g(a.seed, (uint64_t)i, 0x0b); Out o(i); Case& cs = o.cs;
    g_case_seed = hash_combine(a.seed, (uint64_t)i); verif::get().rng_seed = rng_sink; verif::get().division_event = div_sink;
    const int nt_drawn = g.coin(a.getd("mt_share", 0.14)) ? 4 : 1; const int nt = force_single_thread ? 1 : nt_drawn; omp_set_num_threads(nt); verif::get().sched_point = sched_sink;
    const std::string sfx = nt > 1 ? "@threads>1" : "";
    const int N = g.coin(0.15) ? 1 : g.range(2, 16); int k = g.coin(0.1) ? N : g.range(1, std::min(N, 6)); if (g.coin(0.05)) k = 0;
    const double scale = g.coin(0.4) ? 1.0 : g.logu(1e-6, 1e1);
    const double lmin = scale * g.logu(std::max(0.08, a.getd("xmin", 0.04)), X_MAX); local_mesh_refiner lmr(lmin, 3 * lmin);   // every cell is scaled to r_eff = scale
    auto ct = gen::default_cell_type(3, 0); auto ct2 = gen::default_cell_type(3, 1);
    std::vector<cell_ptr> lst; std::vector<Mother> mothers; std::vector<int> mother_of(N, -1); std::vector<Snap> before(N);
    std::vector<int> ready_pos; { std::vector<int> perm(N); std::iota(perm.begin(), perm.end(), 0); for (int j = N; j > 1; j--) std::swap(perm[j - 1], perm[g.u64() % j]); ready_pos.assign(perm.begin(), perm.begin() + k); }
    unsigned id_base = (unsigned)g.range(0, 3) * 10;
    for (int p = 0; p < N; p++) {
        bool ready = std::find(ready_pos.begin(), ready_pos.end(), p) != ready_pos.end();
        gen::TriMesh m; std::string fam; Mother M;
        M.axis_fam = ready ? (g.coin(0.12) ? (int)AX_MZ : g.coin(0.7) ? (int)AX_RANDOM : pick_axis_family(g)) : (int)AX_RANDOM;
        if (M.axis_fam == AX_VPLANE || M.axis_fam == AX_ACROSS) M.axis_fam = AX_RANDOM;
        m = generic_shape(g, false, fam); double s1 = 1;
        if (g.coin(0.6)) gen::jitter(m, g, 0.05); gen::rotate(m, gen::rot_random(g)); { double s0 = scale / reff_of(m); gen::scale(m, s0, s0, s0); }
        gen::translate(m, 8.0 * scale * (p % 4), 8.0 * scale * ((p / 4) % 4), (g.coin() ? 0.0 : 8.0 * scale)); (void)s1;
        unsigned id = id_base + (unsigned)p;
        if (ready || g.coin(0.4)) {
            M.shape = fam; M.axis = AXIS_FAM[M.axis_fam]; M.regime_id = RG_PRODUCT; M.regime = "product"; M.lmin = lmin;
            std::string why = build_mother(M, m, id, ct, g, lmr, true);
            if (!why.empty()) { cs.v = "skip"; cs.msg = why; o.bin("skipped_generator_reject"); return o.str(); }
            M.c->ready_ = ready; set_axis(M, g); lst.push_back(M.c);
            if (ready) { mother_of[p] = (int)mothers.size(); mothers.push_back(M); }
        } else {   // bystanders of every class (none of them is ever ready to divide: division volume = infinity)
            int cls = g.range(0, 4); cell_ptr c;
            try { c = gen::make_cell_of_class(cls, m, id, cls == 0 ? ct : ct2); if (g.coin(0.5)) lmr.refine_mesh(c); } catch (const std::exception& e) { cs.v = "skip"; cs.msg = std::string("bystander rejected: ") + e.what(); o.bin("skipped_generator_reject"); return o.str(); }
            decorate(*c, g); refresh(*c, g); lst.push_back(c);
        }
        lst.back()->set_local_id((unsigned)p);
    }
    for (Mother& M : mothers) { capture(M); measure_vplane(M); measure_section(M); }
    for (int p = 0; p < N; p++) before[p] = snap(*lst[p]);
    std::vector<cell_ptr> old = lst; unsigned max_id = id_base + (unsigned)N + (unsigned)g.range(0, 5); const unsigned max_id0 = max_id;
    cs.obs.s("workload", "run").i("cells", N).i("ready", k).i("threads", nt).d("scale", scale).d("lmin_over_scale", lmin / scale);

    { std::string d; for (Mother& M : mothers) d += " " + M.shape + "/" + M.axis; fprintf(stderr, "C09CASE workload=run cells=%d ready=%d threads=%d lmin=%.17g x=%.4g mothers:%s\n", N, k, nt, lmin, lmin / scale, d.c_str()); fflush(stderr); }
    cell_divider::run(lst, lmin, lmr, max_id, false);

    omp_set_num_threads(1);
    auto pos_of = [&](const cell* c) -> long { long f = -1; for (size_t q = 0; q < lst.size(); q++) if (lst[q].get() == c) { if (f >= 0) return -2; f = (long)q; } return f; };
    long successes = 0, failures = 0; std::vector<const cell*> expected_new;
    for (int p = 0; p < N; p++) {
        long q = pos_of(old[p].get());
        if (q == -2) { cs.viol("run:cell_listed_twice" + sfx, "a cell appears twice in the list after run"); continue; }
        if (mother_of[p] < 0) {   // not dividing: must be there, unchanged
            o.bin("bystanders");
            if (q < 0) { cs.viol("run:bystander_removed" + sfx, "a cell that was not ready to divide is no longer in the list"); continue; }
            std::string w = snap_diff(before[p], snap(*old[p])); if (!w.empty()) cs.viol("run:bystander_changed:" + w + sfx, "a cell that was not ready to divide had its " + w + " changed by run");
            continue;
        }
        Mother& M = mothers[mother_of[p]]; const Ev* ev = nullptr; int nev = 0; for (const Ev& e : g_events) if (e.m == M.c.get()) { ev = &e; nev++; }
        if (nev > 1) cs.viol("run:mother_divided_twice" + sfx, "the division event fired more than once for one mother");
        if (ev) o.bin("division_events");
        if (M.c->axis_calls_ != 1) cs.viol("run:ready_cell_attempts" + sfx, "a ready cell was asked for its division axis " + std::to_string(M.c->axis_calls_) + " times instead of once");
        if (q >= 0) {   // still listed: the division did not complete
            failures++; bins_for(o, M, false, ev != nullptr); judge_failure(o, M, sfx);
            if (ev && (pos_of(ev->d1) >= 0 || pos_of(ev->d2) >= 0)) cs.viol("run:daughters_added_but_mother_kept" + sfx, "daughters of a mother that stayed in the list were added to the population");
        } else {
            successes++; bins_for(o, M, true, ev != nullptr);
            if (!ev) { cs.v = "inconclusive"; cs.msg = "a mother left the list but the division_event sink did not fire"; return o.str(); }
            long q1 = pos_of(ev->d1), q2 = pos_of(ev->d2);
            if (q1 < 0 || q2 < 0) { cs.viol("run:mother_removed_without_two_daughters" + sfx, "a mother left the list but her two daughters are not both in it"); continue; }
            expected_new.push_back(ev->d1); expected_new.push_back(ev->d2);
            judge_success(o, M, lst[q1], lst[q2], ev, M.c->last_axis_, sfx);
            for (long qq : {q1, q2}) if (lst[qq]->get_id() < max_id0) cs.viol("run:daughter_id_not_fresh" + sfx, "a daughter received an id below the population's id counter");
        }
    }
    if ((long)lst.size() != N + successes) cs.viol("run:population_count" + sfx, "population size " + std::to_string(lst.size()) + " != N + successes = " + std::to_string(N + successes));
    { long extra = 0; for (auto& c : lst) { bool known = false; for (auto& oc : old) if (oc == c) known = true; for (auto* e : expected_new) if (e == c.get()) known = true; if (!known) extra++; }
      if (extra) cs.viol("run:unexpected_cells" + sfx, std::to_string(extra) + " cells in the list are neither survivors nor daughters of a removed mother"); }
    { std::vector<unsigned> ids; for (auto& c : lst) ids.push_back(c->get_id()); std::sort(ids.begin(), ids.end()); if (std::adjacent_find(ids.begin(), ids.end()) != ids.end()) cs.viol("run:duplicate_cell_id" + sfx, "two cells of the population carry the same id after run");
      if (max_id != max_id0 + 2 * (unsigned)successes) cs.viol("run:id_counter" + sfx, "the id counter advanced by " + std::to_string(max_id - max_id0) + " for " + std::to_string(successes) + " divisions");
      for (unsigned x : ids) if (x >= max_id) cs.viol("run:id_above_counter" + sfx, "a cell id is not below the id counter after run"); }
    for (size_t q = 0; q < lst.size(); q++) if (lst[q]->get_local_id() != q) { cs.viol("run:local_id" + sfx, "get_local_id() of the cell at position " + std::to_string(q) + " is " + std::to_string(lst[q]->get_local_id())); break; }
    const int threads_seen = __builtin_popcount(g_thread_mask.load()); cs.obs.i("threads_seen", threads_seen);
    o.bin("populations"); if (nt > 1) o.bin("populations_multithreaded"); if (threads_seen > 1) o.bin("populations_run_by_several_threads"); if (successes && failures) o.bin("populations_with_success_and_failure"); if (successes > 1) o.bin("populations_with_several_successes");
    o.bin("population_cells", N); o.maxi("population_size", N); o.maxi("ready_cells_in_one_run", k);
    cs.obs.i("successes", successes).i("failures", failures).i("cells_after", (long)lst.size());
    cs.nontrivial = k > 0; cs.sig = hash_combine(hash_combine((uint64_t)N, (uint64_t)k), hash_combine((uint64_t)successes, (uint64_t)lst.size() * 31 + (uint64_t)nt));
    { std::vector<uint64_t> fps; for (auto& c : lst) fps.push_back(rmu::fingerprint(*c, false)); std::sort(fps.begin(), fps.end()); for (uint64_t f : fps) cs.sig = hash_combine(cs.sig, f); }   // order-free: threads append daughters in any order
    return o.str();
}

static int cmd_division(const Args& a) {
    Agg agg; agg.max_samples = 6; g_vol_c = a.getd("vol_c", g_vol_c); g_vol_c_fine = a.getd("vol_c_fine", g_vol_c_fine);
    const double cpu_limit = a.getd("cpu_limit", 120); const double run_share = a.getd("run_share", 0.14); const bool emit_all = a.geti("emit_all", 0) != 0;
    for (long i = a.first; i < a.first + a.cases; i++) {
        if (!a.mine(i)) continue;
        Rng g0(a.seed, (uint64_t)i, 0x90); const bool pop = g0.uni() < run_share;
        IsoResult r = run_isolated([&]() { return pop ? run_population(a, i, false) : run_direct(a, i); }, cpu_limit, cpu_limit * 3);
        agg.maxi("case_cpu_s", r.cpu_s);
        if (!r.completed) { J ob; ob.s("workload", pop ? "run" : "direct"); emit(crash_line(i, r, ob.str())); agg.evaluations++; agg.bin(r.timeout ? "timeout" : "crash"); continue; }
        { std::istringstream es(r.err); std::string el; while (std::getline(es, el)) if (el.rfind("DIVFAIL: ", 0) == 0) agg.bin("diag_fail_reason:" + el.substr(9, 60)); }   // only with a diagnostic build of the repository
        // first line: the case; then "B\tname\tcount" and "M\tname\tvalue" lines
        std::istringstream is(r.line); std::string L, ln; std::getline(is, L);
        while (std::getline(is, ln)) { if (ln.size() < 3) continue; size_t t1 = ln.find('\t', 2); if (t1 == std::string::npos) continue; std::string name = ln.substr(2, t1 - 2), val = ln.substr(t1 + 1);
            if (ln[0] == 'B') agg.bin(name, atol(val.c_str())); else if (ln[0] == 'M') agg.maxi(name, atof(val.c_str())); }
        auto flag = [&](const std::string& k) -> bool { size_t p = L.find("\"" + k + "\":"); return p != std::string::npos && L.compare(p + k.size() + 3, 4, "true") == 0; };
        bool viol = L.find("\"v\":\"viol\"") != std::string::npos;
        if (viol && pop && L.find("@threads>1\"") != std::string::npos) {
            // The statement quantifies over inputs, not over thread schedules: run()'s loop indexes the list while other threads
            // append to it (data race owned by C15), so a multi-threaded population can attempt a cell twice or not at all.  The same
            // population is repeated with one thread; only what is reproduced there is reported here.
            size_t kp = L.find("\"key\":\""); std::string key = kp == std::string::npos ? "?" : L.substr(kp + 7, L.find('"', kp + 7) - kp - 7);
            IsoResult r2 = run_isolated([&]() { return run_population(a, i, true); }, cpu_limit, cpu_limit * 3);
            if (!r2.completed) { J ob; ob.s("workload", "run").s("note", "single-threaded repetition of a multi-threaded anomaly"); emit(crash_line(i, r2, ob.str())); agg.evaluations++; agg.bin(r2.timeout ? "timeout" : "crash"); continue; }
            std::istringstream is2(r2.line); std::string L2; std::getline(is2, L2);
            agg.bin("multithreaded_anomaly_repeated_single_threaded"); agg.bin("multithreaded_anomaly:" + key);
            if (L2.find("\"v\":\"viol\"") == std::string::npos) agg.bin("multithreaded_anomaly_not_reproduced_single_threaded(owned_by_C15)");
            L = L2; viol = L.find("\"v\":\"viol\"") != std::string::npos;
        }
        const bool skip = L.find("\"v\":\"skip\"") != std::string::npos, inc = L.find("\"v\":\"inconclusive\"") != std::string::npos;
        agg.evaluations++; agg.bin(pop ? "cases_run" : "cases_direct");
        if (skip) { agg.skipped++; if (emit_all) emit(L); continue; }
        if (flag("nt")) { agg.nontrivial++; size_t p = L.find("\"sig\":\""); if (p != std::string::npos) agg.sigs[strtoull(L.substr(p + 7, 16).c_str(), nullptr, 16)] = 1; }
        if (viol) { agg.viol_total++; if (agg.viol_total <= (long)agg.max_viol) emit(L); }
        else if (inc || emit_all) emit(L);
        else if (agg.samples.size() < agg.max_samples && flag("nt")) agg.samples.push_back(L);
    }
    agg.flush(a.shard_i);
    return 0;
}
static Reg r_division("division", cmd_division);

}  // namespace
