// C12 — volume, area, centroid, bounding box, face normals and longest axis of a cell are exact and
// frame-independent.
//
// One case = one closed genus-0 mesh B (family from gen.hpp, jitter, anisotropic stretch, scale 1e-6..1e1,
// distance from the origin D/r in {0} U [1e-2,1e3]) + 8 transformed copies X_k of it:
//   perm                 same coordinates, nodes/faces renumbered, face node lists cyclically shifted
//   translate            x' = x + t                         (new D'/r')
//   rotate_centre        x' = R (x - p0) + p0
//   rotate_origin        x' = R x                           (the cell swings around the coordinate origin)
//   rigid                x' = R (x - p0) + p1 , renumbered  (new D'/r')
//   scale_pow2           x' = 2^k x  (same numbering, same windings: every law is an exact identity, checked bit for bit)
//   similarity           x' = s R (x - p0) + p1, renumbered (new D'/r', new size inside 1e-6..1e1)
//   inward_nocheck       all windings reversed, initialize_cell_properties(false) (the path used by
//                        initial_triangulation::convert_mesh_to_cell): the reported volume is still the enclosed volume
// Every build (base and copies but the last) receives one of 9 classes of flipped input windings.
// Every 40th case is instead an *exhaustive* enumeration of all 2^F winding subsets of a small mesh (tetrahedron F = 4,
// octahedron F = 8, box and triangular prism F = 12, in turn).
//
// For each build the repository values are compared with own long-double values computed from the same double
// inputs (orc::geometry, centroid-relative), and the values of the copies are compared with the mapped values of B.
#include "vh.hpp"
#include "gen.hpp"
#include "oracle.hpp"
#include <set>

using namespace vh;
using orc::V3; using orc::R;

namespace {

const R EPS = 2.220446049250313e-16L;   // double precision machine epsilon (2u)

// ---- own small linear algebra (long double) -------------------------------------------------------
struct LRot { R m[3][3]; };
LRot lrot_identity() { LRot r; for (int i = 0; i < 3; i++) for (int j = 0; j < 3; j++) r.m[i][j] = (i == j); return r; }
LRot lrot_random(Rng& g) {   // rotation from a random unit quaternion, evaluated in long double (orthogonal to 1e-19)
    R q[4]; R n = 0; for (int i = 0; i < 4; i++) { q[i] = (R)g.normal(); n += q[i] * q[i]; }
    n = std::sqrt(n); if (n == 0) return lrot_identity(); for (int i = 0; i < 4; i++) q[i] /= n;
    R w = q[0], x = q[1], y = q[2], z = q[3]; LRot r;
    r.m[0][0] = 1 - 2 * (y * y + z * z); r.m[0][1] = 2 * (x * y - z * w); r.m[0][2] = 2 * (x * z + y * w);
    r.m[1][0] = 2 * (x * y + z * w); r.m[1][1] = 1 - 2 * (x * x + z * z); r.m[1][2] = 2 * (y * z - x * w);
    r.m[2][0] = 2 * (x * z - y * w); r.m[2][1] = 2 * (y * z + x * w); r.m[2][2] = 1 - 2 * (x * x + y * y);
    return r;
}
V3 lapply(const LRot& r, const V3& p) {
    return V3(r.m[0][0] * p.x + r.m[0][1] * p.y + r.m[0][2] * p.z, r.m[1][0] * p.x + r.m[1][1] * p.y + r.m[1][2] * p.z, r.m[2][0] * p.x + r.m[2][1] * p.y + r.m[2][2] * p.z);
}
V3 unit_random(Rng& g) { for (;;) { V3 v((R)g.normal(), (R)g.normal(), (R)g.normal()); R n = v.norm(); if (n > 1e-6L) return v / n; } }

// Own symmetric 3x3 eigen-solver: cyclic Jacobi rotations in long double.  lam sorted decreasing, vec[k] = eigenvector k.
struct Eig3 { R lam[3]; V3 vec[3]; };
Eig3 jacobi3(R a[3][3]) {
    R v[3][3] = {{1, 0, 0}, {0, 1, 0}, {0, 0, 1}};
    for (int sweep = 0; sweep < 60; sweep++) {
        R off = std::fabs(a[0][1]) + std::fabs(a[0][2]) + std::fabs(a[1][2]);
        R dia = std::fabs(a[0][0]) + std::fabs(a[1][1]) + std::fabs(a[2][2]);
        if (off <= 1e-40L * dia || off == 0) break;
        for (int p = 0; p < 2; p++) for (int q = p + 1; q < 3; q++) {
            if (a[p][q] == 0) continue;
            R theta = (a[q][q] - a[p][p]) / (2 * a[p][q]);
            R t = (theta >= 0 ? 1 : -1) / (std::fabs(theta) + std::sqrt(theta * theta + 1));
            R c = 1 / std::sqrt(t * t + 1), s = t * c;
            for (int k = 0; k < 3; k++) { R akp = a[k][p], akq = a[k][q]; a[k][p] = c * akp - s * akq; a[k][q] = s * akp + c * akq; }
            for (int k = 0; k < 3; k++) { R apk = a[p][k], aqk = a[q][k]; a[p][k] = c * apk - s * aqk; a[q][k] = s * apk + c * aqk; }
            for (int k = 0; k < 3; k++) { R vkp = v[k][p], vkq = v[k][q]; v[k][p] = c * vkp - s * vkq; v[k][q] = s * vkp + c * vkq; }
        }
    }
    int idx[3] = {0, 1, 2}; std::sort(idx, idx + 3, [&](int i, int j) { return a[i][i] > a[j][j]; });
    Eig3 e; for (int k = 0; k < 3; k++) { e.lam[k] = a[idx[k]][idx[k]]; e.vec[k] = V3(v[0][idx[k]], v[1][idx[k]], v[2][idx[k]]); e.vec[k] = e.vec[k] / e.vec[k].norm(); }
    return e;
}

// ---- inputs ----------------------------------------------------------------------------------------
// Pose-independent description of a build: coordinates (doubles = the exact input), consistently outward triangle
// list (before flips), and the list actually handed to the repository.
struct Build {
    std::vector<std::array<double, 3>> P;        // node coordinates handed to the repository (may contain one orphan node)
    std::vector<std::array<unsigned, 3>> T0;     // consistently oriented triangles (generator winding, renumbered)
    std::vector<std::array<unsigned, 3>> T;      // triangles handed to the repository (some windings flipped)
    int flip_class = 0; long n_flipped = 0; bool orphan = false;
};

const char* FLIP[] = {"none", "all", "one", "seed_only", "all_but_seed", "all_but_one", "p10", "p50", "p90"};
const int N_FLIP = 9;

void apply_flip_class(Build& b, int cls, Rng& g) {
    b.T = b.T0; b.flip_class = cls; b.n_flipped = 0; size_t F = b.T.size();
    std::vector<char> fl(F, 0); size_t one = (size_t)(g.u64() % F);
    switch (cls) {
        case 0: break;
        case 1: std::fill(fl.begin(), fl.end(), 1); break;
        case 2: fl[one] = 1; break;
        case 3: fl[0] = 1; break;                                           // slot 0 is the seed of the repository's flood fill
        case 4: std::fill(fl.begin(), fl.end(), 1); fl[0] = 0; break;
        case 5: std::fill(fl.begin(), fl.end(), 1); fl[one] = 0; break;
        case 6: for (auto& x : fl) x = g.coin(0.1); break;
        case 7: for (auto& x : fl) x = g.coin(0.5); break;
        default: for (auto& x : fl) x = g.coin(0.9); break;
    }
    for (size_t i = 0; i < F; i++) if (fl[i]) { std::swap(b.T[i][1], b.T[i][2]); b.n_flipped++; }
}

// renumber nodes and faces, shift the node list of every face cyclically (orientation preserved)
void renumber(Build& b, Rng& g) {
    gen::TriMesh m; m.P = b.P; m.T = b.T0; gen::permute(m, g); b.P = m.P; b.T0 = m.T;
}

std::string family_of(const std::string& name) {
    if (name.find("star") != std::string::npos) return "star";
    if (name.find("cup") != std::string::npos) return "cup";
    if (name.find("ell") != std::string::npos) return "ellipsoid";
    if (name.compare(0, 3, "ico") == 0) return "icosphere";
    if (name.compare(0, 3, "box") == 0) return "box";
    if (name.compare(0, 2, "uv") == 0) return "uvsphere";
    if (name.compare(0, 5, "prism") == 0) return "prism";
    return name;
}

gen::TriMesh tetrahedron() {
    gen::TriMesh m; m.name = "tetra"; m.P = {{1, 1, 1}, {1, -1, -1}, {-1, 1, -1}, {-1, -1, 1}};
    m.T = {{0, 1, 2}, {0, 3, 1}, {0, 2, 3}, {1, 3, 2}}; return m;
}

// ---- own geometry of an input -----------------------------------------------------------------------
struct Own {
    orc::Geo g; R r = 0, D = 0, perimeter = 0; long F = 0; bool closed = false; std::string why;
    // the repository sums the tetrahedron volumes with a node of the cell as apex (since fix e17e996; before, with the origin as apex, the bound
    // had to grow like (D+r)^3): coordinates relative to the apex are at most 2r, whatever the distance D from the origin; the subtraction of the apex
    // rounds at eps*(D+r), which moves the surface by that much: A eps (D+r)
    R tolV() const { return 256 * EPS * std::sqrt((R)F) * 8 * r * r * r + 64 * EPS * g.area * (D + r); }
    R tolA() const { return 1e-11L * g.area; }
    R tolC() const { return 1e-12L * (D + r); }
};
void to_orc(const Build& b, const std::vector<std::array<unsigned, 3>>& tl, std::vector<V3>& P, std::vector<orc::Tri>& T) {
    P.resize(b.P.size()); for (size_t i = 0; i < b.P.size(); i++) P[i] = V3(b.P[i][0], b.P[i][1], b.P[i][2]);
    T.resize(tl.size()); for (size_t i = 0; i < tl.size(); i++) T[i] = {tl[i][0], tl[i][1], tl[i][2]};
}
Own own_geometry(const Build& b) {
    Own o; std::vector<V3> P; std::vector<orc::Tri> T; to_orc(b, b.T0, P, T);
    orc::Topo t = orc::check_topology(T); o.closed = t.ok; o.why = t.why; o.F = (long)T.size();
    o.g = orc::geometry(P, T);
    if (o.g.volume < 0) o.g.volume = -o.g.volume;            // enclosed volume of the consistently oriented surface
    o.D = o.g.centroid.norm();
    for (auto& f : T) { for (unsigned v : {f.a, f.b, f.c}) o.r = std::max(o.r, (P[v] - o.g.centroid).norm());
        o.perimeter += (P[f.a] - P[f.b]).norm() + (P[f.b] - P[f.c]).norm() + (P[f.c] - P[f.a]).norm(); }
    return o;
}

// ---- what the repository reports for a build -----------------------------------------------------------
struct Obs {
    bool built = false; std::string err;
    double V = 0, A = 0, Vc = 0, Ac = 0; V3 C, Cg; double bb[6] = {0, 0, 0, 0, 0, 0}; V3 axis;
    bool topo_ok = false; std::string topo_why; R out_signed_volume = 0;
    bool nodes_kept = true, faces_kept = true; R normal_dev = 0, face_area_dev = 0; bool normal_finite = true;
    long live_faces = 0, live_nodes = 0;
};

const char* CLS[] = {"epithelial", "ecm", "lumen", "nucleus", "static", "base"};

cell_ptr construct(int cls, int ctor, const Build& b, cell_type_param_ptr ct) {
    gen::TriMesh tm; tm.P = b.P; tm.T = b.T; mesh m = gen::to_repo_mesh(tm);
    std::vector<unsigned> flat; if (ctor == 1) for (auto& t : b.T) { flat.push_back(t[0]); flat.push_back(t[1]); flat.push_back(t[2]); }
#define MK(C) (ctor == 1 ? std::static_pointer_cast<cell>(std::make_shared<C>(m.node_pos_lst, flat, 0u, ct)) : std::static_pointer_cast<cell>(std::make_shared<C>(m, 0u, ct)))
    switch (cls) {
        case 0: return MK(epithelial_cell);
        case 1: return MK(ecm_cell);
        case 2: return MK(lumen_cell);
        case 3: return MK(nucleus_cell);
        case 4: return MK(static_cell);
        default: return MK(cell);
    }
#undef MK
}

Obs observe(const Build& b, bool check_integrity, int cls, int ctor, cell_type_param_ptr ct, bool want_axis) {
    Obs o; cell_ptr c;
    try { c = construct(cls, ctor, b, ct); c->initialize_cell_properties(check_integrity); }
    catch (const std::exception& e) { o.err = e.what(); return o; }
    o.built = true;
    o.V = c->get_volume(); o.A = c->get_area(); o.Vc = c->compute_volume(); o.Ac = c->compute_area();
    vec3 cc = c->compute_centroid(); o.C = V3(cc.dx(), cc.dy(), cc.dz());
    c->update_centroid(); const vec3& cg = c->get_centroid(); o.Cg = V3(cg.dx(), cg.dy(), cg.dz());
    auto bb = c->get_aabb(); for (int k = 0; k < 6; k++) o.bb[k] = bb[k];
    if (want_axis) { vec3 ax = c->get_cell_longest_axis(); o.axis = V3(ax.dx(), ax.dy(), ax.dz()); }
    // state after initialisation, through the friend tester
    std::vector<V3> P; std::vector<orc::Tri> T; std::vector<char> used; std::vector<unsigned> live, slot;
    gen::extract(*c, P, T, &used, &live, &slot);
    o.live_faces = (long)T.size(); o.live_nodes = (long)live.size();
    orc::Topo t = orc::check_topology(T, &live, P.size(), &used); o.topo_ok = t.ok; o.topo_why = t.why;
    // initialisation must neither move a live node nor change the set of triangles
    if (P.size() != b.P.size()) o.nodes_kept = false;
    else for (unsigned v : live) if (!((double)P[v].x == b.P[v][0] && (double)P[v].y == b.P[v][1] && (double)P[v].z == b.P[v][2])) o.nodes_kept = false;
    { std::set<std::array<unsigned, 3>> in; for (auto q : b.T) { std::sort(q.begin(), q.end()); in.insert(q); }
      if (T.size() != b.T.size()) o.faces_kept = false;
      for (auto& f : T) { std::array<unsigned, 3> q = {f.a, f.b, f.c}; std::sort(q.begin(), q.end()); if (!in.count(q)) o.faces_kept = false; } }
    if (o.nodes_kept && o.faces_kept && t.ok) o.out_signed_volume = orc::geometry(P, T).volume;
    else if (o.nodes_kept && o.faces_kept) { bool inr = true; for (auto& f : T) if (f.a >= P.size() || f.b >= P.size() || f.c >= P.size()) inr = false; if (inr) o.out_signed_volume = orc::geometry(P, T).volume; }
    // cached normal / area of every live face against the winding the face ended with
    const auto& fl = cell_tester::faces(*c);
    for (size_t k = 0; k < T.size(); k++) {
        const orc::Tri& f = T[k]; if (f.a >= P.size() || f.b >= P.size() || f.c >= P.size()) continue;
        V3 n = (P[f.b] - P[f.a]).cross(P[f.c] - P[f.a]); R nn = n.norm(); if (!(nn > 0)) continue;
        const vec3& rn = cell_tester::face_normal(fl[slot[k]]); V3 r3(rn.dx(), rn.dy(), rn.dz());
        if (!std::isfinite((double)r3.n2())) { o.normal_finite = false; continue; }
        o.normal_dev = std::max(o.normal_dev, (r3 - n / nn).norm());
        o.face_area_dev = std::max(o.face_area_dev, std::fabs((R)cell_tester::face_area(fl[slot[k]]) - nn / 2) / (nn / 2));
    }
    return o;
}

uint64_t hv(const V3& v) { return hash_combine(hash_combine(hash_double((double)v.x), hash_double((double)v.y)), hash_double((double)v.z)); }
std::string decade(const char* pre, R x) { return std::string(pre) + std::to_string((int)std::floor(std::log10((double)x))); }

// Checks of one build against own values of *its own* input.  `ctx` (transform kind / base / exhaustive) or the flip class
// ends up in the violation key suffix.
void check_exact(Case& c, Agg& agg, const Build& b, const Own& w, const Obs& o, bool repaired, const std::string& ctx) {
    const std::string fk = FLIP[b.flip_class];
    if (!o.nodes_kept) c.viol("init_moved_nodes:" + ctx, "initialize_cell_properties changed the position of a live node or the number of node slots");
    if (!o.faces_kept) c.viol("init_changed_faces:" + ctx, "initialize_cell_properties changed the set of triangles");
    if (repaired) {
        // orientation: consistent (each directed edge once, its reverse once = orc::check_topology), outward (own signed volume of
        // the output triangles, centroid-relative, positive)
        if (!o.topo_ok) c.viol("orientation_inconsistent:" + fk, "after initialisation the triangles are not a consistently oriented closed surface: " + o.topo_why);
        else if (!(o.out_signed_volume > 0)) c.viol("orientation_inward:" + fk, "after initialisation the consistently oriented triangles enclose a negative signed volume (normals point inward)");
    }
    // cached normals agree with the final winding.  Forward error of a normalised cross product of two exactly representable
    // edge differences: <= 8u / sin(smallest angle) -> < 1e-12 for every generated triangle (angles > 1e-3); tolerance 1e-9.
    agg.maxi("face_normal_dev_over_tol", (double)(o.normal_dev / 1e-9L)); agg.maxi("face_area_relerr_over_tol", (double)(o.face_area_dev / 1e-9L));
    if (!o.normal_finite || !(o.normal_dev <= 1e-9L)) c.viol("normal_cache:" + fk, "cached face normal is not the unit normal of the face's winding");
    if (!(o.face_area_dev <= 1e-9L)) c.viol("face_area_cache:" + ctx, "cached face area is not the area of the triangle");
    // volume.  The repository sums origin-relative triple products: each of the F terms carries an absolute rounding error of
    // at most ~2 eps |p|^3 with |p| <= D + r, so the sum is within 2 eps F (D+r)^3 in the worst case and ~eps sqrt(F) (D+r)^3
    // typically; 64 eps sqrt(F) (D+r)^3 (DESIGN.md) exceeds the worst case for F <= 1024 and the typical error 50-fold.
    R eV = std::fabs((R)o.V - w.g.volume);
    agg.maxi("volume_err_over_tol", (double)(eV / w.tolV())); agg.maxi("volume_relerr", (double)(eV / w.g.volume));
    agg.maxi(decade("volume_err_over_tol:faces_decade:", (R)w.F), (double)(eV / w.tolV()));
    if (!(eV <= w.tolV())) c.viol("volume_exact:" + ctx, "reported volume differs from the enclosed volume");
    if (!(o.V == o.Vc)) c.viol("volume_getter_stale:" + ctx, "get_volume() differs from compute_volume() right after initialisation");
    // area: sum of F cached areas, each with relative error <= ~10u / sin(smallest angle); accumulation <= F u: < 1e-12; tolerance 1e-11.
    R eA = std::fabs((R)o.A - w.g.area);
    agg.maxi("area_err_over_tol", (double)(eA / w.tolA()));
    if (!(eA <= w.tolA())) c.viol("area_exact:" + ctx, "reported area differs from the sum of triangle areas");
    if (!(o.A == o.Ac)) c.viol("area_getter_stale:" + ctx, "get_area() differs from compute_area() right after initialisation");
    // centroid: origin-relative weighted sum, coordinates of magnitude D + r: error <= (F + 8) u (D + r) worst case (1.4e-13 (D+r)
    // for F = 1280); tolerance 1e-12 (D + r).
    R eC = (o.C - w.g.centroid).norm();
    agg.maxi("centroid_err_over_tol", (double)(eC / w.tolC())); agg.maxi("centroid_err_over_r", (double)(eC / w.r));
    if (!(eC <= w.tolC())) c.viol("centroid_exact:" + ctx, "centroid differs from the area-weighted mean of triangle centroids");
    if (!(o.C.x == o.Cg.x && o.C.y == o.Cg.y && o.C.z == o.Cg.z)) c.viol("centroid_getter_stale:" + ctx, "get_centroid() after update_centroid() differs from compute_centroid()");
    // bounding box: min / max involve no arithmetic -> exact
    bool bbok = true; for (int k = 0; k < 3; k++) if (!(o.bb[k] == (double)w.g.lo[k] && o.bb[3 + k] == (double)w.g.hi[k])) bbok = false;
    if (!bbok) c.viol(std::string("aabb_exact:") + (b.orphan ? "with_unreferenced_node" : "all_nodes_live"), "bounding box is not the tight box of the live nodes");
}

struct Xf { R s = 1; LRot rot; V3 p0, p1; bool moved = false; };   // x' = s R (x - p0) + p1
V3 xf_apply(const Xf& t, const V3& x) { return lapply(t.rot, x - t.p0) * t.s + t.p1; }

const char* KIND[] = {"perm", "translate", "rotate_centre", "rotate_origin", "rigid", "scale_pow2", "similarity", "inward_nocheck"};

V3 place(Rng& g, R radius, std::string& bin) {   // new position of the cell centre: D'/r' in {0} U [1e-2, 1e3]
    if (g.coin(0.15)) { bin = "Dr:0"; return V3(0, 0, 0); }
    // 900: the area centroid may sit a fraction of r away from the placed node mean and r is measured from it; D/r stays <= 1e3
    double q = g.logu(1e-2, 900); bin = decade("Dr_decade:", q); return unit_random(g) * (q * radius);
}

int cmd_geometry(const Args& a) {
    Agg agg; agg.max_samples = 4;
    auto ct = gen::default_cell_type();
    const int max_faces = (int)a.geti("max-faces", 1400);
    for (long i = a.first; i < a.first + a.cases; i++) {
        if (!a.mine(i)) continue;
        Rng g(a.seed, (uint64_t)i, 0x12);
        Case c(i);
        const bool exhaustive = (i % 40) == 0;
        // ---- base mesh ---------------------------------------------------------------------------
        gen::TriMesh m0; std::string fam;
        if (exhaustive) { int k = (int)((i / 40) % 4); m0 = k == 0 ? tetrahedron() : k == 1 ? gen::uvsphere(4, 2) : k == 2 ? gen::box(1, 1, g.uni(0.5, 2), g.uni(0.5, 2)) : gen::prism(3, 1, g.uni(0.4, 2));
            fam = k == 0 ? "tetrahedron" : k == 1 ? "octahedron" : k == 2 ? "box1" : "prism3"; }
        else { if (g.coin(0.04)) { m0 = g.coin() ? tetrahedron() : gen::uvsphere(4, 2); fam = m0.name == "tetra" ? "tetrahedron" : "octahedron"; } else { m0 = gen::random_shape(g, max_faces); fam = family_of(m0.name); } }
        gen::jitter(m0, g, g.coin(0.2) ? 0.0 : g.uni(0.0, 0.05));
        bool stretched = g.coin(0.4); if (stretched) { gen::scale(m0, 1, g.uni(0.3, 1), g.uni(0.3, 1)); }
        const double size = g.logu(1e-6, 1e1);
        Build B; B.T0 = m0.T; std::string base_dbin;
        {   // pose of the base: rotation, size, distance from the origin; coordinates rounded to double = the input
            R rad = 0; for (auto& p : m0.P) rad = std::max(rad, V3(p[0], p[1], p[2]).norm());
            LRot r0 = lrot_random(g); V3 ctr = place(g, rad * size, base_dbin);
            for (auto& p : m0.P) { V3 x = lapply(r0, V3(p[0], p[1], p[2])) * (R)size + ctr; B.P.push_back({(double)x.x, (double)x.y, (double)x.z}); }
        }
        renumber(B, g);
        Own wB0 = own_geometry(B);
        if (!wB0.closed || !(wB0.g.volume > 0) || !(wB0.r > 0)) { c.v = "inconclusive"; c.msg = "generator produced an invalid base mesh: " + wB0.why; emit(c.line()); agg.add(c); continue; }
        // an unreferenced node far outside the cell: the bounding box, the centroid and the axis must ignore it
        B.orphan = !exhaustive && g.coin(0.25);
        if (B.orphan) { V3 far = wB0.g.centroid + unit_random(g) * (wB0.r * (R)g.uni(3, 30));
            // at the end of the point list, or in its very first slot (node slot 0 of the cell is then not a node of the surface)
            if (g.coin(0.5)) B.P.push_back({(double)far.x, (double)far.y, (double)far.z});
            else { B.P.insert(B.P.begin(), {(double)far.x, (double)far.y, (double)far.z}); for (auto& t : B.T0) for (auto& v : t) v++; agg.bin("unreferenced_node_in_first_slot"); } }
        const Own wB = own_geometry(B);
        agg.bin("family:" + fam); agg.bin(decade("size_decade:", wB.r)); agg.bin("base_" + base_dbin);
        agg.bin(decade("faces_decade:", (R)wB.F)); if (stretched) agg.bin("stretched"); if (B.orphan) agg.bin("unreferenced_node");
        agg.maxi("max_D_over_r", (double)(wB.D / wB.r)); agg.maxi("max_faces", (double)wB.F);

        // ---- exhaustive enumeration of winding subsets ------------------------------------------------
        if (exhaustive) {
            const size_t F = B.T0.size(); const unsigned long nsub = 1ul << F; long bad = 0;
            int cls = g.range(0, 5), ctor = g.range(0, 1);
            for (unsigned long mask = 0; mask < nsub; mask++) {
                Build X = B; X.T = X.T0; X.n_flipped = 0; for (size_t f = 0; f < F; f++) if (mask >> f & 1) { std::swap(X.T[f][1], X.T[f][2]); X.n_flipped++; }
                X.flip_class = mask == 0 ? 0 : mask == nsub - 1 ? 1 : 7;
                Obs o = observe(X, true, cls, ctor, ct, false);
                if (!o.built) { c.viol("init_rejected_closed_mesh:exhaustive", "initialize_cell_properties threw on a closed genus-0 mesh: " + o.err); bad++; break; }
                Case probe(i); check_exact(probe, agg, X, wB, o, true, "exhaustive");
                if (probe.v == "viol") { bad++; if (c.v != "viol") { c.viol(probe.key, probe.msg + " [winding subset mask " + std::to_string(mask) + " of " + fam + "]"); c.obs.u("first_bad_mask", mask); } }
            }
            agg.bin("flip_exhaustive_subsets:" + fam, (long)nsub); agg.bin("flip_exhaustive_meshes:" + fam); agg.bin("flip_exhaustive_subsets_total", (long)nsub);
            agg.bin(std::string("cellclass:") + CLS[cls]); agg.bin(ctor ? "ctor:flat_arrays" : "ctor:mesh_struct");
            c.nontrivial = true; c.sig = hash_combine(hash_double((double)wB.g.volume), hash_double((double)wB.g.area));
            c.obs.s("kind", "exhaustive").s("family", fam).u("subsets", nsub).i("bad_subsets", bad).d("r", (double)wB.r).d("D_over_r", (double)(wB.D / wB.r));
            agg.add(c); continue;
        }

        // ---- base build --------------------------------------------------------------------------------
        apply_flip_class(B, g.range(0, N_FLIP - 1), g);
        const int clsB = g.range(0, 5), ctorB = g.range(0, 1);
        Obs oB = observe(B, true, clsB, ctorB, ct, true);
        agg.bin(std::string("flip:") + FLIP[B.flip_class]); agg.bin(std::string("cellclass:") + CLS[clsB]); agg.bin(ctorB ? "ctor:flat_arrays" : "ctor:mesh_struct");
        if (!oB.built) { c.viol("init_rejected_closed_mesh:base", "initialize_cell_properties threw on a closed genus-0 mesh: " + oB.err); c.obs.s("family", fam); agg.add(c); continue; }
        check_exact(c, agg, B, wB, oB, true, "base");
        agg.bin("builds_checked");

        // own principal axis: second moments of the live nodes about the area-weighted centroid (the repository's definition)
        Eig3 pc; R gap = 0;
        {
            R cov[3][3] = {{0, 0, 0}, {0, 0, 0}, {0, 0, 0}}; std::set<unsigned> usedn; for (auto& t : B.T0) for (unsigned v : t) usedn.insert(v);
            for (unsigned v : usedn) { R d[3] = {(R)B.P[v][0] - wB.g.centroid.x, (R)B.P[v][1] - wB.g.centroid.y, (R)B.P[v][2] - wB.g.centroid.z}; for (int p = 0; p < 3; p++) for (int q = 0; q < 3; q++) cov[p][q] += d[p] * d[q] / (R)usedn.size(); }
            R cov0[3][3]; for (int p = 0; p < 3; p++) for (int q = 0; q < 3; q++) cov0[p][q] = cov[p][q];
            pc = jacobi3(cov); gap = pc.lam[0] > 0 ? (pc.lam[0] - pc.lam[1]) / pc.lam[0] : 0;
            R res = 0; for (int e = 0; e < 3; e++) { V3 v = pc.vec[e]; V3 av(cov0[0][0] * v.x + cov0[0][1] * v.y + cov0[0][2] * v.z, cov0[1][0] * v.x + cov0[1][1] * v.y + cov0[1][2] * v.z, cov0[2][0] * v.x + cov0[2][1] * v.y + cov0[2][2] * v.z); res = std::max(res, (av - v * pc.lam[e]).norm() / pc.lam[0]); }
            agg.maxi("own_pca_residual", (double)res);   // self-check of the own Jacobi solver: |A v - lambda v| / lambda_max
            if (!(res <= 1e-15L)) { c.v = "inconclusive"; c.msg = "harness: own Jacobi eigen-solver did not converge"; }
        }
        const bool axis_unique = gap >= 0.05L;
        agg.bin(axis_unique ? "axis:unique(gap>=0.05)" : "axis:not_unique(skipped)");
        auto axis_dev = [](const V3& u, const V3& v) -> R { return u.cross(v).n2() / (1 + std::fabs(u.dot(v))); };  // sin^2/(1+|cos|) = 1 - |cos| for unit vectors, without cancellation
        {
            R nl = std::fabs(oB.axis.norm() - 1); agg.maxi("axis_unit_err", (double)nl);
            if (!(nl <= 1e-12L)) c.viol("axis_not_unit", "longest axis is not a unit vector");
            else if (axis_unique) { R dv = axis_dev(oB.axis, pc.vec[0]); agg.maxi("axis_vs_own_pca_dev_over_tol", (double)(dv / 1e-8L)); if (!(dv <= 1e-8L)) c.viol("axis_exact", "longest axis is not the principal eigenvector of the node covariance about the centroid"); }
        }

        // ---- transformed copies ----------------------------------------------------------------------
        long copies_ok = 0; uint64_t sig = hash_combine(hash_double(oB.V), hash_double(oB.A)); sig = hash_combine(sig, hv(oB.C));
        for (int k = 0; k < 8; k++) {
            const std::string kind = KIND[k];
            Build X; X.P = B.P; X.T0 = B.T0; X.orphan = B.orphan; Xf t; t.rot = lrot_identity(); std::string dbin = "Dr:unchanged"; int pw = 0;
            switch (k) {
                case 0: break;
                case 1: { V3 np = place(g, wB.r, dbin); t.p1 = np - wB.g.ref; t.moved = true; break; }
                case 2: t.rot = lrot_random(g); t.p0 = wB.g.ref; t.p1 = wB.g.ref; t.moved = true; break;
                case 3: t.rot = lrot_random(g); t.moved = true; break;
                case 4: t.rot = lrot_random(g); t.p0 = wB.g.ref; t.p1 = place(g, wB.r, dbin); t.moved = true; break;
                case 5: { int lo = (int)std::ceil(std::log2(1e-6 / (double)wB.r)), hi = (int)std::floor(std::log2(2e1 / (double)wB.r)); lo = std::max(lo, -12); hi = std::min(hi, 12); if (lo > hi) { lo = hi = 0; }
                          do { pw = g.range(lo, hi); } while (pw == 0 && lo != hi); t.s = std::ldexp((R)1, pw); break; }
                case 6: { double ns = g.logu(1e-6, 1e1); t.s = (R)ns / wB.r; t.rot = lrot_random(g); t.p0 = wB.g.ref; t.p1 = place(g, (R)ns, dbin); t.moved = true; break; }
                default: break;
            }
            if (k == 5) for (auto& p : X.P) { for (auto& x : p) x = std::ldexp(x, pw); }
            else if (t.moved) for (auto& p : X.P) { V3 x = xf_apply(t, V3(p[0], p[1], p[2])); p = {(double)x.x, (double)x.y, (double)x.z}; }
            if (k == 0 || k == 4 || k == 6) renumber(X, g);
            int cls = g.range(0, 5), ctor = g.range(0, 1); bool check = true;
            if (k == 5) { X.T = B.T; X.flip_class = B.flip_class; X.n_flipped = B.n_flipped; cls = clsB; ctor = ctorB; }   // identical numbering and windings
            else if (k == 7) { X.T = X.T0; for (auto& q : X.T) std::swap(q[1], q[2]); X.flip_class = 1; X.n_flipped = (long)X.T.size(); check = false; }
            else apply_flip_class(X, g.range(0, N_FLIP - 1), g);
            const Own wX = own_geometry(X);
            Obs oX = observe(X, check, cls, ctor, ct, true);
            agg.bin("transform:" + kind); agg.bin("copy_" + dbin); agg.bin(decade("copy_size_decade:", wX.r));
            if (k != 7) agg.bin(std::string("flip:") + FLIP[X.flip_class]); agg.bin(std::string("cellclass:") + CLS[cls]); agg.bin(ctor ? "ctor:flat_arrays" : "ctor:mesh_struct");
            agg.maxi("max_D_over_r", (double)(wX.D / wX.r));
            if (!oX.built) { c.viol("init_rejected_closed_mesh:" + kind, "initialize_cell_properties threw on a closed genus-0 mesh: " + oX.err); continue; }
            check_exact(c, agg, X, wX, oX, check, kind);
            agg.bin("builds_checked");
            // ---- invariance / scaling laws against the base ---------------------------------------------
            const R s = t.s, s2 = s * s, s3 = s2 * s;
            if (k == 5) {
                // exact identity: scaling every input by 2^k scales every intermediate of a homogeneous formula exactly
                bool bv = oX.V == std::ldexp(oB.V, 3 * pw), ba = oX.A == std::ldexp(oB.A, 2 * pw);
                bool bc = (double)oX.C.x == std::ldexp((double)oB.C.x, pw) && (double)oX.C.y == std::ldexp((double)oB.C.y, pw) && (double)oX.C.z == std::ldexp((double)oB.C.z, pw);
                bool bb = true; for (int q = 0; q < 6; q++) if (oX.bb[q] != std::ldexp(oB.bb[q], pw)) bb = false;
                if (!bv) c.viol("scale_pow2_not_exact:volume", "volume of the cell scaled by 2^k is not 8^k times the volume, bit for bit");
                if (!ba) c.viol("scale_pow2_not_exact:area", "area of the cell scaled by 2^k is not 4^k times the area, bit for bit");
                if (!bc) c.viol("scale_pow2_not_exact:centroid", "centroid of the cell scaled by 2^k is not 2^k times the centroid, bit for bit");
                if (!bb) c.viol("scale_pow2_not_exact:aabb", "bounding box of the cell scaled by 2^k is not 2^k times the bounding box");
                agg.bin(std::string("pow2_exponent_sign:") + (pw > 0 ? "up" : pw < 0 ? "down" : "zero")); if (bv && ba && bc && bb) agg.bin("pow2_bit_exact");
            }
            // The copy's coordinates are the exactly mapped coordinates rounded to double: each node is displaced by at most
            // delta = sqrt(3) u (D'+r').  First-order effect on the exact values: |dV| <= delta A, |dA| <= delta P/2 (P = sum of
            // triangle perimeters), |dC| <= delta (1 + r' P / 2A).  Everything else is the forward error of the two evaluations.
            const R delta = (k == 0 || k == 5 || k == 7) ? 0 : 1.01L * std::sqrt(3.0L) * (EPS / 2) * (wX.D + wX.r);
            const R tV = wX.tolV() + s3 * wB.tolV() + delta * wX.g.area;
            const R tA = wX.tolA() + s2 * wB.tolA() + delta * wX.perimeter / 2;
            const R tC = wX.tolC() + s * wB.tolC() + delta * (1 + wX.r * wX.perimeter / (2 * wX.g.area));
            {   // self-check of the bounds on the oracle values themselves (no repository code involved)
                R q1 = std::fabs(wX.g.volume - s3 * wB.g.volume) / (delta * wX.g.area + 1e-15L * wX.g.volume), q2 = std::fabs(wX.g.area - s2 * wB.g.area) / (delta * wX.perimeter / 2 + 1e-15L * wX.g.area);
                agg.maxi("oracle_transform_drift_over_bound", (double)std::max(q1, q2));
                if (q1 > 1 || q2 > 1) { c.v = c.v == "viol" ? c.v : "inconclusive"; c.msg = c.msg.empty() ? "harness: own values of a transformed copy drift more than the rounding bound" : c.msg; }
            }
            R eV = std::fabs((R)oX.V - s3 * (R)oB.V), eA = std::fabs((R)oX.A - s2 * (R)oB.A), eC = (oX.C - xf_apply(t, oB.C)).norm();
            agg.maxi("volume_invariance_err_over_tol", (double)(eV / tV)); agg.maxi("area_invariance_err_over_tol", (double)(eA / tA)); agg.maxi("centroid_equivariance_err_over_tol", (double)(eC / tC));
            agg.maxi("volume_invariance_relerr:" + kind, (double)(eV / (s3 * wB.g.volume)));
            if (!(eV <= tV)) c.viol((k == 5 || k == 6 ? "volume_scaling:" : "volume_invariance:") + kind, "volume is not invariant (x s^3) under the transformation of the cell");
            if (!(eA <= tA)) c.viol((k == 5 || k == 6 ? "area_scaling:" : "area_invariance:") + kind, "area is not invariant (x s^2) under the transformation of the cell");
            if (!(eC <= tC)) c.viol("centroid_equivariance:" + kind, "centroid does not follow the transformation of the cell");
            // longest axis follows the rotation (up to sign) whenever it is unique
            R nl = std::fabs(oX.axis.norm() - 1); agg.maxi("axis_unit_err", (double)nl);
            if (!(nl <= 1e-12L)) c.viol("axis_not_unit", "longest axis is not a unit vector");
            else if (axis_unique && oB.axis.norm() > 0.5L) {
                // perturbation theory: angle <= |dCov| / (lambda1 - lambda2) ~ 8 eps (1 + D/r) / gap < 1e-10 here; 1 - |cos| <= 1e-8 (DESIGN.md)
                R dv = axis_dev(oX.axis, lapply(t.rot, oB.axis)); agg.maxi("axis_rotation_dev_over_tol", (double)(dv / 1e-8L));
                if (!(dv <= 1e-8L)) c.viol("axis_rotation:" + kind, "longest axis does not follow the cell under the transformation");
                agg.bin("axis_followed:" + kind); if (k == 2 || k == 3 || k == 4 || k == 6) agg.bin("axis_followed_under_rotation");
            }
            copies_ok++; sig = hash_combine(sig, hash_combine(hash_double(oX.V), hash_double(oX.A)));
        }
        agg.bin("copies_checked", copies_ok);
        agg.bin(gap < 0.05L ? "eigen_gap:<0.05" : gap < 0.2L ? "eigen_gap:0.05-0.2" : gap < 0.5L ? "eigen_gap:0.2-0.5" : "eigen_gap:>0.5");
        c.nontrivial = copies_ok == 8; c.sig = sig;
        c.obs.s("family", fam).s("mesh", m0.name).i("faces", wB.F).d("r", (double)wB.r).d("D_over_r", (double)(wB.D / wB.r)).s("flip", FLIP[B.flip_class]).i("flipped", B.n_flipped)
            .s("cellclass", CLS[clsB]).b("unreferenced_node", B.orphan).d("V_repo", oB.V).d("V_own", (double)wB.g.volume).d("A_repo", oB.A).d("A_own", (double)wB.g.area)
            .raw("C_repo", jv3(oB.C.x, oB.C.y, oB.C.z)).raw("C_own", jv3(wB.g.centroid.x, wB.g.centroid.y, wB.g.centroid.z)).d("eigen_gap", (double)gap)
            .raw("axis_repo", jv3(oB.axis.x, oB.axis.y, oB.axis.z)).raw("axis_own", jv3(pc.vec[0].x, pc.vec[0].y, pc.vec[0].z));
        if (c.v == "inconclusive") emit(c.line());
        agg.add(c);
    }
    agg.flush(a.shard_i);
    return 0;
}
Reg r_geometry("geometry", cmd_geometry);

}  // namespace
